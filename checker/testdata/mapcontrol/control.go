// Package mapcontrol is the positive control of rule C12/O1: it contains an
// order-sensitive iteration over a map, which the determinism rule must flag on every run.
package mapcontrol

type set struct {
	items map[int]int
	order []int
}

// First returns "the first" key of the map: depends on Go's randomized map order.
func (s *set) First() int {
	for k := range s.items {
		return k
	}
	return -1
}

// Collect appends the keys in iteration order to a slice that outlives the loop.
func (s *set) Collect() {
	for k := range s.items {
		s.order = append(s.order, k)
	}
}

// Clear deletes every key: order-insensitive (negative control).
func (s *set) Clear() {
	for k := range s.items {
		delete(s.items, k)
	}
}
