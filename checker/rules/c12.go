package rules

import (
	"fmt"
	"go/ast"
	"go/importer"
	"go/parser"
	"go/token"
	"go/types"
	"os"
	"path/filepath"
	"sort"
	"strings"

	"arkverif/checker/core"
)

func init() {
	register(&Property{
		ID:    "C12",
		Level: "proof",
		Explanation: "Claim proved (modulo the trusted base): non-test code of packages ecs and ecs/stats contains no construct through which a run-dependent value can influence control flow, stored state or output, except the documented time limit of Shrink. " +
			"Obligations, all enumerated from the source on every run: (O1) every iteration over a map (range, reflect MapRange/MapKeys, maps.Keys/Values, sync.Map.Range) is order-insensitive by a conservative effect rule; " +
			"(O2) the import set and every referenced symbol of time, sync, reflect, unsafe, math/rand, os, runtime is classified, time.Now/Since occurring only in the Shrink time box; (O3) no go statement, select or channel operation; " +
			"(O4) no unsafe.Pointer→uintptr conversion and no %p formatting; (O5) the positive control (an order-sensitive map range in checker/testdata) is flagged; (O6) no constructed value takes a field from a package-level variable that holds mutable memory, so that what another world of the same process does is not an input of this one.",
		TrustedBase: []string{
			"Go's slice/append/copy semantics are deterministic",
			"reflect and encoding/json on non-map data are deterministic",
			"memory reached through unsafe is within live, initialised rows",
			"the list of nondeterminism sources (map order, time, randomness, scheduling, addresses, environment) is complete for a single-goroutine library",
			"go/types type checking of /repo",
		},
		Assumptions: []string{"same binary in both processes (reflect.Type.Name-derived statistics)"},
		Rules: []Rule{
			{ID: "C12/O1", Run: c12o1, Min: 1},
			{ID: "C12/O2", Run: c12o2, Min: 1},
			{ID: "C12/O3", Run: c12o3, Min: 1},
			{ID: "C12/O4", Run: c12o4, Min: 1},
			{ID: "C12/O5", Run: c12o5, Min: 1, CrossConfig: true},
			{ID: "C12/O6", Run: c12o6, Min: 0},
		},
	})
}

// mapRangeVerdict decides whether a range over a map is order-insensitive. It works on plain go/types info so
// that it can also be applied to the positive control.
func mapRangeVerdict(info *types.Info, rs *ast.RangeStmt, calleePure func(call *ast.CallExpr, valueVar types.Object) bool) (bool, string) {
	var keyObj, valObj types.Object
	if id, ok := rs.Key.(*ast.Ident); ok {
		keyObj = info.ObjectOf(id)
	}
	if id, ok := rs.Value.(*ast.Ident); ok {
		valObj = info.ObjectOf(id)
	}
	why := ""
	declared := map[types.Object]bool{}
	ast.Inspect(rs.Body, func(n ast.Node) bool {
		if why != "" {
			return false
		}
		switch x := n.(type) {
		case *ast.BranchStmt:
			if x.Tok != token.CONTINUE {
				why = x.Tok.String() + " leaves the loop after an order-dependent number of iterations"
			}
		case *ast.ReturnStmt:
			why = "return inside the loop: the result depends on which entry comes first"
		case *ast.GoStmt, *ast.DeferStmt, *ast.SendStmt:
			why = "unsupported statement in a map range"
		case *ast.AssignStmt:
			for _, l := range x.Lhs {
				if id, ok := ast.Unparen(l).(*ast.Ident); ok {
					if x.Tok == token.DEFINE {
						declared[info.ObjectOf(id)] = true
						continue
					}
					if !declared[info.ObjectOf(id)] && id.Name != "_" {
						why = "assignment to " + id.Name + ", which outlives the iteration"
					}
					continue
				}
				// stores through the ranged value (v.f = ...) touch only that entry; anything else escapes
				root := l
				for {
					switch y := ast.Unparen(root).(type) {
					case *ast.SelectorExpr:
						root = y.X
						continue
					case *ast.IndexExpr:
						root = y.X
						continue
					case *ast.StarExpr:
						root = y.X
						continue
					}
					break
				}
				if id, ok := ast.Unparen(root).(*ast.Ident); !ok || (info.ObjectOf(id) != valObj && !declared[info.ObjectOf(id)]) {
					why = "store to " + types.ExprString(l) + " in iteration order"
				}
			}
		case *ast.IncDecStmt:
			if id, ok := ast.Unparen(x.X).(*ast.Ident); ok && !declared[info.ObjectOf(id)] {
				// counting is order-insensitive
				_ = id
			}
		case *ast.CallExpr:
			if id, ok := ast.Unparen(x.Fun).(*ast.Ident); ok {
				if b, ok := info.ObjectOf(id).(*types.Builtin); ok {
					switch b.Name() {
					case "delete", "len", "cap", "min", "max":
						return true
					case "append", "copy", "print", "println":
						why = b.Name() + " in iteration order"
						return false
					}
				}
			}
			if tv, ok := info.Types[ast.Unparen(x.Fun)]; ok && tv.IsType() {
				return true
			}
			if !calleePure(x, valObj) {
				why = "call of " + types.ExprString(x.Fun) + " whose effects are not confined to the ranged entry"
			} else {
				// arguments must be loop-invariant
				for _, a := range x.Args {
					ast.Inspect(a, func(y ast.Node) bool {
						if id, ok := y.(*ast.Ident); ok {
							if o := info.ObjectOf(id); o != nil && (o == keyObj || o == valObj || declared[o]) {
								why = "call argument depends on the loop variable"
							}
						}
						return true
					})
				}
			}
		}
		return true
	})
	return why == "", why
}

func c12o1(c *core.Ctx) {
	m := c.M
	pkgs := []*core.Model{m}
	_ = pkgs
	check := func(info *types.Info, files []*ast.File, at func(token.Pos) string, pure func(*ast.CallExpr, types.Object) bool, label string) int {
		n := 0
		for _, file := range files {
			ast.Inspect(file, func(x ast.Node) bool {
				switch y := x.(type) {
				case *ast.RangeStmt:
					tv, ok := info.Types[y.X]
					if !ok {
						return true
					}
					if _, isMap := tv.Type.Underlying().(*types.Map); !isMap {
						return true
					}
					n++
					subject := fmt.Sprintf("%srange %s", label, types.ExprString(y.X))
					if ok, why := mapRangeVerdict(info, y, pure); ok {
						c.OK("C12/O1", subject, at(y.Pos()), "order-insensitive: the body only deletes by key or calls methods confined to the ranged entry with loop-invariant arguments")
					} else {
						c.Violation("C12/O1", subject, at(y.Pos()), fmt.Sprintf("iteration over map %s is order-sensitive: %s; entity handles, query order or statistics would differ between runs", types.ExprString(y.X), why))
					}
				case *ast.SelectorExpr:
					name := y.Sel.Name
					if name == "MapRange" || name == "MapKeys" {
						if tv, ok := info.Types[y.X]; ok && strings.HasSuffix(tv.Type.String(), "reflect.Value") {
							n++
							c.Violation("C12/O1", label+"reflect."+name, at(y.Pos()), "reflect map iteration has randomized order")
						}
					}
					if id, ok := y.X.(*ast.Ident); ok {
						if pn, ok := info.ObjectOf(id).(*types.PkgName); ok && pn.Imported().Path() == "maps" {
							n++
							c.Violation("C12/O1", label+"maps."+name, at(y.Pos()), "maps.* iteration helpers have randomized order")
						}
					}
				}
				return true
			})
		}
		return n
	}
	purity := func(mm *core.Model, eff *core.Effects) func(*ast.CallExpr, types.Object) bool {
		return func(call *ast.CallExpr, valObj types.Object) bool {
			k, cal, _ := mm.Callee(call)
			if k != core.CallStatic {
				return false
			}
			sel, ok := ast.Unparen(call.Fun).(*ast.SelectorExpr)
			if !ok {
				return false
			}
			id, ok := ast.Unparen(sel.X).(*ast.Ident)
			if !ok || mm.Info.ObjectOf(id) != valObj {
				return false
			}
			for _, s := range eff.Stores(cal) {
				if s.Path.Kind != core.RootParam || s.Path.Index != -1 {
					return false
				}
			}
			return true
		}
	}
	n := check(m.Info, m.Prog.Ecs.Syntax, c.At, purity(m, c.Eff), "")
	if m.Prog.Stats != nil {
		n += check(m.Prog.Stats.TypesInfo, m.Prog.Stats.Syntax, c.At, func(*ast.CallExpr, types.Object) bool { return false }, "stats: ")
	}
	// all other uses of map-typed fields are keyed lookups: enumerate map-typed struct fields for the evidence
	var mapFields []string
	sc := m.Prog.Ecs.Types.Scope()
	for _, name := range sc.Names() {
		if tn, ok := sc.Lookup(name).(*types.TypeName); ok {
			if st, ok := tn.Type().Underlying().(*types.Struct); ok {
				for i := 0; i < st.NumFields(); i++ {
					if _, isMap := st.Field(i).Type().Underlying().(*types.Map); isMap {
						mapFields = append(mapFields, name+"."+st.Field(i).Name())
					}
				}
			}
		}
	}
	sort.Strings(mapFields)
	if n == 0 {
		c.OK("C12/O1", "map iteration", "", "no iteration over a map anywhere in the packages (the positive control O5 shows the rule is alive)")
	}
	c.Info("C12/O1", "map-typed fields", "", strings.Join(mapFields, ", ")+fmt.Sprintf(" (%d map ranges found)", n))
}

func c12o2(c *core.Ctx) {
	m := c.M
	allowed := map[string]string{
		"fmt": "formatting of panic messages and errors", "math": "constants", "math/bits": "pure bit arithmetic", "reflect": "type metadata and GC-safe copies (classified per symbol)",
		"sync": "mutexes only", "time": "Shrink time box only", "unsafe": "pointer arithmetic via unsafe.Add", "encoding/binary": "pure codec", "encoding/json": "codec on arrays (no maps)",
		core.EcsPath + "/stats": "statistics data types",
		"strings":               "pure string functions", "strconv": "pure conversions", "sort": "deterministic sorting", "slices": "deterministic slice functions",
		"errors": "error values", "bytes": "pure byte functions", "unicode": "pure", "unicode/utf8": "pure", "cmp": "pure",
	}
	for _, pkg := range []*struct {
		name  string
		files []*ast.File
		info  *types.Info
	}{{"ecs", m.Prog.Ecs.Syntax, m.Info}, {"ecs/stats", m.Prog.Stats.Syntax, m.Prog.Stats.TypesInfo}} {
		imports := map[string]bool{}
		for _, f := range pkg.files {
			for _, im := range f.Imports {
				imports[strings.Trim(im.Path.Value, "\"")] = true
			}
		}
		var list []string
		for p := range imports {
			list = append(list, p)
		}
		sort.Strings(list)
		for _, p := range list {
			subject := pkg.name + " imports " + p
			if why, ok := allowed[p]; ok {
				c.OK("C12/O2", subject, "", "classified: "+why)
			} else {
				c.Violation("C12/O2", subject, "", fmt.Sprintf("package %s imports %s, which is not classified as deterministic (sources of run-dependent values: time, randomness, environment, runtime)", pkg.name, p))
			}
		}
		// symbols of time / sync / runtime-dependent reflect functions
		for _, f := range pkg.files {
			ast.Inspect(f, func(n ast.Node) bool {
				sel, ok := n.(*ast.SelectorExpr)
				if !ok {
					return true
				}
				id, ok := sel.X.(*ast.Ident)
				if !ok {
					return true
				}
				pn, ok := pkg.info.ObjectOf(id).(*types.PkgName)
				if !ok {
					return true
				}
				path := pn.Imported().Path()
				sym := path + "." + sel.Sel.Name
				switch path {
				case "time":
					fn := m.EnclosingFunc(sel.Pos())
					switch sel.Sel.Name {
					case "Duration", "Hour", "Minute", "Second", "Millisecond", "Microsecond", "Nanosecond":
						c.OK("C12/O2", sym+" at "+c.At(sel.Pos()), c.At(sel.Pos()), "type/constant")
					case "Now", "Since":
						if fn != nil && hasDurationParam(fn) {
							c.OK("C12/O2", sym+" in "+fn.Name, c.At(sel.Pos()), "documented time box of Shrink: a time-limited call may stop earlier or later")
						} else {
							name := "?"
							if fn != nil {
								name = fn.Name
							}
							c.Violation("C12/O2", sym+" in "+name, c.At(sel.Pos()), fmt.Sprintf("%s reads the clock outside the Shrink time box; behaviour would depend on wall-clock time", name))
						}
					default:
						c.Violation("C12/O2", sym, c.At(sel.Pos()), "unclassified symbol of package time")
					}
				case "sync":
					switch sel.Sel.Name {
					case "Mutex", "RWMutex":
						c.OK("C12/O2", sym+" at "+c.At(sel.Pos()), c.At(sel.Pos()), "mutual exclusion only")
					default:
						c.Violation("C12/O2", sym, c.At(sel.Pos()), "unclassified symbol of package sync (pools and maps have run-dependent behaviour)")
					}
				case "math/rand", "math/rand/v2", "crypto/rand", "os", "runtime", "runtime/debug", "maps":
					c.Violation("C12/O2", sym, c.At(sel.Pos()), "symbol of a package that yields run-dependent values")
				}
				return true
			})
		}
	}
}

func c12o3(c *core.Ctx) {
	m := c.M
	bad := 0
	for _, file := range append(append([]*ast.File{}, m.Prog.Ecs.Syntax...), m.Prog.Stats.Syntax...) {
		ast.Inspect(file, func(n ast.Node) bool {
			what := ""
			switch x := n.(type) {
			case *ast.GoStmt:
				what = "go statement"
			case *ast.SelectStmt:
				what = "select statement"
			case *ast.SendStmt:
				what = "channel send"
			case *ast.ChanType:
				what = "channel type"
			case *ast.UnaryExpr:
				if x.Op == token.ARROW {
					what = "channel receive"
				}
			}
			if what != "" {
				bad++
				c.Violation("C12/O3", what+" at "+c.At(n.Pos()), c.At(n.Pos()), what+": scheduling order could influence behaviour")
			}
			return true
		})
	}
	if bad == 0 {
		c.OK("C12/O3", "concurrency constructs", "", fmt.Sprintf("no go statement, select or channel operation in %d files", len(m.Prog.Ecs.Syntax)+len(m.Prog.Stats.Syntax)))
	}
}

func c12o4(c *core.Ctx) {
	m := c.M
	bad := 0
	for _, file := range m.Prog.Ecs.Syntax {
		ast.Inspect(file, func(n ast.Node) bool {
			switch x := n.(type) {
			case *ast.CallExpr:
				if tv, ok := m.Info.Types[ast.Unparen(x.Fun)]; ok && tv.IsType() && len(x.Args) == 1 {
					if b, ok := tv.Type.Underlying().(*types.Basic); ok && b.Kind() == types.Uintptr {
						if atv, ok := m.Info.Types[x.Args[0]]; ok {
							if ab, ok := atv.Type.Underlying().(*types.Basic); ok && ab.Kind() == types.UnsafePointer {
								bad++
								c.Violation("C12/O4", "uintptr(unsafe.Pointer) at "+c.At(x.Pos()), c.At(x.Pos()), "an address is turned into an integer; addresses differ between runs")
							}
						}
					}
				}
			case *ast.BasicLit:
				if x.Kind == token.STRING && strings.Contains(x.Value, "%p") {
					bad++
					c.Violation("C12/O4", "%p at "+c.At(x.Pos()), c.At(x.Pos()), "formats an address")
				}
			}
			return true
		})
	}
	if bad == 0 {
		c.OK("C12/O4", "addresses", "", "no unsafe.Pointer→uintptr conversion and no %p verb; pointer arithmetic only through unsafe.Add")
	}
}

// c12o5: positive control.
func c12o5(c *core.Ctx) {
	dir := os.Getenv("ARKCHECK_TESTDATA")
	if dir == "" && VerifDir != "" {
		dir = filepath.Join(VerifDir, "checker", "testdata")
	}
	if dir == "" {
		exe, _ := os.Executable()
		dir = filepath.Join(filepath.Dir(filepath.Dir(exe)), "checker", "testdata")
	}
	path := filepath.Join(dir, "mapcontrol", "control.go")
	fset := token.NewFileSet()
	file, err := parser.ParseFile(fset, path, nil, 0)
	if err != nil {
		c.Undecide("C12/O5", "positive control", "cannot parse "+path+": "+err.Error())
		return
	}
	info := &types.Info{Types: map[ast.Expr]types.TypeAndValue{}, Defs: map[*ast.Ident]types.Object{}, Uses: map[*ast.Ident]types.Object{}, Selections: map[*ast.SelectorExpr]*types.Selection{}}
	conf := types.Config{Importer: importer.Default()}
	if _, err := conf.Check("mapcontrol", fset, []*ast.File{file}, info); err != nil {
		c.Undecide("C12/O5", "positive control", "cannot type-check the control: "+err.Error())
		return
	}
	flagged, clean := 0, 0
	ast.Inspect(file, func(n ast.Node) bool {
		rs, ok := n.(*ast.RangeStmt)
		if !ok {
			return true
		}
		if tv, ok := info.Types[rs.X]; ok {
			if _, isMap := tv.Type.Underlying().(*types.Map); isMap {
				if ok, _ := mapRangeVerdict(info, rs, func(*ast.CallExpr, types.Object) bool { return false }); ok {
					clean++
				} else {
					flagged++
				}
			}
		}
		return true
	})
	if flagged == 2 && clean == 1 {
		c.OK("C12/O5", "positive control", "checker/testdata/mapcontrol/control.go", "the two order-sensitive map ranges of the control are flagged, the order-insensitive one is not")
	} else {
		c.Undecide("C12/O5", "positive control", fmt.Sprintf("control expected 2 flagged / 1 clean map ranges, got %d / %d: the map-range rule is broken", flagged, clean))
	}
}

// hasDurationParam: the function receives its time budget as a time.Duration parameter (the documented Shrink time box).
func hasDurationParam(f *core.Func) bool {
	if f.Sig == nil {
		return false
	}
	for i := 0; i < f.Sig.Params().Len(); i++ {
		if f.Sig.Params().At(i).Type().String() == "time.Duration" {
			return true
		}
	}
	return false
}
