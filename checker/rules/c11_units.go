package rules

import (
	"fmt"
	"go/ast"
	"go/token"
	"go/types"
	"strings"

	"arkverif/checker/core"
)

// C11/R5: byte quantities are item-size-scaled.
//
// The raw memory layer mixes two kinds of integers: numbers of rows (table lengths, counts, row indices) and numbers
// of bytes (item sizes, and rows multiplied by an item size). Positions that take bytes are found structurally: the
// bounds of a byte-array view of a raw pointer (`(*[N]byte)(p)[:n:n]`, `unsafe.Slice((*byte)(p), n)`), the offset of `unsafe.Add`, and - transitively -
// every argument that reaches such a position through a parameter (which is how the raw-copy role's size argument is
// found without naming it). For each such position the dimension of the expression is computed by simple dimensional
// analysis: item-size fields and constants, `unsafe.Sizeof`, `reflect.Type.Size()` and the length of a byte slice are
// bytes; table lengths and capacities and everything derived from them by sums and differences are rows; rows x bytes
// are bytes, bytes / bytes are rows; locals, parameters (over all call sites) and loop variables are followed. A
// position whose expression is definitely a number of rows is reported: the copy or the view would cover rows-many
// bytes instead of rows x item-size. Expressions of unknown dimension are not reported.
type dim int

const (
	dimU dim = iota // unknown
	dimZ            // plain number
	dimR            // rows
	dimB            // bytes
)

func (d dim) String() string { return [...]string{"unknown", "number", "rows", "bytes"}[d] }

type unitsCtx struct {
	c    *core.Ctx
	m    *core.Model
	busy map[string]bool
}

func (u *unitsCtx) join(a, b dim) dim {
	switch {
	case a == b:
		return a
	case a == dimZ:
		return b
	case b == dimZ:
		return a
	}
	return dimU
}

func (u *unitsCtx) dimOf(f *core.Func, e ast.Expr, depth int) dim {
	m := u.m
	if e == nil || depth > 6 {
		return dimU
	}
	e = ast.Unparen(e)
	if tv, ok := m.Info.Types[e]; ok && tv.Value != nil {
		// constants: those defined through unsafe.Sizeof are byte counts
		if id, isID := e.(*ast.Ident); isID {
			if cn, isC := m.Info.ObjectOf(id).(*types.Const); isC && u.constIsBytes(cn) {
				return dimB
			}
		}
		return dimZ
	}
	switch x := e.(type) {
	case *ast.BasicLit:
		return dimZ
	case *ast.SelectorExpr:
		switch k := fieldKeyOf(m, x); {
		case k == "column.itemSize":
			return dimB
		case k == "table.len" || k == "table.cap":
			return dimR
		}
		return dimU
	case *ast.IndexExpr:
		if fieldKeyOf(m, x.X) == "archetypeData.itemSizes" {
			return dimB
		}
		return dimU
	case *ast.CallExpr:
		if tv, ok := m.Info.Types[ast.Unparen(x.Fun)]; ok && tv.IsType() && len(x.Args) == 1 {
			return u.dimOf(f, x.Args[0], depth)
		}
		if m.IsBuiltin(x, "len") || m.IsBuiltin(x, "cap") {
			if len(x.Args) == 1 {
				if sl, ok := m.Info.TypeOf(x.Args[0]).Underlying().(*types.Slice); ok {
					if b, ok := sl.Elem().Underlying().(*types.Basic); ok && b.Kind() == types.Uint8 {
						return dimB
					}
				}
			}
			return dimR
		}
		if m.IsBuiltin(x, "min") || m.IsBuiltin(x, "max") {
			d := dimZ
			for _, a := range x.Args {
				d = u.join(d, u.dimOf(f, a, depth+1))
			}
			return d
		}
		if sel, ok := ast.Unparen(x.Fun).(*ast.SelectorExpr); ok {
			if o, ok := m.Info.ObjectOf(sel.Sel).(*types.Builtin); ok && o.Name() == "Sizeof" {
				return dimB
			}
			if fn, ok := m.Info.ObjectOf(sel.Sel).(*types.Func); ok && fn.Pkg() != nil && fn.Pkg().Path() == "reflect" && fn.Name() == "Size" {
				return dimB
			}
		}
		if k, cal, _ := m.Callee(x); k == core.CallStatic && cal != nil && cal.Recv == "table" && len(x.Args) == 0 && cal.Sig.Results().Len() == 1 && isInt(cal.Sig.Results().At(0).Type()) {
			// row-count accessors of the table
			for _, s := range []string{"table.len", "table.cap"} {
				found := false
				core.InspectNoLits(cal.Body, func(n ast.Node) bool {
					if sel, ok := n.(*ast.SelectorExpr); ok && fieldKeyOf(m, sel) == s {
						found = true
					}
					return !found
				})
				if found {
					return dimR
				}
			}
		}
		return dimU
	case *ast.BinaryExpr:
		a, b := u.dimOf(f, x.X, depth+1), u.dimOf(f, x.Y, depth+1)
		switch x.Op {
		case token.MUL:
			switch {
			case a == dimB && b == dimB:
				return dimU
			case a == dimB || b == dimB:
				return dimB
			case a == dimU || b == dimU:
				return dimU
			case a == dimR || b == dimR:
				return dimR
			}
			return dimZ
		case token.QUO:
			switch {
			case a == dimB && b == dimB:
				return dimR
			case b == dimZ:
				return a
			case a == dimB && b == dimR:
				return dimB
			}
			return dimU
		case token.ADD, token.SUB:
			// the operands of a sum have one dimension: an unknown operand takes that of the other
			if a == dimU {
				return b
			}
			if b == dimU {
				return a
			}
			return u.join(a, b)
		case token.REM:
			return a
		case token.SHL, token.SHR:
			return a
		}
		return dimU
	case *ast.Ident:
		v, ok := m.Info.ObjectOf(x).(*types.Var)
		if !ok || v.IsField() {
			return dimU
		}
		key := fmt.Sprintf("%p", v)
		if u.busy[key] {
			return dimZ // being computed further up (i += step): neutral
		}
		u.busy[key] = true
		defer delete(u.busy, key)
		fn := m.EnclosingFunc(v.Pos())
		if fn == nil {
			fn = f
		}
		// parameter: all call sites
		for g := fn; g != nil; g = g.Parent {
			if _, isP := paramIndexOf(g, v); isP {
				acts := actualsOf(m, g, v)
				if len(acts) == 0 {
					return dimU
				}
				d := dimZ
				for _, a := range acts {
					d = u.join(d, u.dimOf(a.caller, a.expr, depth+1))
					if d == dimU {
						return dimU
					}
				}
				return d
			}
		}
		// loop variable: dimension of what it counts
		var loopDim dim = -1
		core.InspectNoLits(fn.Body, func(n ast.Node) bool {
			switch l := n.(type) {
			case *ast.RangeStmt:
				if id := identOf(l.Key); id != nil && m.Info.ObjectOf(id) == types.Object(v) {
					if isInt(m.Info.TypeOf(l.X)) {
						loopDim = u.dimOf(fn, l.X, depth+1)
					} else {
						loopDim = dimR
					}
				}
			}
			return true
		})
		if loopDim >= 0 {
			return loopDim
		}
		// local: all definitions (op-assignments contribute their operand)
		d, n := dimZ, 0
		core.InspectNoLits(fn.Body, func(nd ast.Node) bool {
			switch y := nd.(type) {
			case *ast.AssignStmt:
				for i, l := range y.Lhs {
					id := identOf(l)
					if id == nil || m.Info.ObjectOf(id) != types.Object(v) {
						continue
					}
					n++
					if len(y.Rhs) == len(y.Lhs) {
						d = u.join(d, u.dimOf(fn, y.Rhs[i], depth+1))
					} else {
						d = dimU
					}
				}
			case *ast.ValueSpec:
				for i, id := range y.Names {
					if m.Info.ObjectOf(id) == types.Object(v) && i < len(y.Values) {
						n++
						d = u.join(d, u.dimOf(fn, y.Values[i], depth+1))
					}
				}
			}
			return true
		})
		if n == 0 {
			return dimU
		}
		return d
	}
	return dimU
}

func (u *unitsCtx) constIsBytes(cn *types.Const) bool {
	m := u.m
	found := false
	for _, file := range m.Prog.Ecs.Syntax {
		for _, d := range file.Decls {
			gd, ok := d.(*ast.GenDecl)
			if !ok || gd.Tok != token.CONST {
				continue
			}
			for _, sp := range gd.Specs {
				vs := sp.(*ast.ValueSpec)
				for i, id := range vs.Names {
					if m.Info.ObjectOf(id) == types.Object(cn) && i < len(vs.Values) {
						ast.Inspect(vs.Values[i], func(n ast.Node) bool {
							if sel, ok := n.(*ast.SelectorExpr); ok && sel.Sel.Name == "Sizeof" {
								found = true
							}
							if id2, ok := n.(*ast.Ident); ok {
								if c2, ok := m.Info.ObjectOf(id2).(*types.Const); ok && c2 != cn && u.constIsBytes(c2) {
									found = true
								}
							}
							return true
						})
					}
				}
			}
		}
	}
	return found
}

func c11r5(c *core.Ctx) {
	m := c.M
	u := &unitsCtx{c: c, m: m, busy: map[string]bool{}}
	type pos struct {
		f    *core.Func
		e    ast.Expr
		what string
	}
	var positions []pos
	seen := map[ast.Expr]bool{}
	var add func(f *core.Func, e ast.Expr, what string, depth int)
	add = func(f *core.Func, e ast.Expr, what string, depth int) {
		if e == nil || seen[e] || depth > 3 {
			return
		}
		seen[e] = true
		positions = append(positions, pos{f, e, what})
		// a parameter in a byte position makes the corresponding arguments byte positions
		if id := identOf(m.StripConv(e)); id != nil {
			if v, ok := m.Info.ObjectOf(id).(*types.Var); ok {
				for g := f; g != nil; g = g.Parent {
					if _, isP := paramIndexOf(g, v); isP {
						for _, a := range actualsOf(m, g, v) {
							add(a.caller, a.expr, "argument `"+v.Name()+"` of "+g.Name+", which uses it as "+what, depth+1)
						}
					}
				}
			}
		}
	}
	isByteView := func(e ast.Expr) bool {
		// (*[N]byte)(p)
		call, ok := ast.Unparen(e).(*ast.CallExpr)
		if !ok || len(call.Args) != 1 {
			return false
		}
		tv, ok := m.Info.Types[ast.Unparen(call.Fun)]
		if !ok || !tv.IsType() {
			return false
		}
		p, ok := tv.Type.Underlying().(*types.Pointer)
		if !ok {
			return false
		}
		arr, ok := p.Elem().Underlying().(*types.Array)
		if !ok {
			return false
		}
		b, ok := arr.Elem().Underlying().(*types.Basic)
		return ok && b.Kind() == types.Uint8
	}
	for _, f := range m.AllFuncs() {
		core.InspectNoLits(f.Body, func(n ast.Node) bool {
			switch x := n.(type) {
			case *ast.SliceExpr:
				if isByteView(x.X) {
					for _, b := range []ast.Expr{x.Low, x.High, x.Max} {
						add(f, b, "a bound of a byte view of raw memory", 0)
					}
				}
			case *ast.CallExpr:
				if sel, ok := ast.Unparen(x.Fun).(*ast.SelectorExpr); ok && len(x.Args) == 2 {
					if o, ok := m.Info.ObjectOf(sel.Sel).(*types.Builtin); ok && o.Name() == "Add" {
						add(f, x.Args[1], "the byte offset of unsafe.Add", 0)
					}
					// unsafe.Slice((*byte)(p), n): a byte view of n bytes
					if o, ok := m.Info.ObjectOf(sel.Sel).(*types.Builtin); ok && o.Name() == "Slice" {
						if pt, ok := m.Info.TypeOf(x.Args[0]).Underlying().(*types.Pointer); ok {
							if b, ok := pt.Elem().Underlying().(*types.Basic); ok && b.Kind() == types.Uint8 {
								add(f, x.Args[1], "the length of a byte view of raw memory (unsafe.Slice)", 0)
							}
						}
					}
				}
			}
			return true
		})
	}
	if len(positions) == 0 {
		c.Undecide("C11/R5", "byte positions", "no byte view of raw memory and no unsafe.Add found")
		return
	}
	for _, p := range positions {
		d := u.dimOf(p.f, p.e, 0)
		subject := fmt.Sprintf("%s: %s", p.f.Name, m.RawString(p.e))
		what := p.what
		if len(what) > 160 {
			what = what[:160] + "…"
		}
		if d == dimR {
			c.Violation("C11/R5", subject, c.At(p.e.Pos()), fmt.Sprintf("%s passes %s, a number of rows, as %s; the operation would cover that many bytes instead of rows × item size", p.f.Name, m.RawString(p.e), what))
		} else {
			c.OK("C11/R5", subject, c.At(p.e.Pos()), "dimension "+d.String()+" in a byte position ("+strings.SplitN(what, ",", 2)[0]+")")
		}
	}
}

// C11/R6: the pointer-free flag of a column describes the column's own element type.
//
// Whether a column may be copied and zeroed as raw bytes is decided per component type and looked up, like the type
// itself, in the component registry by the component's id. Wherever a column value is constructed, the expression
// that gives its element type and the one that gives its pointer-free flag (followed through constructor parameters to
// the call sites) must select the same registry entry: both registry lookups are indexed by the same expression, or
// the flag is computed from that very type. A flag taken from another entry (the column index instead of the
// component id, say) lets a pointer-holding component be moved without write barriers.
func c11r6(c *core.Ctx) {
	m := c.M
	n := 0
	type pair struct {
		f      *core.Func
		tp, fl ast.Expr
		site   ast.Node
	}
	var pairs []pair
	var follow func(f *core.Func, tp, fl ast.Expr, site ast.Node, depth int)
	follow = func(f *core.Func, tp, fl ast.Expr, site ast.Node, depth int) {
		tpar, fpar := -1, -1
		if id := identOf(m.StripConv(tp)); id != nil {
			if v, ok := m.Info.ObjectOf(id).(*types.Var); ok {
				if i, isP := paramIndexOf(f, v); isP {
					tpar = i
				}
			}
		}
		if id := identOf(m.StripConv(fl)); id != nil {
			if v, ok := m.Info.ObjectOf(id).(*types.Var); ok {
				if i, isP := paramIndexOf(f, v); isP {
					fpar = i
				}
			}
		}
		if tpar >= 0 && fpar >= 0 && depth < 3 {
			for _, cs := range m.CallSites() {
				if cs.Callee == f && tpar < len(cs.Call.Args) && fpar < len(cs.Call.Args) {
					follow(cs.Caller, cs.Call.Args[tpar], cs.Call.Args[fpar], cs.Call, depth+1)
				}
			}
			return
		}
		pairs = append(pairs, pair{f, tp, fl, site})
	}
	for _, f := range m.AllFuncs() {
		if f.Body == nil {
			continue
		}
		for _, cn := range constructionsOf(m, f) {
			if cn.typ != "column" {
				continue
			}
			tp, fl := cn.fields["column.elemType"], cn.fields["column.isTrivial"]
			if tp == nil || fl == nil {
				continue
			}
			follow(f, tp, fl, cn.node, 0)
		}
	}
	regIndex := func(e ast.Expr, key string) (string, bool) {
		ix, ok := ast.Unparen(m.InlineLocals(e)).(*ast.IndexExpr)
		if !ok || fieldKeyOf(m, ix.X) != key {
			return "", false
		}
		return m.ExprString(m.StripConv(ix.Index)), true
	}
	for _, p := range pairs {
		subject := fmt.Sprintf("%s: element type %s / pointer-free flag %s", p.f.Name, m.RawString(p.tp), m.RawString(p.fl))
		ti, tok := regIndex(p.tp, "registry.Types")
		fi, fok := regIndex(p.fl, "componentRegistry.IsTrivial")
		switch {
		case tok && fok && ti == fi:
			n++
			c.OK("C11/R6", subject, c.At(p.site.Pos()), "type and flag are the registry entries of the same component id "+ti)
		case tok && fok:
			n++
			c.Violation("C11/R6", subject, c.At(p.site.Pos()), fmt.Sprintf("%s builds a column whose element type is the registry entry %s but whose pointer-free flag is the entry %s; a pointer-holding component could be copied and zeroed as raw bytes (no write barriers), or a plain one through reflection", p.f.Name, ti, fi))
		default:
			// the flag computed from the type itself, or forms this rule does not know: nothing to compare
			if call, ok := ast.Unparen(m.InlineLocals(p.fl)).(*ast.CallExpr); ok && len(call.Args) == 1 && m.ExprString(call.Args[0]) == m.ExprString(p.tp) {
				n++
				c.OK("C11/R6", subject, c.At(p.site.Pos()), "the flag is computed from the element type itself")
			} else {
				c.Info("C11/R6", subject, c.At(p.site.Pos()), "type and flag are not both registry lookups; not compared")
			}
		}
	}
	if n == 0 {
		c.Undecide("C11/R6", "column constructions", "no column construction whose element type and pointer-free flag could be compared")
	}
}

// C11/R7: the zero buffer is as large as the largest column item.
//
// Rows are zeroed by copying from one per-archetype zero buffer (`archetypeData.zeroValue`), so that buffer must be at
// least as long as the item size of every column of the archetype, relation columns included. Where the buffer is
// allocated, its length is a local maximum; the rule requires that the loop which records the per-column item sizes
// (the stores into the item-size list) raises that maximum for every column: the update `if size > max { max = size }`
// is a statement of that loop's body that every iteration reaches (no `continue`, `break` or enclosing condition in
// front of it), and it compares the very size that is recorded.
func c11r7(c *core.Ctx) {
	m := c.M
	n := 0
	for _, f := range m.AllFuncs() {
		if f.Body == nil {
			continue
		}
		for _, cn := range constructionsOf(m, f) {
			zv := cn.fields["archetypeData.zeroValue"]
			if zv == nil {
				continue
			}
			n++
			subject := f.Name + ": size of the zero buffer"
			// the buffer: a local assigned make([]byte, M)
			var maxVar *types.Var
			for _, e := range append([]ast.Expr{zv}, localDefsOfExpr(m, f, zv)...) {
				if call, ok := ast.Unparen(e).(*ast.CallExpr); ok && m.IsBuiltin(call, "make") && len(call.Args) >= 2 {
					if id := identOf(m.StripConv(call.Args[1])); id != nil {
						maxVar, _ = m.Info.ObjectOf(id).(*types.Var)
					}
				}
			}
			if maxVar == nil {
				c.Info("C11/R7", subject, c.At(zv.Pos()), "the buffer is not allocated with a local maximum as its length; not compared")
				continue
			}
			// the update of the maximum
			var upd *ast.IfStmt
			var sizeExpr ast.Expr
			core.InspectNoLits(f.Body, func(x ast.Node) bool {
				is, ok := x.(*ast.IfStmt)
				if !ok || len(is.Body.List) != 1 {
					return true
				}
				as, ok := is.Body.List[0].(*ast.AssignStmt)
				if !ok || len(as.Lhs) != 1 || len(as.Rhs) != 1 {
					return true
				}
				if id := identOf(as.Lhs[0]); id == nil || m.Info.ObjectOf(id) != types.Object(maxVar) {
					return true
				}
				be, ok := ast.Unparen(is.Cond).(*ast.BinaryExpr)
				if !ok || (be.Op != token.GTR && be.Op != token.LSS && be.Op != token.GEQ && be.Op != token.LEQ) {
					return true
				}
				upd, sizeExpr = is, as.Rhs[0]
				return true
			})
			if upd == nil {
				// max(a, b) form
				core.InspectNoLits(f.Body, func(x ast.Node) bool {
					as, ok := x.(*ast.AssignStmt)
					if !ok || len(as.Lhs) != 1 || len(as.Rhs) != 1 {
						return true
					}
					if id := identOf(as.Lhs[0]); id == nil || m.Info.ObjectOf(id) != types.Object(maxVar) {
						return true
					}
					if call, ok := ast.Unparen(as.Rhs[0]).(*ast.CallExpr); ok && m.IsBuiltin(call, "max") && len(call.Args) == 2 {
						for _, a := range call.Args {
							if id := identOf(a); id == nil || m.Info.ObjectOf(id) != types.Object(maxVar) {
								sizeExpr = a
							}
						}
					}
					return true
				})
				if sizeExpr == nil {
					c.Info("C11/R7", subject, c.At(zv.Pos()), "no recognisable update of the maximum; not compared")
					continue
				}
			}
			// the loop that records the item sizes, and whether the update is reached by every iteration of it
			var recLoop ast.Node
			var recorded ast.Expr
			core.InspectNoLits(f.Body, func(x ast.Node) bool {
				_, body, ok := elementLoop(m, x)
				if !ok || body == nil {
					return true
				}
				for _, st := range body.List {
					if as, ok := st.(*ast.AssignStmt); ok && len(as.Lhs) == 1 && len(as.Rhs) == 1 {
						if ix, ok := ast.Unparen(as.Lhs[0]).(*ast.IndexExpr); ok {
							for _, e := range append([]ast.Expr{ix.X}, localDefsOfExpr(m, f, ix.X)...) {
								_ = e
							}
							if sizesList(m, f, ix.X, cn) {
								recLoop, recorded = x, as.Rhs[0]
							}
						}
					}
				}
				return true
			})
			if recLoop == nil {
				c.Info("C11/R7", subject, c.At(zv.Pos()), "the loop that records the item sizes was not recognised; not compared")
				continue
			}
			_, body, _ := elementLoop(m, recLoop)
			reached := false
			for _, st := range body.List {
				if upd != nil && st == ast.Stmt(upd) {
					reached = true
					break
				}
				if upd == nil && st.Pos() <= sizeExpr.Pos() && sizeExpr.End() <= st.End() {
					if _, isAs := st.(*ast.AssignStmt); isAs {
						reached = true
					}
					break
				}
				// anything that can leave the iteration before the update
				leaves := false
				ast.Inspect(st, func(y ast.Node) bool {
					switch z := y.(type) {
					case *ast.FuncLit:
						return false
					case *ast.BranchStmt:
						if z.Tok == token.CONTINUE || z.Tok == token.BREAK || z.Tok == token.GOTO {
							leaves = true
						}
					case *ast.ReturnStmt:
						leaves = true
					}
					return true
				})
				if leaves {
					break
				}
			}
			same := m.ExprString(m.StripConv(sizeExpr)) == m.ExprString(m.StripConv(recorded))
			switch {
			case reached && same:
				c.OK("C11/R7", subject, c.At(zv.Pos()), "every column's recorded item size raises the maximum that becomes the length of the zero buffer")
			case !reached:
				c.Violation("C11/R7", subject, c.At(zv.Pos()), fmt.Sprintf("%s allocates the zero buffer with length %s, but the update of %s is not reached by every iteration of the loop that records the item sizes (a column can be skipped); rows of a skipped, larger column would be zeroed from beyond the end of the buffer", f.Name, maxVar.Name(), maxVar.Name()))
			default:
				c.Violation("C11/R7", subject, c.At(zv.Pos()), fmt.Sprintf("%s records item size %s but raises the zero-buffer length with %s", f.Name, m.RawString(recorded), m.RawString(sizeExpr)))
			}
		}
	}
	if n == 0 {
		c.Undecide("C11/R7", "zero buffer", "no construction of archetypeData with a zero buffer found")
	}
}

// localDefsOfExpr: the definitions of e when e is a local (all of them, in any enclosing function).
func localDefsOfExpr(m *core.Model, f *core.Func, e ast.Expr) []ast.Expr {
	id := identOf(e)
	if id == nil {
		return nil
	}
	v, ok := m.Info.ObjectOf(id).(*types.Var)
	if !ok || v.IsField() {
		return nil
	}
	var out []ast.Expr
	for fn := f; fn != nil; fn = fn.Parent {
		out = append(out, localDefsOf(m, fn, v)...)
	}
	return out
}

// sizesList: x is the list that construction cn stores as the item-size list of the archetype.
func sizesList(m *core.Model, f *core.Func, x ast.Expr, cn construction) bool {
	want := cn.fields["archetypeData.itemSizes"]
	if want == nil {
		return false
	}
	a, b := identOf(x), identOf(want)
	return a != nil && b != nil && m.Info.ObjectOf(a) == m.Info.ObjectOf(b)
}
