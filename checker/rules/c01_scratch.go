package rules

import (
	"fmt"
	"go/ast"
	"go/constant"
	"go/types"
	"sort"
	"strings"

	"arkverif/checker/core"
)

// C01/R8 (shared with C04): scratch buffers do not escape into persistent structure.
//
// The storage keeps reusable scratch slices (the fields of its `slices` struct). A value derived from such a field —
// a local assigned from it, a re-slice, the result of appending to it, the result of a helper that returns one — is
// only valid until the scratch is used again. It must therefore never be stored into a field of a persistent object,
// nor handed to a parameter that a callee retains (stores into a field or a composite literal, directly or through
// further callees); tables in particular keep the relation list they are created with. A fresh copy (make + copy) is
// clean. The analysis is path-sensitive (flags like `fromPool := true ... fromPool = false` are followed), so that the
// idiom "copy only if the list came from the pool" is understood.

type scratchCtx struct {
	c *core.Ctx
	m *core.Model
	// retainMemo: conditions (on the function's own boolean parameters) under which parameter i is retained;
	// an empty condition means unconditionally, no entry means never
	retainMemo map[*core.Func]map[int][]map[int]bool
	retainBusy map[string]bool
	returns    map[*core.Func]map[int]bool // result k may be scratch-derived
	busy       map[*core.Func]bool
	viol       map[string]scratchViol
	// src: the source of taint (nil: the storage's scratch slices); sameFieldSinks: a store into a field that is itself
	// a source counts as a sink (used by the sharing analysis, where the source is "field K of any object")
	src            func(e ast.Expr) bool
	sameFieldSinks bool
	// sinkKey: if set, only stores into (or literal elements for) this field count as sinks
	sinkKey string
	// skipSink: stores into these fields are not sinks (views held by short-lived iterator objects)
	skipSink func(key string) bool
}

// selfStore: the value stored into field lv is (a re-slice of / an append to) that very field of the same object.
func (sc *scratchCtx) selfStore(lv *ast.SelectorExpr, rhs ast.Expr) bool {
	m := sc.m
	for i := 0; i < 6; i++ {
		rhs = ast.Unparen(m.StripConv(rhs))
		switch y := rhs.(type) {
		case *ast.SliceExpr:
			rhs = y.X
			continue
		case *ast.CallExpr:
			if m.IsBuiltin(y, "append") && len(y.Args) >= 1 {
				rhs = y.Args[0]
				continue
			}
		case *ast.SelectorExpr:
			return fieldKeyOf(m, y) == fieldKeyOf(m, lv) && m.ExprString(y.X) == m.ExprString(lv.X)
		}
		return false
	}
	return false
}

func (sc *scratchCtx) isSrc(e ast.Expr) bool {
	if sc.src != nil {
		return sc.src(e)
	}
	return isScratchField(sc.m, e)
}

type scratchViol struct {
	f    *core.Func
	node ast.Node
	msg  string
}

func isScratchField(m *core.Model, e ast.Expr) bool {
	sel, ok := ast.Unparen(e).(*ast.SelectorExpr)
	if !ok {
		return false
	}
	return isScratchOwner(m, ownerOf(fieldKeyOf(m, sel))) && isSliceType(m.Info.TypeOf(sel))
}

func isSliceType(t types.Type) bool {
	if t == nil {
		return false
	}
	_, ok := t.Underlying().(*types.Slice)
	return ok
}

// retainConds returns the conditions under which g keeps its slice parameter i: stores it (or a re-slice of it, or
// an append to it) into a field of a non-local object, puts it into a composite literal, or passes it on to a
// retaining parameter of a callee. Computed with the same path-sensitive analysis as the main rule, with the
// parameter as the tainted value; each sink contributes the values of g's boolean parameters known on that path
// (so "copies when fromPool is set, stores otherwise" is retained only when fromPool is false).
func (sc *scratchCtx) retainConds(g *core.Func, i int) []map[int]bool {
	if g == nil || g.Body == nil || g.Sig == nil || i >= g.Sig.Params().Len() || !isSliceType(g.Sig.Params().At(i).Type()) {
		return nil
	}
	if r, ok := sc.retainMemo[g]; ok {
		if cs, ok := r[i]; ok {
			return cs
		}
	}
	key := fmt.Sprintf("%p/%d", g, i)
	if sc.retainBusy[key] {
		return nil
	}
	sc.retainBusy[key] = true
	_, sinks := sc.analyse(g, g.Sig.Params().At(i))
	delete(sc.retainBusy, key)
	if sc.retainMemo[g] == nil {
		sc.retainMemo[g] = map[int][]map[int]bool{}
	}
	sc.retainMemo[g][i] = sinks
	return sinks
}

// retainedAt decides whether the call retains its argument ai in the current world: some retention condition of the
// callee is not contradicted by constant arguments or by the known values of boolean variables passed.
func (sc *scratchCtx) retainedAt(f *core.Func, call *ast.CallExpr, cal *core.Func, ai int, facts core.Facts) bool {
	m := sc.m
	conds := sc.retainConds(cal, ai)
	for _, cond := range conds {
		contradicted := false
		for pj, need := range cond {
			if pj >= len(call.Args) {
				continue
			}
			arg := ast.Unparen(call.Args[pj])
			if tv, ok := m.Info.Types[arg]; ok && tv.Value != nil && tv.Value.Kind() == constant.Bool {
				if constant.BoolVal(tv.Value) != need {
					contradicted = true
				}
				continue
			}
			if id, ok := arg.(*ast.Ident); ok {
				if v, known := facts["var:"+id.Name]; known && v != need {
					contradicted = true
				}
			}
		}
		if !contradicted {
			return true
		}
	}
	return false
}

func (sc *scratchCtx) tainted(f *core.Func, S string, e ast.Expr) bool {
	m := sc.m
	e = ast.Unparen(e)
	switch x := e.(type) {
	case *ast.SelectorExpr:
		return sc.isSrc(x)
	case *ast.Ident:
		return strings.Contains(S, ","+x.Name+",") && isSliceType(m.Info.TypeOf(x))
	case *ast.SliceExpr:
		return sc.tainted(f, S, x.X)
	case *ast.CallExpr:
		if m.IsBuiltin(x, "append") && len(x.Args) >= 1 {
			return sc.tainted(f, S, x.Args[0])
		}
		if k, cal, _ := m.Callee(x); k == core.CallStatic && tupleArity(m, x) == 1 {
			return sc.returnsScratch(cal)[0]
		}
	}
	return false
}

func setAdd(S, name string) string {
	if strings.Contains(S, ","+name+",") {
		return S
	}
	parts := strings.Split(strings.Trim(S, ","), ",")
	if S == "" || S == "," {
		parts = nil
	}
	parts = append(parts, name)
	sort.Strings(parts)
	return "," + strings.Join(parts, ",") + ","
}

func setDel(S, name string) string {
	if !strings.Contains(S, ","+name+",") {
		return S
	}
	var keep []string
	for _, p := range strings.Split(strings.Trim(S, ","), ",") {
		if p != name && p != "" {
			keep = append(keep, p)
		}
	}
	if len(keep) == 0 {
		return ""
	}
	return "," + strings.Join(keep, ",") + ","
}

// analyse runs the path-sensitive taint analysis on f. With symbolic == nil it records violations and returns the
// scratch-derived results; with a parameter given, that parameter is the tainted value and the sinks it reaches are
// returned as retention conditions instead of being reported.
func (sc *scratchCtx) analyse(f *core.Func, symbolic *types.Var) (map[int]bool, []map[int]bool) {
	m := sc.m
	res := map[int]bool{}
	var sinks []map[int]bool
	if f.Body == nil {
		return res, nil
	}
	entry := ""
	if symbolic != nil {
		entry = "," + symbolic.Name() + ","
	}
	sinkSeen := map[string]bool{}
	sink := func(n ast.Node, facts core.Facts, msg string) {
		if symbolic == nil {
			sc.report(f, n, msg)
			return
		}
		cond := map[int]bool{}
		for pi := 0; pi < f.Sig.Params().Len(); pi++ {
			p := f.Sig.Params().At(pi)
			if b, ok := p.Type().Underlying().(*types.Basic); ok && b.Kind() == types.Bool {
				if v, known := facts["var:"+p.Name()]; known {
					cond[pi] = v
				}
			}
		}
		k := fmt.Sprint(cond)
		if !sinkSeen[k] {
			sinkSeen[k] = true
			sinks = append(sinks, cond)
		}
	}
	ps := &core.PS[string]{M: m, F: f, Entry: entry}
	ps.Node = func(S string, n ast.Node, cond bool, facts core.Facts) string {
		switch x := n.(type) {
		case *ast.AssignStmt:
			if len(x.Lhs) == len(x.Rhs) {
				for i, l := range x.Lhs {
					t := sc.tainted(f, S, x.Rhs[i])
					switch lv := ast.Unparen(l).(type) {
					case *ast.Ident:
						if t {
							S = setAdd(S, lv.Name)
						} else {
							S = setDel(S, lv.Name)
						}
					case *ast.SelectorExpr:
						if t && (sc.sinkKey == "" || fieldKeyOf(m, lv) == sc.sinkKey) && (sc.skipSink == nil || !sc.skipSink(fieldKeyOf(m, lv))) && (sc.sameFieldSinks && !sc.selfStore(lv, x.Rhs[i]) || !sc.isSrc(lv)) && m.AccessPath(f, lv).Kind != core.RootFresh {
							sink(x, facts, fmt.Sprintf("%s stores %s, which is derived from a scratch buffer of the storage, into %s; the field would change when the scratch buffer is used again", f.Name, m.ExprString(x.Rhs[i]), m.ExprString(lv)))
						}
					}
				}
			} else if len(x.Rhs) == 1 {
				// tuple assignment from a call
				if call, ok := ast.Unparen(x.Rhs[0]).(*ast.CallExpr); ok {
					if k, cal, _ := m.Callee(call); k == core.CallStatic {
						rs := sc.returnsScratch(cal)
						for i, l := range x.Lhs {
							if id, ok := ast.Unparen(l).(*ast.Ident); ok {
								if rs[i] {
									S = setAdd(S, id.Name)
								} else {
									S = setDel(S, id.Name)
								}
							}
						}
					}
				}
			}
		case *ast.ValueSpec:
			for i, id := range x.Names {
				if i < len(x.Values) && sc.tainted(f, S, x.Values[i]) {
					S = setAdd(S, id.Name)
				} else {
					S = setDel(S, id.Name)
				}
			}
		case *ast.CallExpr:
			if k, cal, _ := m.Callee(x); k == core.CallStatic {
				for ai, a := range x.Args {
					if sc.tainted(f, S, a) && sc.retainedAt(f, x, cal, ai, facts) {
						sink(x, facts, fmt.Sprintf("%s passes %s, which is derived from a scratch buffer of the storage, to %s, which keeps it (stores it in a table or another persistent object); the stored list would change when the scratch buffer is used again", f.Name, m.ExprString(a), cal.Name))
					}
				}
			}
		case *ast.KeyValueExpr:
			if sc.tainted(f, S, x.Value) && (sc.sinkKey == "" || litFieldKey(m, x) == sc.sinkKey) && (sc.skipSink == nil || !sc.skipSink(litFieldKey(m, x))) && !(sc.src == nil && isScratchOwner(m, ownerOf(litFieldKey(m, x)))) {
				sink(x, facts, fmt.Sprintf("%s puts %s, which is derived from a scratch buffer of the storage, into a composite literal", f.Name, m.ExprString(x.Value)))
			}
		case *ast.ReturnStmt:
			for i, r := range x.Results {
				if sc.tainted(f, S, r) {
					res[i] = true
				}
			}
		}
		return S
	}
	ps.Solve()
	return res, sinks
}

func (sc *scratchCtx) report(f *core.Func, n ast.Node, msg string) {
	key := fmt.Sprintf("%s@%d", f.Name, n.Pos())
	if _, dup := sc.viol[key]; !dup {
		sc.viol[key] = scratchViol{f, n, msg}
	}
}

func (sc *scratchCtx) returnsScratch(g *core.Func) map[int]bool {
	if r, ok := sc.returns[g]; ok {
		return r
	}
	if sc.busy[g] || g == nil {
		return nil
	}
	// only functions with a slice result can return scratch
	has := false
	if g.Sig != nil {
		for i := 0; i < g.Sig.Results().Len(); i++ {
			if isSliceType(g.Sig.Results().At(i).Type()) {
				has = true
			}
		}
	}
	if !has {
		sc.returns[g] = map[int]bool{}
		return sc.returns[g]
	}
	sc.busy[g] = true
	r, _ := sc.analyse(g, nil)
	delete(sc.busy, g)
	sc.returns[g] = r
	return r
}

func c01r8(c *core.Ctx) {
	m := c.M
	sc := &scratchCtx{c: c, m: m, returns: map[*core.Func]map[int]bool{}, busy: map[*core.Func]bool{}, viol: map[string]scratchViol{},
		retainMemo: map[*core.Func]map[int][]map[int]bool{}, retainBusy: map[string]bool{}}
	// functions that take a scratch buffer into a local or call a function returning one
	n := 0
	for _, f := range m.AllFuncs() {
		uses := false
		core.InspectNoLits(f.Body, func(x ast.Node) bool {
			switch y := x.(type) {
			case *ast.SelectorExpr:
				if isScratchField(m, y) {
					uses = true
				}
			case *ast.CallExpr:
				if k, cal, _ := m.Callee(y); k == core.CallStatic && len(sc.returnsScratch(cal)) > 0 {
					uses = true
				}
			}
			return true
		})
		if !uses {
			continue
		}
		n++
		before := len(sc.viol)
		if _, done := sc.returns[f]; !done {
			sc.returns[f], _ = sc.analyse(f, nil)
		} else {
			sc.analyse(f, nil)
		}
		if len(sc.viol) == before {
			c.OK("C01/R8", f.Name+": scratch buffers", c.At(f.Pos()), "no value derived from a scratch buffer is stored into a persistent field or handed to a retaining parameter on any path")
		}
	}
	var keys []string
	for k := range sc.viol {
		keys = append(keys, k)
	}
	sort.Strings(keys)
	for _, k := range keys {
		v := sc.viol[k]
		c.Violation("C01/R8", fmt.Sprintf("%s: %s", v.f.Name, m.ExprString(nodeExpr(v.node))), c.At(v.node.Pos()), v.msg)
	}
	if n == 0 {
		c.Undecide("C01/R8", "scratch users", "no function uses a scratch buffer of the storage")
	}
}

// nodeExpr renders statement or expression nodes for subjects.
func nodeExpr(n ast.Node) ast.Expr {
	switch x := n.(type) {
	case ast.Expr:
		return x
	case *ast.AssignStmt:
		if len(x.Lhs) > 0 {
			return x.Lhs[0]
		}
	}
	return ast.NewIdent("stmt")
}
