// Package rules contains the property-specific rules of the ark static verifier.
package rules

import (
	"go/ast"
	"go/types"
	"sort"
	"strings"

	"arkverif/checker/core"
)

// Class is the anchor class of a memory location (DESIGN.md §2.3).
type Class int

// Anchor classes.
const (
	ClsNone     Class = iota // not classified (locals, unknown)
	ClsDeferred              // rooted at a parameter, only ambiguous helper types on the path: decided at the caller
	ClsExempt                // not part of the entity/table structure (cache, observers, lock, registry, scratch, API objects, stats)
	ClsRow                   // row state: table.len, entity index, entity pool
	ClsCap                   // capacity and buffers: table.cap, column data/pointer
	ClsTableSet              // set of tables/archetypes and their lookup structures, free flags, relation targets of tables
	ClsTarget                // storage.isTarget
)

func (c Class) String() string {
	return [...]string{"none", "deferred", "exempt", "row", "capacity", "table-set", "target-flag"}[c]
}

// Structural reports whether the class belongs to the world structure guarded by the world lock.
func (c Class) Structural() bool {
	return c == ClsRow || c == ClsCap || c == ClsTableSet || c == ClsTarget
}

// anchorTable maps field keys ("Owner.field") to classes. Owners listed in
// exemptOwners are exempt as a whole. Every entry carries its reason in DESIGN.md §2.3.
var anchorTable = map[string]Class{
	// row state
	"table.len":            ClsRow,
	"entityIndex.table":    ClsRow,
	"entityIndex.row":      ClsRow,
	"storage.entities":     ClsRow,
	"entityPool.entities":  ClsRow,
	"entityPool.next":      ClsRow,
	"entityPool.available": ClsRow,
	"entityPool.pointer":   ClsRow,
	"entityPool.reserved":  ClsRow,
	"storage.entityPool":   ClsRow,
	// capacity / buffers
	"table.cap":            ClsCap,
	"column.data":          ClsCap,
	"column.pointer":       ClsCap,
	"entityColumn.data":    ClsCap,
	"entityColumn.pointer": ClsCap,
	"table.entities":       ClsCap,
	"table.columns":        ClsCap,
	// table set
	"storage.tables":             ClsTableSet,
	"storage.archetypes":         ClsTableSet,
	"storage.archetypesData":     ClsTableSet,
	"storage.allArchetypes":      ClsTableSet,
	"storage.componentIndex":     ClsTableSet,
	"storage.relationArchetypes": ClsTableSet,
	"storage.components":         ClsTableSet,
	"storage.graph":              ClsTableSet,
	"componentStorage.columns":   ClsTableSet,
	"archetype.tables":           ClsTableSet,
	"archetype.relationTables":   ClsTableSet,
	"archetype.componentsMap":    ClsTableSet,
	"archetype.mask":             ClsTableSet,
	"archetype.id":               ClsTableSet,
	"archetype.numRelations":     ClsTableSet,
	"archetype.archetypeData":    ClsTableSet,
	"archetypeData.freeTables":   ClsTableSet,
	"archetypeData.targetTables": ClsTableSet,
	"archetypeData.components":   ClsTableSet,
	"archetypeData.itemSizes":    ClsTableSet,
	"archetypeData.isRelation":   ClsTableSet,
	"archetypeData.zeroValue":    ClsTableSet,
	"archetypeData.node":         ClsTableSet,
	"table.isFree":               ClsTableSet,
	"table.relationIDs":          ClsTableSet,
	"table.components":           ClsTableSet,
	"table.ids":                  ClsTableSet,
	"table.id":                   ClsTableSet,
	"table.archetype":            ClsTableSet,
	"table.zeroPointer":          ClsTableSet,
	"column.target":              ClsTableSet,
	"column.itemSize":            ClsTableSet,
	"column.elemType":            ClsTableSet,
	"column.index":               ClsTableSet,
	"column.isRelation":          ClsTableSet,
	"column.isTrivial":           ClsTableSet,
	"graph.nodes":                ClsTableSet,
	"node.neighbors":             ClsTableSet,
	"node.mask":                  ClsTableSet,
	"node.id":                    ClsTableSet,
	"node.archetype":             ClsTableSet,
	// target flag
	"storage.isTarget": ClsTarget,
	// exempt members of storage / World
	"storage.cache":     ClsExempt,
	"storage.locks":     ClsExempt,
	"storage.observers": ClsExempt,
	"storage.registry":  ClsExempt,
	"storage.slices":    ClsExempt,
	"storage.config":    ClsExempt,
	"World.stats":       ClsExempt,
	"World.resources":   ClsExempt,
}

// exemptOwners are struct types none of whose fields belong to the lock-guarded structure.
var exemptOwners = map[string]string{
	"cache": "filter cache (C05)", "cacheEntry": "filter cache (C05)", "filter": "filter value",
	"observerManager": "observers (C08)", "observerData": "observers (C08)", "Observer": "observer object",
	"lock": "the lock itself", "bitPool": "lock bit pool", "registry": "type registry (C18, rule R1b)",
	"componentRegistry": "type registry (C18, rule R1b)", "slices": "scratch slices", "config": "configuration",
	"Resources": "resources (C18)", "Relation": "user relation value", "Event": "event value",
	"EventRegistry": "event registry", "Unsafe": "API handle", "UnsafeFilter": "API object", "UnsafeQuery": "query object",
	"cursor": "query cursor", "Batch": "batch value", "EntityDump": "dump value", "Entity": "entity value (by value)",
	"Map": "API object", "Resource": "API object", "IDs": "API value",
}

// ambiguousOwners are helper types embedded in several anchors; a path
// consisting only of their fields is decided where it is rooted.
var ambiguousOwners = map[string]bool{
	"tableIDs": true, "bitMask64": true, "bitMask256": true, "intPool": true, "idMap": true, "pagedSlice": true,
	"relationID": true, "ID": true, "batchTable": true,
}

func ownerOf(key string) string {
	if i := strings.IndexByte(key, '.'); i >= 0 {
		return key[:i]
	}
	return key
}

func isAPIObjectOwner(owner string) bool {
	for _, p := range []string{"Map", "Filter", "Query", "Exchange", "Observer"} {
		if strings.HasPrefix(owner, p) {
			rest := owner[len(p):]
			if rest == "" {
				return true
			}
			digits := true
			for _, r := range rest {
				if r < '0' || r > '9' {
					digits = false
				}
			}
			if digits {
				return true
			}
		}
	}
	return false
}

// Classify determines the anchor class of an access path. The second result
// is the key that decided the class.
func Classify(p core.Path) (Class, string) {
	if p.Kind == core.RootFresh {
		return ClsNone, ""
	}
	var structural Class
	var skey, ekey string
	for _, k := range p.Fields() {
		if strings.HasPrefix(k, "stats.") {
			return ClsExempt, k
		}
		if c, ok := anchorTable[k]; ok {
			if c == ClsExempt {
				return ClsExempt, k // sub-object of storage/World that is not part of the structure
			}
			structural, skey = c, k // innermost structural key wins
			continue
		}
		owner := ownerOf(k)
		if _, ok := exemptOwners[owner]; (ok || isAPIObjectOwner(owner)) && ekey == "" {
			ekey = k
		}
	}
	if structural != ClsNone {
		return structural, skey
	}
	if ekey != "" {
		return ClsExempt, ekey
	}
	if len(p.Fields()) == 0 {
		return ClsNone, ""
	}
	allAmbiguous := true
	for _, k := range p.Fields() {
		if !ambiguousOwners[ownerOf(k)] && ownerOf(k) != "World" && ownerOf(k) != "?" {
			allAmbiguous = false
		}
	}
	if allAmbiguous && (p.Kind == core.RootParam || p.Kind == core.RootCapture) {
		return ClsDeferred, ""
	}
	return ClsNone, ""
}

// Anchors resolves the data-model anchors and the roles derived from them for one model.
type Anchors struct {
	M   *core.Model
	Eff *core.Effects

	LockTests   map[*core.Func]bool // bool-returning, store-free functions that read lock.locks
	Acquire     map[*core.Func]bool // set a bit of lock.locks and return the token
	Release     map[*core.Func]bool // clear a bit of lock.locks
	AliveTest   map[*core.Func]bool // compare Entity.gen against the pool, return bool, no stores
	PoolGet     map[*core.Func]bool
	PoolRecycle map[*core.Func]bool
	Fire        map[*core.Func]bool // call observerData.callback

	Missing []string // unresolved anchors
	// Unclassified lists fields of anchored structs that the anchor table does not know (added after it was frozen).
	Unclassified []string
	mentions     map[*core.Func]map[string]bool
	wrappers     map[*core.Func]*core.Func
}

var anchorCache = map[*core.Model]*Anchors{}

// GetAnchors computes (once per model) anchors and derived roles.
func GetAnchors(c *core.Ctx) *Anchors {
	if a, ok := anchorCache[c.M]; ok {
		return a
	}
	core.PinnedFieldTypes = pinnedFieldTypes
	a := &Anchors{M: c.M, Eff: c.Eff,
		LockTests: map[*core.Func]bool{}, Acquire: map[*core.Func]bool{}, Release: map[*core.Func]bool{},
		AliveTest: map[*core.Func]bool{}, PoolGet: map[*core.Func]bool{}, PoolRecycle: map[*core.Func]bool{}, Fire: map[*core.Func]bool{},
		mentions: map[*core.Func]map[string]bool{}}
	// every key of the anchor table and every key mentioned by a rule must exist in the data model
	// (a renamed field is found through its unique type, see core.PinnedFieldTypes)
	owners := map[string]bool{}
	seenKey := map[string]bool{}
	for k := range anchorTable {
		seenKey[k] = true
		owners[ownerOf(k)] = true
	}
	for k := range seenKey {
		if c.M.FieldByKey(k) == nil {
			a.Missing = append(a.Missing, k)
		}
	}
	// every field of the structural owner types must be classified
	classified := map[string]bool{}
	for k := range anchorTable {
		classified[k] = true
	}
	for _, v := range c.M.AllFieldKeys() {
		o := ownerOf(v)
		if !owners[o] || o == "World" {
			continue
		}
		if _, ex := exemptOwners[o]; ex {
			continue
		}
		if !classified[v] {
			// A field added to an anchored struct after the table was frozen. It is not part of the row/capacity/
			// table-set/target state the rules were written for; the rules treat it as exempt and every run
			// reports it in the evidence (assumptions) so that the table can be revisited. Making the whole
			// analysis undecided here would turn any added field into an alarm on code where the properties hold.
			a.Unclassified = append(a.Unclassified, v)
		}
	}
	sort.Strings(a.Missing)
	sort.Strings(a.Unclassified)
	a.computeMentions()
	a.deriveRoles()
	anchorCache[c.M] = a
	return a
}

// computeMentions records, per function, the field keys it selects (reads or writes), transitively.
func (a *Anchors) computeMentions() {
	m := a.M
	all := m.AllFuncs()
	callees := map[*core.Func][]*core.Func{}
	for _, f := range all {
		set := map[string]bool{}
		ff := f
		core.InspectNoLits(f.Body, func(n ast.Node) bool {
			switch x := n.(type) {
			case *ast.SelectorExpr:
				if fld := m.FieldOf(x); fld != nil {
					set[m.FieldKey(fld)] = true
				}
			case *ast.CallExpr:
				if k, callee, _ := m.Callee(x); (k == core.CallStatic || k == core.CallLiteral) && callee != nil {
					callees[ff] = append(callees[ff], callee)
				}
			}
			return true
		})
		a.mentions[f] = set
	}
	for changed := true; changed; {
		changed = false
		for _, f := range all {
			for _, cal := range callees[f] {
				for k := range a.mentions[cal] {
					if !a.mentions[f][k] {
						a.mentions[f][k] = true
						changed = true
					}
				}
			}
		}
	}
}

// directMention reports whether the body of f itself selects the field.
func (a *Anchors) directMention(f *core.Func, key string) bool {
	found := false
	core.InspectNoLits(f.Body, func(n ast.Node) bool {
		if sel, ok := n.(*ast.SelectorExpr); ok {
			if fld := a.M.FieldOf(sel); fld != nil && a.M.FieldKey(fld) == key {
				found = true
			}
		}
		return !found
	})
	return found
}

// Mentions reports whether f (transitively) selects the field.
func (a *Anchors) Mentions(f *core.Func, key string) bool { return a.mentions[f][key] }

func returnsBool(f *core.Func) bool {
	if f.Sig == nil || f.Sig.Results().Len() != 1 {
		return false
	}
	b, ok := f.Sig.Results().At(0).Type().Underlying().(*types.Basic)
	return ok && b.Kind() == types.Bool
}

func (a *Anchors) deriveRoles() {
	m := a.M
	for _, f := range m.Funcs {
		stores := a.Eff.Stores(f)
		directCallsCallback := false
		core.InspectNoLits(f.Body, func(n ast.Node) bool {
			if call, ok := n.(*ast.CallExpr); ok {
				if sel, ok := ast.Unparen(call.Fun).(*ast.SelectorExpr); ok {
					if fld := m.FieldOf(sel); fld != nil && m.FieldKey(fld) == "observerData.callback" {
						directCallsCallback = true
					}
				}
			}
			return true
		})
		if directCallsCallback {
			a.Fire[f] = true
		}
		recvStores := func(key string) bool {
			for _, s := range stores {
				if len(s.Via) <= 1 && s.Path.Kind == core.RootParam && s.Path.Index == -1 {
					// (fields that merely group pinned fields of the receiver - lock.state.locks - are transparent)
					if fs := withoutGroupKeys(m, s.Path.Fields()); len(fs) > 0 && fs[0] == key {
						return true
					}
				}
			}
			return false
		}
		if returnsBool(f) && len(stores) == 0 {
			if a.directMention(f, "lock.locks") {
				a.LockTests[f] = true
			}
			if a.directMention(f, "Entity.gen") && (a.directMention(f, "entityPool.pointer") || a.directMention(f, "entityPool.entities")) {
				a.AliveTest[f] = true
			}
		}
		if f.Recv == "lock" && recvStores("lock.locks") {
			// acquire returns the token; release takes it as parameter and returns nothing
			// (a release may report whether the bit was held)
			if f.Sig.Results().Len() == 1 && f.Sig.Params().Len() == 0 && isInt(f.Sig.Results().At(0).Type()) {
				a.Acquire[f] = true
			} else if f.Sig.Params().Len() == 1 && isInt(f.Sig.Params().At(0).Type()) && (f.Sig.Results().Len() == 0 || (f.Sig.Results().Len() == 1 && returnsBool(f))) {
				a.Release[f] = true
			}
		}
	}
	for changed := true; changed; {
		changed = false
		for _, f := range m.Funcs {
			if cal := soleForward(m, f); cal != nil && returnsBool(f) {
				if a.LockTests[cal] && !a.LockTests[f] {
					a.LockTests[f] = true
					changed = true
				}
				if a.AliveTest[cal] && !a.AliveTest[f] && f.Sig.Params().Len() == 1 {
					a.AliveTest[f] = true
					changed = true
				}
			}
		}
	}
	// wrappers: a function with the same signature shape that on every normal path passes exactly one call of an
	// acquire/release role (and for release hands it its own token parameter). Statements around the call (mutex
	// operations, the unbalanced-unlock assertion) do not change the role.
	roleCalls := func(f *core.Func, set map[*core.Func]bool) []*ast.CallExpr {
		var out []*ast.CallExpr
		core.InspectNoLits(f.Body, func(n ast.Node) bool {
			if call, ok := n.(*ast.CallExpr); ok {
				if k, cal, _ := m.Callee(call); k == core.CallStatic && set[cal] {
					out = append(out, call)
				}
			}
			return true
		})
		return out
	}
	for changed := true; changed; {
		changed = false
		for _, f := range m.Funcs {
			if a.Acquire[f] || a.Release[f] || f.Sig == nil || f.Body == nil {
				continue
			}
			if f.Sig.Results().Len() == 1 && f.Sig.Params().Len() == 0 && isInt(f.Sig.Results().At(0).Type()) {
				if calls := roleCalls(f, a.Acquire); len(calls) == 1 && len(roleCalls(f, a.Release)) == 0 {
					call := calls[0]
					if passedOnAllPaths(m, f, func(n ast.Node) bool { return n == ast.Node(call) }) && returnsValueOf(m, f, call) {
						a.Acquire[f] = true
						changed = true
					}
				}
			}
			if f.Sig.Results().Len() == 0 && f.Sig.Params().Len() == 1 && isInt(f.Sig.Params().At(0).Type()) {
				if calls := roleCalls(f, a.Release); len(calls) == 1 && len(roleCalls(f, a.Acquire)) == 0 {
					call := calls[0]
					argIsParam := false
					if len(call.Args) == 1 {
						if id, ok := ast.Unparen(call.Args[0]).(*ast.Ident); ok && m.Info.ObjectOf(id) == f.Sig.Params().At(0) {
							argIsParam = true
						}
					}
					if argIsParam && passedOnAllPaths(m, f, func(n ast.Node) bool { return n == ast.Node(call) }) {
						a.Release[f] = true
						changed = true
					}
				}
			}
		}
	}
	// pool roles: functions declared on entityPool
	for _, f := range m.Funcs {
		if f.Recv != "entityPool" {
			continue
		}
		direct := func(key string) bool {
			for _, s := range a.Eff.Stores(f) {
				if s.Path.Kind == core.RootParam && s.Path.Index == -1 && s.Path.Has(key) {
					return true
				}
			}
			return false
		}
		if direct("Entity.gen") && f.Sig.Params().Len() == 1 {
			a.PoolRecycle[f] = true
		}
		if f.Sig.Params().Len() == 0 && f.Sig.Results().Len() == 1 && core.NamedName(f.Sig.Results().At(0).Type()) == "Entity" && f.Obj.Exported() {
			a.PoolGet[f] = true
		}
	}
}

// returnsValueOf: every return statement of f returns the result of call (directly or through a single-definition local).
func returnsValueOf(m *core.Model, f *core.Func, call *ast.CallExpr) bool {
	ok, n := true, 0
	core.InspectNoLits(f.Body, func(x ast.Node) bool {
		rs, isR := x.(*ast.ReturnStmt)
		if !isR {
			return true
		}
		n++
		if len(rs.Results) != 1 {
			ok = false
			return true
		}
		e := ast.Unparen(rs.Results[0])
		if e == ast.Expr(call) {
			return true
		}
		if id, isID := e.(*ast.Ident); isID {
			if v, isV := m.Info.ObjectOf(id).(*types.Var); isV {
				defs := localDefsOf(m, f, v)
				if len(defs) == 1 && ast.Unparen(defs[0]) == ast.Expr(call) {
					return true
				}
			}
		}
		ok = false
		return true
	})
	return ok && n > 0
}

// soleForward returns the callee if the body of f is a single statement that calls (or returns the call of) one static function.
func soleForward(m *core.Model, f *core.Func) *core.Func {
	if f.Body == nil || len(f.Body.List) != 1 {
		return nil
	}
	var e ast.Expr
	switch s := f.Body.List[0].(type) {
	case *ast.ReturnStmt:
		if len(s.Results) != 1 {
			return nil
		}
		e = s.Results[0]
	case *ast.ExprStmt:
		e = s.X
	default:
		return nil
	}
	call, ok := ast.Unparen(e).(*ast.CallExpr)
	if !ok {
		return nil
	}
	if k, cal, _ := m.Callee(call); k == core.CallStatic {
		return cal
	}
	return nil
}

// names returns the sorted names of a role set.
func names(set map[*core.Func]bool) []string {
	var out []string
	for f := range set {
		out = append(out, f.Name)
	}
	sort.Strings(out)
	return out
}

// Dump prints the derived roles (debug aid).
func (a *Anchors) Dump() {
	p := func(name string, set map[*core.Func]bool) {
		println(name+":", strings.Join(names(set), ", "))
	}
	p("lock-test", a.LockTests)
	p("acquire", a.Acquire)
	p("release", a.Release)
	p("alive-test", a.AliveTest)
	p("pool-get", a.PoolGet)
	p("pool-recycle", a.PoolRecycle)
	p("fire", a.Fire)
	println("missing:", strings.Join(a.Missing, "; "))
}

// MissingFor returns the unresolved anchors that matter for one property: the field keys that the property's own,
// shared and borrowed rules mention. Entries of the classification table whose field no longer exists (a.Missing) are
// not among them: they classify nothing any more and are reported as a note.
func (a *Anchors) MissingFor(prop string) []string {
	var out []string
	for _, k := range ruleKeysByProp[prop] {
		if a.M.FieldByKey(k) == nil {
			dup := false
			for _, o := range out {
				if o == k {
					dup = true
				}
			}
			if !dup {
				out = append(out, k)
			}
		}
	}
	sort.Strings(out)
	return out
}
