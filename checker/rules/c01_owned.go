package rules

import (
	"fmt"
	"go/ast"
	"go/types"

	"arkverif/checker/core"
)

// C01/R11: the relation list a table keeps is owned memory.
//
// A table keeps the relation list it is created or recycled with (field table.relationIDs) for its whole life, and
// later operations derive destination tables from it. The list must therefore be memory that nobody else rewrites:
// freshly allocated, or the relation list of another table (tables share lists, which are never written in place -
// C04/R13). C01/R8 excludes the storage's scratch slices; this rule excludes everything else: for every function
// that hands a slice parameter on into table.relationIDs (under any condition; found with the taint engine of C01/R8,
// parameter as source, that field as the only sink), every call site must pass owned memory - a fresh allocation, a
// table's relation list, the result of a function that returns such, or the caller's own parameter, in which case the
// caller's call sites are examined in turn. A field of an API object (the reused conversion buffers of the typed
// wrappers) or any other long-lived slice is not owned.
func c01r11(c *core.Ctx) {
	m := c.M
	sc := &scratchCtx{c: c, m: m, returns: map[*core.Func]map[int]bool{}, busy: map[*core.Func]bool{}, viol: map[string]scratchViol{},
		retainMemo: map[*core.Func]map[int][]map[int]bool{}, retainBusy: map[string]bool{}, sinkKey: "table.relationIDs",
		src: func(ast.Expr) bool { return false }}
	retains := func(g *core.Func, i int) bool { return len(sc.retainConds(g, i)) > 0 }
	n := 0
	seen := map[string]bool{}
	var owned func(h *core.Func, e ast.Expr, depth int, busy map[string]bool) (bool, string)
	owned = func(h *core.Func, e ast.Expr, depth int, busy map[string]bool) (bool, string) {
		if e == nil {
			return true, ""
		}
		if depth > 14 {
			return true, "" // too long a chain to follow: not reported (an alarm needs a definite foreign owner)
		}
		e = ast.Unparen(e)
		if !isSliceType(m.Info.TypeOf(e)) {
			if id, ok := e.(*ast.Ident); ok && id.Name == "nil" {
				return true, ""
			}
		}
		switch x := e.(type) {
		case *ast.CompositeLit:
			return true, ""
		case *ast.SliceExpr:
			return owned(h, x.X, depth, busy)
		case *ast.SelectorExpr:
			switch k := fieldKeyOf(m, x); {
			case k == "table.relationIDs":
				return true, ""
			case isScratchField(m, x):
				return true, "" // scratch: decided by C01/R8
			}
			return false, fmt.Sprintf("%s, a long-lived slice that its owner rewrites", m.RawString(x))
		case *ast.CallExpr:
			if m.IsBuiltin(x, "make") {
				return true, ""
			}
			if m.IsBuiltin(x, "append") && len(x.Args) >= 1 {
				return owned(h, x.Args[0], depth, busy)
			}
			if tv, ok := m.Info.Types[ast.Unparen(x.Fun)]; ok && tv.IsType() && len(x.Args) == 1 {
				return owned(h, x.Args[0], depth, busy)
			}
			if k, cal, _ := m.Callee(x); k == core.CallStatic && cal != nil && cal.Body != nil {
				ok, why := true, ""
				core.InspectNoLits(cal.Body, func(nd ast.Node) bool {
					if rs, isR := nd.(*ast.ReturnStmt); isR && ok {
						for _, r := range rs.Results {
							if isSliceType(m.Info.TypeOf(r)) {
								if o, w := owned(cal, r, depth+1, busy); !o {
									ok, why = false, w
								}
							}
						}
					}
					return ok
				})
				return ok, why
			}
			return false, m.RawString(x) + " (result of an unknown function)"
		case *ast.Ident:
			if x.Name == "nil" {
				return true, ""
			}
			v, isVar := m.Info.ObjectOf(x).(*types.Var)
			if !isVar || v.IsField() {
				return false, m.RawString(x)
			}
			key := fmt.Sprintf("%p", v)
			if busy[key] {
				return true, ""
			}
			busy[key] = true
			defer delete(busy, key)
			fn := m.EnclosingFunc(v.Pos())
			if fn == nil {
				fn = h
			}
			for g := fn; g != nil; g = g.Parent {
				if _, isP := paramIndexOf(g, v); isP {
					acts := actualsOf(m, g, v)
					if len(acts) == 0 {
						return false, fmt.Sprintf("parameter %s of %s (no call site to decide who owns it)", v.Name(), g.Name)
					}
					for _, a := range acts {
						if o, w := owned(a.caller, a.expr, depth+1, busy); !o {
							return false, fmt.Sprintf("%s, passed as %s to %s", w, v.Name(), g.Name)
						}
					}
					return true, ""
				}
			}
			ok, why := true, ""
			defs := 0
			core.InspectNoLits(fn.Body, func(nd ast.Node) bool {
				switch y := nd.(type) {
				case *ast.AssignStmt:
					for i, l := range y.Lhs {
						id := identOf(l)
						if id == nil || m.Info.ObjectOf(id) != types.Object(v) {
							continue
						}
						defs++
						var rhs ast.Expr
						if len(y.Rhs) == len(y.Lhs) {
							rhs = y.Rhs[i]
						} else {
							rhs = y.Rhs[0]
						}
						if o, w := owned(fn, rhs, depth+1, busy); !o && ok {
							ok, why = false, w
						}
					}
				case *ast.ValueSpec:
					for i, id := range y.Names {
						if m.Info.ObjectOf(id) == types.Object(v) && i < len(y.Values) {
							defs++
							if o, w := owned(fn, y.Values[i], depth+1, busy); !o && ok {
								ok, why = false, w
							}
						}
					}
				}
				return true
			})
			if defs == 0 {
				return true, "" // zero value
			}
			return ok, why
		}
		return false, m.RawString(e)
	}
	for _, cs := range m.CallSites() {
		cal := cs.Callee
		if cal == nil || cal.Sig == nil {
			continue
		}
		for i := 0; i < cal.Sig.Params().Len() && i < len(cs.Call.Args); i++ {
			if !isSliceType(cal.Sig.Params().At(i).Type()) || !retains(cal, i) {
				continue
			}
			subject := fmt.Sprintf("%s: %s receives %s", cs.Caller.Name, cal.Name, m.RawString(cs.Call.Args[i]))
			if seen[subject] {
				continue
			}
			seen[subject] = true
			n++
			if o, why := owned(cs.Caller, cs.Call.Args[i], 0, map[string]bool{}); o {
				c.OK("C01/R11", subject, c.At(cs.Call.Pos()), "the list that may become a table's relation list is freshly allocated, another table's list, scratch (C01/R8), or an owned parameter")
			} else {
				c.Violation("C01/R11", subject, c.At(cs.Call.Pos()), fmt.Sprintf("%s hands %s to %s, which keeps it as a table's relation list, but the list can be %s; when that memory is rewritten the table's targets change silently, and later operations move its entities to the wrong table", cs.Caller.Name, m.RawString(cs.Call.Args[i]), cal.Name, why))
			}
		}
	}
	if n == 0 {
		c.Undecide("C01/R11", "table creation", "no call site hands a slice to a function that stores it into table.relationIDs")
	}
}
