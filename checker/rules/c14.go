package rules

import (
	"fmt"
	"go/ast"
	"go/constant"
	"go/token"
	"go/types"
	"regexp"
	"sort"
	"strconv"
	"strings"

	"arkverif/checker/core"
)

func init() {
	register(&Property{
		ID:    "C14",
		Level: "other",
		Explanation: "The Go type checker forces the types of pointers handed to callbacks and returned by Get into parameter order; what it cannot see, because the pointers come out of unsafe.Pointer, is which column they point into. Decided for every generated type and arity: " +
			"(R1) index consistency and coverage: every expression is assigned the index of the type parameter it belongs to by derivation (type *Tk; ids[c]/components[c] with constant c; a field by what it is initialised from; a local by its initialiser); no conversion or assignment mixes two indices, and every function that assigns one member of a per-parameter field family assigns all of them; " +
			"(R2) delegation: every typed structural method passes the type's whole id list (and its remove list) to the shared internal operation, never a sub-slice or another field; " +
			"(R3) arity uniformity: for each family and method the normalised statement skeleton is identical across all arities ≥ 1, and the statements of the arity-0 variant that do not concern components occur in the same order in the others; (R4) the generated arities are those the documentation states (Map1–12, Filter0–8, Query0–8, Exchange1–8, Observer1–4). " +
			"(R5) relation arguments are inputs: no function writes through a parameter or receiver that holds the caller's list of Relation values (the component id of a `Rel[C]` relation is resolved on a copy, never cached in the caller's list). (R6) a slice field whose element addresses are kept in fields, elements or literals (the per-component storages that typed objects point into) is allocated once with a constant capacity of at least the component limit and only appended to, so that it never reallocates. Not decided: equality of effects of the typed and the ID-based path for every history.",
		TrustedBase: []string{"go/types", "naming convention of generated per-parameter fields (family name + parameter letter), checked against how the constructors initialise them"},
		Rules: []Rule{
			{ID: "C14/R1", Run: c14r1, Min: 1},
			{ID: "C14/R2", Run: c14r2, Min: 1},
			{ID: "C14/R3", Run: c14r3, Min: 1},
			{ID: "C14/R4", Run: c14r4, Min: 1},
			{ID: "C14/R5", Run: c14r5, Min: 1},
			{ID: "C14/R6", Run: c14r6, Min: 1},
		},
	})
}

var genFamilyRe = regexp.MustCompile(`^(Map|Filter|Query|Exchange|Observer)([0-9]+)$`)

func genFamily(recv string) (string, int, bool) {
	mm := genFamilyRe.FindStringSubmatch(recv)
	if mm == nil {
		return "", 0, false
	}
	n, _ := strconv.Atoi(mm[2])
	return mm[1], n, true
}

// typeParamIndex returns the index of the type parameter that t (or *t) is, within the receiver's type parameter list.
func typeParamIndex(t types.Type) int {
	if p, ok := t.(*types.Pointer); ok {
		t = p.Elem()
	}
	if tp, ok := t.(*types.TypeParam); ok {
		return tp.Index()
	}
	return -1
}

// wiring computes parameter indices of expressions inside one function of a generic type.
type wiring struct {
	m        *core.Model
	f        *core.Func
	fieldIdx map[string]int // field name of the receiver type -> parameter index (from constructor/setter initialisation)
}

// letterIndex: trailing capital letter of a per-parameter field name (storageB -> 1), or -1.
func letterIndex(name string) (string, int) {
	if len(name) < 2 {
		return name, -1
	}
	last := name[len(name)-1]
	prev := name[len(name)-2]
	if last >= 'A' && last <= 'L' && prev >= 'a' && prev <= 'z' {
		return name[:len(name)-1], int(last - 'A')
	}
	return name, -1
}

func (w *wiring) index(e ast.Expr, depth int) int {
	m := w.m
	if depth > 6 || e == nil {
		return -1
	}
	e = ast.Unparen(e)
	switch x := e.(type) {
	case *ast.IndexExpr:
		// ids[c], components[c], storages[c]
		if tv, ok := m.Info.Types[x.Index]; ok && tv.Value != nil {
			if v, ok := constInt(m, x.Index); ok {
				if bt, ok := m.Info.Types[x.X]; ok {
					if sl, ok := bt.Type.Underlying().(*types.Slice); ok {
						en := core.NamedName(sl.Elem())
						if en == "ID" || en == "componentStorage" {
							return int(v)
						}
					}
				}
			}
		}
		// a.b[i] where the base carries an index (columns of storageB indexed by table)
		return w.index(x.X, depth+1)
	case *ast.SelectorExpr:
		if fld := m.FieldOf(x); fld != nil {
			if _, li := letterIndex(fld.Name()); li >= 0 {
				if owner := ownerOf(m.FieldKey(fld)); genFamilyRe.MatchString(owner) {
					return li
				}
			}
			return w.index(x.X, depth+1)
		}
		return w.index(x.X, depth+1)
	case *ast.CallExpr:
		k, _, _ := m.Callee(x)
		if k == core.CallConversion && len(x.Args) == 1 {
			if tv, ok := m.Info.Types[x.Fun]; ok {
				if ti := typeParamIndex(tv.Type); ti >= 0 {
					return ti
				}
			}
			return w.index(x.Args[0], depth+1)
		}
		// generic helper instantiated with a type parameter: get[B](...), ComponentID[B](...)
		if ix, ok := ast.Unparen(x.Fun).(*ast.IndexExpr); ok {
			if tv, ok := m.Info.Types[ix.Index]; ok {
				if ti := typeParamIndex(tv.Type); ti >= 0 {
					return ti
				}
			}
		}
		// method call on something carrying an index: columnB.Get(i), table.Column(ids[1])
		if sel, ok := ast.Unparen(x.Fun).(*ast.SelectorExpr); ok {
			if i := w.index(sel.X, depth+1); i >= 0 {
				return i
			}
		}
		for _, a := range x.Args {
			if i := w.index(a, depth+1); i >= 0 {
				return i
			}
		}
	case *ast.Ident:
		if v, ok := m.Info.ObjectOf(x).(*types.Var); ok && !v.IsField() {
			if ti := typeParamIndex(v.Type()); ti >= 0 {
				return ti
			}
			if _, li := letterIndex(v.Name()); li >= 0 {
				// locals named columnB are checked against their initialiser elsewhere; use the initialiser here
				for _, d := range localDefsOf(m, w.f, v) {
					if i := w.index(d, depth+1); i >= 0 {
						return i
					}
				}
				return li
			}
			for _, d := range localDefsOf(m, w.f, v) {
				if i := w.index(d, depth+1); i >= 0 {
					return i
				}
			}
		}
	case *ast.UnaryExpr:
		return w.index(x.X, depth+1)
	case *ast.StarExpr:
		return w.index(x.X, depth+1)
	}
	return -1
}

func c14r1(c *core.Ctx) {
	m := c.M
	for _, f := range m.AllFuncs() {
		fam, arity, ok := genFamily(f.Recv)
		isCtor := false
		if !ok && f.Recv == "" && f.Obj != nil {
			// constructors NewMap3, NewFilter2, NewExchange4, Observe2
			for _, p := range []string{"NewMap", "NewFilter", "NewExchange", "Observe", "NewQuery"} {
				if strings.HasPrefix(f.Name, p) {
					if n, err := strconv.Atoi(strings.TrimPrefix(f.Name, p)); err == nil {
						fam, arity, ok, isCtor = p, n, true, true
					}
				}
			}
		}
		if !ok || arity == 0 {
			continue
		}
		_ = fam
		w := &wiring{m: m, f: f}
		problems := 0
		checked := 0
		// (a) conversions (*Tk)(expr): the operand's index must be k
		core.InspectNoLits(f.Body, func(n ast.Node) bool {
			switch x := n.(type) {
			case *ast.CallExpr:
				if k, _, _ := m.Callee(x); k == core.CallConversion && len(x.Args) == 1 {
					if tv, ok := m.Info.Types[x.Fun]; ok {
						if ti := typeParamIndex(tv.Type); ti >= 0 {
							checked++
							if oi := w.index(x.Args[0], 0); oi >= 0 && oi != ti {
								problems++
								c.Violation("C14/R1", fmt.Sprintf("%s: %s", f.Name, m.ExprString(x)), c.At(x.Pos()), fmt.Sprintf("%s converts memory of component #%d to a pointer of type parameter #%d (%s); the caller would receive a pointer into the wrong column", f.Name, oi, ti, m.ExprString(x)))
							}
						}
					}
				}
				// get[B](m.storageA, ...)
				if ix, ok := ast.Unparen(x.Fun).(*ast.IndexExpr); ok {
					if tv, ok := m.Info.Types[ix.Index]; ok {
						if ti := typeParamIndex(tv.Type); ti >= 0 {
							for _, a := range x.Args {
								if ai := w.index(a, 0); ai >= 0 {
									checked++
									if ai != ti {
										problems++
										c.Violation("C14/R1", fmt.Sprintf("%s: %s", f.Name, m.ExprString(x)), c.At(x.Pos()), fmt.Sprintf("%s instantiates the helper with type parameter #%d but passes data of component #%d", f.Name, ti, ai))
									}
								}
							}
						}
					}
				}
			case *ast.AssignStmt:
				for i, l := range x.Lhs {
					if i >= len(x.Rhs) {
						continue
					}
					li := -1
					switch y := ast.Unparen(l).(type) {
					case *ast.SelectorExpr:
						if fld := m.FieldOf(y); fld != nil {
							_, li = letterIndex(fld.Name())
						}
					case *ast.Ident:
						if v, ok := m.Info.ObjectOf(y).(*types.Var); ok {
							_, li = letterIndex(v.Name())
							if ti := typeParamIndex(v.Type()); ti >= 0 {
								li = ti
							}
						}
					case *ast.IndexExpr:
						if v, ok := constInt(m, y.Index); ok {
							if bt, ok := m.Info.Types[y.X]; ok {
								if sl, ok := bt.Type.Underlying().(*types.Slice); ok && core.NamedName(sl.Elem()) == "componentStorage" {
									li = int(v)
								}
							}
						}
					case *ast.StarExpr:
						li = w.index(y.X, 0)
					}
					if li < 0 {
						continue
					}
					ri := w.index(x.Rhs[i], 0)
					if ri < 0 {
						continue
					}
					checked++
					if ri != li {
						problems++
						c.Violation("C14/R1", fmt.Sprintf("%s: %s = %s", f.Name, m.ExprString(l), m.ExprString(x.Rhs[i])), c.At(x.Pos()), fmt.Sprintf("%s assigns data of component #%d to a slot of type parameter #%d", f.Name, ri, li))
					}
				}
			case *ast.KeyValueExpr:
				if id, ok := x.Key.(*ast.Ident); ok {
					if _, li := letterIndex(id.Name); li >= 0 {
						if ri := w.index(x.Value, 0); ri >= 0 {
							checked++
							if ri != li {
								problems++
								c.Violation("C14/R1", fmt.Sprintf("%s: %s: %s", f.Name, id.Name, m.ExprString(x.Value)), c.At(x.Pos()), fmt.Sprintf("%s initialises the slot of type parameter #%d from component #%d", f.Name, li, ri))
							}
						}
					}
				}
			}
			return true
		})
		// constructors: ids[k] is built from the k-th type parameter
		if isCtor {
			core.InspectNoLits(f.Body, func(n ast.Node) bool {
				cl, ok := n.(*ast.CompositeLit)
				if !ok {
					return true
				}
				if sl, ok := m.Info.TypeOf(cl).Underlying().(*types.Slice); !ok || core.NamedName(sl.Elem()) != "ID" {
					return true
				}
				for k, e := range cl.Elts {
					checked++
					if ei := w.index(e, 0); ei != k {
						problems++
						c.Violation("C14/R1", fmt.Sprintf("%s: ids[%d]", f.Name, k), c.At(e.Pos()), fmt.Sprintf("%s builds element %d of the id list from type parameter #%d (%s)", f.Name, k, ei, m.ExprString(e)))
					}
				}
				if len(cl.Elts) != arity {
					problems++
					c.Violation("C14/R1", f.Name+": id list length", c.At(cl.Pos()), fmt.Sprintf("%s builds an id list of %d elements for %d type parameters", f.Name, len(cl.Elts), arity))
				}
				return true
			})
		}
		// (b) coverage: a function that assigns one member of a field family assigns all indices < arity
		families := map[string]map[int]bool{}
		core.InspectNoLits(f.Body, func(n ast.Node) bool {
			record := func(name string) {
				if base, li := letterIndex(name); li >= 0 {
					if families[base] == nil {
						families[base] = map[int]bool{}
					}
					families[base][li] = true
				}
			}
			switch x := n.(type) {
			case *ast.AssignStmt:
				for _, l := range x.Lhs {
					switch y := ast.Unparen(l).(type) {
					case *ast.SelectorExpr:
						if fld := m.FieldOf(y); fld != nil && genFamilyRe.MatchString(ownerOf(m.FieldKey(fld))) {
							record(fld.Name())
						}
					case *ast.Ident:
						if x.Tok.String() == ":=" {
							record(y.Name)
						}
					}
				}
			case *ast.KeyValueExpr:
				if id, ok := x.Key.(*ast.Ident); ok {
					record(id.Name)
				}
			}
			return true
		})
		for base, set := range families {
			checked++
			if len(set) != arity {
				var have []int
				for k := range set {
					have = append(have, k)
				}
				sort.Ints(have)
				problems++
				c.Violation("C14/R1", fmt.Sprintf("%s: family %s", f.Name, base), c.At(f.Pos()), fmt.Sprintf("%s assigns %s for parameters %v but the type has %d parameters; the others keep stale values", f.Name, base, have, arity))
			}
		}
		if checked > 0 && problems == 0 {
			c.OK("C14/R1", f.Name, c.At(f.Pos()), fmt.Sprintf("%d conversions/assignments/families consistent with the type-parameter order", checked))
		}
	}
}

// c14r2: delegation passes the whole id list.
func c14r2(c *core.Ctx) {
	m := c.M
	a := GetAnchors(c)
	opsF, _ := internalOps(c, a)
	internal := map[string]bool{}
	for f := range opsF {
		internal[f.Name] = true
	}
	// package-level helpers that forward an id list to an internal operation (removeBatch)
	for _, f := range m.Funcs {
		if f.Recv != "" || f.Sig == nil {
			continue
		}
		core.InspectNoLits(f.Body, func(n ast.Node) bool {
			if call, ok := n.(*ast.CallExpr); ok {
				if k, cal, _ := m.Callee(call); k == core.CallStatic && opsF[cal] {
					for _, arg := range call.Args {
						if id, ok := ast.Unparen(arg).(*ast.Ident); ok {
							if v, ok := m.Info.ObjectOf(id).(*types.Var); ok {
								if _, isP := paramIndexOf(f, v); isP {
									if sl, ok := v.Type().(*types.Slice); ok && core.NamedName(sl.Elem()) == "ID" {
										internal[f.Name] = true
									}
								}
							}
						}
					}
				}
			}
			return true
		})
	}
	for _, f := range m.AllFuncs() {
		recv := f.Recv
		_, arity, ok := genFamily(recv)
		if !ok && recv != "Map" {
			continue
		}
		_ = arity
		core.InspectNoLits(f.Body, func(n ast.Node) bool {
			call, isCall := n.(*ast.CallExpr)
			if !isCall {
				return true
			}
			k, cal, _ := m.Callee(call)
			if k != core.CallStatic || !internal[cal.Name] {
				return true
			}
			for i, arg := range call.Args {
				if i >= cal.Sig.Params().Len() {
					break
				}
				pt := cal.Sig.Params().At(i).Type()
				sl, isSl := pt.(*types.Slice)
				if !isSl || core.NamedName(sl.Elem()) != "ID" {
					continue
				}
				pname := cal.Sig.Params().At(i).Name()
				s := m.ExprString(arg)
				subject := fmt.Sprintf("%s: %s(%s: %s)", f.Name, cal.Name, pname, s)
				okArg := false
				// an id-list parameter of an unexported helper of the typed object: judged by what its callers pass
				if id, isID := ast.Unparen(arg).(*ast.Ident); isID {
					if pv, isVar := m.Info.ObjectOf(id).(*types.Var); isVar {
						if _, isP := paramIndexOf(f, pv); isP && f.Obj != nil && !f.Obj.Exported() {
							acts := actualsOf(m, f, pv)
							all := len(acts) > 0
							for _, a := range acts {
								as := m.ExprString(a.expr)
								if as != "nil" && ownIDList(m, a.caller, a.expr) == "" {
									all = false
								}
								// list and parameter kind must match
								if as != "nil" {
									isRemoveField := ownIDList(m, a.caller, a.expr) == "remove"
									isRemovePar := idListIsRemove(m, cal, i, pname)
									if isRemoveField != isRemovePar {
										all = false
									}
								}
							}
							if all {
								c.OK("C14/R2", subject, c.At(call.Pos()), "helper parameter: every caller passes nil or the typed object's own list of the matching kind")
								continue
							}
						}
					}
				}
				switch {
				case s == "nil":
					okArg = true
				case ownIDList(m, f, arg) != "":
					okArg = true
				default:
					// m.ids[:] for the array-backed single-component mapper
					if se, ok := ast.Unparen(arg).(*ast.SliceExpr); ok && se.Low == nil && se.High == nil && fieldKeyOf(m, se.X) == recv+".ids" {
						okArg = true
					}
				}
				// the id list must go to the add/ids parameter, the remove list to the remove parameter
				if okArg && s != "nil" {
					isRemoveField := ownIDList(m, f, arg) == "remove"
					isRemovePar := idListIsRemove(m, cal, i, pname)
					onlyIDParam := 0
					for pi := 0; pi < cal.Sig.Params().Len(); pi++ {
						if sl2, ok := cal.Sig.Params().At(pi).Type().(*types.Slice); ok && core.NamedName(sl2.Elem()) == "ID" {
							onlyIDParam++
						}
					}
					if onlyIDParam == 1 && (isRemovePar || (pname == "ids" && strings.Contains(strings.ToLower(cal.Name), "remove"))) {
						// a pure removal: Map removes its own ids; Exchange removes its remove list
						okArg = strings.HasPrefix(recv, "Exchange") == isRemoveField
					} else if isRemoveField != isRemovePar {
						okArg = false
					}
				}
				if okArg {
					c.OK("C14/R2", subject, c.At(call.Pos()), "the whole id list of the typed object is handed to the shared internal operation")
				} else {
					c.Violation("C14/R2", subject, c.At(call.Pos()), fmt.Sprintf("%s passes %s as %s of %s; the typed variant would operate on a different component list than the ID-based call with the same components", f.Name, s, pname, cal.Name))
				}
			}
			return true
		})
	}
}

var letterTok = regexp.MustCompile(`\b([a-z][A-Za-z]*?)([A-L])\b`)
var digitTok = regexp.MustCompile(`\b(Map|Filter|Query|Exchange|Observer|Observe|NewMap|NewFilter|NewExchange)[0-9]+\b`)
var typeList = regexp.MustCompile(`\[[A-L](, [A-L])*\]`)
var idxTok = regexp.MustCompile(`\[(1?[0-9])\]`)

// skeleton normalises a statement: per-parameter tokens are collapsed so that arities compare equal.
// skeletonRaw switches the resolution of naming locals off (the arity-0 comparison matches single statements of
// differently built functions and works on the text as written).
var skeletonRaw bool

func skeleton(m *core.Model, s ast.Stmt) string {
	if !skeletonRaw {
		s = resolveLocals(m, s)
	}
	str := printNode(m.Prog.Fset, s)
	str = typeList.ReplaceAllString(str, "[T]")
	str = digitTok.ReplaceAllString(str, "${1}N")
	str = letterTok.ReplaceAllString(str, "${1}T")
	str = regexp.MustCompile(`\*[A-L]\b`).ReplaceAllString(str, "*T")
	str = regexp.MustCompile(`\b[a-l] \*T`).ReplaceAllString(str, "x *T")
	str = regexp.MustCompile(`\*p[a-l] = \*[a-l]\b`).ReplaceAllString(str, "*px = *x")
	str = regexp.MustCompile(` = \*[a-l]$`).ReplaceAllString(str, " = *x")
	str = regexp.MustCompile(`\bp[a-l] \*T`).ReplaceAllString(str, "px *T")
	str = idxTok.ReplaceAllString(str, "[K]")
	str = regexp.MustCompile(`(\*T, )+\*T`).ReplaceAllString(str, "*T")
	str = regexp.MustCompile(`(x \*T, )+x \*T`).ReplaceAllString(str, "x *T")
	str = regexp.MustCompile(`(px \*T, )+px \*T`).ReplaceAllString(str, "px *T")
	str = regexp.MustCompile(`make\(\[\]\*componentStorage, [0-9]+\)`).ReplaceAllString(str, "make([]*componentStorage, N)")
	str = regexp.MustCompile(`make\(\[\]Comp, 0, [0-9]+\)`).ReplaceAllString(str, "make([]Comp, 0, N)")
	// the printer spaces binary operators by nesting depth and line breaks; that is not part of the skeleton
	str = regexp.MustCompile(`[ \t]*([*/%+-])[ \t]*`).ReplaceAllString(str, "$1")
	return collapseTokens(str)
}

// namesOnly: s is `a, b := e1, e2` (or a var declaration) all of whose variables merely name a pure expression.
func namesOnly(m *core.Model, s ast.Stmt) bool {
	var ids []*ast.Ident
	switch x := s.(type) {
	case *ast.AssignStmt:
		if x.Tok != token.DEFINE || len(x.Lhs) != len(x.Rhs) {
			return false
		}
		for _, l := range x.Lhs {
			id, ok := l.(*ast.Ident)
			if !ok {
				return false
			}
			ids = append(ids, id)
		}
	default:
		return false
	}
	for _, id := range ids {
		v, ok := m.Info.Defs[id].(*types.Var)
		if !ok || m.LocalDef(v) == nil {
			return false
		}
	}
	return len(ids) > 0
}

// resolveLocals returns s with naming locals replaced by what they name in its expressions (the statement kinds that
// occur in the generated families; others are returned as they are).
func resolveLocals(m *core.Model, s ast.Stmt) ast.Stmt {
	in := func(es []ast.Expr) []ast.Expr {
		out := make([]ast.Expr, len(es))
		for i, e := range es {
			out[i] = m.InlineLocals(e)
		}
		return out
	}
	switch x := s.(type) {
	case *ast.ExprStmt:
		return &ast.ExprStmt{X: m.InlineLocals(x.X)}
	case *ast.ReturnStmt:
		return &ast.ReturnStmt{Results: in(x.Results)}
	case *ast.AssignStmt:
		lhs := x.Lhs
		if x.Tok != token.DEFINE {
			lhs = in(x.Lhs)
		}
		return &ast.AssignStmt{Lhs: lhs, Tok: x.Tok, Rhs: in(x.Rhs)}
	}
	return s
}

// flatten lists the simple statements of a body in order, with a prefix marking the control structure.
func flattenStmts(m *core.Model, list []ast.Stmt, prefix string, out *[]string) {
	for _, s := range list {
		switch x := s.(type) {
		case *ast.IfStmt:
			*out = append(*out, prefix+"if "+skeleton(m, &ast.ExprStmt{X: x.Cond}))
			flattenStmts(m, x.Body.List, prefix+"  ", out)
			switch e := x.Else.(type) {
			case *ast.BlockStmt:
				*out = append(*out, prefix+"else")
				flattenStmts(m, e.List, prefix+"  ", out)
			case *ast.IfStmt:
				*out = append(*out, prefix+"else")
				flattenStmts(m, []ast.Stmt{e}, prefix+"  ", out)
			}
		case *ast.ForStmt:
			h := "for"
			if x.Cond != nil {
				h += " " + skeleton(m, &ast.ExprStmt{X: x.Cond})
			}
			*out = append(*out, prefix+h)
			flattenStmts(m, x.Body.List, prefix+"  ", out)
		case *ast.RangeStmt:
			*out = append(*out, prefix+"range "+skeleton(m, &ast.ExprStmt{X: x.X}))
			flattenStmts(m, x.Body.List, prefix+"  ", out)
		case *ast.BlockStmt:
			flattenStmts(m, x.List, prefix, out)
		default:
			// a statement that only introduces locals naming an expression is not part of the skeleton: the uses
			// are rendered with the expression (so that one arity may keep such a local and another not)
			if !skeletonRaw && namesOnly(m, s) {
				continue
			}
			// function literals inside the statement: flatten their bodies too
			var lits []*ast.FuncLit
			ast.Inspect(s, func(n ast.Node) bool {
				if fl, ok := n.(*ast.FuncLit); ok {
					lits = append(lits, fl)
					return false
				}
				return true
			})
			if len(lits) == 0 {
				*out = append(*out, prefix+skeleton(m, s))
			} else {
				*out = append(*out, prefix+"stmt-with-literal")
				for _, fl := range lits {
					flattenStmts(m, fl.Body.List, prefix+"  λ ", out)
				}
			}
		}
	}
}

// collapse removes tandem repeats (of any period) from a sequence: a b c b c d -> a b c d.
func collapse(lines []string) []string {
	eq := func(a, b string) bool { return strings.TrimRight(a, ",") == strings.TrimRight(b, ",") }
	for changed := true; changed; {
		changed = false
		for p := 1; p <= len(lines)/2 && !changed; p++ {
			for i := 0; i+2*p <= len(lines); i++ {
				same := true
				for j := 0; j < p; j++ {
					if !eq(lines[i+j], lines[i+p+j]) {
						same = false
						break
					}
				}
				if same {
					lines = append(append([]string{}, lines[:i+p]...), lines[i+2*p:]...)
					changed = true
					break
				}
			}
		}
	}
	return lines
}

// collapseTokens collapses tandem repeats inside one statement string.
func collapseTokens(s string) string {
	// brackets and commas are tokens of their own, so that repeated arguments collapse like repeated statements:
	// append(xs, f(), f()) has the skeleton of append(xs, f())
	var b strings.Builder
	for _, r := range s {
		switch r {
		case '(', ')', '{', '}':
			b.WriteRune(' ')
			b.WriteRune(r)
			b.WriteRune(' ')
		case ',':
			b.WriteRune(' ')
		default:
			b.WriteRune(r)
		}
	}
	var toks []string
	for _, t := range strings.Fields(b.String()) {
		if t == "&&" || t == "||" {
			continue // conjunctions/disjunctions over all parameters: x != nil && x != nil, x == nil || x == nil
		}
		toks = append(toks, t)
	}
	return strings.Join(collapse(toks), " ")
}

func c14r3(c *core.Ctx) {
	m := c.M
	type key struct{ fam, method string }
	groups := map[key]map[int][]string{}
	rawGroups := map[key]map[int][]string{} // the same without resolution of naming locals
	pos := map[key]map[int]*core.Func{}
	add := func(fam string, arity int, method string, f *core.Func) {
		var lines, raw []string
		flattenStmts(m, f.Body.List, "", &lines)
		skeletonRaw = true
		flattenStmts(m, f.Body.List, "", &raw)
		skeletonRaw = false
		k := key{fam, method}
		if groups[k] == nil {
			groups[k] = map[int][]string{}
			rawGroups[k] = map[int][]string{}
			pos[k] = map[int]*core.Func{}
		}
		groups[k][arity] = collapse(lines)
		rawGroups[k][arity] = collapse(raw)
		pos[k][arity] = f
	}
	for _, f := range m.Funcs {
		if fam, arity, ok := genFamily(f.Recv); ok && f.Obj != nil {
			add(fam, arity, f.Obj.Name(), f)
			continue
		}
		if f.Recv == "" && f.Obj != nil {
			for _, p := range []string{"NewMap", "NewFilter", "NewExchange", "Observe"} {
				if strings.HasPrefix(f.Name, p) {
					if n, err := strconv.Atoi(strings.TrimPrefix(f.Name, p)); err == nil {
						add(p, n, "(constructor)", f)
					}
				}
			}
		}
	}
	var keys []key
	for k := range groups {
		keys = append(keys, k)
	}
	sort.Slice(keys, func(i, j int) bool {
		if keys[i].fam != keys[j].fam {
			return keys[i].fam < keys[j].fam
		}
		return keys[i].method < keys[j].method
	})
	for _, k := range keys {
		byArity := groups[k]
		var ars []int
		for a := range byArity {
			if a >= 1 {
				ars = append(ars, a)
			}
		}
		sort.Ints(ars)
		if len(ars) < 2 {
			continue
		}
		// majority skeleton among arities >= 1
		count := map[string][]int{}
		for _, a := range ars {
			s := strings.Join(byArity[a], "\n")
			count[s] = append(count[s], a)
		}
		best := ""
		for s, as := range count {
			if best == "" || len(as) > len(count[best]) || (len(as) == len(count[best]) && as[0] < count[best][0]) {
				best = s
			}
		}
		subject := fmt.Sprintf("%sN.%s", k.fam, k.method)
		if len(count) == 1 {
			c.OK("C14/R3", subject, c.At(pos[k][ars[0]].Pos()), fmt.Sprintf("identical statement skeleton across arities %v (%d statements)", ars, len(byArity[ars[0]])))
		} else {
			for s, as := range count {
				if s == best {
					continue
				}
				diff := firstDiff(strings.Split(best, "\n"), strings.Split(s, "\n"))
				c.Violation("C14/R3", fmt.Sprintf("%s arities %v", subject, as), c.At(pos[k][as[0]].Pos()), fmt.Sprintf("%s: arities %v differ from the other %d arities: %s", subject, as, len(count[best]), diff))
			}
		}
		// arity 0: its component-independent statements must occur, in order, in the others
		if z, ok := rawGroups[k][0]; ok {
			ref := rawGroups[k][count[best][0]]
			j := 0
			missing := ""
			for _, line := range z {
				if strings.Contains(line, actualFieldName(m, "Query0.hasRareComp")) || strings.Contains(line, "allArchetypes") || strings.Contains(line, "var archetypes") || strings.TrimSpace(line) == "else" || strings.Contains(line, "archetypes = ") || strings.Contains(strings.ReplaceAll(line, " ", ""), "[]ID{}") {
					continue // frozen: arity-0 specific choice of the archetype list / empty id list
				}
				found := false
				noT := func(x string) string { return strings.ReplaceAll(strings.TrimSpace(x), "[T]", "") }
				for jj := j; jj < len(ref); jj++ {
					if noT(ref[jj]) == noT(line) {
						j = jj + 1
						found = true
						break
					}
				}
				if !found {
					missing = line
					break
				}
			}
			s0 := fmt.Sprintf("%s0.%s vs %sN", k.fam, k.method, k.fam)
			if missing == "" {
				c.OK("C14/R3", s0, c.At(pos[k][0].Pos()), "every component-independent statement of the arity-0 variant occurs in the same order in the other arities")
			} else {
				c.Violation("C14/R3", s0, c.At(pos[k][ars[0]].Pos()), fmt.Sprintf("%s: statement `%s` of the arity-0 variant has no counterpart in arities %v; the variants would behave differently", subject, strings.TrimSpace(missing), count[best]))
			}
		}
	}
}

func firstDiff(a, b []string) string {
	for i := 0; i < len(a) || i < len(b); i++ {
		var x, y string
		if i < len(a) {
			x = strings.TrimSpace(a[i])
		}
		if i < len(b) {
			y = strings.TrimSpace(b[i])
		}
		if x != y {
			return fmt.Sprintf("statement %d is `%.80s` there but `%.80s` here", i+1, x, y)
		}
	}
	return "same length, no difference found"
}

func c14r4(c *core.Ctx) {
	m := c.M
	want := map[string][2]int{"Map": {1, 12}, "Filter": {0, 8}, "Query": {0, 8}, "Exchange": {1, 8}, "Observer": {1, 4}}
	have := map[string]map[int]bool{}
	sc := m.Prog.Ecs.Types.Scope()
	for _, name := range sc.Names() {
		if fam, n, ok := genFamily(name); ok {
			if have[fam] == nil {
				have[fam] = map[int]bool{}
			}
			have[fam][n] = true
		}
	}
	var fams []string
	for f := range want {
		fams = append(fams, f)
	}
	sort.Strings(fams)
	for _, fam := range fams {
		r := want[fam]
		okAll := true
		for n := r[0]; n <= r[1]; n++ {
			if !have[fam][n] {
				okAll = false
			}
		}
		if len(have[fam]) != r[1]-r[0]+1 {
			okAll = false
		}
		subject := fmt.Sprintf("%s%d..%d", fam, r[0], r[1])
		if okAll {
			c.OK("C14/R4", subject, "", "exactly the documented arities exist")
		} else {
			var hs []int
			for n := range have[fam] {
				hs = append(hs, n)
			}
			sort.Ints(hs)
			c.Violation("C14/R4", subject, "", fmt.Sprintf("the generated %s arities are %v, documented are %d..%d", fam, hs, r[0], r[1]))
		}
	}
}

// c14r5: relation arguments are inputs. A list of Relation values handed in by the caller (a parameter or receiver
// whose type is a slice of Relation) is never written through: resolving `Rel[C]` to a component id happens on a copy.
// A relation list is world-independent; caching the id looked up in one world inside the caller's list makes a later
// use of the same list with another world (or registry order) address a different component.
func c14r5(c *core.Ctx) {
	m := c.M
	isRelList := func(t types.Type) bool {
		sl, ok := t.Underlying().(*types.Slice)
		return ok && core.NamedName(sl.Elem()) == "Relation"
	}
	n := 0
	for _, f := range m.Funcs {
		if f.Sig == nil {
			continue
		}
		var lists []int
		if rv := f.Sig.Recv(); rv != nil && isRelList(rv.Type()) {
			lists = append(lists, -1)
		}
		for i := 0; i < f.Sig.Params().Len(); i++ {
			if isRelList(f.Sig.Params().At(i).Type()) {
				lists = append(lists, i)
			}
		}
		if len(lists) == 0 {
			continue
		}
		n++
		bad := ""
		for _, s := range c.Eff.Stores(f) {
			if s.Path.Kind != core.RootParam || !s.Path.Deref {
				continue
			}
			for _, li := range lists {
				if s.Path.Index != li {
					continue
				}
				for _, k := range s.Path.Keys {
					if ownerOf(k) == "Relation" {
						via := ""
						if len(s.Via) > 0 {
							via = " through " + strings.Join(s.Via, " -> ")
						}
						bad = fmt.Sprintf("%s writes %s of an element of the caller's relation list%s at %s", f.Name, k, via, c.At(s.Node.Pos()))
					}
				}
			}
		}
		subject := f.Name + ": relation list argument"
		if bad == "" {
			c.OK("C14/R5", subject, c.At(f.Pos()), "the caller's relation list is only read")
		} else {
			c.Violation("C14/R5", subject, c.At(f.Pos()), bad+"; the looked-up component id would be cached in the caller's list and reused for a different world or registration order, where it names another component")
		}
	}
	if n == 0 {
		c.Undecide("C14/R5", "relation list parameters", "no function takes a list of Relation values")
	}
}

// retainsParamOf: the callee may keep the struct it receives for literal argument lit (stores the parameter, or a
// field of it, into a field, an element or a literal, returns it, or passes it on). Conservative: only a callee that
// merely reads the parameter's fields into calls and locals counts as not retaining.
func retainsParamOf(m *core.Model, cal *core.Func, call *ast.CallExpr, lit *ast.CompositeLit) bool {
	idx := -1
	for i, a := range call.Args {
		if a.Pos() <= lit.Pos() && lit.End() <= a.End() {
			idx = i
		}
	}
	if idx < 0 || cal.Sig == nil || idx >= cal.Sig.Params().Len() || cal.Sig.Variadic() {
		return true
	}
	p := cal.Sig.Params().At(idx)
	mentions := func(e ast.Expr) bool {
		found := false
		ast.Inspect(e, func(n ast.Node) bool {
			if id, ok := n.(*ast.Ident); ok && m.Info.ObjectOf(id) == types.Object(p) {
				found = true
			}
			return !found
		})
		return found
	}
	retains := false
	core.InspectNoLits(cal.Body, func(n ast.Node) bool {
		switch x := n.(type) {
		case *ast.AssignStmt:
			for i, l := range x.Lhs {
				if _, isIdent := ast.Unparen(l).(*ast.Ident); isIdent {
					continue
				}
				if i < len(x.Rhs) && mentions(x.Rhs[i]) {
					// storing a pointer-typed part of the parameter somewhere that outlives the call
					if t := m.Info.TypeOf(x.Rhs[i]); t != nil {
						switch t.Underlying().(type) {
						case *types.Pointer, *types.Struct, *types.Slice, *types.Map, *types.Interface:
							retains = true
						}
					}
				}
			}
		case *ast.ReturnStmt:
			for _, r := range x.Results {
				if mentions(r) {
					if t := m.Info.TypeOf(r); t != nil {
						switch t.Underlying().(type) {
						case *types.Pointer, *types.Struct, *types.Slice, *types.Map, *types.Interface:
							retains = true
						}
					}
				}
			}
		case *ast.KeyValueExpr:
			if mentions(x.Value) {
				retains = true
			}
		case *ast.CallExpr:
			// passing the bundle itself on: follow one level
			for j, a := range x.Args {
				if id := identOf(a); id != nil && m.Info.ObjectOf(id) == types.Object(p) {
					if _, c2, _ := m.Callee(x); c2 == nil || c2.Body == nil || c2 == cal {
						retains = true
					} else {
						_ = j
						retains = retains || retainsIdentParam(m, c2, j)
					}
				}
			}
		}
		return true
	})
	return retains
}

// retainsIdentParam: one more level of retainsParamOf for a parameter passed on unchanged.
func retainsIdentParam(m *core.Model, cal *core.Func, idx int) bool {
	if cal.Sig == nil || idx >= cal.Sig.Params().Len() {
		return true
	}
	p := cal.Sig.Params().At(idx)
	retains := false
	core.InspectNoLits(cal.Body, func(n ast.Node) bool {
		switch x := n.(type) {
		case *ast.AssignStmt:
			for i, l := range x.Lhs {
				if _, isIdent := ast.Unparen(l).(*ast.Ident); isIdent || i >= len(x.Rhs) {
					continue
				}
				ast.Inspect(x.Rhs[i], func(y ast.Node) bool {
					if id, ok := y.(*ast.Ident); ok && m.Info.ObjectOf(id) == types.Object(p) {
						if t := m.Info.TypeOf(x.Rhs[i]); t != nil {
							switch t.Underlying().(type) {
							case *types.Pointer, *types.Struct, *types.Slice, *types.Map, *types.Interface:
								retains = true
							}
						}
					}
					return true
				})
			}
		case *ast.ReturnStmt, *ast.KeyValueExpr:
			ast.Inspect(n, func(y ast.Node) bool {
				if id, ok := y.(*ast.Ident); ok && m.Info.ObjectOf(id) == types.Object(p) {
					retains = true
				}
				return true
			})
		case *ast.CallExpr:
			for _, a := range x.Args {
				if id := identOf(a); id != nil && m.Info.ObjectOf(id) == types.Object(p) {
					retains = true
				}
			}
		}
		return true
	})
	return retains
}

// c14r6: typed mappers, filters, queries and observers keep pointers to elements of per-component slices of the
// storage (`&storage.components[id]`) for their whole life. Such a slice must never be reallocated: it is allocated
// once with the capacity of the component limit (the number of mask bits, which bounds the number of registered
// components) and only appended to. Otherwise the stored pointers dangle after the slice grows, and the typed API reads
// other columns than the ID-based API.
func c14r6(c *core.Ctx) {
	m := c.M
	// slice fields whose element addresses are stored into fields, elements or composite literals
	pinned := map[string]string{}
	addrOfElem := func(e ast.Expr) string {
		u, ok := ast.Unparen(e).(*ast.UnaryExpr)
		if !ok || u.Op != token.AND {
			return ""
		}
		ix, ok := ast.Unparen(u.X).(*ast.IndexExpr)
		if !ok {
			return ""
		}
		k := fieldKeyOf(m, ix.X)
		if k == "" {
			return ""
		}
		if fv := m.FieldByKey(k); fv != nil {
			if _, isSlice := fv.Type().Underlying().(*types.Slice); isSlice {
				return k
			}
		}
		return ""
	}
	for _, f := range m.AllFuncs() {
		// struct literals that are built only to be handed to a call (a bundle of arguments such as
		// cell{column: &t.columns[i], row: r}) live for the duration of that call and keep nothing
		transient := map[*ast.CompositeLit]bool{}
		core.InspectNoLits(f.Body, func(n ast.Node) bool {
			if call, ok := n.(*ast.CallExpr); ok && !m.IsBuiltin(call, "append") {
				for _, a := range call.Args {
					a = ast.Unparen(a)
					if u, ok := a.(*ast.UnaryExpr); ok && u.Op == token.AND {
						a = ast.Unparen(u.X)
					}
					if cl, ok := a.(*ast.CompositeLit); ok {
						if _, cal, _ := m.Callee(call); cal != nil && cal.Body != nil && !retainsParamOf(m, cal, call, cl) {
							transient[cl] = true
						}
					}
				}
			}
			return true
		})
		var lits []*ast.CompositeLit
		ast.Inspect(f.Body, func(n ast.Node) bool {
			if n == nil {
				return true
			}
			switch x := n.(type) {
			case *ast.FuncLit:
				return false
			case *ast.CompositeLit:
				lits = append(lits, x)
			case *ast.AssignStmt:
				if len(x.Lhs) != len(x.Rhs) {
					return true
				}
				for i, l := range x.Lhs {
					switch ast.Unparen(l).(type) {
					case *ast.IndexExpr, *ast.SelectorExpr:
						if k := addrOfElem(x.Rhs[i]); k != "" {
							pinned[k] = f.Name + " at " + c.At(x.Pos())
						}
					}
				}
			case *ast.KeyValueExpr:
				if k := addrOfElem(x.Value); k != "" {
					// the innermost literal that contains this element
					var owner *ast.CompositeLit
					for _, cl := range lits {
						if cl.Pos() <= x.Pos() && x.End() <= cl.End() {
							owner = cl
						}
					}
					if owner == nil || !transient[owner] {
						pinned[k] = f.Name + " at " + c.At(x.Pos())
					}
				}
			}
			return true
		})
	}
	if len(pinned) == 0 {
		c.Undecide("C14/R6", "element pointers", "no element address of a slice field is stored in a field, element or literal")
		return
	}
	// the component limit
	var limit constant.Value
	if obj, ok := m.Prog.Ecs.Types.Scope().Lookup("maskTotalBits").(*types.Const); ok {
		limit = obj.Val()
	}
	var keys []string
	for k := range pinned {
		keys = append(keys, k)
	}
	sort.Strings(keys)
	for _, k := range keys {
		subject := k + ": element pointers are kept (" + pinned[k] + ")"
		var allocs []ast.Expr
		var where []ast.Node
		for _, f := range m.AllFuncs() {
			core.InspectNoLits(f.Body, func(n ast.Node) bool {
				switch x := n.(type) {
				case *ast.KeyValueExpr:
					if litFieldKey(m, x) == k {
						allocs = append(allocs, x.Value)
						where = append(where, x)
					}
				case *ast.AssignStmt:
					if len(x.Lhs) == len(x.Rhs) {
						for i, l := range x.Lhs {
							if fieldKeyOf(m, l) == k {
								// appends to the slice itself are growth within the capacity, everything else is a (re)allocation
								if call, ok := ast.Unparen(x.Rhs[i]).(*ast.CallExpr); ok && m.IsBuiltin(call, "append") && len(call.Args) > 0 && fieldKeyOf(m, call.Args[0]) == k {
									continue
								}
								allocs = append(allocs, x.Rhs[i])
								where = append(where, x)
							}
						}
					}
				}
				return true
			})
		}
		if limit == nil {
			c.Undecide("C14/R6", subject, "the component limit constant was not found")
			continue
		}
		bad := ""
		for i, a := range allocs {
			okCap := false
			for _, e := range exprChainAny(m, a) {
				if call, ok := ast.Unparen(e).(*ast.CallExpr); ok && m.IsBuiltin(call, "make") && len(call.Args) == 3 {
					if tv, ok := m.Info.Types[call.Args[2]]; ok && tv.Value != nil && constant.Compare(tv.Value, token.GEQ, limit) {
						okCap = true
					}
				}
			}
			if !okCap {
				bad = fmt.Sprintf("%s is allocated at %s as %s, not with a constant capacity of at least the component limit (%s)", k, c.At(where[i].Pos()), m.ExprString(a), limit.String())
			}
		}
		switch {
		case len(allocs) == 0:
			c.Undecide("C14/R6", subject, "no allocation of the slice found")
		case bad != "":
			c.Violation("C14/R6", subject, c.At(where[0].Pos()), bad+"; registering more components reallocates it and the element pointers kept by mappers, filters, queries and observers dangle")
		default:
			c.OK("C14/R6", subject, c.At(where[0].Pos()), "allocated once with the capacity of the component limit; only appended to")
		}
	}
}

// exprChainAny returns e itself (helper for allocation expressions that need no function context).
func exprChainAny(m *core.Model, e ast.Expr) []ast.Expr { return []ast.Expr{m.StripConv(e)} }

// idListRole says what an id-list parameter of an internal operation is used for, from what is done with its
// elements: "remove" when the loop over it (in the function or in a callee it is handed to) clears bits of a mask,
// "add" when it sets them, "" when neither is seen.
// ownIDList classifies an argument as one of the typed object's own component-id lists: the expression (naming
// locals, accessors and a full re-slice resolved) is a chain of field selections rooted at the receiver of f - directly
// `m.ids`, or through fields that group or wrap it (`m.core.ids`, `ex.remove.ids`). It returns "remove" if a field
// named for the removal list is on the chain, "ids" if the chain ends in the id list, "" otherwise.
func ownIDList(m *core.Model, f *core.Func, e ast.Expr) string {
	x := ast.Unparen(m.Inline(m.StripConv(e)))
	if se, ok := x.(*ast.SliceExpr); ok && se.Low == nil && se.High == nil {
		x = ast.Unparen(m.Inline(se.X))
	}
	var names []string
	for {
		sel, ok := x.(*ast.SelectorExpr)
		if !ok {
			break
		}
		if m.FieldOf(sel) == nil {
			return ""
		}
		names = append(names, sel.Sel.Name)
		// (a renamed field is known by the name it is pinned under)
		if k := fieldKeyOf(m, sel); k != "" && strings.Contains(k, ".") {
			if pn := k[strings.IndexByte(k, '.')+1:]; pn != sel.Sel.Name {
				names[len(names)-1] = pn
			}
		}
		x = ast.Unparen(sel.X)
		if st, ok := x.(*ast.StarExpr); ok {
			x = ast.Unparen(st.X)
		}
	}
	id, ok := x.(*ast.Ident)
	if !ok || len(names) == 0 {
		return ""
	}
	owner := f
	for owner != nil && (owner.Sig == nil || owner.Sig.Recv() == nil) {
		owner = owner.Parent
	}
	if owner == nil || m.Info.ObjectOf(id) != types.Object(owner.Sig.Recv()) {
		return ""
	}
	for _, n := range names {
		if n == "remove" {
			return "remove"
		}
	}
	if names[0] == "ids" {
		return "ids"
	}
	return ""
}

func idListRole(m *core.Model, g *core.Func, i int, depth int) string {
	if g == nil || g.Body == nil || g.Sig == nil || i >= g.Sig.Params().Len() || depth > 4 {
		return ""
	}
	par := g.Sig.Params().At(i)
	isPar := func(e ast.Expr) bool {
		id := identOf(m.StripConv(e))
		return id != nil && m.Info.ObjectOf(id) == types.Object(par)
	}
	role := ""
	core.InspectNoLits(g.Body, func(n ast.Node) bool {
		if role != "" {
			return false
		}
		if rs, ok := n.(*ast.RangeStmt); ok && isPar(rs.X) {
			ast.Inspect(rs.Body, func(x ast.Node) bool {
				call, ok := x.(*ast.CallExpr)
				if !ok || role != "" {
					return true
				}
				if k, cal, _ := m.Callee(call); k == core.CallStatic && cal != nil && cal.Body != nil && strings.HasPrefix(cal.Recv, "bitMask") {
					ast.Inspect(cal.Body, func(y ast.Node) bool {
						if as, ok := y.(*ast.AssignStmt); ok {
							switch as.Tok {
							case token.AND_NOT_ASSIGN:
								role = "remove"
							case token.OR_ASSIGN:
								if role == "" {
									role = "add"
								}
							}
						}
						return true
					})
				}
				return true
			})
		}
		return true
	})
	if role != "" {
		return role
	}
	core.InspectNoLits(g.Body, func(n ast.Node) bool {
		if call, ok := n.(*ast.CallExpr); ok && role == "" {
			if k, cal, _ := m.Callee(call); k == core.CallStatic && cal != nil && cal != g {
				for j, a := range call.Args {
					if isPar(a) {
						if r := idListRole(m, cal, j, depth+1); r != "" {
							role = r
						}
					}
				}
			}
		}
		return true
	})
	return role
}

func idListIsRemove(m *core.Model, cal *core.Func, i int, pname string) bool {
	switch idListRole(m, cal, i, 0) {
	case "remove":
		return true
	case "add":
		return false
	}
	return pname == "rem" || pname == "remove"
}
