package rules

import (
	"fmt"
	"go/ast"
	"go/types"
	"sort"
	"strings"

	"golang.org/x/tools/go/cfg"

	"arkverif/checker/core"
)

// C18/R6: an id is not derived from a container's length after an element was removed from it.
//
// The registries keep parallel arrays indexed by component id, and "the last id" is len(container)-1. A roll-back
// that first lets a callee remove the last entry and only then computes len(container)-1 addresses the entry before
// it: the flags of a component that is still registered would be cleared. The rule follows, on every path of every
// function, which container fields have lost an element (a `delete` on the field, directly or in a callee), and
// reports an index expression of another field whose index is derived from the length of such a container read
// after the removal (directly, or through a local defined after it).
func c18r6(c *core.Ctx) {
	m := c.M
	n := 0
	lenOfField := func(e ast.Expr) []string {
		var keys []string
		ast.Inspect(e, func(x ast.Node) bool {
			if call, ok := x.(*ast.CallExpr); ok && m.IsBuiltin(call, "len") && len(call.Args) == 1 {
				if k := fieldKeyOf(m, call.Args[0]); k != "" {
					keys = append(keys, k)
				}
			}
			return true
		})
		return keys
	}
	for _, f := range m.AllFuncs() {
		// only functions in which some element removal is visible
		removes := false
		core.InspectNoLits(f.Body, func(x ast.Node) bool {
			switch x.(type) {
			case *ast.CallExpr, *ast.AssignStmt:
				for _, s := range c.Eff.StoresAt(f, x) {
					if s.Kind == core.StoreBuiltin {
						if oc, ok := s.Origin.(*ast.CallExpr); ok && m.IsBuiltin(oc, "delete") {
							removes = true
						}
					}
				}
			}
			return !removes
		})
		if !removes {
			continue
		}
		n++
		type state struct {
			shrunk string // ",key,key,"
			late   string // locals defined from a length read after the removal: ",name=key,"
		}
		reported := map[ast.Node]bool{}
		bad := false
		g := m.CFG(f)
		core.Forward(g, core.Flow[state]{
			Entry: state{},
			Join: func(a, b state) state {
				for _, k := range strings.Split(strings.Trim(b.shrunk, ","), ",") {
					if k != "" {
						a.shrunk = setAdd(a.shrunk, k)
					}
				}
				for _, k := range strings.Split(strings.Trim(b.late, ","), ",") {
					if k != "" {
						a.late = setAdd(a.late, k)
					}
				}
				return a
			},
			Equal: func(a, b state) bool { return a == b },
			Node: func(st state, _ *cfg.Block, nd ast.Node) state {
				var checkIndex func(y *ast.IndexExpr)
				checkIndex = func(y *ast.IndexExpr) {
					arrKey := fieldKeyOf(m, y.X)
					if arrKey == "" {
						return
					}
					var from []string
					for _, k := range lenOfField(y.Index) {
						if strings.Contains(st.shrunk, ","+k+",") && k != arrKey {
							from = append(from, k)
						}
					}
					ast.Inspect(y.Index, func(z ast.Node) bool {
						if id, ok := z.(*ast.Ident); ok {
							for _, ent := range strings.Split(strings.Trim(st.late, ","), ",") {
								if p := strings.SplitN(ent, "=", 2); len(p) == 2 && p[0] == id.Name && p[1] != arrKey {
									from = append(from, p[1])
								}
							}
						}
						return true
					})
					if len(from) > 0 && !reported[y] {
						reported[y] = true
						bad = true
						sort.Strings(from)
						c.Violation("C18/R6", fmt.Sprintf("%s: %s", f.Name, m.RawString(y)), c.At(y.Pos()), fmt.Sprintf("%s indexes %s with a value derived from len(%s) that is read after an element was removed from %s on this path; it addresses the entry before the removed one", f.Name, arrKey, from[0], from[0]))
					}
				}
				core.WalkEval(nd, func(x ast.Node, _ bool) {
					switch y := x.(type) {
					case *ast.IndexExpr:
						checkIndex(y)
					case *ast.IncDecStmt:
						ast.Inspect(y.X, func(z ast.Node) bool {
							if ix, ok := z.(*ast.IndexExpr); ok {
								checkIndex(ix)
							}
							return true
						})
					case *ast.AssignStmt:
						// element stores: the walker presents the operands of an indexed left-hand side, not the index
						// expression itself
						for _, l := range y.Lhs {
							ast.Inspect(l, func(z ast.Node) bool {
								if ix, ok := z.(*ast.IndexExpr); ok {
									checkIndex(ix)
								}
								return true
							})
						}
					}
					switch y := x.(type) {
					case *ast.AssignStmt:
						for i, l := range y.Lhs {
							id := identOf(l)
							if id == nil || i >= len(y.Rhs) || len(y.Lhs) != len(y.Rhs) {
								continue
							}
							if v, ok := m.Info.ObjectOf(id).(*types.Var); !ok || v.IsField() {
								continue
							}
							// (re)definition of a local: late iff its value reads the length of a shrunk container
							var keep []string
							for _, ent := range strings.Split(strings.Trim(st.late, ","), ",") {
								if ent != "" && !strings.HasPrefix(ent, id.Name+"=") {
									keep = append(keep, ent)
								}
							}
							st.late = ""
							for _, k := range keep {
								st.late = setAdd(st.late, k)
							}
							for _, k := range lenOfField(y.Rhs[i]) {
								if strings.Contains(st.shrunk, ","+k+",") {
									st.late = setAdd(st.late, id.Name+"="+k)
								}
							}
						}
					}
					switch x.(type) {
					case *ast.CallExpr, *ast.AssignStmt:
						for _, s := range c.Eff.StoresAt(f, x) {
							if s.Kind != core.StoreBuiltin {
								continue
							}
							if oc, ok := s.Origin.(*ast.CallExpr); ok && m.IsBuiltin(oc, "delete") {
								st.shrunk = setAdd(st.shrunk, s.Path.Last())
							}
						}
					}
				})
				return st
			},
		})
		if !bad {
			c.OK("C18/R6", f.Name, c.At(f.Pos()), "no index is derived from the length of a container after an element was removed from it")
		}
	}
	if n == 0 {
		c.Undecide("C18/R6", "removals", "no function in which an element is deleted from a container field")
	}
}
