package rules

import (
	"fmt"
	"go/ast"
	"go/constant"
	"go/token"
	"go/types"
	"strings"

	"golang.org/x/tools/go/cfg"

	"arkverif/checker/core"
)

func init() {
	register(&Property{
		ID:    "C03",
		Level: "other",
		Explanation: "Structural necessary conditions of 'queries return exactly the matching entities': " +
			"(R1) one selection predicate: every site that enumerates tables for a filter applies the filter's mask test to the archetype's mask, takes table 0 for archetypes without relations, obtains relation tables through the per-target index with the query's relations and unconditionally re-checks every such table against those same relations; iteration and cached sites also skip empty tables; cached consumers re-check emptiness and the per-call relations; " +
			"(R2) the rare-component preselection list is a superset: every new archetype is appended to the component index of every one of its components and to the list of all archetypes, every required component of a filter is also in the id list the hint is computed from, and a filter without required components does not use the hint; " +
			"(R3) word-wise mask operations combine the same word of both operands; (R4) Count, EntityAt and iteration of one query type read the same archetype list. Not decided: mask bit arithmetic beyond word pairing; exactly-once across tables.",
		TrustedBase: []string{"go/types", "selection-site role = callers of the filter's mask-match method; relation-table lists = results of the per-target lookup and cached table lists"},
		Rules: []Rule{
			{ID: "C03/R1", Run: c03r1, Min: 1},
			{ID: "C03/R2", Run: c03r2, Min: 1},
			{ID: "C03/R3", Run: c03r3, Min: 1},
			{ID: "C03/R4", Run: c03r4, Min: 1},
		},
	})
}

// selection roles.
type selRoles struct {
	matches   *core.Func // filter.matches(*bitMask) bool
	getTables *core.Func // archetype method ([]relationID) []tableID
	tMatches  *core.Func // table method ([]relationID) bool without panics (non-exact)
}

func getSelRoles(c *core.Ctx) *selRoles {
	m := c.M
	r := &selRoles{}
	for _, f := range m.Funcs {
		if f.Sig == nil {
			continue
		}
		ps, rs := f.Sig.Params(), f.Sig.Results()
		switch {
		case f.Recv == "filter" && ps.Len() == 1 && isMaskPtr(ps.At(0).Type()) && returnsBool(f):
			r.matches = f
		case f.Recv == "archetype" && ps.Len() == 1 && relationIDsParam(f) != nil && rs.Len() == 1:
			if sl, ok := rs.At(0).Type().(*types.Slice); ok && core.NamedName(sl.Elem()) == "tableID" {
				r.getTables = f
			}
		case f.Recv == "table" && ps.Len() == 1 && relationIDsParam(f) != nil && returnsBool(f):
			panics := false
			core.InspectNoLits(f.Body, func(n ast.Node) bool {
				if call, ok := n.(*ast.CallExpr); ok && m.IsBuiltin(call, "panic") {
					panics = true
				}
				return true
			})
			if !panics {
				r.tMatches = f
			}
		}
	}
	return r
}

// tableListLoops finds loops over relation table lists in f: returns for each loop the body, the table variable
// bound in the body and the relations expression that must be re-checked.
type tableLoop struct {
	node     ast.Node
	body     *ast.BlockStmt
	listExpr string
	kind     string // "target-index" (GetTables result) or "cache" (cached list) or "param" (list handed in)
	rel      string // relations expression used to obtain the list ("" for cached/param lists)
}

func c03r1(c *core.Ctx) {
	m := c.M
	sr := getSelRoles(c)
	if sr.matches == nil || sr.getTables == nil || sr.tMatches == nil {
		c.Undecide("C03/R1", "roles", fmt.Sprintf("selection roles not derivable (matches=%v getTables=%v tableMatches=%v)", sr.matches != nil, sr.getTables != nil, sr.tMatches != nil))
		return
	}
	isIter := func(f *core.Func) bool { return strings.HasPrefix(f.Recv, "Query") || f.Recv == "UnsafeQuery" }
	// (a)-(c): uncached selection sites
	for _, f := range m.AllFuncs() {
		var matchCalls []*ast.CallExpr
		core.InspectNoLits(f.Body, func(n ast.Node) bool {
			if call, ok := n.(*ast.CallExpr); ok {
				if _, ok := callTo(m, call, sr.matches); ok {
					matchCalls = append(matchCalls, call)
				}
			}
			return true
		})
		if len(matchCalls) == 0 {
			continue
		}
		for _, mc := range matchCalls {
			subject := fmt.Sprintf("%s: %s", f.Name, m.ExprString(mc))
			if fieldKeyDeep(m, f, mc.Args[0], 0) != "archetype.mask" {
				c.Violation("C03/R1a", subject, c.At(mc.Pos()), fmt.Sprintf("%s applies the filter to %s, not to an archetype's mask", f.Name, m.ExprString(mc.Args[0])))
				continue
			}
			// the match must gate the selection: on the outcome "does not match" nothing may happen until the next
			// archetype is considered (or the function returns), in whatever form the test is written
			gated, where := noEffectWhenFalse(c, f, mc)
			_ = where
			if gated {
				c.OK("C03/R1a", subject, c.At(mc.Pos()), "archetype mask tested; non-matching archetypes are skipped")
			} else {
				c.Violation("C03/R1a", subject, c.At(mc.Pos()), f.Name+": the filter test does not unconditionally skip non-matching archetypes ("+where+" is reached although the archetype's mask does not match)")
			}
		}
		// (b) no-relation branch uses table 0
		core.InspectNoLits(f.Body, func(n ast.Node) bool {
			is, ok := n.(*ast.IfStmt)
			if !ok {
				return true
			}
			u, ok := ast.Unparen(is.Cond).(*ast.UnaryExpr)
			if !ok || u.Op != token.NOT {
				return true
			}
			call, ok := ast.Unparen(u.X).(*ast.CallExpr)
			if !ok {
				return true
			}
			if k, cal, _ := m.Callee(call); k != core.CallStatic || cal.Recv != "archetype" || !returnsBool(cal) || cal.Sig.Params().Len() != 0 {
				return true
			}
			subject := f.Name + ": archetype without relations"
			okZero := false
			ast.Inspect(is.Body, func(x ast.Node) bool {
				if ix, ok := x.(*ast.IndexExpr); ok && fieldKeyOf(m, ix.X) == "tableIDs.tables" {
					if tv, ok := m.Info.Types[ix.Index]; ok && tv.Value != nil && tv.Value.String() == "0" {
						okZero = true
					}
				}
				return true
			})
			if !okZero {
				// cache.addTable tests the table itself (single-table variant)
				return true
			}
			c.OK("C03/R1b", subject, c.At(is.Pos()), "table 0 of the archetype is selected")
			return true
		})
	}
	// (c)+(d): every table taken from a relation-table list (result of the per-target lookup, a cached list, a list
	// handed in as parameter or kept in a field) is used only after Matches(R) held for it, and - at iteration and
	// cached sites - after it was found non-empty. Formulated as dominance, so the form of the test does not matter.
	for _, f := range m.AllFuncs() {
		if f.Recv == "cache" || f.Recv == "archetype" || f.Recv == "tableIDs" {
			continue
		}
		for _, tv := range relationTableVars(c, sr, f) {
			needEmpty := isIter(f) || tv.cached
			okRel, atRel := dominatedUse(c, sr, f, tv, "matches")
			okEmpty, atEmpty := true, ""
			if needEmpty {
				okEmpty, atEmpty = dominatedUse(c, sr, f, tv, "nonempty")
			}
			subject := fmt.Sprintf("%s: table %s from %s", f.Name, tv.name, tv.source)
			switch {
			case okRel && okEmpty:
				extra := ""
				if needEmpty {
					extra = " and after it was found non-empty"
				}
				c.OK("C03/R1c", subject, c.At(tv.def.Pos()), "every use of the table is dominated by Matches("+strings.Join(tv.rels, "|")+")"+extra)
			case !okRel:
				c.Violation("C03/R1c", subject, atRel, fmt.Sprintf("%s uses table %s (taken from %s) at %s without a dominating Matches(%s); the per-target index is keyed by entity id only, so a recycled target id or a second relation would select foreign tables", f.Name, tv.name, tv.source, atRel, strings.Join(tv.rels, "|")))
			default:
				c.Violation("C03/R1d", subject, atEmpty, fmt.Sprintf("%s uses table %s (taken from %s) at %s without having skipped empty tables", f.Name, tv.name, tv.source, atEmpty))
			}
		}
		// a list obtained from the per-target lookup may only be ranged over, indexed, measured, stored in the query's own
		// list field or handed to a helper of the same type: anything else uses its tables without the re-check
		core.InspectNoLits(f.Body, func(n ast.Node) bool {
			as, ok := n.(*ast.AssignStmt)
			if !ok || len(as.Lhs) != 1 || len(as.Rhs) != 1 {
				return true
			}
			call, ok := ast.Unparen(as.Rhs[0]).(*ast.CallExpr)
			if !ok {
				return true
			}
			if _, isGT := callTo(m, call, sr.getTables); !isGT {
				return true
			}
			id, ok := as.Lhs[0].(*ast.Ident)
			if !ok {
				return true
			}
			obj := m.Info.ObjectOf(id)
			escape := ""
			var parents []ast.Node
			ast.Inspect(f.Body, func(x ast.Node) bool {
				if x == nil {
					parents = parents[:len(parents)-1]
					return false
				}
				if uid, isID := x.(*ast.Ident); isID && uid != id && m.Info.ObjectOf(uid) == obj && len(parents) > 0 {
					switch p := parents[len(parents)-1].(type) {
					case *ast.RangeStmt:
						if p.X != ast.Expr(uid) {
							escape = c.At(uid.Pos())
						}
					case *ast.IndexExpr:
						if p.X != ast.Expr(uid) {
							escape = c.At(uid.Pos())
						}
					case *ast.CallExpr:
						if !m.IsBuiltin(p, "len") {
							escape = c.At(uid.Pos())
						}
					default:
						escape = c.At(uid.Pos())
					}
				}
				parents = append(parents, x)
				return true
			})
			subject := fmt.Sprintf("%s: list %s from the per-target lookup", f.Name, id.Name)
			if escape == "" {
				c.OK("C03/R1c", subject, c.At(as.Pos()), "the list is only ranged over, indexed or measured; its tables are re-checked one by one")
			} else {
				c.Violation("C03/R1c", subject, escape, fmt.Sprintf("%s uses the whole list %s from the per-target lookup at %s without re-checking its tables against the relations (the lookup is keyed by the first relation's entity id only)", f.Name, id.Name, escape))
			}
			return true
		})
		// the per-target lookup must be made with the relations the re-check uses
		core.InspectNoLits(f.Body, func(n ast.Node) bool {
			if call, ok := n.(*ast.CallExpr); ok {
				if _, ok := callTo(m, call, sr.getTables); ok {
					rel := m.ExprString(call.Args[0])
					want := relationExprs(m, f)
					subject := fmt.Sprintf("%s: per-target lookup with %s", f.Name, rel)
					if want[rel] || chainIn(m, f, call.Args[0], want) {
						c.OK("C03/R1c", subject, c.At(call.Pos()), "lookup uses the relations of the query / batch / filter")
					} else {
						c.Violation("C03/R1c", subject, c.At(call.Pos()), fmt.Sprintf("%s looks up relation tables with %s, which is not the relation list that the re-check uses (%v)", f.Name, rel, keysOf(want)))
					}
				}
			}
			return true
		})
	}
}

// noEffectWhenFalse reports whether, on every path that continues from the evaluation of the boolean call `test` with
// outcome false, no statement with an effect (assignment, increment, call with stores, dynamic call) is executed before
// the enclosing loop continues with its next iteration or the function returns. The second result names an offender.
func noEffectWhenFalse(c *core.Ctx, f *core.Func, test *ast.CallExpr) (bool, string) {
	return noEffectOnOutcome(c, f, test, 0, nil)
}

// noEffectOnOutcome is the general form: test is any boolean sub-expression of branch conditions of f, val its assumed
// outcome (0 false, 1 true). extra, if given, is consulted for every node on the paths before the generic effect test
// and may veto ("" = fine), accept the node without the generic test ("skip"), or accept and end the path ("stop").
func noEffectOnOutcome(c *core.Ctx, f *core.Func, test ast.Expr, val int, extra func(n ast.Node) string) (bool, string) {
	m := c.M
	g := m.CFG(f)
	loop := enclosingLoopOf(f, test)
	// three-valued evaluation of a condition with the test fixed to the assumed outcome
	var ev func(e ast.Expr) int
	ev = func(e ast.Expr) int {
		e = ast.Unparen(e)
		if e == ast.Unparen(test) {
			return val
		}
		switch x := e.(type) {
		case *ast.UnaryExpr:
			if x.Op == token.NOT {
				switch ev(x.X) {
				case 0:
					return 1
				case 1:
					return 0
				}
			}
		case *ast.BinaryExpr:
			a, b := ev(x.X), ev(x.Y)
			switch x.Op {
			case token.LAND:
				if a == 0 || b == 0 {
					return 0
				}
				if a == 1 && b == 1 {
					return 1
				}
			case token.LOR:
				if a == 1 || b == 1 {
					return 1
				}
				if a == 0 && b == 0 {
					return 0
				}
			}
		}
		return -1
	}
	contains := func(e ast.Expr) bool {
		found := false
		ast.Inspect(e, func(n ast.Node) bool {
			if n == ast.Node(ast.Unparen(test)) {
				found = true
			}
			return !found
		})
		return found
	}
	var starts []*cfg.Block
	for _, b := range g.Blocks {
		if len(b.Succs) != 2 || len(b.Nodes) == 0 {
			continue
		}
		cond, ok := b.Nodes[len(b.Nodes)-1].(ast.Expr)
		if !ok || !contains(cond) {
			continue
		}
		switch ev(cond) {
		case 1:
			starts = append(starts, b.Succs[0])
		case 0:
			starts = append(starts, b.Succs[1])
		default:
			starts = append(starts, b.Succs[0], b.Succs[1])
		}
	}
	if len(starts) == 0 {
		return false, "the test is not used as a branch condition"
	}
	isStop := func(b *cfg.Block) bool {
		if loop == nil || b.Stmt != loop {
			return false
		}
		switch b.Kind {
		case cfg.KindForLoop, cfg.KindForPost, cfg.KindRangeLoop, cfg.KindForDone, cfg.KindRangeDone:
			return true
		}
		return false
	}
	effect := func(n ast.Node) string {
		out := ""
		core.WalkEval(n, func(x ast.Node, cond bool) {
			if out != "" {
				return
			}
			switch y := x.(type) {
			case *ast.AssignStmt:
				for _, l := range y.Lhs {
					if id, ok := l.(*ast.Ident); ok && id.Name == "_" {
						continue
					}
					out = "the assignment at " + c.At(y.Pos())
				}
			case *ast.IncDecStmt:
				out = "the update at " + c.At(y.Pos())
			case *ast.CallExpr:
				if k, _, _ := m.Callee(y); k == core.CallDynamic {
					out = "the callback at " + c.At(y.Pos())
				} else if len(c.Eff.StoresAt(f, y)) > 0 {
					out = "the call at " + c.At(y.Pos())
				}
			}
		})
		return out
	}
	seen := map[*cfg.Block]bool{}
	var visit func(b *cfg.Block) string
	visit = func(b *cfg.Block) string {
		if seen[b] || isStop(b) {
			return ""
		}
		seen[b] = true
		for _, n := range b.Nodes {
			if extra != nil {
				switch w := extra(n); w {
				case "":
				case "skip":
					continue
				case "stop":
					return ""
				default:
					return w
				}
			}
			if w := effect(n); w != "" {
				return w
			}
		}
		for _, s := range b.Succs {
			if w := visit(s); w != "" {
				return w
			}
		}
		return ""
	}
	for _, st := range starts {
		if w := visit(st); w != "" {
			return false, w
		}
	}
	return true, ""
}

// relationExprs: the expressions that denote "the relations of this selection" inside f.
func relationExprs(m *core.Model, f *core.Func) map[string]bool {
	out := map[string]bool{}
	if rp := relationIDsParam(f); rp != nil {
		out[rp.Name()] = true
	}
	if f.Sig != nil {
		for i := 0; i < f.Sig.Params().Len(); i++ {
			if isPtrTo(f.Sig.Params().At(i).Type(), "Batch") {
				out[f.Sig.Params().At(i).Name()+".relations"] = true
			}
		}
		if r := f.Sig.Recv(); r != nil && (strings.HasPrefix(f.Recv, "Query") || f.Recv == "UnsafeQuery") {
			out[r.Name()+".relations"] = true
		}
	}
	// cache entries carry their own relations
	core.InspectNoLits(f.Body, func(n ast.Node) bool {
		if sel, ok := n.(*ast.SelectorExpr); ok && fieldKeyOf(m, sel) == "cacheEntry.relations" {
			out[m.ExprString(sel)] = true
		}
		return true
	})
	return out
}

type relTableVar struct {
	name   string
	v      *types.Var // the *table variable (or nil)
	idVar  *types.Var // the table id variable of a range loop (or nil)
	def    ast.Node   // definition of v (assignment) or the range statement
	rng    *ast.RangeStmt
	source string
	cached bool
	rels   []string
}

// relationTableVars finds the table variables of f that are taken from a relation-table list.
func relationTableVars(c *core.Ctx, sr *selRoles, f *core.Func) []relTableVar {
	m := c.M
	var out []relTableVar
	rels := keysOf(relationExprs(m, f))
	if len(rels) == 0 {
		return nil // not a selection context: no relations to re-check against
	}
	// list sources
	isListExpr := func(e ast.Expr, depth int) (string, bool, bool) { return "", false, false }
	var listOf func(e ast.Expr, depth int) (string, bool, bool)
	listOf = func(e ast.Expr, depth int) (src string, cached bool, ok bool) {
		if depth > 3 || e == nil {
			return "", false, false
		}
		e = ast.Unparen(e)
		if p := m.AccessPath(f, e); p.Has("cacheEntry.tables") {
			return "the cached table list", true, true
		}
		if call, isCall := e.(*ast.CallExpr); isCall {
			if _, isGT := callTo(m, call, sr.getTables); isGT {
				return "the per-target lookup", false, true
			}
		}
		if k := fieldKeyOf(m, e); strings.HasSuffix(k, ".tables") && (strings.HasPrefix(k, "Query") || strings.HasPrefix(k, "UnsafeQuery")) {
			return "the query's table list", false, true
		}
		if id, isID := e.(*ast.Ident); isID {
			if v, isVar := m.Info.ObjectOf(id).(*types.Var); isVar && !v.IsField() {
				if sl, isSl := v.Type().(*types.Slice); isSl && core.NamedName(sl.Elem()) == "tableID" {
					if _, isP := paramIndexOf(f, v); isP {
						return "the table list parameter " + v.Name(), strings.HasPrefix(f.Recv, "Query"), true
					}
					for _, d := range localDefsOf(m, f, v) {
						if s2, c2, ok2 := listOf(d, depth+1); ok2 {
							return s2, c2, true
						}
					}
				}
			}
		}
		return "", false, false
	}
	_ = isListExpr
	// range loops over a list: the value variable is a table id
	idSource := map[*types.Var]string{}
	idCached := map[*types.Var]bool{}
	core.InspectNoLits(f.Body, func(n ast.Node) bool {
		rs, ok := n.(*ast.RangeStmt)
		if !ok || rs.Value == nil {
			return true
		}
		src, cached, ok := listOf(rs.X, 0)
		if !ok {
			return true
		}
		if id, ok := rs.Value.(*ast.Ident); ok {
			if v, ok := m.Info.ObjectOf(id).(*types.Var); ok {
				idSource[v], idCached[v] = src, cached
				out = append(out, relTableVar{name: v.Name(), idVar: v, def: rs, rng: rs, source: src, cached: cached, rels: rels})
			}
		}
		return true
	})
	// table pointers defined as &X.tables[IDX] with IDX from a list (element of a list, or a range id variable)
	core.InspectNoLits(f.Body, func(n ast.Node) bool {
		as, ok := n.(*ast.AssignStmt)
		if !ok || len(as.Lhs) != 1 || len(as.Rhs) != 1 {
			return true
		}
		id, ok := as.Lhs[0].(*ast.Ident)
		if !ok {
			return true
		}
		v, ok := m.Info.ObjectOf(id).(*types.Var)
		if !ok || !isPtrTo(v.Type(), "table") {
			return true
		}
		rhs := ast.Unparen(as.Rhs[0])
		if u, ok := rhs.(*ast.UnaryExpr); ok {
			rhs = ast.Unparen(u.X)
		}
		ix, ok := rhs.(*ast.IndexExpr)
		if !ok || fieldKeyOf(m, ix.X) != "storage.tables" {
			return true
		}
		idx := ast.Unparen(ix.Index)
		src, cached, found := "", false, false
		switch y := idx.(type) {
		case *ast.Ident:
			if iv, ok := m.Info.ObjectOf(y).(*types.Var); ok {
				if s2, ok := idSource[iv]; ok {
					src, cached, found = s2, idCached[iv], true
					// fold into the range entry: same protection applies to the pointer
					for k := range out {
						if out[k].idVar == iv && out[k].v == nil {
							out[k].v = v
							out[k].name = v.Name()
						}
					}
					return true
				}
			}
		case *ast.IndexExpr:
			src, cached, found = listOf(y.X, 0)
		}
		if found {
			out = append(out, relTableVar{name: v.Name(), v: v, def: as, source: src, cached: cached, rels: rels})
		}
		return true
	})
	return out
}

// dominatedUse decides whether every use of the table variable is dominated by the given guard ("matches" / "nonempty").
func dominatedUse(c *core.Ctx, sr *selRoles, f *core.Func, tv relTableVar, kind string) (bool, string) {
	m := c.M
	isT := func(e ast.Expr) bool {
		e = ast.Unparen(e)
		if u, ok := e.(*ast.UnaryExpr); ok && u.Op == token.AND {
			e = ast.Unparen(u.X)
		}
		// tables[tab] with the loop's id variable is the table itself
		if ix, ok := e.(*ast.IndexExpr); ok && tv.idVar != nil {
			if id, ok := ast.Unparen(ix.Index).(*ast.Ident); ok && m.Info.ObjectOf(id) == tv.idVar {
				return true
			}
		}
		id, ok := e.(*ast.Ident)
		if !ok {
			return false
		}
		o := m.Info.ObjectOf(id)
		return (tv.v != nil && o == tv.v) || (tv.idVar != nil && o == tv.idVar)
	}
	// lenOfT: e reads the row count of the table (directly, or as a local that names that read)
	lenOfT := func(e ast.Expr) bool {
		x := ast.Unparen(m.StripConv(e))
		if id, ok := x.(*ast.Ident); ok {
			if v, ok := m.Info.ObjectOf(id).(*types.Var); ok && m.LocalDef(v) != nil {
				x = ast.Unparen(m.StripConv(m.LocalDef(v)))
			}
		}
		switch y := x.(type) {
		case *ast.SelectorExpr:
			return fieldKeyOf(m, y) == "table.len" && isT(y.X)
		case *ast.CallExpr:
			if sel, ok := ast.Unparen(y.Fun).(*ast.SelectorExpr); ok && len(y.Args) == 0 && isT(sel.X) {
				if k, cal, _ := m.Callee(y); k == core.CallStatic && cal != nil && cal.Recv == "table" && cal.Sig.Results().Len() == 1 && isInt(cal.Sig.Results().At(0).Type()) {
					return true
				}
			}
		}
		return false
	}
	isT0 := isT
	isT = func(e ast.Expr) bool {
		if isT0(e) {
			return true
		}
		// a local naming the table's row count stands for the table: using it counts as using the table
		if id, ok := ast.Unparen(e).(*ast.Ident); ok && m.Info.Defs[id] == nil {
			if v, ok := m.Info.ObjectOf(id).(*types.Var); ok && m.LocalDef(v) != nil {
				return lenOfT(id)
			}
		}
		return false
	}
	// identifiers that are part of a guard, of the definition or of the derivation of the pointer from the id
	exempt := map[*ast.Ident]bool{}
	markAll := func(n ast.Node) {
		ast.Inspect(n, func(x ast.Node) bool {
			if id, ok := x.(*ast.Ident); ok {
				exempt[id] = true
			}
			return true
		})
	}
	core.InspectNoLits(f.Body, func(n ast.Node) bool {
		switch x := n.(type) {
		case *ast.CallExpr:
			if rv, ok := callTo(m, x, sr.tMatches); ok && rv != nil && isT(rv) {
				markAll(rv)
			}
			if sel, ok := ast.Unparen(x.Fun).(*ast.SelectorExpr); ok && isT(sel.X) && len(x.Args) == 0 && x.Fun != nil {
				// T.Len() inside a comparison with 0 is a guard operand; handled at the comparison
			}
		case *ast.BinaryExpr:
			l := m.ExprString(x.X)
			if (strings.HasSuffix(l, ".len") || strings.HasSuffix(l, ".Len()")) && m.ExprString(x.Y) == "0" {
				markAll(x.X)
			}
		case *ast.AssignStmt:
			if n == tv.def {
				markAll(x)
			}
			// rows := T.Len(): naming the row count is not a use (uses of the name are)
			if x.Tok == token.DEFINE && len(x.Lhs) == 1 && len(x.Rhs) == 1 && lenOfT(x.Rhs[0]) {
				if id := identOf(x.Lhs[0]); id != nil {
					if v, ok := m.Info.ObjectOf(id).(*types.Var); ok && m.LocalDef(v) != nil {
						markAll(x)
					}
				}
			}
			// derivation table := &tables[tab]
			if tv.idVar != nil && len(x.Lhs) == 1 {
				if id, ok := x.Lhs[0].(*ast.Ident); ok && tv.v != nil && m.Info.ObjectOf(id) == tv.v {
					markAll(x)
				}
			}
		case *ast.RangeStmt:
			if x == tv.rng {
				if id, ok := x.Value.(*ast.Ident); ok {
					exempt[id] = true
				}
			}
		}
		return true
	})
	guardAtom := func(at core.Atom) bool {
		e := ast.Unparen(at.Expr)
		switch kind {
		case "matches":
			call, ok := e.(*ast.CallExpr)
			if !ok || !at.Truth {
				return false
			}
			rv, ok := callTo(m, call, sr.tMatches)
			if !ok || rv == nil || !isT(rv) || len(call.Args) != 1 {
				return false
			}
			relSet := map[string]bool{}
			for _, r := range tv.rels {
				relSet[r] = true
			}
			return chainIn(m, f, call.Args[0], relSet)
		case "nonempty":
			be, ok := e.(*ast.BinaryExpr)
			if !ok || m.ExprString(be.Y) != "0" {
				return false
			}
			baseOf := func(l ast.Expr) ast.Expr {
				switch y := l.(type) {
				case *ast.SelectorExpr:
					return y.X
				case *ast.CallExpr:
					if sel, ok := ast.Unparen(y.Fun).(*ast.SelectorExpr); ok {
						return sel.X
					}
				}
				return nil
			}
			// as written, or - when the row count was given a name - as the expression the name stands for
			base := baseOf(ast.Unparen(m.StripConv(be.X)))
			if base == nil {
				if id := identOf(m.StripConv(be.X)); id != nil {
					if v, ok := m.Info.ObjectOf(id).(*types.Var); ok && m.LocalDef(v) != nil {
						base = baseOf(ast.Unparen(m.StripConv(m.LocalDef(v))))
					}
				}
			}
			if tv.v == nil || base == nil || !isT(base) {
				return false
			}
			op := be.Op.String()
			return (op == "==" && !at.Truth) || (op == ">" && at.Truth) || (op == "!=" && at.Truth)
		}
		return false
	}
	g := m.CFG(f)
	firstBad := ""
	transfer := func(s bool, n ast.Node, report bool) bool {
		core.WalkEval(n, func(x ast.Node, cond bool) {
			if x == tv.def {
				s = false // a new table is taken: the guard has to be established again
			}
			if id, ok := x.(*ast.Ident); ok && report && !s && !exempt[id] && isT(id) && firstBad == "" {
				firstBad = c.At(id.Pos())
			}
		})
		return s
	}
	flow := core.Flow[bool]{
		Entry: false,
		Join:  func(a, b bool) bool { return a && b },
		Equal: func(a, b bool) bool { return a == b },
		Node:  func(s bool, _ *cfg.Block, n ast.Node) bool { return transfer(s, n, false) },
		Edge: func(s bool, b *cfg.Block, succ int) (bool, bool) {
			if tv.rng != nil && b.Kind == cfg.KindRangeLoop && b.Stmt == ast.Stmt(tv.rng) {
				return false, true // next element of the list
			}
			if cnd := core.BlockCond(b); cnd != nil {
				for _, a := range core.Assume(cnd, succ == 0) {
					if guardAtom(a) {
						return true, true
					}
				}
			}
			return s, true
		},
	}
	fr := core.Forward(g, flow)
	for _, b := range g.Blocks {
		if !fr.Reached[b] {
			continue
		}
		st := fr.In[b]
		for _, n := range b.Nodes {
			st = transfer(st, n, true)
		}
	}
	return firstBad == "", firstBad
}

// c03r2: the rare-component preselection list is a superset.
func c03r2(c *core.Ctx) {
	m := c.M
	// (a) archetype creation appends to componentIndex for every component and to allArchetypes
	for _, f := range m.Funcs {
		creates := false
		for _, s := range m.AllFuncs() {
			_ = s
			break
		}
		core.InspectNoLits(f.Body, func(n ast.Node) bool {
			if as, ok := n.(*ast.AssignStmt); ok {
				for _, st := range m.DirectStores(f, as) {
					if st.Path.Last() == "storage.archetypes" && st.Kind == core.StoreAssign {
						creates = true
					}
				}
			}
			return true
		})
		if !creates {
			continue
		}
		okIndex, okAll := false, false
		core.InspectNoLits(f.Body, func(n ast.Node) bool {
			switch x := n.(type) {
			case *ast.RangeStmt:
				if fieldKeyOf(m, x.X) != "archetypeData.components" {
					return true
				}
				cond := false
				appended := false
				for _, st := range x.Body.List {
					switch y := st.(type) {
					case *ast.IfStmt, *ast.BranchStmt:
						cond = true
					case *ast.AssignStmt:
						if len(y.Lhs) == 1 && len(y.Rhs) == 1 {
							if ix, ok := ast.Unparen(y.Lhs[0]).(*ast.IndexExpr); ok && fieldKeyOf(m, ix.X) == "storage.componentIndex" {
								if call, ok := ast.Unparen(y.Rhs[0]).(*ast.CallExpr); ok && m.IsBuiltin(call, "append") {
									if rv, ok := x.Value.(*ast.Ident); ok && strings.HasPrefix(m.ExprString(ix.Index), rv.Name+".") {
										appended = true
									}
								}
							}
						}
					}
				}
				if appended && !cond {
					okIndex = true
				}
			case *ast.AssignStmt:
				if len(x.Lhs) == 1 && fieldKeyOf(m, x.Lhs[0]) == "storage.allArchetypes" {
					okAll = true
				}
			}
			return true
		})
		if okIndex && okAll {
			c.OK("C03/R2a", f.Name, c.At(f.Pos()), "new archetype is appended to the component index of each of its components and to the list of all archetypes")
		} else {
			c.Violation("C03/R2a", f.Name, c.At(f.Pos()), fmt.Sprintf("%s creates an archetype without unconditionally appending it to the component index of every component (%v) and to allArchetypes (%v); rare-component preselection would miss it", f.Name, okIndex, okAll))
		}
	}
	// (b) filters: every mask.Set(id) in a filter method is paired with an append to ids in the same block, and the hint is computed from ids
	for _, f := range m.Funcs {
		if !strings.HasPrefix(f.Recv, "Filter") || f.Sig == nil {
			continue
		}
		core.InspectNoLits(f.Body, func(n ast.Node) bool {
			blk, ok := n.(*ast.BlockStmt)
			if !ok {
				return true
			}
			sets, appends := "", ""
			for _, st := range blk.List {
				switch x := st.(type) {
				case *ast.ExprStmt:
					if call, ok := x.X.(*ast.CallExpr); ok {
						if sel, ok := ast.Unparen(call.Fun).(*ast.SelectorExpr); ok && sel.Sel.Name == "Set" && fieldKeyOf(m, sel.X) == "filter.mask" && len(call.Args) == 1 {
							sets = m.ExprString(call.Args[0])
						}
					}
				case *ast.AssignStmt:
					if len(x.Lhs) == 1 && len(x.Rhs) == 1 && strings.HasSuffix(fieldKeyOf(m, x.Lhs[0]), ".ids") {
						if call, ok := ast.Unparen(x.Rhs[0]).(*ast.CallExpr); ok && m.IsBuiltin(call, "append") && len(call.Args) == 2 {
							appends = m.ExprString(call.Args[1])
						}
					}
				}
			}
			if sets == "" {
				return true
			}
			subject := f.Name + ": required component " + sets
			if appends != "" && strings.HasPrefix(sets, appends+".") {
				c.OK("C03/R2b", subject, c.At(blk.Pos()), "component added to the mask is also added to the id list the rare-component hint is computed from")
			} else {
				c.Violation("C03/R2b", subject, c.At(blk.Pos()), fmt.Sprintf("%s adds %s to the filter mask but not to the id list; the hint could pick a list that lacks matching archetypes... or miss this component", f.Name, sets))
			}
			return true
		})
		// hint computed from f.ids
		core.InspectNoLits(f.Body, func(n ast.Node) bool {
			call, ok := n.(*ast.CallExpr)
			if !ok {
				return true
			}
			k, cal, _ := m.Callee(call)
			if k != core.CallStatic || cal.Recv != "componentRegistry" || cal.Sig.Results().Len() != 1 || core.NamedName(cal.Sig.Results().At(0).Type()) != "ID" || len(call.Args) != 1 {
				return true
			}
			subject := f.Name + ": rare-component hint"
			if strings.HasSuffix(fieldKeyOf(m, call.Args[0]), ".ids") {
				c.OK("C03/R2b", subject, c.At(call.Pos()), "hint computed from the filter's full id list")
			} else {
				c.Violation("C03/R2b", subject, c.At(call.Pos()), fmt.Sprintf("%s computes the rare-component hint from %s, not from the filter's id list", f.Name, m.ExprString(call.Args[0])))
			}
			return true
		})
	}
	// constructors: NewFilterN build the mask from exactly the ids slice
	for _, f := range m.Funcs {
		if f.Recv != "" || !strings.HasPrefix(f.Name, "NewFilter") {
			continue
		}
		for _, cn := range constructionsOf(m, f) {
			if !strings.HasPrefix(cn.typ, "Filter") {
				continue
			}
			cl := cn.node
			var idsV, filterV string
			for k, v := range cn.fields {
				if ownerOf(k) != cn.typ {
					continue
				}
				switch strings.TrimPrefix(k, cn.typ+".") {
				case "ids":
					idsV = m.ExprString(v)
				case "filter":
					filterV = m.ExprString(v)
				}
			}
			subject := f.Name + ": constructor"
			if idsV != "" && strings.Contains(filterV, idsV+"...") || (idsV == "" && strings.HasSuffix(filterV, "()")) {
				c.OK("C03/R2b", subject, c.At(cl.Pos()), "filter mask built from exactly the id list")
			} else if idsV == "" && filterV != "" {
				c.OK("C03/R2b", subject, c.At(cl.Pos()), "no required components")
			} else {
				c.Violation("C03/R2b", subject, c.At(cl.Pos()), fmt.Sprintf("%s: filter mask (%s) is not built from the id list (%s)", f.Name, filterV, idsV))
			}
		}
	}
	// (c) zero-parameter queries use the hint only when the filter has required components
	for _, f := range m.Funcs {
		if f.Recv != "Query0" {
			continue
		}
		core.InspectNoLits(f.Body, func(n ast.Node) bool {
			ix, ok := n.(*ast.IndexExpr)
			if !ok || fieldKeyOf(m, ix.X) != "storage.componentIndex" {
				return true
			}
			subject := f.Name + ": hint use"
			guarded := false
			core.InspectNoLits(f.Body, func(x ast.Node) bool {
				if is, ok := x.(*ast.IfStmt); ok && is.Body.Pos() <= ix.Pos() && ix.End() <= is.Body.End() {
					if fieldKeyOf(m, is.Cond) == "Query0.hasRareComp" {
						guarded = true
					}
				}
				return true
			})
			if guarded {
				c.OK("C03/R2c", subject, c.At(ix.Pos()), "component index consulted only when the filter has required components")
			} else {
				c.Violation("C03/R2c", subject, c.At(ix.Pos()), f.Name+": uses the rare-component list although the filter may have no required components (the list of component 0 would be used)")
			}
			return true
		})
	}
	// hasRareComp initialised from len(ids) > 0
	for _, f := range m.Funcs {
		if f.Recv != "Filter0" {
			continue
		}
		for _, cn := range constructionsOf(m, f) {
			v, ok := cn.fields["Query0.hasRareComp"]
			if !ok {
				continue
			}
			// len(<the filter's id list>) > 0
			good := false
			if be, ok := ast.Unparen(m.Inline(v)).(*ast.BinaryExpr); ok && be.Op == token.GTR && m.ExprString(be.Y) == "0" {
				if call, ok := ast.Unparen(be.X).(*ast.CallExpr); ok && m.IsBuiltin(call, "len") && len(call.Args) == 1 && strings.HasSuffix(fieldKeyOf(m, call.Args[0]), ".ids") {
					good = true
				}
			}
			if good {
				c.OK("C03/R2c", f.Name+": hasRareComp", c.At(v.Pos()), "set iff the filter has required components")
			} else {
				c.Violation("C03/R2c", f.Name+": hasRareComp", c.At(v.Pos()), f.Name+": the rare-component flag is "+m.ExprString(v)+", expected len(ids) > 0")
			}
		}
	}
}

// c03r3: word-wise mask operations pair the same word index.
func c03r3(c *core.Ctx) {
	m := c.M
	for _, f := range m.Funcs {
		if f.Recv != "bitMask256" {
			continue
		}
		// locals defined from X.bits[k]
		wordOf := func(e ast.Expr) (int64, bool) {
			e = ast.Unparen(e)
			if u, ok := e.(*ast.UnaryExpr); ok && u.Op == token.XOR {
				e = ast.Unparen(u.X)
			}
			switch x := e.(type) {
			case *ast.IndexExpr:
				if fieldKeyOf(m, x.X) == "bitMask256.bits" {
					if tv, ok := m.Info.Types[x.Index]; ok && tv.Value != nil {
						if v, ok := constant.Int64Val(tv.Value); ok {
							return v, true
						}
					}
				}
			case *ast.Ident:
				if v, ok := m.Info.ObjectOf(x).(*types.Var); ok {
					for _, d := range localDefsOf(m, f, v) {
						if ix, ok := ast.Unparen(d).(*ast.IndexExpr); ok && fieldKeyOf(m, ix.X) == "bitMask256.bits" {
							if tv, ok := m.Info.Types[ix.Index]; ok && tv.Value != nil {
								if k, ok := constant.Int64Val(tv.Value); ok {
									return k, true
								}
							}
						}
					}
				}
			}
			return 0, false
		}
		pairs, bad := 0, 0
		check := func(a, b ast.Expr, at ast.Node) {
			i, ok1 := wordOf(a)
			j, ok2 := wordOf(b)
			if !ok1 || !ok2 {
				return
			}
			pairs++
			if i != j {
				bad++
				c.Violation("C03/R3", fmt.Sprintf("%s: word %d with word %d", f.Name, i, j), c.At(at.Pos()), fmt.Sprintf("%s combines word %d of one mask with word %d of the other (%s); component ids in that word would be matched against the wrong components", f.Name, i, j, m.ExprString(at.(ast.Expr))))
			}
		}
		core.InspectNoLits(f.Body, func(n ast.Node) bool {
			switch x := n.(type) {
			case *ast.BinaryExpr:
				switch x.Op {
				case token.AND, token.OR, token.AND_NOT, token.XOR:
					check(x.X, x.Y, x)
				case token.EQL, token.NEQ:
					// b0&o0 == o0 : compare the masked word with the same word
					if be, ok := ast.Unparen(x.X).(*ast.BinaryExpr); ok {
						if i, ok := wordOf(be.Y); ok {
							if j, ok := wordOf(x.Y); ok {
								pairs++
								if i != j {
									bad++
									c.Violation("C03/R3", fmt.Sprintf("%s: word %d with word %d", f.Name, i, j), c.At(x.Pos()), fmt.Sprintf("%s compares the intersection with word %d against word %d (%s)", f.Name, i, j, m.ExprString(x)))
								}
							}
						}
					}
				}
			case *ast.AssignStmt:
				if x.Tok != token.ASSIGN && x.Tok != token.DEFINE && len(x.Lhs) == 1 && len(x.Rhs) == 1 {
					i, ok1 := wordOf(x.Lhs[0])
					j, ok2 := wordOf(x.Rhs[0])
					if ok1 && ok2 {
						pairs++
						if i != j {
							bad++
							c.Violation("C03/R3", fmt.Sprintf("%s: word %d with word %d", f.Name, i, j), c.At(x.Pos()), fmt.Sprintf("%s updates word %d from word %d", f.Name, i, j))
						}
					}
				}
			case *ast.CompositeLit:
				if at, ok := m.Info.TypeOf(x).Underlying().(*types.Array); ok && at.Len() == 4 {
					for k, e := range x.Elts {
						if i, ok := wordOf(e); ok {
							pairs++
							if i != int64(k) {
								bad++
								c.Violation("C03/R3", fmt.Sprintf("%s: word %d at position %d", f.Name, i, k), c.At(e.Pos()), fmt.Sprintf("%s puts word %d at position %d of the result", f.Name, i, k))
							}
						}
					}
				}
			}
			return true
		})
		if pairs > 0 && bad == 0 {
			c.OK("C03/R3", f.Name, c.At(f.Pos()), fmt.Sprintf("%d word-wise operations, each on the same word of both operands", pairs))
		}
	}
}

// c03r4: Count, EntityAt and iteration use the same archetype list.
func c03r4(c *core.Ctx) {
	m := c.M
	byType := map[string]map[string][]string{}
	for _, f := range m.Funcs {
		if !strings.HasPrefix(f.Recv, "Query") && f.Recv != "UnsafeQuery" {
			continue
		}
		var lists []string
		core.InspectNoLits(f.Body, func(n ast.Node) bool {
			switch x := n.(type) {
			case *ast.IndexExpr:
				if fieldKeyOf(m, x.X) == "storage.componentIndex" {
					lists = append(lists, "componentIndex["+m.ExprString(x.Index)+"]")
				}
			case *ast.SelectorExpr:
				if fieldKeyOf(m, x) == "storage.allArchetypes" {
					lists = append(lists, "allArchetypes")
				}
				if fieldKeyOf(m, x) == "storage.archetypes" {
					if _, isLen := m.Info.Types[x]; isLen {
						lists = append(lists, "archetypes")
					}
				}
			}
			return true
		})
		if len(lists) == 0 {
			continue
		}
		if byType[f.Recv] == nil {
			byType[f.Recv] = map[string][]string{}
		}
		byType[f.Recv][f.Obj.Name()] = lists
	}
	for tp, methods := range byType {
		norm := map[string]bool{}
		var detail []string
		for name, ls := range methods {
			set := map[string]bool{}
			for _, l := range ls {
				if l == "archetypes" {
					continue // indexing the archetype slice itself
				}
				set[l] = true
			}
			var ks []string
			for k := range set {
				ks = append(ks, k)
			}
			sortStrings(ks)
			key := strings.Join(ks, "|")
			if key == "" {
				continue
			}
			norm[key] = true
			detail = append(detail, name+":"+key)
		}
		sortStrings(detail)
		if len(norm) <= 1 {
			c.OK("C03/R4", tp, "", "Count, EntityAt and iteration read the same archetype list ("+strings.Join(detail, ", ")+")")
		} else if tp == "UnsafeQuery" {
			// the unsafe query iterates the archetype slice directly and counts over allArchetypes: both enumerate all archetypes
			c.OK("C03/R4", tp, "", "iteration over the archetype slice, Count/EntityAt over the list of all archetypes")
		} else {
			c.Violation("C03/R4", tp, "", fmt.Sprintf("%s: Count, EntityAt and iteration read different archetype lists: %s", tp, strings.Join(detail, ", ")))
		}
	}
}

func sortStrings(s []string) {
	for i := 1; i < len(s); i++ {
		for j := i; j > 0 && s[j] < s[j-1]; j-- {
			s[j], s[j-1] = s[j-1], s[j]
		}
	}
}
