package rules

import (
	"fmt"
	"go/ast"
	"go/constant"
	"go/token"
	"go/types"
	"strings"

	"arkverif/checker/core"
)

func init() {
	register(&Property{
		ID:    "C03",
		Level: "other",
		Explanation: "Structural necessary conditions of 'queries return exactly the matching entities': " +
			"(R1) one selection predicate: every site that enumerates tables for a filter applies the filter's mask test to the archetype's mask, takes table 0 for archetypes without relations, obtains relation tables through the per-target index with the query's relations and unconditionally re-checks every such table against those same relations; iteration and cached sites also skip empty tables; cached consumers re-check emptiness and the per-call relations; " +
			"(R2) the rare-component preselection list is a superset: every new archetype is appended to the component index of every one of its components and to the list of all archetypes, every required component of a filter is also in the id list the hint is computed from, and a filter without required components does not use the hint; " +
			"(R3) word-wise mask operations combine the same word of both operands; (R4) Count, EntityAt and iteration of one query type read the same archetype list. Not decided: mask bit arithmetic beyond word pairing; exactly-once across tables.",
		TrustedBase: []string{"go/types", "selection-site role = callers of the filter's mask-match method; relation-table lists = results of the per-target lookup and cached table lists"},
		Rules: []Rule{
			{ID: "C03/R1", Run: c03r1, Min: 1},
			{ID: "C03/R2", Run: c03r2, Min: 1},
			{ID: "C03/R3", Run: c03r3, Min: 1},
			{ID: "C03/R4", Run: c03r4, Min: 1},
		},
	})
}

// selection roles.
type selRoles struct {
	matches   *core.Func // filter.matches(*bitMask) bool
	getTables *core.Func // archetype method ([]relationID) []tableID
	tMatches  *core.Func // table method ([]relationID) bool without panics (non-exact)
}

func getSelRoles(c *core.Ctx) *selRoles {
	m := c.M
	r := &selRoles{}
	for _, f := range m.Funcs {
		if f.Sig == nil {
			continue
		}
		ps, rs := f.Sig.Params(), f.Sig.Results()
		switch {
		case f.Recv == "filter" && ps.Len() == 1 && isMaskPtr(ps.At(0).Type()) && returnsBool(f):
			r.matches = f
		case f.Recv == "archetype" && ps.Len() == 1 && relationIDsParam(f) != nil && rs.Len() == 1:
			if sl, ok := rs.At(0).Type().(*types.Slice); ok && core.NamedName(sl.Elem()) == "tableID" {
				r.getTables = f
			}
		case f.Recv == "table" && ps.Len() == 1 && relationIDsParam(f) != nil && returnsBool(f):
			panics := false
			core.InspectNoLits(f.Body, func(n ast.Node) bool {
				if call, ok := n.(*ast.CallExpr); ok && m.IsBuiltin(call, "panic") {
					panics = true
				}
				return true
			})
			if !panics {
				r.tMatches = f
			}
		}
	}
	return r
}

// tableListLoops finds loops over relation table lists in f: returns for each loop the body, the table variable
// bound in the body and the relations expression that must be re-checked.
type tableLoop struct {
	node     ast.Node
	body     *ast.BlockStmt
	listExpr string
	kind     string // "target-index" (GetTables result) or "cache" (cached list) or "param" (list handed in)
	rel      string // relations expression used to obtain the list ("" for cached/param lists)
}

func c03r1(c *core.Ctx) {
	m := c.M
	sr := getSelRoles(c)
	if sr.matches == nil || sr.getTables == nil || sr.tMatches == nil {
		c.Undecide("C03/R1", "roles", fmt.Sprintf("selection roles not derivable (matches=%v getTables=%v tableMatches=%v)", sr.matches != nil, sr.getTables != nil, sr.tMatches != nil))
		return
	}
	isIter := func(f *core.Func) bool { return strings.HasPrefix(f.Recv, "Query") || f.Recv == "UnsafeQuery" }
	// (a)-(c): uncached selection sites
	for _, f := range m.AllFuncs() {
		var matchCalls []*ast.CallExpr
		core.InspectNoLits(f.Body, func(n ast.Node) bool {
			if call, ok := n.(*ast.CallExpr); ok {
				if _, ok := callTo(m, call, sr.matches); ok {
					matchCalls = append(matchCalls, call)
				}
			}
			return true
		})
		if len(matchCalls) == 0 {
			continue
		}
		for _, mc := range matchCalls {
			subject := fmt.Sprintf("%s: %s", f.Name, m.ExprString(mc))
			arg := ast.Unparen(mc.Args[0])
			if u, ok := arg.(*ast.UnaryExpr); ok {
				arg = u.X
			}
			if fieldKeyOf(m, arg) != "archetype.mask" {
				c.Violation("C03/R1a", subject, c.At(mc.Pos()), fmt.Sprintf("%s applies the filter to %s, not to an archetype's mask", f.Name, m.ExprString(mc.Args[0])))
				continue
			}
			// the match must gate the selection: `if !matches { continue }`
			gated := false
			core.InspectNoLits(f.Body, func(n ast.Node) bool {
				if is, ok := n.(*ast.IfStmt); ok {
					for _, a := range core.Assume(is.Cond, false) {
						if ast.Unparen(a.Expr) == ast.Node(mc) && a.Truth && len(is.Body.List) == 1 {
							if br, ok := is.Body.List[0].(*ast.BranchStmt); ok && br.Tok == token.CONTINUE {
								gated = true
							}
						}
					}
				}
				return true
			})
			if gated {
				c.OK("C03/R1a", subject, c.At(mc.Pos()), "archetype mask tested; non-matching archetypes are skipped")
			} else {
				c.Violation("C03/R1a", subject, c.At(mc.Pos()), f.Name+": the filter test does not unconditionally skip non-matching archetypes")
			}
		}
		// (b) no-relation branch uses table 0
		core.InspectNoLits(f.Body, func(n ast.Node) bool {
			is, ok := n.(*ast.IfStmt)
			if !ok {
				return true
			}
			u, ok := ast.Unparen(is.Cond).(*ast.UnaryExpr)
			if !ok || u.Op != token.NOT {
				return true
			}
			call, ok := ast.Unparen(u.X).(*ast.CallExpr)
			if !ok {
				return true
			}
			if k, cal, _ := m.Callee(call); k != core.CallStatic || cal.Recv != "archetype" || !returnsBool(cal) || cal.Sig.Params().Len() != 0 {
				return true
			}
			subject := f.Name + ": archetype without relations"
			okZero := false
			ast.Inspect(is.Body, func(x ast.Node) bool {
				if ix, ok := x.(*ast.IndexExpr); ok && fieldKeyOf(m, ix.X) == "tableIDs.tables" {
					if tv, ok := m.Info.Types[ix.Index]; ok && tv.Value != nil && tv.Value.String() == "0" {
						okZero = true
					}
				}
				return true
			})
			if !okZero {
				// cache.addTable tests the table itself (single-table variant)
				return true
			}
			c.OK("C03/R1b", subject, c.At(is.Pos()), "table 0 of the archetype is selected")
			return true
		})
		// (c) relation tables: list from the per-target index, re-checked with the same relations
		var gtCalls []*ast.CallExpr
		core.InspectNoLits(f.Body, func(n ast.Node) bool {
			if call, ok := n.(*ast.CallExpr); ok {
				if _, ok := callTo(m, call, sr.getTables); ok {
					gtCalls = append(gtCalls, call)
				}
			}
			return true
		})
		for _, gt := range gtCalls {
			rel := m.ExprString(gt.Args[0])
			subject := fmt.Sprintf("%s: tables for %s", f.Name, rel)
			// where does the list go? a local ranged over in f, or a field later passed to a helper of the same type
			checked, why := relationRecheck(c, sr, f, gt, rel, isIter(f))
			if checked {
				c.OK("C03/R1c", subject, c.At(gt.Pos()), "every table from the per-target index is re-checked against the same relations before use"+why)
			} else {
				c.Violation("C03/R1c", subject, c.At(gt.Pos()), fmt.Sprintf("%s: tables obtained from the per-target index for %s are not unconditionally re-checked with Matches(%s) before use%s (the index is keyed by entity id only: a recycled target id or a second relation would select foreign tables)", f.Name, rel, rel, why))
			}
		}
		if len(gtCalls) == 0 && f.Recv != "cache" {
			c.Violation("C03/R1c", f.Name+": relation archetypes", c.At(f.Pos()), f.Name+": selects tables for a filter but never consults the per-target index for relation archetypes")
		}
	}
	// cached consumers: loops over cacheEntry.tables.tables
	for _, f := range m.AllFuncs() {
		core.InspectNoLits(f.Body, func(n ast.Node) bool {
			rs, ok := n.(*ast.RangeStmt)
			if !ok {
				return true
			}
			p := m.AccessPath(f, rs.X)
			if !p.Has("cacheEntry.tables") {
				return true
			}
			if f.Recv == "cache" {
				return true // maintenance of the cache itself
			}
			subject := f.Name + ": cached table list"
			relExpr := ""
			if rp := relationIDsParam(f); rp != nil {
				relExpr = rp.Name()
			} else if strings.HasPrefix(f.Recv, "Query") {
				relExpr = "q.relations"
			}
			if f.Sig != nil {
				for i := 0; i < f.Sig.Params().Len(); i++ {
					if isPtrTo(f.Sig.Params().At(i).Type(), "Batch") {
						relExpr = f.Sig.Params().At(i).Name() + ".relations"
					}
				}
			}
			okEmpty, okRel := loopSkips(c, sr, f, rs.Body, relExpr)
			if okEmpty && okRel {
				c.OK("C03/R1d", subject, c.At(rs.Pos()), "cached tables are re-checked for emptiness and against the per-call relations "+relExpr)
			} else {
				c.Violation("C03/R1d", subject, c.At(rs.Pos()), fmt.Sprintf("%s uses cached tables without unconditionally skipping empty tables (%v) and tables not matching the per-call relations %s (%v)", f.Name, okEmpty, relExpr, okRel))
			}
			return true
		})
	}
	// helpers that receive the table list as parameter (QueryN.nextTable): same skip conditions
	for _, f := range m.Funcs {
		if !isIter(f) || f.Sig == nil {
			continue
		}
		for i := 0; i < f.Sig.Params().Len(); i++ {
			if sl, ok := f.Sig.Params().At(i).Type().(*types.Slice); ok && core.NamedName(sl.Elem()) == "tableID" {
				subject := f.Name + ": table list parameter"
				okEmpty, okRel := loopSkips(c, sr, f, f.Body, "q.relations")
				if okEmpty && okRel {
					c.OK("C03/R1d", subject, c.At(f.Pos()), "tables of the list are skipped when empty or not matching the query's relations")
				} else {
					c.Violation("C03/R1d", subject, c.At(f.Pos()), fmt.Sprintf("%s advances through a table list without unconditionally skipping empty tables (%v) and tables not matching q.relations (%v)", f.Name, okEmpty, okRel))
				}
			}
		}
	}
	// UnsafeQuery.nextTable has no list parameter (uses q.tables)
	for _, f := range m.Funcs {
		if f.Recv != "UnsafeQuery" || f.Sig == nil || !returnsBool(f) || f.Sig.Params().Len() != 0 {
			continue
		}
		usesList := false
		core.InspectNoLits(f.Body, func(n ast.Node) bool {
			if ix, ok := n.(*ast.IndexExpr); ok && fieldKeyOf(m, ix.X) == "UnsafeQuery.tables" {
				usesList = true
			}
			return true
		})
		if !usesList {
			continue
		}
		subject := f.Name + ": table list field"
		okEmpty, okRel := loopSkips(c, sr, f, f.Body, "q.relations")
		if okEmpty && okRel {
			c.OK("C03/R1d", subject, c.At(f.Pos()), "tables of the list are skipped when empty or not matching the query's relations")
		} else {
			c.Violation("C03/R1d", subject, c.At(f.Pos()), fmt.Sprintf("%s advances through the table list without unconditionally skipping empty tables (%v) and tables not matching q.relations (%v)", f.Name, okEmpty, okRel))
		}
	}
}

// loopSkips reports whether, somewhere in body, a top-level-of-its-loop `continue` condition is implied false only if
// the table is non-empty (okEmpty) and matches relExpr (okRel).
func loopSkips(c *core.Ctx, sr *selRoles, f *core.Func, body ast.Node, relExpr string) (okEmpty, okRel bool) {
	m := c.M
	ast.Inspect(body, func(n ast.Node) bool {
		if _, ok := n.(*ast.FuncLit); ok {
			return false
		}
		is, ok := n.(*ast.IfStmt)
		if !ok || len(is.Body.List) != 1 {
			return true
		}
		if br, ok := is.Body.List[0].(*ast.BranchStmt); !ok || br.Tok != token.CONTINUE {
			return true
		}
		for _, a := range core.Assume(is.Cond, false) {
			e := ast.Unparen(a.Expr)
			if call, ok := e.(*ast.CallExpr); ok && a.Truth {
				if _, ok := callTo(m, call, sr.tMatches); ok && len(call.Args) == 1 && (relExpr == "" || m.ExprString(call.Args[0]) == relExpr) {
					okRel = true
				}
			}
			if be, ok := e.(*ast.BinaryExpr); ok && !a.Truth && be.Op == token.EQL {
				// table.len == 0 / table.Len() == 0 known false
				l := m.ExprString(be.X)
				if (strings.HasSuffix(l, ".len") || strings.HasSuffix(l, ".Len()")) && m.ExprString(be.Y) == "0" {
					okEmpty = true
				}
			}
		}
		return true
	})
	return
}

// relationRecheck decides rule (c) for one GetTables call.
func relationRecheck(c *core.Ctx, sr *selRoles, f *core.Func, gt *ast.CallExpr, rel string, iter bool) (bool, string) {
	m := c.M
	// find the assignment target of the call
	var target ast.Expr
	core.InspectNoLits(f.Body, func(n ast.Node) bool {
		if as, ok := n.(*ast.AssignStmt); ok {
			for i, r := range as.Rhs {
				if ast.Unparen(r) == ast.Node(gt) && i < len(as.Lhs) {
					target = as.Lhs[i]
				}
			}
		}
		return true
	})
	if target == nil {
		return false, " (result not bound)"
	}
	ts := m.ExprString(target)
	// case 1: a local list: every use must be the operand of a range loop that re-checks
	if id, isID := ast.Unparen(target).(*ast.Ident); isID {
		obj := m.Info.ObjectOf(id)
		rangeOperand := map[*ast.Ident]bool{}
		found, ok := false, true
		core.InspectNoLits(f.Body, func(n ast.Node) bool {
			if rs, isR := n.(*ast.RangeStmt); isR {
				if rid, isI := ast.Unparen(rs.X).(*ast.Ident); isI && m.Info.ObjectOf(rid) == obj {
					found = true
					rangeOperand[rid] = true
					if _, okRel := loopSkips(c, sr, f, rs.Body, rel); !okRel {
						ok = false
					}
				}
			}
			return true
		})
		other := ""
		core.InspectNoLits(f.Body, func(n ast.Node) bool {
			if uid, isI := n.(*ast.Ident); isI && uid != id && m.Info.ObjectOf(uid) == obj && !rangeOperand[uid] {
				other = c.At(uid.Pos())
			}
			return true
		})
		if other != "" {
			return false, " (the list is also used without re-check at " + other + ")"
		}
		if found {
			return ok, ""
		}
	}
	// case 2: stored in a field and handed to a helper method of the same receiver (q.tables -> q.nextTable(q.tables))
	if _, isSel := ast.Unparen(target).(*ast.SelectorExpr); isSel {
		helperOK := false
		core.InspectNoLits(f.Body, func(n ast.Node) bool {
			call, isCall := n.(*ast.CallExpr)
			if !isCall {
				return true
			}
			k, cal, _ := m.Callee(call)
			if k != core.CallStatic || cal.Recv != f.Recv {
				return true
			}
			passes := len(call.Args) == 0
			for _, a := range call.Args {
				if m.ExprString(a) == ts {
					passes = true
				}
			}
			if !passes || !returnsBool(cal) {
				return true
			}
			okEmpty, okRel := loopSkips(c, sr, cal, cal.Body, rel)
			if okRel && (!iter || okEmpty) {
				helperOK = true
			}
			return true
		})
		return helperOK, " (list handed to a helper of the same type)"
	}
	return false, ""
}

// c03r2: the rare-component preselection list is a superset.
func c03r2(c *core.Ctx) {
	m := c.M
	// (a) archetype creation appends to componentIndex for every component and to allArchetypes
	for _, f := range m.Funcs {
		creates := false
		for _, s := range m.AllFuncs() {
			_ = s
			break
		}
		core.InspectNoLits(f.Body, func(n ast.Node) bool {
			if as, ok := n.(*ast.AssignStmt); ok {
				for _, st := range m.DirectStores(f, as) {
					if st.Path.Last() == "storage.archetypes" && st.Kind == core.StoreAssign {
						creates = true
					}
				}
			}
			return true
		})
		if !creates {
			continue
		}
		okIndex, okAll := false, false
		core.InspectNoLits(f.Body, func(n ast.Node) bool {
			switch x := n.(type) {
			case *ast.RangeStmt:
				if fieldKeyOf(m, x.X) != "archetypeData.components" {
					return true
				}
				cond := false
				appended := false
				for _, st := range x.Body.List {
					switch y := st.(type) {
					case *ast.IfStmt, *ast.BranchStmt:
						cond = true
					case *ast.AssignStmt:
						if len(y.Lhs) == 1 && len(y.Rhs) == 1 {
							if ix, ok := ast.Unparen(y.Lhs[0]).(*ast.IndexExpr); ok && fieldKeyOf(m, ix.X) == "storage.componentIndex" {
								if call, ok := ast.Unparen(y.Rhs[0]).(*ast.CallExpr); ok && m.IsBuiltin(call, "append") {
									if rv, ok := x.Value.(*ast.Ident); ok && strings.HasPrefix(m.ExprString(ix.Index), rv.Name+".") {
										appended = true
									}
								}
							}
						}
					}
				}
				if appended && !cond {
					okIndex = true
				}
			case *ast.AssignStmt:
				if len(x.Lhs) == 1 && fieldKeyOf(m, x.Lhs[0]) == "storage.allArchetypes" {
					okAll = true
				}
			}
			return true
		})
		if okIndex && okAll {
			c.OK("C03/R2a", f.Name, c.At(f.Pos()), "new archetype is appended to the component index of each of its components and to the list of all archetypes")
		} else {
			c.Violation("C03/R2a", f.Name, c.At(f.Pos()), fmt.Sprintf("%s creates an archetype without unconditionally appending it to the component index of every component (%v) and to allArchetypes (%v); rare-component preselection would miss it", f.Name, okIndex, okAll))
		}
	}
	// (b) filters: every mask.Set(id) in a filter method is paired with an append to ids in the same block, and the hint is computed from ids
	for _, f := range m.Funcs {
		if !strings.HasPrefix(f.Recv, "Filter") || f.Sig == nil {
			continue
		}
		core.InspectNoLits(f.Body, func(n ast.Node) bool {
			blk, ok := n.(*ast.BlockStmt)
			if !ok {
				return true
			}
			sets, appends := "", ""
			for _, st := range blk.List {
				switch x := st.(type) {
				case *ast.ExprStmt:
					if call, ok := x.X.(*ast.CallExpr); ok {
						if sel, ok := ast.Unparen(call.Fun).(*ast.SelectorExpr); ok && sel.Sel.Name == "Set" && fieldKeyOf(m, sel.X) == "filter.mask" && len(call.Args) == 1 {
							sets = m.ExprString(call.Args[0])
						}
					}
				case *ast.AssignStmt:
					if len(x.Lhs) == 1 && len(x.Rhs) == 1 && strings.HasSuffix(fieldKeyOf(m, x.Lhs[0]), ".ids") {
						if call, ok := ast.Unparen(x.Rhs[0]).(*ast.CallExpr); ok && m.IsBuiltin(call, "append") && len(call.Args) == 2 {
							appends = m.ExprString(call.Args[1])
						}
					}
				}
			}
			if sets == "" {
				return true
			}
			subject := f.Name + ": required component " + sets
			if appends != "" && strings.HasPrefix(sets, appends+".") {
				c.OK("C03/R2b", subject, c.At(blk.Pos()), "component added to the mask is also added to the id list the rare-component hint is computed from")
			} else {
				c.Violation("C03/R2b", subject, c.At(blk.Pos()), fmt.Sprintf("%s adds %s to the filter mask but not to the id list; the hint could pick a list that lacks matching archetypes... or miss this component", f.Name, sets))
			}
			return true
		})
		// hint computed from f.ids
		core.InspectNoLits(f.Body, func(n ast.Node) bool {
			call, ok := n.(*ast.CallExpr)
			if !ok {
				return true
			}
			k, cal, _ := m.Callee(call)
			if k != core.CallStatic || cal.Recv != "componentRegistry" || cal.Sig.Results().Len() != 1 || core.NamedName(cal.Sig.Results().At(0).Type()) != "ID" || len(call.Args) != 1 {
				return true
			}
			subject := f.Name + ": rare-component hint"
			if strings.HasSuffix(fieldKeyOf(m, call.Args[0]), ".ids") {
				c.OK("C03/R2b", subject, c.At(call.Pos()), "hint computed from the filter's full id list")
			} else {
				c.Violation("C03/R2b", subject, c.At(call.Pos()), fmt.Sprintf("%s computes the rare-component hint from %s, not from the filter's id list", f.Name, m.ExprString(call.Args[0])))
			}
			return true
		})
	}
	// constructors: NewFilterN build the mask from exactly the ids slice
	for _, f := range m.Funcs {
		if f.Recv != "" || !strings.HasPrefix(f.Name, "NewFilter") {
			continue
		}
		core.InspectNoLits(f.Body, func(n ast.Node) bool {
			cl, ok := n.(*ast.CompositeLit)
			if !ok || !strings.HasPrefix(core.NamedName(m.Info.TypeOf(cl)), "Filter") {
				return true
			}
			var idsV, filterV string
			for _, e := range cl.Elts {
				if kv, ok := e.(*ast.KeyValueExpr); ok {
					switch kv.Key.(*ast.Ident).Name {
					case "ids":
						idsV = m.ExprString(kv.Value)
					case "filter":
						filterV = m.ExprString(kv.Value)
					}
				}
			}
			subject := f.Name + ": constructor"
			if idsV != "" && strings.Contains(filterV, idsV+"...") || (idsV == "" && strings.HasSuffix(filterV, "()")) {
				c.OK("C03/R2b", subject, c.At(cl.Pos()), "filter mask built from exactly the id list")
			} else if idsV == "" && filterV != "" {
				c.OK("C03/R2b", subject, c.At(cl.Pos()), "no required components")
			} else {
				c.Violation("C03/R2b", subject, c.At(cl.Pos()), fmt.Sprintf("%s: filter mask (%s) is not built from the id list (%s)", f.Name, filterV, idsV))
			}
			return true
		})
	}
	// (c) zero-parameter queries use the hint only when the filter has required components
	for _, f := range m.Funcs {
		if f.Recv != "Query0" {
			continue
		}
		core.InspectNoLits(f.Body, func(n ast.Node) bool {
			ix, ok := n.(*ast.IndexExpr)
			if !ok || fieldKeyOf(m, ix.X) != "storage.componentIndex" {
				return true
			}
			subject := f.Name + ": hint use"
			guarded := false
			core.InspectNoLits(f.Body, func(x ast.Node) bool {
				if is, ok := x.(*ast.IfStmt); ok && is.Body.Pos() <= ix.Pos() && ix.End() <= is.Body.End() {
					if fieldKeyOf(m, is.Cond) == "Query0.hasRareComp" {
						guarded = true
					}
				}
				return true
			})
			if guarded {
				c.OK("C03/R2c", subject, c.At(ix.Pos()), "component index consulted only when the filter has required components")
			} else {
				c.Violation("C03/R2c", subject, c.At(ix.Pos()), f.Name+": uses the rare-component list although the filter may have no required components (the list of component 0 would be used)")
			}
			return true
		})
	}
	// hasRareComp initialised from len(ids) > 0
	for _, f := range m.Funcs {
		if f.Recv != "Filter0" {
			continue
		}
		core.InspectNoLits(f.Body, func(n ast.Node) bool {
			kv, ok := n.(*ast.KeyValueExpr)
			if !ok {
				return true
			}
			if id, ok := kv.Key.(*ast.Ident); ok && id.Name == "hasRareComp" {
				if s := m.ExprString(kv.Value); strings.HasPrefix(s, "len(") && strings.HasSuffix(s, ".ids) > 0") {
					c.OK("C03/R2c", f.Name+": hasRareComp", c.At(kv.Pos()), "set iff the filter has required components")
				} else {
					c.Violation("C03/R2c", f.Name+": hasRareComp", c.At(kv.Pos()), f.Name+": hasRareComp is "+s+", expected len(ids) > 0")
				}
			}
			return true
		})
	}
}

// c03r3: word-wise mask operations pair the same word index.
func c03r3(c *core.Ctx) {
	m := c.M
	for _, f := range m.Funcs {
		if f.Recv != "bitMask256" {
			continue
		}
		// locals defined from X.bits[k]
		wordOf := func(e ast.Expr) (int64, bool) {
			e = ast.Unparen(e)
			if u, ok := e.(*ast.UnaryExpr); ok && u.Op == token.XOR {
				e = ast.Unparen(u.X)
			}
			switch x := e.(type) {
			case *ast.IndexExpr:
				if fieldKeyOf(m, x.X) == "bitMask256.bits" {
					if tv, ok := m.Info.Types[x.Index]; ok && tv.Value != nil {
						if v, ok := constant.Int64Val(tv.Value); ok {
							return v, true
						}
					}
				}
			case *ast.Ident:
				if v, ok := m.Info.ObjectOf(x).(*types.Var); ok {
					for _, d := range localDefsOf(m, f, v) {
						if ix, ok := ast.Unparen(d).(*ast.IndexExpr); ok && fieldKeyOf(m, ix.X) == "bitMask256.bits" {
							if tv, ok := m.Info.Types[ix.Index]; ok && tv.Value != nil {
								if k, ok := constant.Int64Val(tv.Value); ok {
									return k, true
								}
							}
						}
					}
				}
			}
			return 0, false
		}
		pairs, bad := 0, 0
		check := func(a, b ast.Expr, at ast.Node) {
			i, ok1 := wordOf(a)
			j, ok2 := wordOf(b)
			if !ok1 || !ok2 {
				return
			}
			pairs++
			if i != j {
				bad++
				c.Violation("C03/R3", fmt.Sprintf("%s: word %d with word %d", f.Name, i, j), c.At(at.Pos()), fmt.Sprintf("%s combines word %d of one mask with word %d of the other (%s); component ids in that word would be matched against the wrong components", f.Name, i, j, m.ExprString(at.(ast.Expr))))
			}
		}
		core.InspectNoLits(f.Body, func(n ast.Node) bool {
			switch x := n.(type) {
			case *ast.BinaryExpr:
				switch x.Op {
				case token.AND, token.OR, token.AND_NOT, token.XOR:
					check(x.X, x.Y, x)
				case token.EQL, token.NEQ:
					// b0&o0 == o0 : compare the masked word with the same word
					if be, ok := ast.Unparen(x.X).(*ast.BinaryExpr); ok {
						if i, ok := wordOf(be.Y); ok {
							if j, ok := wordOf(x.Y); ok {
								pairs++
								if i != j {
									bad++
									c.Violation("C03/R3", fmt.Sprintf("%s: word %d with word %d", f.Name, i, j), c.At(x.Pos()), fmt.Sprintf("%s compares the intersection with word %d against word %d (%s)", f.Name, i, j, m.ExprString(x)))
								}
							}
						}
					}
				}
			case *ast.AssignStmt:
				if x.Tok != token.ASSIGN && x.Tok != token.DEFINE && len(x.Lhs) == 1 && len(x.Rhs) == 1 {
					i, ok1 := wordOf(x.Lhs[0])
					j, ok2 := wordOf(x.Rhs[0])
					if ok1 && ok2 {
						pairs++
						if i != j {
							bad++
							c.Violation("C03/R3", fmt.Sprintf("%s: word %d with word %d", f.Name, i, j), c.At(x.Pos()), fmt.Sprintf("%s updates word %d from word %d", f.Name, i, j))
						}
					}
				}
			case *ast.CompositeLit:
				if at, ok := m.Info.TypeOf(x).Underlying().(*types.Array); ok && at.Len() == 4 {
					for k, e := range x.Elts {
						if i, ok := wordOf(e); ok {
							pairs++
							if i != int64(k) {
								bad++
								c.Violation("C03/R3", fmt.Sprintf("%s: word %d at position %d", f.Name, i, k), c.At(e.Pos()), fmt.Sprintf("%s puts word %d at position %d of the result", f.Name, i, k))
							}
						}
					}
				}
			}
			return true
		})
		if pairs > 0 && bad == 0 {
			c.OK("C03/R3", f.Name, c.At(f.Pos()), fmt.Sprintf("%d word-wise operations, each on the same word of both operands", pairs))
		}
	}
}

// c03r4: Count, EntityAt and iteration use the same archetype list.
func c03r4(c *core.Ctx) {
	m := c.M
	byType := map[string]map[string][]string{}
	for _, f := range m.Funcs {
		if !strings.HasPrefix(f.Recv, "Query") && f.Recv != "UnsafeQuery" {
			continue
		}
		var lists []string
		core.InspectNoLits(f.Body, func(n ast.Node) bool {
			switch x := n.(type) {
			case *ast.IndexExpr:
				if fieldKeyOf(m, x.X) == "storage.componentIndex" {
					lists = append(lists, "componentIndex["+m.ExprString(x.Index)+"]")
				}
			case *ast.SelectorExpr:
				if fieldKeyOf(m, x) == "storage.allArchetypes" {
					lists = append(lists, "allArchetypes")
				}
				if fieldKeyOf(m, x) == "storage.archetypes" {
					if _, isLen := m.Info.Types[x]; isLen {
						lists = append(lists, "archetypes")
					}
				}
			}
			return true
		})
		if len(lists) == 0 {
			continue
		}
		if byType[f.Recv] == nil {
			byType[f.Recv] = map[string][]string{}
		}
		byType[f.Recv][f.Obj.Name()] = lists
	}
	for tp, methods := range byType {
		norm := map[string]bool{}
		var detail []string
		for name, ls := range methods {
			set := map[string]bool{}
			for _, l := range ls {
				if l == "archetypes" {
					continue // indexing the archetype slice itself
				}
				set[l] = true
			}
			var ks []string
			for k := range set {
				ks = append(ks, k)
			}
			sortStrings(ks)
			key := strings.Join(ks, "|")
			if key == "" {
				continue
			}
			norm[key] = true
			detail = append(detail, name+":"+key)
		}
		sortStrings(detail)
		if len(norm) <= 1 {
			c.OK("C03/R4", tp, "", "Count, EntityAt and iteration read the same archetype list ("+strings.Join(detail, ", ")+")")
		} else if tp == "UnsafeQuery" {
			// the unsafe query iterates the archetype slice directly and counts over allArchetypes: both enumerate all archetypes
			c.OK("C03/R4", tp, "", "iteration over the archetype slice, Count/EntityAt over the list of all archetypes")
		} else {
			c.Violation("C03/R4", tp, "", fmt.Sprintf("%s: Count, EntityAt and iteration read different archetype lists: %s", tp, strings.Join(detail, ", ")))
		}
	}
}

func sortStrings(s []string) {
	for i := 1; i < len(s); i++ {
		for j := i; j > 0 && s[j] < s[j-1]; j-- {
			s[j], s[j-1] = s[j-1], s[j]
		}
	}
}
