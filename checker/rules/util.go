package rules

import (
	"go/ast"
	"go/token"
	"go/types"
	"golang.org/x/tools/go/cfg"
	"sort"

	"arkverif/checker/core"
)

// valueChain returns the canonical strings that denote the value of e in f: the expression itself (conversions
// stripped) and, for single-definition locals, the chain of their defining expressions.
func valueChain(m *core.Model, f *core.Func, e ast.Expr, depth int) []string {
	e = m.StripConv(e)
	out := []string{m.ExprString(e)}
	if depth > 4 {
		return out
	}
	if id, ok := e.(*ast.Ident); ok {
		if v, ok := m.Info.ObjectOf(id).(*types.Var); ok && !v.IsField() {
			defs := localDefsOf(m, f, v)
			if len(defs) == 1 {
				out = append(out, valueChain(m, f, defs[0], depth+1)...)
			}
		}
	}
	return out
}

// sameValue reports whether a and b provably denote the same value in f (up to integer conversions and
// single-definition locals).
func sameValue(m *core.Model, f *core.Func, a, b ast.Expr) bool {
	ca, cb := valueChain(m, f, a, 0), valueChain(m, f, b, 0)
	for _, x := range ca {
		for _, y := range cb {
			if x == y {
				return true
			}
		}
	}
	return false
}

// actualsOf returns, for parameter v of f, the argument expressions at all static call sites of f together with the caller.
type actual struct {
	caller *core.Func
	expr   ast.Expr
	call   *ast.CallExpr
}

func actualsOf(m *core.Model, f *core.Func, v *types.Var) []actual {
	idx, ok := paramIndexOf(f, v)
	if !ok {
		return nil
	}
	var out []actual
	for _, cs := range m.CallSites() {
		if cs.Callee == f && idx < len(cs.Call.Args) {
			out = append(out, actual{cs.Caller, cs.Call.Args[idx], cs.Call})
		}
	}
	return out
}

// fieldKeyDeep is fieldKeyOf that looks through `&x`, single-definition locals and parameters (when all call sites agree).
func fieldKeyDeep(m *core.Model, f *core.Func, e ast.Expr, depth int) string {
	if e == nil || depth > 4 {
		return ""
	}
	e = ast.Unparen(e)
	if u, ok := e.(*ast.UnaryExpr); ok {
		e = ast.Unparen(u.X)
	}
	if k := fieldKeyOf(m, e); k != "" {
		return k
	}
	id, ok := e.(*ast.Ident)
	if !ok {
		return ""
	}
	v, ok := m.Info.ObjectOf(id).(*types.Var)
	if !ok || v.IsField() {
		return ""
	}
	if _, isP := paramIndexOf(f, v); isP {
		key := ""
		acts := actualsOf(m, f, v)
		for i, a := range acts {
			k := fieldKeyDeep(m, a.caller, a.expr, depth+1)
			if i == 0 {
				key = k
			} else if k != key {
				return ""
			}
		}
		return key
	}
	defs := localDefsOf(m, f, v)
	key := ""
	for i, d := range defs {
		k := fieldKeyDeep(m, f, d, depth+1)
		if i == 0 {
			key = k
		} else if k != key {
			return ""
		}
	}
	return key
}

// condDNF expands a boolean expression into disjunctive normal form over string atoms "expr=T" / "expr=F".
// Single-definition boolean locals are replaced by their definitions.
func condDNF(m *core.Model, f *core.Func, e ast.Expr, neg bool, depth int) [][]string {
	e = ast.Unparen(e)
	switch x := e.(type) {
	case *ast.UnaryExpr:
		if x.Op.String() == "!" {
			return condDNF(m, f, x.X, !neg, depth)
		}
	case *ast.BinaryExpr:
		op := x.Op.String()
		if op == "&&" || op == "||" {
			and := (op == "&&") != neg
			l, r := condDNF(m, f, x.X, neg, depth), condDNF(m, f, x.Y, neg, depth)
			if and {
				var out [][]string
				for _, a := range l {
					for _, b := range r {
						out = append(out, append(append([]string{}, a...), b...))
					}
				}
				return out
			}
			return append(l, r...)
		}
		// normalise negated comparisons
		if neg {
			flip := map[string]string{"==": "!=", "!=": "==", "<": ">=", ">=": "<", ">": "<=", "<=": ">"}
			if nop, ok := flip[op]; ok {
				return [][]string{{m.ExprString(x.X) + " " + nop + " " + m.ExprString(x.Y) + "=T"}}
			}
		}
	case *ast.Ident:
		if v, ok := m.Info.ObjectOf(x).(*types.Var); ok && !v.IsField() && depth < 3 {
			if defs := localDefsOf(m, f, v); len(defs) == 1 {
				return condDNF(m, f, defs[0], neg, depth+1)
			}
		}
	}
	t := "=T"
	if neg {
		t = "=F"
	}
	// a != b  ==  !(a == b)
	if be, ok := e.(*ast.BinaryExpr); ok && be.Op.String() == "!=" {
		if neg {
			return [][]string{{m.ExprString(be.X) + " == " + m.ExprString(be.Y) + "=T"}}
		}
		return [][]string{{m.ExprString(be.X) + " == " + m.ExprString(be.Y) + "=F"}}
	}
	return [][]string{{m.ExprString(e) + t}}
}

// pathConds returns, for each path through stmts that reaches a node satisfying target, the conjunction of atoms that
// holds on that path (conditions of enclosing and preceding ifs; early `continue`/`return` branches excluded).
func pathConds(m *core.Model, f *core.Func, stmts []ast.Stmt, target func(ast.Stmt) bool) [][]string {
	var out [][]string
	var walk func(list []ast.Stmt, conds [][]string)
	prod := func(a, b [][]string) [][]string {
		var r [][]string
		for _, x := range a {
			for _, y := range b {
				r = append(r, append(append([]string{}, x...), y...))
			}
		}
		return r
	}
	endsPath := func(list []ast.Stmt) bool {
		if len(list) == 0 {
			return false
		}
		switch l := list[len(list)-1].(type) {
		case *ast.ReturnStmt, *ast.BranchStmt:
			return true
		case *ast.ExprStmt:
			if call, ok := l.X.(*ast.CallExpr); ok && m.IsBuiltin(call, "panic") {
				return true
			}
		}
		return false
	}
	walk = func(list []ast.Stmt, conds [][]string) {
		for _, s := range list {
			if target(s) {
				out = append(out, conds...)
			}
			switch x := s.(type) {
			case *ast.IfStmt:
				tc := prod(conds, condDNF(m, f, x.Cond, false, 0))
				fc := prod(conds, condDNF(m, f, x.Cond, true, 0))
				walk(x.Body.List, tc)
				switch e := x.Else.(type) {
				case *ast.BlockStmt:
					walk(e.List, fc)
					if endsPath(x.Body.List) && !endsPath(e.List) {
						conds = fc
					} else if endsPath(e.List) && !endsPath(x.Body.List) {
						conds = tc
					}
				case *ast.IfStmt:
					walk([]ast.Stmt{e}, fc)
				case nil:
					if endsPath(x.Body.List) {
						conds = fc
					}
				}
			case *ast.BlockStmt:
				walk(x.List, conds)
			case *ast.ForStmt:
				walk(x.Body.List, conds)
			case *ast.RangeStmt:
				walk(x.Body.List, conds)
			}
		}
	}
	walk(stmts, [][]string{{}})
	return out
}

// normConj sorts and de-duplicates a conjunction and renders it.
func normConj(c []string) string {
	seen := map[string]bool{}
	var out []string
	for _, a := range c {
		if !seen[a] {
			seen[a] = true
			out = append(out, a)
		}
	}
	sortStrings(out)
	s := ""
	for i, a := range out {
		if i > 0 {
			s += " && "
		}
		s += a
	}
	return s
}

// tupleSource returns, for an identifier assigned from a multi-value call (a, b := f(...)), the call and the result position.
func tupleSource(m *core.Model, f *core.Func, e ast.Expr) (*ast.CallExpr, int) {
	want := m.ExprString(e)
	var call *ast.CallExpr
	pos := -1
	core.InspectNoLits(f.Body, func(n ast.Node) bool {
		as, ok := n.(*ast.AssignStmt)
		if !ok || len(as.Rhs) != 1 || len(as.Lhs) < 2 {
			return true
		}
		c, ok := ast.Unparen(as.Rhs[0]).(*ast.CallExpr)
		if !ok {
			return true
		}
		for i, l := range as.Lhs {
			if a, b := identOf(l), identOf(e); a != nil && b != nil {
				if m.Info.ObjectOf(a) == m.Info.ObjectOf(b) {
					call, pos = c, i
				}
				continue
			}
			if m.ExprString(l) == want {
				call, pos = c, i
			}
		}
		return true
	})
	return call, pos
}

// resultDerivedFromResult: in callee, result j of every return statement is derived from result i.
func resultDerivedFromResult(m *core.Model, callee *core.Func, i, j int) bool {
	ok, n := true, 0
	core.InspectNoLits(callee.Body, func(x ast.Node) bool {
		rs, isR := x.(*ast.ReturnStmt)
		if !isR || len(rs.Results) <= i || len(rs.Results) <= j {
			return true
		}
		n++
		if !derivedFrom(m, callee, rs.Results[j], m.ExprString(rs.Results[i]), 0) {
			ok = false
		}
		return true
	})
	return ok && n > 0
}

// pairedBuffer: ptr is derived from buf, either syntactically or because both are results of one helper call whose
// pointer result is derived from its buffer result.
func pairedBuffer(m *core.Model, f *core.Func, buf, ptr ast.Expr) bool {
	if derivedFrom(m, f, ptr, m.ExprString(buf), 0) {
		return true
	}
	bc, bi := tupleSource(m, f, buf)
	pc, pi := tupleSource(m, f, ptr)
	if bc != nil && bc == pc && bi != pi {
		if k, cal, _ := m.Callee(bc); k == core.CallStatic {
			return resultDerivedFromResult(m, cal, bi, pi)
		}
	}
	// ptr := local defined by the same tuple call that assigned buf (t.x.data, newPtr = helper(...))
	if id, ok := ast.Unparen(ptr).(*ast.Ident); ok {
		if v, ok := m.Info.ObjectOf(id).(*types.Var); ok && !v.IsField() {
			for _, d := range localDefsOf(m, f, v) {
				if c2, ok := ast.Unparen(d).(*ast.CallExpr); ok && bc != nil && c2 == bc {
					if k, cal, _ := m.Callee(bc); k == core.CallStatic {
						_, pj := tupleSource(m, f, id)
						return resultDerivedFromResult(m, cal, bi, pj)
					}
				}
			}
		}
	}
	return false
}

// freshTypedArray: e is reflect.New(reflect.ArrayOf(n, t)).Elem(), directly, through a local, or as result `res` of a
// helper whose return value is one.
func freshTypedArray(m *core.Model, f *core.Func, e ast.Expr, depth int) bool {
	if depth > 3 || e == nil {
		return false
	}
	e = ast.Unparen(e)
	s := m.ExprString(e)
	if len(s) > 35 && s[:28] == "reflect.New(reflect.ArrayOf(" && s[len(s)-7:] == ".Elem()" {
		return true
	}
	switch x := e.(type) {
	case *ast.Ident:
		if v, ok := m.Info.ObjectOf(x).(*types.Var); ok && !v.IsField() {
			if c, i := tupleSource(m, f, x); c != nil {
				if k, cal, _ := m.Callee(c); k == core.CallStatic {
					return calleeResultFresh(m, cal, i, depth+1)
				}
			}
			for _, d := range localDefsOf(m, f, v) {
				if freshTypedArray(m, f, d, depth+1) {
					return true
				}
			}
		}
	case *ast.CallExpr:
		if k, cal, _ := m.Callee(x); k == core.CallStatic {
			return calleeResultFresh(m, cal, 0, depth+1)
		}
	case *ast.SelectorExpr:
		// a field of a small struct that a constructor returns (buf := newBuffer(tp, cap); buf.data): the value the
		// constructor puts into that field
		fld := m.FieldOf(x)
		id, isID := ast.Unparen(x.X).(*ast.Ident)
		if fld == nil || !isID {
			return false
		}
		v, ok := m.Info.ObjectOf(id).(*types.Var)
		if !ok || v.IsField() {
			return false
		}
		defs := localDefsOf(m, f, v)
		if len(defs) == 0 {
			return false
		}
		for _, d := range defs {
			call, isCall := ast.Unparen(d).(*ast.CallExpr)
			if !isCall {
				return false
			}
			k, cal, _ := m.Callee(call)
			if k != core.CallStatic || cal == nil || cal.Body == nil {
				return false
			}
			okAll, n := true, 0
			core.InspectNoLits(cal.Body, func(y ast.Node) bool {
				rs, isR := y.(*ast.ReturnStmt)
				if !isR || len(rs.Results) != 1 {
					return true
				}
				n++
				r := ast.Unparen(rs.Results[0])
				if rid, isRID := r.(*ast.Ident); isRID {
					if rv, isVar := m.Info.ObjectOf(rid).(*types.Var); isVar && !rv.IsField() {
						if ds := localDefsOf(m, cal, rv); len(ds) == 1 {
							r = ast.Unparen(ds[0])
						}
					}
				}
				lit, isLit := r.(*ast.CompositeLit)
				found := false
				if isLit {
					for _, e := range lit.Elts {
						if kv, isKV := e.(*ast.KeyValueExpr); isKV {
							if kid, isK := kv.Key.(*ast.Ident); isK {
								if fo, _ := m.Info.ObjectOf(kid).(*types.Var); fo != nil && fo.Origin() == fld {
									found = freshTypedArray(m, cal, kv.Value, depth+1)
								}
							}
						}
					}
				}
				if !found {
					okAll = false
				}
				return true
			})
			if !okAll || n == 0 {
				return false
			}
		}
		return true
	}
	return false
}

func calleeResultFresh(m *core.Model, cal *core.Func, i, depth int) bool {
	ok, n := true, 0
	core.InspectNoLits(cal.Body, func(x ast.Node) bool {
		if rs, isR := x.(*ast.ReturnStmt); isR && len(rs.Results) > i {
			n++
			if !freshTypedArray(m, cal, rs.Results[i], depth) {
				ok = false
			}
		}
		return true
	})
	return ok && n > 0
}

// construction is one place where a value of a named struct type is built: a composite literal, possibly completed by
// field assignments to the local it initialises, or a zero-valued local (`var v T`) filled by field assignments.
type construction struct {
	typ    string              // named type
	node   ast.Node            // the literal or the declaring identifier
	fields map[string]ast.Expr // field key (of the type itself and of embedded/nested struct fields) -> value
}

// constructionsOf lists the constructions in f (function literals excluded).
func constructionsOf(m *core.Model, f *core.Func) []construction {
	var out []construction
	var addLit func(cn *construction, cl *ast.CompositeLit)
	addLit = func(cn *construction, cl *ast.CompositeLit) {
		for _, e := range cl.Elts {
			kv, ok := e.(*ast.KeyValueExpr)
			if !ok {
				continue
			}
			if k := litFieldKey(m, kv); k != "" {
				cn.fields[k] = kv.Value
			}
			v := ast.Unparen(kv.Value)
			if u, ok := v.(*ast.UnaryExpr); ok && u.Op == token.AND {
				v = ast.Unparen(u.X)
			}
			if inner, ok := v.(*ast.CompositeLit); ok {
				if _, isStruct := m.Info.TypeOf(inner).Underlying().(*types.Struct); isStruct {
					addLit(cn, inner)
				}
			}
		}
	}
	// field stores through a local: v.f = e, v.a.b = e
	stores := map[*types.Var][][2]ast.Expr{}
	core.InspectNoLits(f.Body, func(n ast.Node) bool {
		as, ok := n.(*ast.AssignStmt)
		if !ok || len(as.Lhs) != len(as.Rhs) {
			return true
		}
		for i, l := range as.Lhs {
			sel, ok := ast.Unparen(l).(*ast.SelectorExpr)
			if !ok || m.FieldOf(sel) == nil {
				continue
			}
			var root ast.Expr = sel.X
			for {
				if s2, ok := ast.Unparen(root).(*ast.SelectorExpr); ok && m.FieldOf(s2) != nil {
					root = s2.X
					continue
				}
				break
			}
			if id, ok := ast.Unparen(root).(*ast.Ident); ok {
				if v, ok := m.Info.ObjectOf(id).(*types.Var); ok && !v.IsField() {
					stores[v] = append(stores[v], [2]ast.Expr{sel, as.Rhs[i]})
				}
			}
		}
		return true
	})
	// a field handed to a callee by address (fill(&v.mask)) is filled there
	core.InspectNoLits(f.Body, func(n ast.Node) bool {
		call, ok := n.(*ast.CallExpr)
		if !ok {
			return true
		}
		for _, a := range call.Args {
			u, ok := ast.Unparen(a).(*ast.UnaryExpr)
			if !ok || u.Op != token.AND {
				continue
			}
			sel, ok := ast.Unparen(u.X).(*ast.SelectorExpr)
			if !ok || m.FieldOf(sel) == nil {
				continue
			}
			if id, ok := ast.Unparen(sel.X).(*ast.Ident); ok {
				if v, ok := m.Info.ObjectOf(id).(*types.Var); ok && !v.IsField() {
					stores[v] = append(stores[v], [2]ast.Expr{sel, u})
				}
			}
		}
		return true
	})
	complete := func(cn *construction, v *types.Var) {
		for _, st := range stores[v] {
			cn.fields[m.FieldKey(m.FieldOf(st[0].(*ast.SelectorExpr)))] = st[1]
		}
	}
	structName := func(t types.Type) string {
		if p, ok := t.(*types.Pointer); ok {
			t = p.Elem()
		}
		if _, ok := t.Underlying().(*types.Struct); !ok {
			return ""
		}
		return core.NamedName(t)
	}
	litVar := map[*ast.CompositeLit]*types.Var{}
	core.InspectNoLits(f.Body, func(n ast.Node) bool {
		switch x := n.(type) {
		case *ast.AssignStmt:
			if x.Tok == token.DEFINE && len(x.Lhs) == len(x.Rhs) {
				for i, r := range x.Rhs {
					r = ast.Unparen(r)
					if u, ok := r.(*ast.UnaryExpr); ok && u.Op == token.AND {
						r = ast.Unparen(u.X)
					}
					if cl, ok := r.(*ast.CompositeLit); ok {
						if id, ok := x.Lhs[i].(*ast.Ident); ok {
							if v, ok := m.Info.ObjectOf(id).(*types.Var); ok {
								litVar[cl] = v
							}
						}
					}
				}
			}
		case *ast.DeclStmt:
			gd, ok := x.Decl.(*ast.GenDecl)
			if !ok || gd.Tok != token.VAR {
				return true
			}
			for _, sp := range gd.Specs {
				vs, ok := sp.(*ast.ValueSpec)
				if !ok || len(vs.Values) != 0 {
					continue
				}
				for _, id := range vs.Names {
					v, ok := m.Info.ObjectOf(id).(*types.Var)
					if !ok || structName(v.Type()) == "" || len(stores[v]) == 0 {
						continue
					}
					cn := construction{typ: structName(v.Type()), node: id, fields: map[string]ast.Expr{}}
					complete(&cn, v)
					out = append(out, cn)
				}
			}
		}
		return true
	})
	core.InspectNoLits(f.Body, func(n ast.Node) bool {
		cl, ok := n.(*ast.CompositeLit)
		if !ok {
			return true
		}
		name := structName(m.Info.TypeOf(cl))
		if name == "" {
			return true
		}
		cn := construction{typ: name, node: cl, fields: map[string]ast.Expr{}}
		addLit(&cn, cl)
		if v := litVar[cl]; v != nil {
			complete(&cn, v)
		}
		out = append(out, cn)
		return true
	})
	sort.Slice(out, func(i, j int) bool { return out[i].node.Pos() < out[j].node.Pos() })
	return out
}

// loopOverAll reports whether loop visits every element of the slice field with the given key: a range over the field,
// or a counting loop from 0 up to its length. It returns the loop body.
func loopOverAll(m *core.Model, loop ast.Node, key string) (*ast.BlockStmt, bool) {
	switch l := loop.(type) {
	case *ast.RangeStmt:
		if fieldKeyOf(m, l.X) == key {
			return l.Body, true
		}
		// range over the length: for i := range len(xs)
		if call, ok := ast.Unparen(m.Inline(m.StripConv(l.X))).(*ast.CallExpr); ok && m.IsBuiltin(call, "len") && len(call.Args) == 1 && fieldKeyOf(m, call.Args[0]) == key {
			return l.Body, true
		}
	case *ast.ForStmt:
		be, ok := ast.Unparen(l.Cond).(*ast.BinaryExpr)
		if !ok || be.Op != token.LSS {
			return nil, false
		}
		iv := identOf(be.X)
		if iv == nil {
			return nil, false
		}
		call, ok := ast.Unparen(m.Inline(m.StripConv(be.Y))).(*ast.CallExpr)
		if !ok || !m.IsBuiltin(call, "len") || len(call.Args) != 1 || fieldKeyOf(m, call.Args[0]) != key {
			return nil, false
		}
		// starts at zero, steps by one
		zero := false
		if as, ok := l.Init.(*ast.AssignStmt); ok {
			for i, lh := range as.Lhs {
				if id := identOf(lh); id != nil && m.Info.ObjectOf(id) == m.Info.ObjectOf(iv) && i < len(as.Rhs) {
					if tv, ok := m.Info.Types[as.Rhs[i]]; ok && tv.Value != nil && tv.Value.String() == "0" {
						zero = true
					}
				}
			}
		}
		inc, ok := l.Post.(*ast.IncDecStmt)
		if !zero || !ok || inc.Tok != token.INC || identOf(inc.X) == nil || m.Info.ObjectOf(identOf(inc.X)) != m.Info.ObjectOf(iv) {
			return nil, false
		}
		return l.Body, true
	}
	return nil, false
}

// valueFields returns the fields with which the struct value denoted by e in f is built: e is a composite literal, a
// local that names one, or a local filled field by field (see constructionsOf). nil if e is none of these.
func valueFields(m *core.Model, f *core.Func, e ast.Expr) map[string]ast.Expr {
	e = ast.Unparen(e)
	for fn := f; fn != nil; fn = fn.Parent {
		for _, cn := range constructionsOf(m, fn) {
			switch n := cn.node.(type) {
			case *ast.CompositeLit:
				for _, x := range exprChain(m, f, e, 0) {
					if ast.Unparen(x) == ast.Expr(n) {
						return cn.fields
					}
				}
			case *ast.Ident:
				if id, ok := e.(*ast.Ident); ok && m.Info.ObjectOf(id) == m.Info.ObjectOf(n) {
					return cn.fields
				}
			}
		}
	}
	return nil
}

// countLoop recognises a loop that runs a counter from 0 up to (excluding) a bound: `for i := range B` over an
// integer, or `for i := 0; i < B; i++`. It returns the bound expression and the body.
func countLoop(m *core.Model, loop ast.Node) (ast.Expr, *ast.BlockStmt, bool) {
	switch l := loop.(type) {
	case *ast.RangeStmt:
		if isInt(m.Info.TypeOf(l.X)) {
			return l.X, l.Body, true
		}
	case *ast.ForStmt:
		be, ok := ast.Unparen(l.Cond).(*ast.BinaryExpr)
		if !ok || be.Op != token.LSS {
			return nil, nil, false
		}
		iv := identOf(be.X)
		if iv == nil {
			return nil, nil, false
		}
		zero := false
		if as, ok := l.Init.(*ast.AssignStmt); ok {
			for i, lh := range as.Lhs {
				if id := identOf(lh); id != nil && m.Info.ObjectOf(id) == m.Info.ObjectOf(iv) && i < len(as.Rhs) {
					if tv, ok := m.Info.Types[m.StripConv(as.Rhs[i])]; ok && tv.Value != nil && tv.Value.String() == "0" {
						zero = true
					}
				}
			}
		}
		inc, ok := l.Post.(*ast.IncDecStmt)
		if !zero || !ok || inc.Tok != token.INC || identOf(inc.X) == nil || m.Info.ObjectOf(identOf(inc.X)) != m.Info.ObjectOf(iv) {
			return nil, nil, false
		}
		return be.Y, l.Body, true
	}
	return nil, nil, false
}

// inspectThrough visits the nodes of root like ast.Inspect (function literals excluded) and, at every call of an
// unexported function or method of the package with a body, the nodes of that body as well, read under the bindings of
// the call (core.Model.WithCall: parameters stand for the caller's actuals), up to depth levels. follow may veto a
// callee (nil: all).
func inspectThrough(m *core.Model, root ast.Node, depth int, follow func(*core.Func) bool, visit func(ast.Node) bool) {
	ast.Inspect(root, func(n ast.Node) bool {
		if n == nil {
			return false
		}
		if _, isLit := n.(*ast.FuncLit); isLit {
			return false
		}
		if !visit(n) {
			return false
		}
		if call, ok := n.(*ast.CallExpr); ok && depth > 0 {
			if k, cal, _ := m.Callee(call); k == core.CallStatic && cal != nil && cal.Body != nil && cal.Obj != nil && !cal.Obj.Exported() && (follow == nil || follow(cal)) {
				m.WithCall(cal, call, func() { inspectThrough(m, cal.Body, depth-1, follow, visit) })
			}
		}
		return true
	})
}

// argLeaves returns the arguments with struct literals (a span or a cell bundling several scalars; naming locals and
// expression functions resolved) replaced by their element values.
func argLeaves(m *core.Model, args []ast.Expr) []ast.Expr {
	var out []ast.Expr
	var add func(e ast.Expr, depth int)
	add = func(e ast.Expr, depth int) {
		x := ast.Unparen(m.Inline(e))
		if u, ok := x.(*ast.UnaryExpr); ok && u.Op == token.AND {
			if _, isLit := ast.Unparen(u.X).(*ast.CompositeLit); isLit {
				x = ast.Unparen(u.X)
			}
		}
		if cl, ok := x.(*ast.CompositeLit); ok && depth < 3 {
			if t := m.Info.TypeOf(cl); t != nil {
				if _, isStruct := t.Underlying().(*types.Struct); isStruct {
					for _, el := range cl.Elts {
						if kv, ok := el.(*ast.KeyValueExpr); ok {
							add(kv.Value, depth+1)
						} else {
							add(el, depth+1)
						}
					}
					return
				}
			}
		}
		out = append(out, e)
	}
	for _, a := range args {
		add(a, 0)
	}
	return out
}

// reverseLoop recognises a counting loop that visits all indices of a slice from the last to the first:
// `for i := len(xs) - 1; i >= 0; i--` (elements xs[i]) or `for i := len(xs); i > 0; i--` (elements xs[i-1]); the
// length may be held in a naming local. It returns the slice expression and the body.
func reverseLoop(m *core.Model, loop ast.Node) (ast.Expr, *ast.BlockStmt, bool) {
	l, ok := loop.(*ast.ForStmt)
	if !ok || l.Init == nil || l.Cond == nil || l.Post == nil {
		return nil, nil, false
	}
	as, ok := l.Init.(*ast.AssignStmt)
	if !ok || len(as.Lhs) != 1 || len(as.Rhs) != 1 {
		return nil, nil, false
	}
	iv := identOf(as.Lhs[0])
	dec, ok := l.Post.(*ast.IncDecStmt)
	if iv == nil || !ok || dec.Tok != token.DEC || identOf(dec.X) == nil || m.Info.ObjectOf(identOf(dec.X)) != m.Info.ObjectOf(iv) {
		return nil, nil, false
	}
	be, ok := ast.Unparen(l.Cond).(*ast.BinaryExpr)
	if !ok || identOf(be.X) == nil || m.Info.ObjectOf(identOf(be.X)) != m.Info.ObjectOf(iv) {
		return nil, nil, false
	}
	zero := false
	if tv, ok := m.Info.Types[be.Y]; ok && tv.Value != nil && tv.Value.String() == "0" {
		zero = true
	}
	if !zero {
		return nil, nil, false
	}
	lenOf := func(e ast.Expr) ast.Expr {
		if call, ok := ast.Unparen(m.Inline(m.StripConv(e))).(*ast.CallExpr); ok && m.IsBuiltin(call, "len") && len(call.Args) == 1 {
			return call.Args[0]
		}
		return nil
	}
	init := ast.Unparen(m.Inline(m.StripConv(as.Rhs[0])))
	switch be.Op {
	case token.GEQ:
		// starts at len-1
		if b, ok := init.(*ast.BinaryExpr); ok && b.Op == token.SUB {
			if tv, ok := m.Info.Types[b.Y]; ok && tv.Value != nil && tv.Value.String() == "1" {
				if xs := lenOf(b.X); xs != nil {
					return xs, l.Body, true
				}
			}
		}
	case token.GTR:
		// starts at len, elements at i-1
		if xs := lenOf(init); xs != nil {
			return xs, l.Body, true
		}
	}
	return nil, nil, false
}

// stdSearchOver: call searches all elements of the slice field with the given key through a standard helper
// (slices.Index, IndexFunc, Contains, ContainsFunc - whatever name the package is imported under).
func stdSearchOver(m *core.Model, call *ast.CallExpr, key string) bool {
	sel, ok := ast.Unparen(call.Fun).(*ast.SelectorExpr)
	if !ok || len(call.Args) < 2 {
		if ix, isIx := ast.Unparen(call.Fun).(*ast.IndexExpr); isIx {
			sel, ok = ast.Unparen(ix.X).(*ast.SelectorExpr)
		}
		if !ok || len(call.Args) < 2 {
			return false
		}
	}
	id, ok := sel.X.(*ast.Ident)
	if !ok {
		return false
	}
	pn, ok := m.Info.ObjectOf(id).(*types.PkgName)
	if !ok || pn.Imported().Path() != "slices" {
		return false
	}
	switch sel.Sel.Name {
	case "Index", "IndexFunc", "Contains", "ContainsFunc":
	default:
		return false
	}
	return fieldKeyOf(m, call.Args[0]) == key
}

// truthAt reports what is known about the atom selected by isAtom at the point where target (a node of f's body) is
// evaluated: +1 the atom holds on every path reaching it, -1 it fails on every path, 0 otherwise (unknown, or target
// not found). Knowledge comes from the branch conditions passed on the way (if, for, &&, ||, !), joined over paths.
func truthAt(m *core.Model, f *core.Func, target ast.Node, isAtom func(ast.Expr) bool) int {
	g := m.CFG(f)
	if g == nil || len(g.Blocks) == 0 {
		return 0
	}
	const (
		unknown = 0
		yes     = 1
		no      = 2
	)
	fr := core.Forward(g, core.Flow[int]{
		Entry: unknown,
		Join: func(a, b int) int {
			if a == b {
				return a
			}
			return unknown
		},
		Equal: func(a, b int) bool { return a == b },
		Node:  func(s int, _ *cfg.Block, _ ast.Node) int { return s },
		Edge: func(s int, b *cfg.Block, succ int) (int, bool) {
			if c := core.BlockCond(b); c != nil {
				for _, a := range core.Assume(c, succ == 0) {
					if isAtom(a.Expr) {
						if a.Truth {
							s = yes
						} else {
							s = no
						}
					}
				}
			}
			return s, true
		},
	})
	for _, b := range g.Blocks {
		if !fr.Reached[b] {
			continue
		}
		for _, n := range b.Nodes {
			if n.Pos() <= target.Pos() && target.End() <= n.End() {
				switch fr.In[b] {
				case yes:
					return 1
				case no:
					return -1
				}
				return 0
			}
		}
	}
	return 0
}

// indexLoop recognises a loop whose variable runs over all indices of a slice (or keys of a map): `for i := range xs`,
// `for i, x := range xs`, `for i := range len(xs)`, `for i := 0; i < len(xs); i++`. It returns the index variable,
// the container expression and the body.
func indexLoop(m *core.Model, loop ast.Node) (*types.Var, ast.Expr, *ast.BlockStmt, bool) {
	varOf := func(e ast.Expr) *types.Var {
		if id := identOf(e); id != nil {
			v, _ := m.Info.ObjectOf(id).(*types.Var)
			return v
		}
		return nil
	}
	lenArg := func(e ast.Expr) ast.Expr {
		if call, ok := ast.Unparen(m.Inline(m.StripConv(e))).(*ast.CallExpr); ok && m.IsBuiltin(call, "len") && len(call.Args) == 1 {
			return call.Args[0]
		}
		return nil
	}
	switch l := loop.(type) {
	case *ast.RangeStmt:
		if l.Key == nil {
			return nil, nil, nil, false
		}
		v := varOf(l.Key)
		if v == nil {
			return nil, nil, nil, false
		}
		if isInt(m.Info.TypeOf(l.X)) {
			if xs := lenArg(l.X); xs != nil {
				return v, xs, l.Body, true
			}
			return nil, nil, nil, false
		}
		return v, l.X, l.Body, true
	case *ast.ForStmt:
		n, body, ok := countLoop(m, l)
		if !ok {
			return nil, nil, nil, false
		}
		be := ast.Unparen(l.Cond).(*ast.BinaryExpr)
		if xs := lenArg(n); xs != nil {
			if v := varOf(be.X); v != nil {
				return v, xs, body, true
			}
		}
	}
	return nil, nil, nil, false
}

// withCallees returns f followed by the unexported functions of the model that f calls statically, up to depth levels
// (each function once, in call order). Rules that look for "what a role does" use it so that splitting the role into
// helpers does not hide the work from them.
func withCallees(m *core.Model, f *core.Func, depth int) []*core.Func {
	out := []*core.Func{f}
	seen := map[*core.Func]bool{f: true}
	var visit func(g *core.Func, d int)
	visit = func(g *core.Func, d int) {
		if d >= depth {
			return
		}
		core.InspectNoLits(g.Body, func(n ast.Node) bool {
			if call, ok := n.(*ast.CallExpr); ok {
				if k, cal, _ := m.Callee(call); k == core.CallStatic && cal != nil && cal.Body != nil && !seen[cal] && (cal.Obj == nil || !cal.Obj.Exported() || cal.Recv != "" && !isExportedName(cal.Recv)) {
					seen[cal] = true
					out = append(out, cal)
					visit(cal, d+1)
				}
			}
			return true
		})
	}
	visit(f, 0)
	return out
}

func isExportedName(s string) bool { return s != "" && s[0] >= 'A' && s[0] <= 'Z' }

// elementLoop recognises a loop over all elements of a slice: `for _, v := range xs`, `for i := range xs` or a
// counting loop `for i := 0; i < len(xs); i++`. It returns the slice expression (naming locals resolved) and the body.
func elementLoop(m *core.Model, loop ast.Node) (ast.Expr, *ast.BlockStmt, bool) {
	switch l := loop.(type) {
	case *ast.RangeStmt:
		switch m.Info.TypeOf(l.X).Underlying().(type) {
		case *types.Slice, *types.Array:
			return m.Inline(l.X), l.Body, true
		}
		// the standard iterators over all (index, element) pairs of a slice: slices.All, slices.Backward
		if xs := stdSliceIterOver(m, l.X); xs != nil {
			return m.Inline(xs), l.Body, true
		}
	}
	if bound, body, ok := countLoop(m, loop); ok {
		if call, ok := ast.Unparen(m.StripConv(m.Inline(m.StripConv(bound)))).(*ast.CallExpr); ok && m.IsBuiltin(call, "len") && len(call.Args) == 1 {
			return m.Inline(call.Args[0]), body, true
		}
	}
	return nil, nil, false
}

// DropCachesExcept forgets what the rules remember about every model other than the given ones. The self-validation
// analyses hundreds of scratch programs in one process; without this every one of them stays reachable through the
// caches.
func DropCachesExcept(keep []*core.Model) {
	kept := map[*core.Model]bool{}
	for _, m := range keep {
		kept[m] = true
	}
	for m := range anchorCache {
		if !kept[m] {
			delete(anchorCache, m)
		}
	}
	for m := range queryOwnedCache {
		if !kept[m] {
			delete(queryOwnedCache, m)
		}
	}
	for m := range scratchOwnerCache {
		if !kept[m] {
			delete(scratchOwnerCache, m)
		}
	}
	for m := range tableRolesCache {
		if !kept[m] {
			delete(tableRolesCache, m)
		}
	}
	for m := range c06RangeCache {
		if !kept[m] {
			delete(c06RangeCache, m)
		}
	}
	keptFunc := func(f *core.Func) bool {
		for m := range kept {
			if f != nil && m.Prog != nil && f.Pkg == m.Prog.Ecs {
				return true
			}
		}
		return false
	}
	for f := range moveSummaryCache {
		if !keptFunc(f) {
			delete(moveSummaryCache, f)
		}
	}
	core.DropCachesExcept(kept)
}

var scratchOwnerCache = map[*core.Model]map[string]bool{}

// isScratchOwner reports whether owner is the storage's scratch struct ("slices") or a struct type of package ecs
// that is used as a field type only inside scratch structs (the scratch lists regrouped into nested structs).
func isScratchOwner(m *core.Model, owner string) bool {
	set, ok := scratchOwnerCache[m]
	if !ok {
		set = map[string]bool{"slices": true}
		sc := m.Prog.Ecs.Types.Scope()
		usedIn := map[string]map[string]bool{}
		for _, name := range sc.Names() {
			tn, ok := sc.Lookup(name).(*types.TypeName)
			if !ok || tn.IsAlias() {
				continue
			}
			st, ok := tn.Type().Underlying().(*types.Struct)
			if !ok {
				continue
			}
			for i := 0; i < st.NumFields(); i++ {
				ft := st.Field(i).Type()
				if p, ok := ft.(*types.Pointer); ok {
					ft = p.Elem()
				}
				if n, ok := ft.(*types.Named); ok && n.Obj().Pkg() == m.Prog.Ecs.Types && !n.Obj().Exported() {
					if _, ok := n.Underlying().(*types.Struct); ok {
						if usedIn[n.Obj().Name()] == nil {
							usedIn[n.Obj().Name()] = map[string]bool{}
						}
						usedIn[n.Obj().Name()][name] = true
					}
				}
			}
		}
		for changed := true; changed; {
			changed = false
			for t, owners := range usedIn {
				if set[t] {
					continue
				}
				all := true
				for o := range owners {
					if !set[o] {
						all = false
					}
				}
				if all {
					set[t] = true
					changed = true
				}
			}
		}
		scratchOwnerCache[m] = set
	}
	return set[owner]
}

// listElemOf returns the element type of a list: of a slice, or of a struct that wraps a slice of named structs (a
// list type with its own methods).
func listElemOf(t types.Type) types.Type {
	switch u := t.Underlying().(type) {
	case *types.Slice:
		return u.Elem()
	case *types.Struct:
		for i := 0; i < u.NumFields(); i++ {
			if sl, ok := u.Field(i).Type().Underlying().(*types.Slice); ok {
				if _, isStruct := sl.Elem().Underlying().(*types.Struct); isStruct {
					return sl.Elem()
				}
			}
		}
	}
	return nil
}

// appendOf returns the append call that e is: a call of the builtin, or a call of a one-statement function (a method
// of a list type: `func (l list) add(o T) list { return append(l, o) }`) that returns an append to its receiver or
// first parameter. nil otherwise.
func appendOf(m *core.Model, e ast.Expr) *ast.CallExpr {
	call, ok := ast.Unparen(e).(*ast.CallExpr)
	if !ok {
		return nil
	}
	if m.IsBuiltin(call, "append") {
		return call
	}
	k, cal, _ := m.Callee(call)
	if k != core.CallStatic || cal == nil || cal.Body == nil || len(cal.Body.List) != 1 {
		return nil
	}
	rs, ok := cal.Body.List[0].(*ast.ReturnStmt)
	if !ok || len(rs.Results) != 1 {
		return nil
	}
	inner, ok := ast.Unparen(rs.Results[0]).(*ast.CallExpr)
	if !ok || !m.IsBuiltin(inner, "append") || len(inner.Args) == 0 {
		return nil
	}
	id, ok := ast.Unparen(inner.Args[0]).(*ast.Ident)
	if !ok {
		return nil
	}
	v, _ := m.Info.ObjectOf(id).(*types.Var)
	if v == nil || cal.Sig == nil {
		return nil
	}
	if r := cal.Sig.Recv(); r != nil && r == v {
		return inner
	}
	if cal.Sig.Params().Len() > 0 && cal.Sig.Params().At(0) == v {
		return inner
	}
	return nil
}

// isGroupKey reports whether key names a field that merely groups other fields of its owner: a field of a struct
// type (embedded or named) all of whose fields are keyed under another owner than the struct type itself (see
// core.fieldOwners: fields regrouped into a nested struct keep the keys of the pinned data model).
func isGroupKey(m *core.Model, key string) bool {
	fv := m.FieldByKey(key)
	if fv == nil {
		return false
	}
	t := fv.Type()
	if p, ok := t.(*types.Pointer); ok {
		t = p.Elem()
	}
	n, ok := t.(*types.Named)
	if !ok || n.Obj().Pkg() != m.Prog.Ecs.Types {
		return false
	}
	st, ok := n.Underlying().(*types.Struct)
	if !ok || st.NumFields() == 0 {
		return false
	}
	for i := 0; i < st.NumFields(); i++ {
		if ownerOf(m.FieldKey(st.Field(i).Origin())) == n.Obj().Name() {
			return false
		}
	}
	return true
}

func withoutGroupKeys(m *core.Model, keys []string) []string {
	var out []string
	for _, k := range keys {
		if !isGroupKey(m, k) {
			out = append(out, k)
		}
	}
	return out
}

// appendThroughPointer recognises a statement `x.add(o)` whose callee is a one-statement method with a pointer
// receiver that appends to what the receiver points to (`*l = append(*l, o)`); it returns x, the list appended to.
func appendThroughPointer(m *core.Model, n ast.Node) ast.Expr {
	es, ok := n.(*ast.ExprStmt)
	if !ok {
		return nil
	}
	call, ok := ast.Unparen(es.X).(*ast.CallExpr)
	if !ok {
		return nil
	}
	sel, ok := ast.Unparen(call.Fun).(*ast.SelectorExpr)
	if !ok {
		return nil
	}
	k, cal, _ := m.Callee(call)
	if k != core.CallStatic || cal == nil || cal.Body == nil || len(cal.Body.List) != 1 || cal.Sig == nil || cal.Sig.Recv() == nil {
		return nil
	}
	if _, isPtr := cal.Sig.Recv().Type().(*types.Pointer); !isPtr {
		return nil
	}
	as, ok := cal.Body.List[0].(*ast.AssignStmt)
	if !ok || len(as.Lhs) != 1 || len(as.Rhs) != 1 {
		return nil
	}
	isRecvDeref := func(e ast.Expr) bool {
		st, ok := ast.Unparen(e).(*ast.StarExpr)
		if !ok {
			return false
		}
		id := identOf(st.X)
		return id != nil && m.Info.ObjectOf(id) == types.Object(cal.Sig.Recv())
	}
	inner, ok := ast.Unparen(as.Rhs[0]).(*ast.CallExpr)
	if !ok || !m.IsBuiltin(inner, "append") || len(inner.Args) < 2 || !isRecvDeref(as.Lhs[0]) || !isRecvDeref(inner.Args[0]) {
		return nil
	}
	return sel.X
}

// stdSliceIterOver: e is a call of slices.All or slices.Backward (whatever name the package is
// imported under); it returns the slice iterated over, or nil.
func stdSliceIterOver(m *core.Model, e ast.Expr) ast.Expr {
	call, ok := ast.Unparen(e).(*ast.CallExpr)
	if !ok || len(call.Args) != 1 {
		return nil
	}
	fun := ast.Unparen(call.Fun)
	if ix, isIx := fun.(*ast.IndexExpr); isIx {
		fun = ast.Unparen(ix.X)
	}
	sel, ok := fun.(*ast.SelectorExpr)
	if !ok {
		return nil
	}
	id, ok := sel.X.(*ast.Ident)
	if !ok {
		return nil
	}
	pn, ok := m.Info.ObjectOf(id).(*types.PkgName)
	if !ok || pn.Imported().Path() != "slices" {
		return nil
	}
	switch sel.Sel.Name {
	case "All", "Backward": // (index, element) pairs like a range over the slice itself; slices.Values yields elements only
		return call.Args[0]
	}
	return nil
}
