package rules

import (
	"fmt"
	"go/ast"
	"go/token"
	"go/types"
	"regexp"
	"strings"

	"arkverif/checker/core"
)

func init() {
	register(&Property{
		ID:    "C15",
		Level: "other",
		Explanation: "Structural necessary conditions of 'Shrink is invisible and convergent': " +
			"(R1) the free protocol at the Shrink site: an empty relation table freed while its targets are alive leaves the active list, both per-target indices and every cached filter (rule C04/R3); " +
			"(R2) Shrink is rejected on a locked world (rule C07/R1: capacity change and table freeing are structural stores); " +
			"(R3) the remaining-work scan answers true exactly for the conditions under which the work loop acts: per branch the same capacity argument is passed to the shrink and to the can-shrink role, the free condition is the same, and both roles compute the same target with opposite comparison polarity; " +
			"(R4) the shrink target is max(round(len), minimum) with the same rounding function that growth uses, applied to the length itself; the capacity change keeps the live rows (rules C01/R6, C11/R4); " +
			"(R5) the loop of the storage-level Shrink that calls the table shrink role is a full loop over the table list. " +
			"(= C04/R14) the active-table list is walked (free flags set) before it is emptied. (= C06/R8) no field of a per-iteration or local copy of a table or record is assigned and then dropped (a free flag set on a copy leaves the table to be freed twice). Not decided: the rounding arithmetic itself; behavioural invisibility for all later operations; convergence of time-boxed calls.",
		TrustedBase: []string{"go/types, go/cfg", "rules C04/R3 and C07/R1", "documented bound: capacity ≤ max(initial capacity, next power of two of size)"},
		Rules: []Rule{
			{ID: "C15/R1", Run: c04r3, Min: 1},
			{ID: "C15/R2", Run: c15r2, Min: 1},
			{ID: "C15/R3", Run: c15r3, Min: 1},
			{ID: "C15/R4", Run: c15r4, Min: 1},
			{ID: "C04/R12", Run: c04r12, Min: 1},
			{ID: "C15/R5", Run: c15r5, Min: 1},
			{ID: "C04/R14", Run: c04r14, Min: 1},
			{ID: "C06/R8", Run: c06r8, Min: 1},
		},
	})
}

// c15r5: the work loop of the storage-level Shrink visits every table.
//
// "After an unbounded Shrink every table is at its bound" needs the pass that calls the table shrink role to look at
// all tables: the loop whose body calls the role must be a full loop over the storage's table list (a range, or a
// counting loop from 0 to its length). A loop that starts at a remembered position skips the tables before it.
func c15r5(c *core.Ctx) {
	m := c.M
	shrink, _ := shrinkRoles(c)
	if shrink == nil {
		c.Undecide("C15/R5", "shrink role", "not derivable")
		return
	}
	n := 0
	// the role may be called through a helper of the storage that shrinks one table
	shrinkers := map[*core.Func]bool{shrink: true}
	for changed := true; changed; {
		changed = false
		for _, f := range m.Funcs {
			if shrinkers[f] || f.Recv != "storage" || f.Obj == nil || f.Obj.Exported() {
				continue
			}
			inLoop, calls := false, false
			core.InspectNoLits(f.Body, func(x ast.Node) bool {
				if call, ok := x.(*ast.CallExpr); ok {
					if k, cal, _ := m.Callee(call); k == core.CallStatic && shrinkers[cal] {
						calls = true
						if enclosingLoopOf(f, call) != nil {
							inLoop = true
						}
					}
				}
				return true
			})
			if calls && !inLoop {
				shrinkers[f] = true
				changed = true
			}
		}
	}
	for _, f := range m.Funcs {
		if f.Recv != "storage" {
			continue
		}
		core.InspectNoLits(f.Body, func(x ast.Node) bool {
			call, ok := x.(*ast.CallExpr)
			if !ok {
				return true
			}
			if k, cal, _ := m.Callee(call); k != core.CallStatic || !shrinkers[cal] {
				return true
			}
			loop := enclosingLoopOf(f, call)
			if loop == nil {
				return true
			}
			// the outermost loop around the call
			for {
				outer := enclosingLoopOf(f, loop)
				if outer == nil || outer == loop {
					break
				}
				loop = outer
			}
			n++
			subject := f.Name + ": work loop"
			if _, full := loopOverAll(m, loop, "storage.tables"); full {
				c.OK("C15/R5", subject, c.At(loop.Pos()), "the loop that shrinks tables ranges over the whole table list")
			} else {
				c.Violation("C15/R5", subject, c.At(loop.Pos()), f.Name+": the loop that calls the table shrink role is not a full loop over the storage's table list (range, or counting from 0 to its length); tables outside the visited part keep their excess capacity even after an unbounded Shrink")
			}
			return true
		})
	}
	if n == 0 {
		c.Undecide("C15/R5", "work loop", "no loop in a storage method calls the table shrink role")
	}
}

// shrink roles on table: Shrink(min) bool mutates capacity; CanShrink(min) bool is store-free.
func shrinkRoles(c *core.Ctx) (shrink, can *core.Func) {
	for _, f := range c.M.Funcs {
		if f.Recv != "table" || f.Sig == nil || f.Sig.Params().Len() != 1 || !isInt(f.Sig.Params().At(0).Type()) || !returnsBool(f) {
			continue
		}
		mutCap, mutLen := false, false
		for _, s := range c.Eff.Stores(f) {
			if s.Path.Last() == "table.cap" {
				mutCap = true
			}
			if s.Path.Last() == "table.len" {
				mutLen = true
			}
		}
		if mutLen {
			continue
		}
		if mutCap {
			shrink = f
		} else if len(c.Eff.Stores(f)) == 0 {
			can = f
		}
	}
	return
}

func c15r2(c *core.Ctx) {
	a := GetAnchors(c)
	m := c.M
	shrink, _ := shrinkRoles(c)
	if shrink == nil {
		c.Undecide("C15/R2", "shrink role", "not derivable")
		return
	}
	res := m.MustPrecede(lockGuardSpec(c, a))
	n := 0
	for _, f := range m.Funcs {
		if !f.Exported() {
			continue
		}
		// exported entry points that reach the shrink role
		reach := false
		var visit func(g *core.Func, depth int)
		seen := map[*core.Func]bool{}
		visit = func(g *core.Func, depth int) {
			if seen[g] || depth > 6 {
				return
			}
			seen[g] = true
			core.InspectNoLits(g.Body, func(x ast.Node) bool {
				if call, ok := x.(*ast.CallExpr); ok {
					if k, cal, _ := m.Callee(call); k == core.CallStatic {
						if cal == shrink {
							reach = true
						}
						visit(cal, depth+1)
					}
				}
				return true
			})
		}
		visit(f, 0)
		if !reach {
			continue
		}
		n++
		var real []core.Witness
		for _, w := range res.Unguarded[f] {
			if st, ok := w.Data.(*core.Store); ok && st != nil {
				continue
			}
			real = append(real, w)
		}
		if len(real) == 0 {
			c.OK("C15/R2", f.Name, c.At(f.Pos()), "capacity reduction and table freeing are reached only after a failed lock test")
		} else {
			w := real[0]
			c.Violation("C15/R2", f.Name, c.At(w.Node.Pos()), fmt.Sprintf("exported %s reaches %s at %s without a lock test: shrinking while a query holds column pointers loses writes and edits the table lists being iterated", f.Name, w.What, c.At(w.Deep.Pos())))
		}
	}
	if n == 0 {
		c.Undecide("C15/R2", "entry points", "no exported function reaches the shrink role")
	}
}

// c15r3: work / remaining-work agreement.
func c15r3(c *core.Ctx) {
	m := c.M
	shrink, can := shrinkRoles(c)
	if shrink == nil || can == nil {
		c.Undecide("C15/R3", "roles", "shrink / can-shrink roles not derivable")
		return
	}
	// the driver: function calling both roles
	for _, f := range m.Funcs {
		sArgs, cArgs := map[string]bool{}, map[string]bool{}
		calls := 0
		core.InspectNoLits(f.Body, func(x ast.Node) bool {
			if y, ok := x.(*ast.CallExpr); ok {
				if _, ok := callTo(m, y, shrink); ok {
					calls++
					for _, v := range valueChain(m, f, y.Args[0], 0) {
						sArgs[v] = true
					}
				}
				if _, ok := callTo(m, y, can); ok {
					calls++
					for _, v := range valueChain(m, f, y.Args[0], 0) {
						cArgs[v] = true
					}
				}
			}
			return true
		})
		if len(sArgs) == 0 || len(cArgs) == 0 {
			continue
		}
		// (a) the work loop and the scan pass the same minimum capacities
		same := len(sArgs) == len(cArgs)
		for k := range sArgs {
			if !cArgs[k] {
				same = false
			}
		}
		subject := f.Name + ": capacity arguments"
		if same {
			c.OK("C15/R3", subject, c.At(f.Pos()), fmt.Sprintf("work loop and remaining-work scan pass the same minimum capacities %v", keysOf(sArgs)))
		} else {
			c.Violation("C15/R3", subject, c.At(f.Pos()), fmt.Sprintf("%s shrinks with minimum capacities %v but the remaining-work scan tests with %v; Shrink would report work it never does (or miss work)", f.Name, keysOf(sArgs), keysOf(cArgs)))
		}
		// (b) tables are freed under the same condition under which the scan reports remaining work
		isFreeing := func(st ast.Stmt) bool {
			found := false
			if _, isIf := st.(*ast.IfStmt); isIf {
				return false
			}
			if _, isFor := st.(*ast.ForStmt); isFor {
				return false
			}
			if _, isR := st.(*ast.RangeStmt); isR {
				return false
			}
			ast.Inspect(st, func(z ast.Node) bool {
				if call, ok := z.(*ast.CallExpr); ok {
					if k, cal, _ := m.Callee(call); k == core.CallStatic {
						for _, s := range c.Eff.Stores(cal) {
							if s.Path.Last() == "table.isFree" {
								found = true
							}
						}
					}
				}
				return true
			})
			return found
		}
		isReturnTrue := func(st ast.Stmt) bool {
			rs, ok := st.(*ast.ReturnStmt)
			return ok && len(rs.Results) == 1 && m.ExprString(rs.Results[0]) == "true"
		}
		canName := can.Obj.Name()
		shrinkName := shrink.Obj.Name()
		norm := func(conjs [][]string, dropCalls bool) map[string]bool {
			out := map[string]bool{}
			for _, cj := range conjs {
				var kept []string
				skip := false
				for _, a := range cj {
					if strings.Contains(a, "."+canName+"(") || strings.Contains(a, "."+shrinkName+"(") {
						if strings.HasSuffix(a, "=T") && dropCalls {
							skip = true // a disjunct about capacity, not about freeing
						}
						continue
					}
					// bookkeeping atoms of the time box
					if strings.Contains(a, "anyFound") || strings.Contains(a, "stopAfter") || strings.Contains(a, "time.") {
						continue
					}
					kept = append(kept, a)
				}
				if !skip && len(kept) > 0 {
					out[normConj(kept)] = true
				}
			}
			return out
		}
		freeConds := norm(pathConds(m, f, f.Body.List, isFreeing), false)
		remainConds := norm(pathConds(m, f, f.Body.List, isReturnTrue), true)
		subject = f.Name + ": free condition"
		eq := len(freeConds) == len(remainConds) && len(freeConds) > 0
		for k := range freeConds {
			if !remainConds[k] {
				eq = false
			}
		}
		if eq {
			c.OK("C15/R3", subject, c.At(f.Pos()), fmt.Sprintf("tables are freed under the same condition the remaining-work scan reports: %v", keysOf(freeConds)))
		} else {
			c.Violation("C15/R3", subject, c.At(f.Pos()), fmt.Sprintf("%s frees tables under %v but reports remaining work under %v", f.Name, keysOf(freeConds), keysOf(remainConds)))
		}
	}
	// the two roles compute the same target and compare with opposite polarity
	target := func(f *core.Func) (string, string, token.Token) {
		var def, cmpL string
		var op token.Token
		core.InspectNoLits(f.Body, func(x ast.Node) bool {
			switch y := x.(type) {
			case *ast.AssignStmt:
				if len(y.Lhs) == 1 && len(y.Rhs) == 1 && def == "" {
					if id, ok := y.Lhs[0].(*ast.Ident); ok && y.Tok == token.DEFINE {
						def = id.Name + "=" + m.ExprString(y.Rhs[0])
					}
				}
			case *ast.BinaryExpr:
				if fieldKeyOf(m, y.X) == "table.cap" && cmpL == "" {
					cmpL = m.ExprString(y.Y)
					op = y.Op
				}
			}
			return true
		})
		return def, cmpL, op
	}
	sd, _, _ := target(shrink)
	cd, _, _ := target(can)
	subject := shrink.Name + " / " + can.Name
	// the shrink role acts (reaches a call that changes the capacity) under exactly the condition under which the
	// can-shrink role answers true; both written in any form (early return, positive if, returned comparison)
	changesCap := func(st ast.Stmt) bool {
		found := false
		ast.Inspect(st, func(x ast.Node) bool {
			if _, isIf := x.(*ast.IfStmt); isIf && x != ast.Node(st) {
				return false
			}
			if call, ok := x.(*ast.CallExpr); ok {
				for _, e := range c.Eff.StoresAt(shrink, call) {
					if e.Path.Has("table.cap") {
						found = true
					}
				}
			}
			return true
		})
		_, isIf := st.(*ast.IfStmt)
		return found && !isIf
	}
	norm := func(cs [][]string) map[string]bool {
		out := map[string]bool{}
		for _, cj := range cs {
			out[normConj(cj)] = true
		}
		return out
	}
	act := norm(pathConds(m, shrink, shrink.Body.List, changesCap))
	var yes map[string]bool
	if len(can.Body.List) > 0 {
		if rs, ok := can.Body.List[len(can.Body.List)-1].(*ast.ReturnStmt); ok && len(rs.Results) == 1 {
			if tv, isC := m.Info.Types[rs.Results[0]]; !isC || tv.Value == nil {
				// a returned condition, possibly after early returns
				pre := pathConds(m, can, can.Body.List, func(st ast.Stmt) bool { return st == ast.Stmt(rs) })
				var all [][]string
				for _, p := range pre {
					for _, d := range condDNF(m, can, rs.Results[0], false, 0) {
						all = append(all, append(append([]string{}, p...), d...))
					}
				}
				yes = norm(all)
			}
		}
	}
	if yes == nil {
		yes = norm(pathConds(m, can, can.Body.List, func(st ast.Stmt) bool {
			rs, ok := st.(*ast.ReturnStmt)
			if !ok || len(rs.Results) != 1 {
				return false
			}
			tv, isC := m.Info.Types[rs.Results[0]]
			return isC && tv.Value != nil && tv.Value.String() == "true"
		}))
	}
	// a local that names the target (whether or not its definition is pure enough to be resolved by the model) is
	// replaced by its definition in the rendered conditions, so that `target := max(..); t.cap > target` and
	// `t.cap > max(..)` read the same
	subst := func(conds map[string]bool, def string) map[string]bool {
		i := strings.IndexByte(def, '=')
		if i <= 0 {
			return conds
		}
		re := regexp.MustCompile(`\b` + regexp.QuoteMeta(def[:i]) + `\b`)
		out := map[string]bool{}
		for k := range conds {
			out[re.ReplaceAllLiteralString(k, def[i+1:])] = true
		}
		return out
	}
	act, yes = subst(act, sd), subst(yes, cd)
	same := len(act) == len(yes) && len(act) > 0
	for k := range act {
		if !yes[k] {
			same = false
		}
	}
	exprOf := func(def string) string {
		if i := strings.IndexByte(def, '='); i > 0 {
			return def[i+1:]
		}
		return def
	}
	if (sd == "" || cd == "" || exprOf(sd) == exprOf(cd)) && (sd != "" || cd != "" || same) && same {
		c.OK("C15/R3", subject, c.At(shrink.Pos()), fmt.Sprintf("same target expression (%s); the capacity is changed under %v, which is when the scan answers true", sd, keysOf(act)))
	} else {
		c.Violation("C15/R3", subject, c.At(shrink.Pos()), fmt.Sprintf("the shrink role (%s; changes the capacity under %v) and the can-shrink role (%s; answers true under %v) do not agree; the remaining-work scan would not match what shrinking does", sd, keysOf(act), cd, keysOf(yes)))
	}
}

// c15r4: the shrink target has the documented form max(round(len), min).
func c15r4(c *core.Ctx) {
	m := c.M
	shrink, can := shrinkRoles(c)
	if shrink == nil || can == nil {
		c.Undecide("C15/R4", "roles", "not derivable")
		return
	}
	// the rounding function used by growth: callee of the capacity-adjusting call in the function that extends on demand
	var round *core.Func
	for _, f := range m.Funcs {
		if f.Recv != "table" || f == shrink {
			continue
		}
		core.InspectNoLits(f.Body, func(x ast.Node) bool {
			call, ok := x.(*ast.CallExpr)
			if !ok || len(call.Args) == 0 {
				return true
			}
			// the capacity-adjusting function: a method of the table, or a function taking the table
			k, cal, _ := m.Callee(call)
			if k != core.CallStatic || cal == nil || cal.Body == nil || cal.Sig == nil {
				return true
			}
			capArg := call.Args[len(call.Args)-1]
			switch {
			case cal.Recv == "table" && len(call.Args) == 1:
			case cal.Recv == "" && len(call.Args) == 2 && isPtrTo(cal.Sig.Params().At(0).Type(), "table"):
			default:
				return true
			}
			directCap := false
			core.InspectNoLits(cal.Body, func(y ast.Node) bool {
				if as, ok := y.(*ast.AssignStmt); ok {
					for _, l := range as.Lhs {
						if fieldKeyOf(m, l) == "table.cap" {
							directCap = true
						}
					}
				}
				return true
			})
			if !directCap {
				return true
			}
			if inner, ok := ast.Unparen(capArg).(*ast.CallExpr); ok {
				if k2, r, _ := m.Callee(inner); k2 == core.CallStatic && r.Recv == "" {
					round = r
				}
			}
			return true
		})
	}
	if round == nil {
		c.Undecide("C15/R4", "rounding role", "growth does not round its capacity through a function")
		return
	}
	for _, f := range []*core.Func{shrink, can} {
		ok, why := false, "no expression of the form max(round(len), min) found"
		// the target may be computed in the role itself or in a helper that receives the minimum-capacity parameter
		var search func(g *core.Func, minPar *types.Var, depth int)
		search = func(g *core.Func, minPar *types.Var, depth int) {
			if g == nil || g.Body == nil || depth > 2 || ok {
				return
			}
			core.InspectNoLits(g.Body, func(x ast.Node) bool {
				call, isCall := x.(*ast.CallExpr)
				if !isCall {
					return true
				}
				if !m.IsBuiltin(call, "max") || len(call.Args) != 2 {
					if k, cal, _ := m.Callee(call); k == core.CallStatic && cal != g && cal.Sig != nil {
						for i, a := range call.Args {
							if id, isID := ast.Unparen(a).(*ast.Ident); isID && m.Info.ObjectOf(id) == minPar && i < cal.Sig.Params().Len() {
								search(cal, cal.Sig.Params().At(i), depth+1)
							}
						}
					}
					return true
				}
				var rArg, mArg ast.Expr
				for _, a := range call.Args {
					if inner, isC := ast.Unparen(a).(*ast.CallExpr); isC {
						if k, cal, _ := m.Callee(inner); k == core.CallStatic && cal == round && len(inner.Args) == 1 {
							rArg = inner.Args[0]
							continue
						}
					}
					mArg = a
				}
				if rArg == nil {
					why = "max(...) without the rounding function " + round.Name + " as an operand"
					return true
				}
				if fieldKeyOf(m, rArg) != "table.len" {
					why = fmt.Sprintf("the rounding function is applied to %s instead of the table length", m.ExprString(rArg))
					return true
				}
				if id, isID := ast.Unparen(mArg).(*ast.Ident); !isID || m.Info.ObjectOf(id) != minPar {
					why = "the other operand of max is not the minimum-capacity parameter"
					return true
				}
				ok = true
				return true
			})
		}
		search(f, f.Sig.Params().At(0), 0)
		subject := f.Name + ": target"
		if ok {
			c.OK("C15/R4", subject, c.At(f.Pos()), "target = max("+round.Name+"(len), minimum): at most the larger of the initial capacity and the next power of two of the size")
		} else {
			c.Violation("C15/R4", subject, c.At(f.Pos()), f.Name+": "+why+"; the documented capacity bound after Shrink would not hold for initial capacities that are not powers of two")
		}
	}
}

func keysOf(m map[string]bool) []string {
	var out []string
	for k := range m {
		out = append(out, k)
	}
	sortStrings(out)
	return out
}
