package rules

import (
	"fmt"
	"go/ast"
	"go/token"
	"go/types"

	"arkverif/checker/core"
)

// Rules written after breaking round 7 (in-sample; each states a condition of the code's own protocol).

// C04/R15 (= C06/R11): a table list is not walked forwards while tables are removed from it.
//
// Table-id lists (`tableIDs.tables`) are swap-remove lists: removing an element moves the last one into its place.
// A loop that walks such a list and whose body can (through any callee) remove elements from table-id lists - freeing
// a table removes it from the per-target lists, among them the one being walked - must walk it backwards by index, so
// that the element moved into a visited slot is one that was visited already. A forward walk (range, or an ascending
// index) visits one table twice and skips another.
func c04r15(c *core.Ctx) {
	m := c.M
	n := 0
	// the functions that shrink a table-id list
	removesFromList := func(f *core.Func) bool {
		for _, s := range c.Eff.Stores(f) {
			if s.Path.Last() == "tableIDs.tables" && s.Kind == core.StoreAssign {
				return true
			}
		}
		return false
	}
	var shrinkers []*core.Func
	for _, f := range m.Funcs {
		if f.Recv != "tableIDs" || f.Body == nil {
			continue
		}
		// a method of the list that assigns a shorter re-slice of the list to it
		shr := false
		core.InspectNoLits(f.Body, func(x ast.Node) bool {
			as, ok := x.(*ast.AssignStmt)
			if !ok || len(as.Lhs) != len(as.Rhs) {
				return true
			}
			for i, l := range as.Lhs {
				if fieldKeyOf(m, l) != "tableIDs.tables" {
					continue
				}
				if se, ok := ast.Unparen(as.Rhs[i]).(*ast.SliceExpr); ok && se.High != nil {
					if tv, ok := m.Info.Types[se.High]; !ok || tv.Value == nil || tv.Value.String() != "0" {
						shr = true
					}
				}
			}
			return true
		})
		if shr {
			shrinkers = append(shrinkers, f)
		}
	}
	if len(shrinkers) == 0 {
		c.Undecide("C04/R15", "remove role", "no method of the table-id list that shortens it by one")
		return
	}
	reaches := map[*core.Func]bool{}
	for _, s := range shrinkers {
		reaches[s] = true
	}
	for changed := true; changed; {
		changed = false
		for _, cs := range m.CallSites() {
			if reaches[cs.Callee] && !reaches[cs.Caller] {
				reaches[cs.Caller] = true
				changed = true
			}
		}
	}
	_ = removesFromList
	for _, f := range m.AllFuncs() {
		if f.Body == nil || f.Recv == "tableIDs" {
			continue
		}
		core.InspectNoLits(f.Body, func(x ast.Node) bool {
			var src ast.Expr
			var body *ast.BlockStmt
			forward := false
			if s, b, ok := elementLoop(m, x); ok {
				src, body, forward = s, b, true
			} else if s, b, ok := reverseLoop(m, x); ok {
				src, body = s, b
			}
			if src == nil || body == nil || fieldKeyOf(m, src) != "tableIDs.tables" {
				return true
			}
			// only the per-target lists and the active list can be shortened by what the body does to a table
			removes := ""
			ast.Inspect(body, func(y ast.Node) bool {
				if _, isLit := y.(*ast.FuncLit); isLit {
					return false
				}
				if call, ok := y.(*ast.CallExpr); ok && removes == "" {
					if k, cal, _ := m.Callee(call); k == core.CallStatic && reaches[cal] {
						removes = cal.Name
					}
				}
				return true
			})
			if removes == "" {
				return true
			}
			n++
			subject := fmt.Sprintf("%s: walk over %s", f.Name, m.ExprString(src))
			if forward {
				c.Violation("C04/R15", subject, c.At(x.Pos()), fmt.Sprintf("%s walks the table list %s forwards while its body (through %s) removes tables from table lists by swap-remove; a table moved into an already visited slot is skipped and another is handled twice", f.Name, m.ExprString(src), removes))
			} else {
				c.OK("C04/R15", subject, c.At(x.Pos()), "the list is walked backwards by index, so swap-removes inside the body only move tables that were already visited")
			}
			return true
		})
	}
	if n == 0 {
		c.Undecide("C04/R15", "walks", "no loop over a table-id list whose body can remove tables from such lists")
	}
}

// C12/O6 (also C06, C13): worlds share no mutable package-level state.
//
// Two worlds of one process must not influence each other, and the same history must give the same result whatever
// else the process does. No value built anywhere in the package (a struct literal, or a local filled field by field)
// takes one of its fields from a package-level variable that holds mutable memory - a slice, map, pointer, channel, or
// a struct or array that contains one: such a field would be the same memory in every world.
func c12o6(c *core.Ctx) {
	m := c.M
	n := 0
	var mutable func(t types.Type, depth int) bool
	mutable = func(t types.Type, depth int) bool {
		if t == nil || depth > 4 {
			return false
		}
		switch u := t.Underlying().(type) {
		case *types.Slice, *types.Map, *types.Pointer, *types.Chan:
			return true
		case *types.Array:
			return mutable(u.Elem(), depth+1)
		case *types.Struct:
			for i := 0; i < u.NumFields(); i++ {
				if mutable(u.Field(i).Type(), depth+1) {
					return true
				}
			}
		}
		return false
	}
	for _, f := range m.AllFuncs() {
		if f.Body == nil {
			continue
		}
		for _, cn := range constructionsOf(m, f) {
			for key, val := range cn.fields {
				id := identOf(m.StripConv(val))
				if id == nil {
					continue
				}
				v, ok := m.Info.Uses[id].(*types.Var)
				if !ok || v.IsField() || v.Pkg() == nil || v.Pkg() != m.Prog.Ecs.Types || v.Parent() != v.Pkg().Scope() {
					continue
				}
				n++
				subject := fmt.Sprintf("%s: %s = %s", f.Name, key, v.Name())
				if mutable(v.Type(), 0) {
					c.Violation("C12/O6", subject, c.At(val.Pos()), fmt.Sprintf("%s initialises field %s with the package-level variable %s (%s), which holds mutable memory; every value built here - every world - shares that memory, so one world's operations overwrite what another is using", f.Name, key, v.Name(), v.Type().String()))
				} else {
					c.OK("C12/O6", subject, c.At(val.Pos()), "package-level value without mutable memory")
				}
			}
		}
	}
	if n == 0 {
		c.OK("C12/O6", "package-level state", "", "no constructed value takes a field from a package-level variable")
	}
}

// C19/R5 (= C01/R12): the archetype graph finds an existing node before it creates one.
//
// "No two archetypes have the same component set" rests on the graph's find-or-create step: the function that appends
// a node to the graph's node list must first compare the wanted mask with *every* existing node - a loop over the
// whole node list (all elements, or all indices from 0) that returns the node on equality - and append only after it.
func c19r5(c *core.Ctx) {
	m := c.M
	n := 0
	for _, f := range m.Funcs {
		if f.Body == nil {
			continue
		}
		var app *ast.AssignStmt
		core.InspectNoLits(f.Body, func(x ast.Node) bool {
			if as, ok := x.(*ast.AssignStmt); ok && len(as.Lhs) == 1 && len(as.Rhs) == 1 && fieldKeyOf(m, as.Lhs[0]) == "graph.nodes" {
				if call, ok := ast.Unparen(as.Rhs[0]).(*ast.CallExpr); ok && m.IsBuiltin(call, "append") {
					app = as
				}
			}
			return true
		})
		if app == nil {
			continue
		}
		// constructors that create the first node do not search
		if f.Sig != nil && f.Sig.Recv() == nil && f.Recv == "" {
			continue
		}
		n++
		subject := f.Name + ": search before append"
		full := false
		partial := token.NoPos
		core.InspectNoLits(f.Body, func(x ast.Node) bool {
			if call, ok := x.(*ast.CallExpr); ok && call.Pos() < app.Pos() && stdSearchOver(m, call, "graph.nodes") {
				full = true
			}
			var body *ast.BlockStmt
			isFull := false
			switch l := x.(type) {
			case *ast.ForStmt:
				body = l.Body
			case *ast.RangeStmt:
				body = l.Body
			default:
				return true
			}
			if x.Pos() > app.Pos() {
				return true
			}
			if b, ok := loopOverAll(m, x, "graph.nodes"); ok && b != nil {
				isFull = true
			}
			// a loop that returns a node on mask equality
			returns := false
			ast.Inspect(body, func(y ast.Node) bool {
				if rs, ok := y.(*ast.ReturnStmt); ok && len(rs.Results) > 0 {
					returns = true
				}
				return true
			})
			if !returns {
				return true
			}
			if isFull {
				full = true
			} else {
				partial = x.Pos()
			}
			return true
		})
		switch {
		case full:
			c.OK("C19/R5", subject, c.At(f.Pos()), "every existing node is compared before a new node is appended")
		case partial != token.NoPos:
			c.Violation("C19/R5", subject, c.At(partial), fmt.Sprintf("%s appends a node to the graph after a search that does not cover the whole node list (it does not start at the first node or stops early); a component set that already has a node - the empty set of the root, for instance - would get a second node and a second archetype", f.Name))
		default:
			c.Violation("C19/R5", subject, c.At(app.Pos()), fmt.Sprintf("%s appends a node to the graph without first searching the existing nodes for the same component set", f.Name))
		}
	}
	if n == 0 {
		c.Undecide("C19/R5", "find-or-create", "no method appends to the graph's node list")
	}
}
