package rules

import (
	"fmt"
	"go/ast"
	"go/token"
	"go/types"
	"golang.org/x/tools/go/cfg"
	"sort"
	"strings"

	"arkverif/checker/core"
)

func init() {
	register(&Property{
		ID:    "C11",
		Level: "other",
		Explanation: "The coding discipline that component memory cleanliness and GC safety rest on, decided on every path: " +
			"(R1) the table length is stored only by the grow, swap-remove and reset roles, and in the two that decrease it every column is zeroed for every vacated row on all paths before the store (swap-remove: all three branches; reset: both zeroing strategies; in the reset role no store of the length precedes the column reset on any path, since the columns are reset over the length they are handed); " +
			"(R2) every raw byte copy whose operands derive from a component column is dominated by the true branch of that column's trivial (pointer-free) flag, in the function or at all its call sites; " +
			"(R3) the function computing the trivial flag returns false for every kind whose representation holds a pointer (Pointer, Slice, Map, Chan, Interface, String, Func, UnsafePointer) and recurses into all struct fields and array elements; " +
			"(R4) a capacity change allocates fresh typed arrays and copies the live rows on both the raw and the reflection path; (R5) byte quantities are item-size-scaled: every expression in a byte position - a bound of a byte view of raw memory, the offset of unsafe.Add, and transitively every argument that reaches such a position through a parameter (which is how the size argument of the raw-copy role is found) - is not a number of rows by dimensional analysis (item sizes, Sizeof, Type.Size and byte-slice lengths are bytes; table lengths and what is summed from them are rows; rows x bytes are bytes; unknown dimensions are not reported). (R6) wherever a column is constructed, its element type and its pointer-free flag are the component registry's entries for the same component id (followed through constructor parameters to the call sites). (R7) the per-archetype zero buffer is allocated with a maximum that the loop recording the column item sizes raises for every column (the update is reached by every iteration and compares the recorded size). Not decided: actual collectability, finalizers, behaviour under a concurrent collector.",
		TrustedBase: []string{"go/types, go/cfg", "reflect.New/ArrayOf return zeroed typed memory; reflect.Copy/Set/SetZero are GC-safe"},
		Rules: []Rule{
			{ID: "C11/R1", Run: c11r1, Min: 1},
			{ID: "C11/R2", Run: c11r2, Min: 1},
			{ID: "C11/R3", Run: c11r3, Min: 1},
			{ID: "C11/R4", Run: c11r4, Min: 1},
			{ID: "C11/R5", Run: c11r5, Min: 1},
			{ID: "C11/R6", Run: c11r6, Min: 1},
			{ID: "C11/R7", Run: c11r7, Min: 1},
		},
	})
}

// columnRoles derives the zeroing roles of the column from who calls them: *reset* is the result-less column method
// with a raw-pointer parameter that the table's reset role calls, *zero* the one that the table's swap-remove role
// calls, *zeroRange* a result-less column method with a raw-pointer parameter called by reset. Signatures beyond
// "has a raw pointer parameter, returns nothing" are not assumed.
func columnRoles(c *core.Ctx) (zero, reset, zeroRange *core.Func) {
	m := c.M
	tr := GetTableRoles(c)
	isUP := func(t types.Type) bool {
		b, ok := t.Underlying().(*types.Basic)
		return ok && b.Kind() == types.UnsafePointer
	}
	cand := func(f *core.Func) bool {
		if f == nil || f.Recv != "column" || f.Sig == nil || f.Sig.Results().Len() != 0 {
			return false
		}
		for i := 0; i < f.Sig.Params().Len(); i++ {
			if isUP(f.Sig.Params().At(i).Type()) {
				return true
			}
		}
		return false
	}
	calledFrom := func(g *core.Func) []*core.Func {
		var out []*core.Func
		if g == nil {
			return nil
		}
		core.InspectNoLits(g.Body, func(n ast.Node) bool {
			if call, ok := n.(*ast.CallExpr); ok {
				if k, cal, _ := m.Callee(call); k == core.CallStatic && cand(cal) {
					out = append(out, cal)
				}
			}
			return true
		})
		return out
	}
	for _, f := range calledFrom(tr.Reset) {
		reset = f
	}
	for _, f := range calledFrom(tr.Remove) {
		if f != reset {
			zero = f
		}
	}
	for _, f := range calledFrom(reset) {
		if f != reset && f != zero {
			zeroRange = f
		}
	}
	return
}

func c11r1(c *core.Ctx) {
	m := c.M
	tr := GetTableRoles(c)
	zero, colReset, zeroRange := columnRoles(c)
	if tr.Remove == nil || tr.Reset == nil || zero == nil || colReset == nil {
		c.Undecide("C11/R1", "roles", "table remove/reset or column zero/reset roles not derivable")
		return
	}
	// K5: direct stores to table.len
	// Writers that can only grow the length (t.len++, t.len += n) vacate nothing; every other writer (decrement,
	// subtraction, plain store) must be the swap-remove or the reset role (or a private helper of one of them), whose
	// zeroing the clauses below decide.
	var writers, shrinking []string
	shrinkOK := map[*core.Func]bool{}
	for _, role := range []*core.Func{tr.Remove, tr.Reset} {
		for _, g := range withCallees(m, role, 2) {
			shrinkOK[g] = true
		}
	}
	for _, f := range m.Funcs {
		direct, mayShrink := false, false
		core.InspectNoLits(f.Body, func(n ast.Node) bool {
			switch x := n.(type) {
			case *ast.AssignStmt:
				for _, l := range x.Lhs {
					if fieldKeyOf(m, l) == "table.len" {
						direct = true
						if x.Tok != token.ADD_ASSIGN {
							mayShrink = true
						}
					}
				}
			case *ast.IncDecStmt:
				if fieldKeyOf(m, x.X) == "table.len" {
					direct = true
					if x.Tok != token.INC {
						mayShrink = true
					}
				}
			}
			return true
		})
		if direct {
			writers = append(writers, f.Name)
			if f.Recv != "table" {
				c.Violation("C11/R1", f.Name+" writes table.len", c.At(f.Pos()), f.Name+": the table length is written outside the table's own grow / swap-remove / reset functions; vacated rows would not be zeroed")
			}
			if mayShrink && !shrinkOK[f] {
				shrinking = append(shrinking, f.Name)
			}
		}
	}
	sort.Strings(writers)
	sort.Strings(shrinking)
	if len(shrinking) == 0 {
		c.OK("C11/R1", "writers of table.len", "", "length stored by "+strings.Join(writers, ", ")+"; only the swap-remove and the reset role can lower it")
	} else {
		c.Violation("C11/R1", "writers of table.len", "", "the table length can be lowered by "+strings.Join(shrinking, ", ")+", which is neither the swap-remove nor the reset role; the rows it vacates are not covered by the zeroing obligations")
	}
	// swap-remove: every path through every loop over the columns zeroes the last row
	{
		f := tr.Remove
		// the last-row expression: local defined from len - 1
		lastVar := ""
		core.InspectNoLits(f.Body, func(n ast.Node) bool {
			if as, ok := n.(*ast.AssignStmt); ok && len(as.Lhs) == 1 && len(as.Rhs) == 1 && as.Tok == token.DEFINE {
				// <table length> - 1, possibly converted
				if be, isB := ast.Unparen(m.StripConv(as.Rhs[0])).(*ast.BinaryExpr); isB && be.Op == token.SUB && fieldKeyOf(m, m.StripConv(be.X)) == "table.len" {
					if tv, isC := m.Info.Types[be.Y]; isC && tv.Value != nil && tv.Value.String() == "1" {
						lastVar = m.ExprString(as.Lhs[0])
					}
				}
			}
			return true
		})
		type st struct{ zeroed bool }
		// paths through the function: each column loop contributes "zeroed" iff all its body paths zero the column at lastVar
		// a receiver that is an element of the table's column list (directly, by address, or through a naming local)
		isColumn := func(rv ast.Expr) bool {
			e := ast.Unparen(m.Inline(ast.Unparen(rv)))
			if u, ok := e.(*ast.UnaryExpr); ok && u.Op == token.AND {
				e = ast.Unparen(u.X)
			}
			ix, ok := e.(*ast.IndexExpr)
			return ok && fieldKeyOf(m, ix.X) == "table.columns"
		}
		loopZeroes := func(body *ast.BlockStmt) (bool, int) {
			paths := enumeratePaths(m, body.List, func(s ast.Stmt, cur st) st {
				ast.Inspect(s, func(n ast.Node) bool {
					if call, ok := n.(*ast.CallExpr); ok {
						if rv, ok := callTo(m, call, zero); ok && rv != nil && isColumn(rv) {
							// the vacated row is one of the arguments (its position is not assumed)
							for _, a := range call.Args {
								if m.ExprString(a) == lastVar {
									cur.zeroed = true
								}
							}
						}
					}
					return true
				})
				return cur
			}, func(ast.Expr) (bool, bool) { return false, false })
			all := true
			for _, p := range paths {
				if !p.zeroed {
					all = false
				}
			}
			return all && len(paths) > 0, len(paths)
		}
		type fs struct{ zeroed bool }
		totalPaths := 0
		var walk func(list []ast.Stmt) []fs
		walk = func(list []ast.Stmt) []fs {
			return enumeratePaths(m, list, func(s ast.Stmt, cur fs) fs {
				if body, ok := loopOverAll(m, s, "table.columns"); ok {
					z, n := loopZeroes(body)
					totalPaths += n
					if z {
						cur.zeroed = true
					}
				}
				return cur
			}, func(ast.Expr) (bool, bool) { return false, false })
		}
		paths := walk(f.Body.List)
		ok := len(paths) > 0 && lastVar != ""
		for _, p := range paths {
			if !p.zeroed {
				ok = false
			}
		}
		if ok {
			c.OK("C11/R1", f.Name, c.At(f.Pos()), fmt.Sprintf("on all %d paths every column's vacated last row is zeroed (%d column-loop paths)", len(paths), totalPaths))
		} else {
			c.Violation("C11/R1", f.Name, c.At(f.Pos()), f.Name+": some path to the length decrement does not zero the vacated last row of every column; a later component added without a value would read stale data, and pointers in the stale row keep their referents alive")
		}
	}
	// table reset: loop over all columns calling the column reset role with the table's length, unconditionally
	{
		f := tr.Reset
		ok := false
		core.InspectNoLits(f.Body, func(n ast.Node) bool {
			body, isLoop := loopOverAll(m, n, "table.columns")
			if !isLoop {
				return true
			}
			cond := false
			called := false
			ast.Inspect(body, func(x ast.Node) bool {
				switch y := x.(type) {
				case *ast.IfStmt, *ast.BranchStmt:
					cond = true
				case *ast.CallExpr:
					if _, isC := callTo(m, y, colReset); isC {
						for _, a := range y.Args {
							if fieldKeyOf(m, a) == "table.len" {
								called = true
							}
						}
					}
				}
				return true
			})
			if called && !cond {
				ok = true
			}
			return true
		})
		// the length store comes after the loop: on no path is the table's length stored before a column is reset (the
		// columns would be reset over the new length, i.e. not at all)
		if ok {
			early := ""
			g := m.CFG(f)
			core.Forward(g, core.Flow[bool]{
				Entry: false,
				Join:  func(a, b bool) bool { return a || b },
				Equal: func(a, b bool) bool { return a == b },
				Node: func(st bool, _ *cfg.Block, n ast.Node) bool {
					core.WalkEval(n, func(x ast.Node, _ bool) {
						switch y := x.(type) {
						case *ast.AssignStmt:
							for _, l := range y.Lhs {
								if fieldKeyOf(m, l) == "table.len" {
									st = true
								}
							}
						case *ast.IncDecStmt:
							if fieldKeyOf(m, y.X) == "table.len" {
								st = true
							}
						case *ast.CallExpr:
							if _, isC := callTo(m, y, colReset); isC && st && early == "" {
								early = c.At(y.Pos())
							}
						}
					})
					return st
				},
			})
			if early != "" {
				ok = false
				c.Violation("C11/R1", f.Name+": length cleared first", early, f.Name+": the table's length is stored before the columns are reset at "+early+"; the column reset would run over the new length and leave the old rows un-zeroed")
			}
		}
		if ok {
			c.OK("C11/R1", f.Name, c.At(f.Pos()), "every column is reset over the table's full length before the length is cleared")
		} else {
			c.Violation("C11/R1", f.Name, c.At(f.Pos()), f.Name+": does not unconditionally reset every column over the table's length")
		}
	}
	// column reset: all non-early paths zero [0,ownLen)
	{
		f := colReset
		// the row-count parameter: the integer parameter (position and further parameters are not assumed)
		var lenPar *types.Var
		for i := 0; i < f.Sig.Params().Len(); i++ {
			if isInt(f.Sig.Params().At(i).Type()) && lenPar == nil {
				lenPar = f.Sig.Params().At(i)
			}
		}
		type st struct{ z bool }
		paths := enumeratePaths(m, f.Body.List, func(s ast.Stmt, cur st) st {
			ast.Inspect(s, func(n ast.Node) bool {
				call, ok := n.(*ast.CallExpr)
				if !ok {
					return true
				}
				if zeroRange != nil {
					if _, isC := callTo(m, call, zeroRange); isC && len(call.Args) >= 2 {
						// the range [0, ownLen): one argument is the constant 0, another the row-count parameter
						zeroArg, lenArg := false, false
						for _, a := range argLeaves(m, call.Args) {
							if tv, ok := m.Info.Types[a]; ok && tv.Value != nil && tv.Value.String() == "0" {
								zeroArg = true
							}
							if id := identOf(m.StripConv(m.Inline(m.StripConv(a)))); id != nil && lenPar != nil && m.Info.ObjectOf(id) == types.Object(lenPar) {
								lenArg = true
							}
						}
						if zeroArg && lenArg {
							cur.z = true
						}
					}
				}
				if sel, isS := ast.Unparen(call.Fun).(*ast.SelectorExpr); isS && sel.Sel.Name == "SetZero" && fieldKeyOf(m, sel.X) == "column.data" {
					cur.z = true
				}
				return true
			})
			return cur
		}, func(cond ast.Expr) (bool, bool) { return false, false })
		// the early return under ownLen == 0 is a path without zeroing and is fine: detect it structurally
		okAll := true
		early := 0
		for _, p := range paths {
			if !p.z {
				early++
			}
		}
		emptyGuard := false
		if len(f.Body.List) > 0 {
			if is, isIf := f.Body.List[0].(*ast.IfStmt); isIf {
				if be, isB := ast.Unparen(is.Cond).(*ast.BinaryExpr); isB && be.Op == token.EQL && m.ExprString(be.Y) == "0" {
					if id, isID := ast.Unparen(be.X).(*ast.Ident); isID && m.Info.ObjectOf(id) == lenPar {
						emptyGuard = true
					}
				}
			}
		}
		if early > 1 || (early == 1 && !emptyGuard) {
			okAll = false
		}
		if okAll {
			c.OK("C11/R1", f.Name, c.At(f.Pos()), "both zeroing strategies clear rows [0,len); the only path without zeroing is len == 0")
		} else {
			c.Violation("C11/R1", f.Name, c.At(f.Pos()), f.Name+": a path with len > 0 leaves the rows un-zeroed")
		}
	}
	// zeroRange zeroes each of the rows start..start+len unconditionally
	if zeroRange != nil {
		f := zeroRange
		okLoop := false
		// a loop over exactly `len` iterations (range over the count, or a classic loop from 0 below it) whose body
		// has no branching: every requested row is zeroed
		// the count parameter: the one that receives the row count at the reset role's call (positions are not assumed)
		var lenPar2 *types.Var
		if colReset != nil {
			var resetLen *types.Var
			for i := 0; i < colReset.Sig.Params().Len(); i++ {
				if isInt(colReset.Sig.Params().At(i).Type()) && resetLen == nil {
					resetLen = colReset.Sig.Params().At(i)
				}
			}
			core.InspectNoLits(colReset.Body, func(n ast.Node) bool {
				if call, ok := n.(*ast.CallExpr); ok {
					if _, isC := callTo(m, call, zeroRange); isC {
						for j, a := range call.Args {
							if id := identOf(m.StripConv(m.Inline(m.StripConv(a)))); id != nil && resetLen != nil && m.Info.ObjectOf(id) == types.Object(resetLen) && j < f.Sig.Params().Len() {
								lenPar2 = f.Sig.Params().At(j)
							}
						}
					}
				}
				return true
			})
		}
		if lenPar2 == nil && f.Sig.Params().Len() > 1 {
			lenPar2 = f.Sig.Params().At(1)
		}
		unconditional := func(body *ast.BlockStmt) bool {
			cond := false
			ast.Inspect(body, func(x ast.Node) bool {
				switch x.(type) {
				case *ast.IfStmt, *ast.BranchStmt, *ast.SwitchStmt:
					cond = true
				}
				return true
			})
			return !cond
		}
		// the loop bound is the count parameter ...
		boundIs := func(bound ast.Expr, v *types.Var) bool {
			id := identOf(m.StripConv(m.Inline(m.StripConv(bound))))
			return id != nil && v != nil && m.Info.ObjectOf(id) == types.Object(v)
		}
		core.InspectNoLits(f.Body, func(n ast.Node) bool {
			if bound, body, isC := countLoop(m, n); isC && boundIs(bound, lenPar2) {
				okLoop = unconditional(body)
			}
			return true
		})
		// ... or, when the rows are handed over in another shape (a span struct), the expression that stands for the
		// reset role's row count when the body is read under that call's arguments
		if !okLoop && colReset != nil {
			var resetLen *types.Var
			for i := 0; i < colReset.Sig.Params().Len(); i++ {
				if isInt(colReset.Sig.Params().At(i).Type()) && resetLen == nil {
					resetLen = colReset.Sig.Params().At(i)
				}
			}
			core.InspectNoLits(colReset.Body, func(n ast.Node) bool {
				call, ok := n.(*ast.CallExpr)
				if !ok {
					return true
				}
				if _, isC := callTo(m, call, zeroRange); !isC {
					return true
				}
				m.WithCall(zeroRange, call, func() {
					core.InspectNoLits(f.Body, func(x ast.Node) bool {
						if bound, body, isC := countLoop(m, x); isC && boundIs(bound, resetLen) {
							okLoop = unconditional(body)
						}
						return true
					})
				})
				return true
			})
		}
		if okLoop {
			c.OK("C11/R1", f.Name, c.At(f.Pos()), "loops over exactly the given number of rows without skipping")
		} else {
			c.Violation("C11/R1", f.Name, c.At(f.Pos()), f.Name+": does not zero each of the requested rows unconditionally")
		}
	}
}

// rawCopyRole: function (unsafe.Pointer, unsafe.Pointer, uintptr) that copies bytes.
func rawCopyRole(c *core.Ctx) *core.Func {
	for _, f := range c.M.Funcs {
		if f.Recv != "" || f.Sig == nil || f.Sig.Params().Len() != 3 || f.Sig.Results().Len() != 0 {
			continue
		}
		up := func(t types.Type) bool {
			b, ok := t.Underlying().(*types.Basic)
			return ok && b.Kind() == types.UnsafePointer
		}
		if up(f.Sig.Params().At(0).Type()) && up(f.Sig.Params().At(1).Type()) && isInt(f.Sig.Params().At(2).Type()) {
			usesCopy := false
			core.InspectNoLits(f.Body, func(n ast.Node) bool {
				if call, ok := n.(*ast.CallExpr); ok && c.M.IsBuiltin(call, "copy") {
					usesCopy = true
				}
				return true
			})
			if usesCopy {
				return f
			}
		}
	}
	return nil
}

// columnBase returns the canonical string of the component-column expression that the arguments of a raw copy derive from, or "".
func columnBase(m *core.Model, f *core.Func, call *ast.CallExpr) []string {
	var bases []string
	base := ""
	var visit func(e ast.Expr, depth int)
	visit = func(e ast.Expr, depth int) {
		if depth > 3 {
			return
		}
		ast.Inspect(e, func(n ast.Node) bool {
			ex, ok := n.(ast.Expr)
			if !ok {
				return true
			}
			if tv, ok := m.Info.Types[ex]; ok && core.NamedName(tv.Type) == "column" {
				switch ex.(type) {
				case *ast.Ident, *ast.SelectorExpr, *ast.IndexExpr:
					base = m.ExprString(ex)
					dup := false
					for _, b := range bases {
						if b == base {
							dup = true
						}
					}
					if !dup {
						bases = append(bases, base)
					}
					return false
				}
			}
			if id, ok := n.(*ast.Ident); ok {
				if v, ok := m.Info.ObjectOf(id).(*types.Var); ok && !v.IsField() {
					for _, d := range localDefsOf(m, f, v) {
						visit(d, depth+1)
					}
				}
			}
			return true
		})
	}
	for _, a := range call.Args {
		visit(a, 0)
	}
	return bases
}

func c11r2(c *core.Ctx) {
	m := c.M
	raw := rawCopyRole(c)
	if raw == nil {
		c.Undecide("C11/R2", "raw copy role", "not derivable")
		return
	}
	guardSpec := func(f *core.Func, base string, needs func(x ast.Node) bool) core.GuardSpec {
		return core.GuardSpec{
			Only: f,
			GuardAtom: func(ff *core.Func, at core.Atom) bool {
				if !at.Truth {
					return false
				}
				if fieldKeyOf(m, at.Expr) != "column.isTrivial" {
					return false
				}
				sel := ast.Unparen(at.Expr).(*ast.SelectorExpr)
				return m.ExprString(sel.X) == base
			},
			Needs: func(ff *core.Func, x ast.Node) []core.Witness {
				if needs(x) {
					return []core.Witness{{What: "raw byte copy"}}
				}
				return nil
			},
			SkipCallee: func(*core.Func) bool { return true },
		}
	}
	var checkSite func(f *core.Func, call *ast.CallExpr, base string, depth int) (bool, string)
	checkSite = func(f *core.Func, call *ast.CallExpr, base string, depth int) (bool, string) {
		res := m.MustPrecede(guardSpec(f, base, func(x ast.Node) bool { return x == ast.Node(call) }))
		if len(res.Unguarded[f]) == 0 {
			return true, "dominated by " + base + ".isTrivial"
		}
		// not guarded inside: all call sites of f must be guarded on the receiver / argument that base denotes
		if depth > 2 || f.Sig == nil || f.Sig.Recv() == nil {
			return false, ""
		}
		recvName := ""
		if f.Decl != nil && f.Decl.Recv != nil && len(f.Decl.Recv.List[0].Names) > 0 {
			recvName = f.Decl.Recv.List[0].Names[0].Name
		}
		if base != recvName {
			return false, ""
		}
		n, okAll := 0, true
		for _, cs := range m.CallSites() {
			if cs.Callee != f {
				continue
			}
			n++
			sel, ok := ast.Unparen(cs.Call.Fun).(*ast.SelectorExpr)
			if !ok {
				okAll = false
				continue
			}
			cb := m.ExprString(sel.X)
			if ok2, _ := checkSite(cs.Caller, cs.Call, cb, depth+1); !ok2 {
				okAll = false
			}
		}
		if n > 0 && okAll {
			return true, fmt.Sprintf("every one of the %d call sites of %s is dominated by the receiver's isTrivial flag", n, f.Name)
		}
		return false, ""
	}
	for _, f := range m.AllFuncs() {
		core.InspectNoLits(f.Body, func(n ast.Node) bool {
			call, ok := n.(*ast.CallExpr)
			if !ok {
				return true
			}
			if _, isRaw := callTo(m, call, raw); !isRaw {
				return true
			}
			bases := columnBase(m, f, call)
			subject := fmt.Sprintf("%s: %s", f.Name, m.ExprString(call))
			if len(bases) == 0 {
				c.Info("C11/R2", subject, c.At(call.Pos()), "operands do not derive from a component column (entity columns hold two integers): exempt by type")
				return true
			}
			okAny, why := false, ""
			for _, b := range bases {
				if ok, w := checkSite(f, call, b, 0); ok {
					okAny, why = true, w
				}
			}
			base := strings.Join(bases, "/")
			if okAny {
				c.OK("C11/R2", subject, c.At(call.Pos()), "raw copy of column memory "+why)
			} else {
				c.Violation("C11/R2", subject, c.At(call.Pos()), fmt.Sprintf("%s: raw byte copy of memory of column %s is not dominated by the true branch of %s.isTrivial; pointer-bearing components would be moved without write barriers", f.Name, base, base))
			}
			return true
		})
	}
}

// c11r3: kind table of the trivial-flag function.
func c11r3(c *core.Ctx) {
	m := c.M
	// role: func(reflect.Type) bool whose result is stored into componentRegistry.IsTrivial
	var fn *core.Func
	for _, f := range m.Funcs {
		core.InspectNoLits(f.Body, func(n ast.Node) bool {
			if as, ok := n.(*ast.AssignStmt); ok && len(as.Lhs) == 1 && len(as.Rhs) == 1 {
				if ix, ok := ast.Unparen(as.Lhs[0]).(*ast.IndexExpr); ok && fieldKeyOf(m, ix.X) == "componentRegistry.IsTrivial" {
					if call, ok := ast.Unparen(as.Rhs[0]).(*ast.CallExpr); ok {
						if k, cal, _ := m.Callee(call); k == core.CallStatic {
							fn = cal
						}
					}
				}
			}
			return true
		})
	}
	if fn == nil {
		c.Undecide("C11/R3", "role", "no function whose result is stored into componentRegistry.IsTrivial")
		return
	}
	kindOf := func(e ast.Expr) string {
		if sel, ok := ast.Unparen(e).(*ast.SelectorExpr); ok {
			if id, ok := sel.X.(*ast.Ident); ok {
				if pn, ok := m.Info.ObjectOf(id).(*types.PkgName); ok && pn.Imported().Path() == "reflect" {
					if cn, ok := m.Info.ObjectOf(sel.Sel).(*types.Const); ok && cn.Type().String() == "reflect.Kind" {
						return cn.Name()
					}
				}
			}
		}
		return ""
	}
	returnsFalse := func(list []ast.Stmt) bool {
		for _, s := range list {
			if rs, ok := s.(*ast.ReturnStmt); ok && len(rs.Results) == 1 && m.ExprString(rs.Results[0]) == "false" {
				return true
			}
		}
		return false
	}
	falseKinds := map[string]bool{}
	recurse := map[string]bool{}
	core.InspectNoLits(fn.Body, func(n ast.Node) bool {
		switch x := n.(type) {
		case *ast.CaseClause:
			self := false
			for _, st := range x.Body {
				if containsSelfCall(m, fn, st) {
					self = true
				}
			}
			for _, e := range x.List {
				if k := kindOf(e); k != "" {
					if self {
						recurse[k] = true
					} else if returnsFalse(x.Body) {
						falseKinds[k] = true
					}
				}
			}
		case *ast.IfStmt:
			// if tp.Kind() == reflect.X { ... recursion ... }
			if be, ok := ast.Unparen(x.Cond).(*ast.BinaryExpr); ok && be.Op == token.EQL {
				if k := kindOf(be.Y); k != "" {
					if returnsFalse(x.Body.List) && !containsSelfCall(m, fn, x.Body) {
						falseKinds[k] = true
					}
					if containsSelfCall(m, fn, x.Body) {
						recurse[k] = true
					}
				}
			}
		}
		return true
	})
	// reflect.Ptr is an alias constant of reflect.Pointer
	if falseKinds["Ptr"] {
		falseKinds["Pointer"] = true
	}
	for _, k := range []string{"Pointer", "Slice", "Map", "Chan", "Interface", "String", "Func", "UnsafePointer"} {
		subject := fn.Name + ": kind " + k
		if falseKinds[k] {
			c.OK("C11/R3", subject, c.At(fn.Pos()), "classified as not pointer-free")
		} else {
			c.Violation("C11/R3", subject, c.At(fn.Pos()), fmt.Sprintf("%s: values of kind %s hold a pointer but fall through to 'trivial'; components containing them would be copied and zeroed as raw bytes, without write barriers", fn.Name, k))
		}
	}
	for _, k := range []string{"Struct", "Array"} {
		subject := fn.Name + ": kind " + k
		if recurse[k] {
			c.OK("C11/R3", subject, c.At(fn.Pos()), "recurses into the fields / the element type")
		} else {
			c.Violation("C11/R3", subject, c.At(fn.Pos()), fmt.Sprintf("%s does not recurse into values of kind %s", fn.Name, k))
		}
	}
	// struct recursion covers all fields: loop bound NumField() without skipping
	okFields := false
	core.InspectNoLits(fn.Body, func(n ast.Node) bool {
		bound, body, isLoop := countLoop(m, n)
		if !isLoop {
			return true
		}
		overFields := false
		for _, e := range exprChain(m, fn, bound, 0) {
			if strings.HasSuffix(m.RawString(e), ".NumField()") {
				overFields = true
			}
		}
		if overFields {
			skip := false
			ast.Inspect(body, func(x ast.Node) bool {
				if br, ok := x.(*ast.BranchStmt); ok && br.Tok == token.CONTINUE {
					skip = true
				}
				return true
			})
			okFields = !skip
		}
		return true
	})
	if okFields {
		c.OK("C11/R3", fn.Name+": all fields", c.At(fn.Pos()), "struct recursion ranges over NumField() without skipping")
	} else {
		c.Violation("C11/R3", fn.Name+": all fields", c.At(fn.Pos()), fn.Name+": struct recursion does not visit every field")
	}
}

func containsSelfCall(m *core.Model, fn *core.Func, n ast.Node) bool {
	found := false
	ast.Inspect(n, func(x ast.Node) bool {
		if call, ok := x.(*ast.CallExpr); ok {
			if k, cal, _ := m.Callee(call); k == core.CallStatic && cal == fn {
				found = true
			}
		}
		return true
	})
	return found
}

// c11r4: capacity change allocates fresh typed arrays and copies the live rows on both paths.
func c11r4(c *core.Ctx) {
	m := c.M
	raw := rawCopyRole(c)
	var adj *core.Func
	for _, f := range m.Funcs {
		// a method of the table or a function taking the table; constructors (returning a table) are not the role
		if f.Recv != "table" && !(f.Recv == "" && f.Sig != nil && f.Sig.Params().Len() > 0 && isPtrTo(f.Sig.Params().At(0).Type(), "table")) {
			continue
		}
		core.InspectNoLits(f.Body, func(n ast.Node) bool {
			if as, ok := n.(*ast.AssignStmt); ok {
				for _, l := range as.Lhs {
					if fieldKeyOf(m, l) == "table.cap" {
						adj = f
					}
				}
			}
			return true
		})
	}
	if adj == nil || raw == nil {
		c.Undecide("C11/R4", "capacity role", "not derivable")
		return
	}
	// every assignment to X.data in the function allocates through reflect.New(reflect.ArrayOf(...)).Elem()
	// (the function itself, or per-column helpers it hands the capacity and length to: read under the call's bindings)
	inspectThrough(m, adj.Body, 2, nil, func(n ast.Node) bool {
		as, ok := n.(*ast.AssignStmt)
		if !ok {
			return true
		}
		for i, l := range as.Lhs {
			k := fieldKeyOf(m, l)
			if k != "column.data" && k != "entityColumn.data" {
				continue
			}
			rhs := as.Rhs[0]
			if i < len(as.Rhs) {
				rhs = as.Rhs[i]
			}
			s := m.ExprString(rhs)
			subject := adj.Name + ": " + m.ExprString(l)
			// the array length is the table's capacity: the field itself, or the value this function stores into it
			capStrings := map[string]bool{}
			core.InspectNoLits(adj.Body, func(x ast.Node) bool {
				if as2, ok := x.(*ast.AssignStmt); ok && len(as2.Lhs) == len(as2.Rhs) {
					for j, l2 := range as2.Lhs {
						if fieldKeyOf(m, l2) == "table.cap" {
							capStrings[m.ExprString(as2.Rhs[j])] = true
						}
					}
				}
				return true
			})
			lenIsCap := false
			// (the allocation may sit in a helper that receives the capacity: freshTypedArray follows it)
			ast.Inspect(m.Inline(rhs), func(x ast.Node) bool {
				if a, ok := x.(ast.Expr); ok {
					if fieldKeyOf(m, a) == "table.cap" || capStrings[m.ExprString(a)] {
						lenIsCap = true
					}
				}
				return true
			})
			// (a constructor that returns data and pointer together: buf := newBuffer(tp, t.cap); col.data = buf.data -
			// the array length inside the constructor is the parameter that receives the capacity)
			if sel, isSel := ast.Unparen(rhs).(*ast.SelectorExpr); isSel && !lenIsCap {
				if id, isID := ast.Unparen(sel.X).(*ast.Ident); isID {
					if v, isVar := m.Info.ObjectOf(id).(*types.Var); isVar && !v.IsField() {
						if defs := localDefsOf(m, m.EnclosingFunc(as.Pos()), v); len(defs) == 1 {
							if call, isCall := ast.Unparen(defs[0]).(*ast.CallExpr); isCall {
								if k, cal, _ := m.Callee(call); k == core.CallStatic && cal != nil && cal.Body != nil {
									nArr, okArr := 0, true
									core.InspectNoLits(cal.Body, func(x ast.Node) bool {
										ac, isC := x.(*ast.CallExpr)
										if !isC || types.ExprString(ac.Fun) != "reflect.ArrayOf" || len(ac.Args) != 2 {
											return true
										}
										nArr++
										pid := identOf(m.StripConv(ac.Args[0]))
										if pid == nil {
											okArr = false
											return true
										}
										pv, _ := m.Info.ObjectOf(pid).(*types.Var)
										pi, isP := paramIndexOf(cal, pv)
										if pv == nil || !isP || pi < 0 || pi >= len(call.Args) {
											okArr = false
											return true
										}
										if a := call.Args[pi]; fieldKeyOf(m, a) != "table.cap" && !capStrings[m.ExprString(a)] {
											okArr = false
										}
										return true
									})
									if nArr > 0 && okArr {
										lenIsCap = true
									}
								}
							}
						}
					}
				}
			}
			if freshTypedArray(m, adj, rhs, 0) && lenIsCap {
				c.OK("C11/R4", subject, c.At(as.Pos()), "fresh zeroed typed array of the new capacity")
			} else {
				c.Violation("C11/R4", subject, c.At(as.Pos()), fmt.Sprintf("%s: new buffer is %s, expected a fresh reflect.New(reflect.ArrayOf(cap, type)) array", adj.Name, s))
			}
		}
		return true
	})
	// in the column loop: if isTrivial { raw copy len*itemSize } else { reflect.Copy(new, old) }
	inspectThrough(m, adj.Body, 2, nil, func(n ast.Node) bool {
		is, ok := n.(*ast.IfStmt)
		if !ok || fieldKeyOf(m, is.Cond) != "column.isTrivial" || is.Else == nil {
			return true
		}
		rawOK, reflOK := false, false
		ast.Inspect(is.Body, func(x ast.Node) bool {
			if call, ok := x.(*ast.CallExpr); ok {
				if _, isRaw := callTo(m, call, raw); isRaw && len(call.Args) == 3 {
					cnt := m.ExprString(call.Args[2])
					if strings.Contains(cnt, "t.len") && strings.Contains(cnt, "itemSize") {
						rawOK = true
					}
				}
			}
			return true
		})
		ast.Inspect(is.Else, func(x ast.Node) bool {
			if call, ok := x.(*ast.CallExpr); ok {
				if m.ExprString(call.Fun) == "reflect.Copy" && len(call.Args) == 2 && fieldKeyOf(m, call.Args[0]) == "column.data" {
					reflOK = true
				}
			}
			return true
		})
		subject := adj.Name + ": copy of live rows"
		if rawOK && reflOK {
			c.OK("C11/R4", subject, c.At(is.Pos()), "raw path copies len*itemSize bytes, reflection path copies with reflect.Copy into the new array")
		} else {
			c.Violation("C11/R4", subject, c.At(is.Pos()), fmt.Sprintf("%s: live rows are not copied on both paths (raw len*itemSize: %v, reflect.Copy into the new array: %v)", adj.Name, rawOK, reflOK))
		}
		return true
	})
}
