package rules

import "arkverif/checker/core"

// Rule is one rule of a property; it records obligations and findings in the context.
type Rule struct {
	ID  string
	Run func(c *core.Ctx)
	// Min is the floor of matched instances below which the rule is considered vacuous (fails closed).
	Min int
	// CrossConfig rules run once with all loaded models instead of once per configuration.
	CrossConfig bool
}

// Property describes the check of one property.
type Property struct {
	ID          string
	Level       string
	Explanation string
	TrustedBase []string
	Assumptions []string
	Rules       []Rule
	// AllConfigsQuick: the quick tier also analyses all four build configurations.
	AllConfigsQuick bool
}

// Properties is the registry filled by the init functions of the cNN.go files.
var Properties = map[string]*Property{}

func register(p *Property) { Properties[p.ID] = p }

// VerifDir is the /verif directory (set by the command), used to locate checker/testdata.
var VerifDir string

func init() { core.PinnedFieldTypes = pinnedFieldTypes }
