package rules

import (
	"fmt"
	"go/ast"
	"go/types"
	"sort"
	"strings"

	"arkverif/checker/core"
)

func init() {
	register(&Property{
		ID:    "C05",
		Level: "other",
		Explanation: "Structural necessary conditions of 'registered filters are indistinguishable from unregistered ones': " +
			"(R1) every table activation offers the table to the cache and every freeing site removes it from the cache and the lookup structures (rules C04/R3, C04/R4); " +
			"(R2) the cache fill on registration, the cache update on table activation and all cached consumers apply the same selection predicate as uncached iteration and re-check emptiness and per-call relations (rule C03/R1); " +
			"(R3) cache entries handed to open queries stay valid: entries are held by pointer, or no function outside lock-guarded operations moves or zeroes entries in place; " +
			"(R4) resetting the cache detaches every registered filter and clears index, entries and id pool; " +
			"(R5) every site that passes a filter's permanent relations passes the view limited to the permanent count, never the scratch tail used for per-call targets; (R6) cache entries are not pooled behind the back of open queries; (R7) a loop over the storage's whole table list that collects table ids looks at the free flag of each table (free tables keep their old targets until they are recycled). " +
			"Not decided: equality of the two enumerations for every history.",
		TrustedBase: []string{"go/types, go/cfg", "rules C03/R1, C04/R3, C04/R4 as defined for their properties"},
		Rules: []Rule{
			{ID: "C05/R1", Run: func(c *core.Ctx) { c04r3(c); c04r4(c) }, Min: 5},
			{ID: "C05/R2", Run: c03r1, Min: 1},
			{ID: "C05/R3", Run: c05r3, Min: 1},
			{ID: "C05/R4", Run: c05r4, Min: 1},
			{ID: "C05/R5", Run: c05r5, Min: 1},
			{ID: "C05/R6", Run: c05r6, Min: 1},
			{ID: "C05/R7", Run: c05r7, Min: 0},
		},
	})
}

func c05r3(c *core.Ctx) {
	m := c.M
	fld := m.FieldByKey("cache.filters")
	if fld == nil {
		c.Undecide("C05/R3", "anchor", "cache.filters not found")
		return
	}
	sl, ok := fld.Type().(*types.Slice)
	if !ok {
		c.Undecide("C05/R3", "anchor", "cache.filters is not a slice")
		return
	}
	if _, isPtr := sl.Elem().(*types.Pointer); isPtr {
		// entries are separate objects: an entry pointer held by an open query stays valid; check that no function writes through
		// a removed entry either (zeroing *entry in unregister)
		bad := false
		for _, f := range m.Funcs {
			if f.Recv != "cache" {
				continue
			}
			core.InspectNoLits(f.Body, func(n ast.Node) bool {
				as, ok := n.(*ast.AssignStmt)
				if !ok {
					return true
				}
				for _, l := range as.Lhs {
					if st, ok := ast.Unparen(l).(*ast.StarExpr); ok {
						if m.AccessPath(f, st.X).Has("cache.filters") {
							bad = true
							c.Violation("C05/R3", f.Name+" overwrites an entry object", c.At(as.Pos()), f.Name+": overwrites a cache entry object in place; an open query holding that entry would continue on other data")
						}
					}
				}
				return true
			})
		}
		if !bad {
			c.OK("C05/R3", "cache.filters", c.At(fld.Pos()), "cache entries are held by pointer; removing or moving slice elements does not invalidate entries referenced by open queries")
		}
		return
	}
	// entries stored by value: interior pointers escape through getEntry; in-place element stores are only allowed under a lock test
	a := GetAnchors(c)
	res := m.MustPrecede(lockGuardSpecFor(c, a, func(f *core.Func, n ast.Node) []core.Witness {
		var out []core.Witness
		switch n.(type) {
		case *ast.AssignStmt:
			for _, s := range m.DirectStores(f, n) {
				if s.Path.Has("cache.filters") && s.Kind == core.StoreElem {
					out = append(out, core.Witness{What: "in-place store into a cache entry slot"})
				}
			}
		}
		return out
	}))
	bad := false
	for _, f := range m.Funcs {
		if !f.Exported() {
			continue
		}
		for _, w := range res.Unguarded[f] {
			bad = true
			deep := f.Name
			if len(w.Chain) > 0 {
				deep = w.Chain[len(w.Chain)-1]
			}
			c.Violation("C05/R3", f.Name+" -> "+deep, c.At(w.Node.Pos()), fmt.Sprintf("exported %s reaches an %s (%s) without a lock test while open queries may hold interior pointers to cache entries", f.Name, w.What, c.At(w.Deep.Pos())),
				"via "+strings.Join(append([]string{f.Name}, w.Chain...), " -> "))
			break
		}
	}
	if !bad {
		c.OK("C05/R3", "cache.filters", c.At(fld.Pos()), "entries stored by value are only moved in place by lock-guarded operations")
	}
}

// lockGuardSpecFor is the lock-test guard specification with a custom need.
func lockGuardSpecFor(c *core.Ctx, a *Anchors, needs func(f *core.Func, n ast.Node) []core.Witness) core.GuardSpec {
	spec := lockGuardSpec(c, a)
	spec.Needs = needs
	spec.Lift = nil
	return spec
}

func c05r4(c *core.Ctx) {
	m := c.M
	// the reset role of the cache: the function through which the reset chain of the world resets it
	// (found from the exported entry point World.Reset by receiver type, not by name)
	reset := resetFuncOf(c, "cache")
	if reset == nil {
		c.Undecide("C05/R4", "reset role", "the reset chain from World.Reset reaches no result-less method of the cache")
		return
	}
	// detaches every registered filter: loop over c.filters storing the unregistered marker into filter.cache
	detach, idxCleared, poolReset := false, false, false
	core.InspectNoLits(reset.Body, func(n ast.Node) bool {
		if body, isLoop := loopOverAll(m, n, "cache.filters"); isLoop {
			{
				ast.Inspect(body, func(y ast.Node) bool {
					if as, ok := y.(*ast.AssignStmt); ok {
						for i, l := range as.Lhs {
							if fieldKeyOf(m, l) == "filter.cache" && i < len(as.Rhs) {
								if tv, ok := m.Info.Types[as.Rhs[i]]; ok && tv.Value != nil {
									detach = true
								}
							}
						}
					}
					return true
				})
			}
		}
		switch x := n.(type) {
		case *ast.AssignStmt:
			for _, l := range x.Lhs {
				if fieldKeyOf(m, l) == "cache.indices" {
					idxCleared = true
				}
			}
		case *ast.CallExpr:
			if sel, ok := ast.Unparen(x.Fun).(*ast.SelectorExpr); ok && fieldKeyOf(m, sel.X) == "cache.intPool" {
				poolReset = true
			}
			// clear(c.indices) empties the index as well as a re-assignment does
			if id, ok := ast.Unparen(x.Fun).(*ast.Ident); ok && len(x.Args) == 1 {
				if b, isB := m.Info.ObjectOf(id).(*types.Builtin); isB && b.Name() == "clear" && fieldKeyOf(m, x.Args[0]) == "cache.indices" {
					idxCleared = true
				}
			}
		}
		return true
	})
	if detach && idxCleared && poolReset {
		c.OK("C05/R4", reset.Name, c.At(reset.Pos()), "every registered filter is marked unregistered; index, entries and id pool are cleared")
	} else {
		c.Violation("C05/R4", reset.Name, c.At(reset.Pos()), fmt.Sprintf("%s: filters detached=%v index cleared=%v id pool reset=%v; a filter registered before Reset could not be registered again or would alias a new entry", reset.Name, detach, idxCleared, poolReset))
	}
}

// c05r5: the permanent relations of a filter are always passed as relations[:numRelations].
func c05r5(c *core.Ctx) {
	m := c.M
	n := 0
	for _, f := range m.Funcs {
		if !strings.HasPrefix(f.Recv, "Filter") {
			continue
		}
		relKey := f.Recv + ".relations"
		numKey := f.Recv + ".numRelations"
		core.InspectNoLits(f.Body, func(x ast.Node) bool {
			call, ok := x.(*ast.CallExpr)
			if !ok {
				return true
			}
			for _, arg := range call.Args {
				a := ast.Unparen(arg)
				// direct use of f.relations as an argument
				if fieldKeyOf(m, a) == relKey {
					if m.IsBuiltin(call, "len") {
						continue
					}
					n++
					c.Violation("C05/R5", f.Name+": "+m.ExprString(call.Fun), c.At(call.Pos()), fmt.Sprintf("%s passes the whole relation slice %s to %s; beyond the permanent count it holds per-call targets of an earlier Batch/Query call", f.Name, m.ExprString(a), m.ExprString(call.Fun)))
					continue
				}
				if se, ok := a.(*ast.SliceExpr); ok && fieldKeyOf(m, se.X) == relKey {
					n++
					if se.Low == nil && se.High != nil && fieldKeyOf(m, se.High) == numKey {
						c.OK("C05/R5", f.Name+": "+m.ExprString(call.Fun), c.At(call.Pos()), "permanent relations passed as relations[:numRelations]")
					} else {
						c.Violation("C05/R5", f.Name+": "+m.ExprString(call.Fun), c.At(call.Pos()), fmt.Sprintf("%s passes %s; the permanent relations are relations[:numRelations]", f.Name, m.ExprString(a)))
					}
				}
			}
			return true
		})
	}
	if n == 0 {
		c.Undecide("C05/R5", "sites", "no filter method passes its relation slice")
	}
}

// c05r6: the cache's table lists do not depend on how many rows a table currently holds. Nothing notifies the cache
// when an empty table gets rows again (tables are offered on creation and recycling only), so a fill or update site
// that skips empty tables loses them for good; emptiness is re-checked by the cached consumers on every use instead.
func c05r6(c *core.Ctx) {
	m := c.M
	app := appendRoleOf(c)
	rc := &rangeCtx{m: m}
	fill := map[*core.Func]string{}
	for _, f := range m.AllFuncs() {
		core.InspectNoLits(f.Body, func(n ast.Node) bool {
			switch x := n.(type) {
			case *ast.CallExpr:
				if X, ok := callTo(m, x, app); ok && X != nil && m.AccessPath(f, X).Has("cacheEntry.tables") {
					fill[f] = "appends to a cache entry's table list"
				}
			case *ast.KeyValueExpr:
				if litFieldKey(m, x) == "cacheEntry.tables" {
					for _, e := range exprChain(m, f, x.Value, 0) {
						ast.Inspect(e, func(y ast.Node) bool {
							if call, ok := y.(*ast.CallExpr); ok {
								if k, cal, _ := m.Callee(call); k == core.CallStatic && cal.Sig != nil && cal.Sig.Results().Len() == 1 {
									if sl, ok := cal.Sig.Results().At(0).Type().(*types.Slice); ok && core.NamedName(sl.Elem()) == "tableID" {
										fill[cal] = "computes the initial table list of a cache entry"
									}
								}
							}
							return true
						})
					}
				}
			}
			return true
		})
	}
	if len(fill) == 0 {
		c.Undecide("C05/R6", "fill sites", "no function fills or updates a cache entry's table list")
		return
	}
	var fs []*core.Func
	for f := range fill {
		fs = append(fs, f)
	}
	sort.Slice(fs, func(i, j int) bool { return fs[i].Pos() < fs[j].Pos() })
	for _, f := range fs {
		bad := ""
		check := func(cond ast.Expr) {
			if cond == nil {
				return
			}
			ast.Inspect(cond, func(y ast.Node) bool {
				if e, ok := y.(ast.Expr); ok {
					if _, isLen := rc.tableLenRead(e); isLen && bad == "" {
						bad = c.At(e.Pos())
					}
				}
				return true
			})
		}
		core.InspectNoLits(f.Body, func(n ast.Node) bool {
			switch x := n.(type) {
			case *ast.IfStmt:
				check(x.Cond)
			case *ast.ForStmt:
				check(x.Cond)
			case *ast.CaseClause:
				for _, e := range x.List {
					check(e)
				}
			}
			return true
		})
		subject := f.Name + ": " + fill[f]
		if bad == "" {
			c.OK("C05/R6", subject, c.At(f.Pos()), "no branch depends on a table's current row count")
		} else {
			c.Violation("C05/R6", subject, bad, fmt.Sprintf("%s %s, but branches on a table's row count at %s; a table that is empty now and refilled later is never offered to the cache again, so the registered filter would miss its entities", f.Name, fill[f], bad))
		}
	}
}

// c05r7: tables are never selected from the list of all tables without looking at the free flag.
//
// The storage's table list contains the tables on the archetypes' free lists as well; they keep their old relation
// targets and their old length is zero, so a selection that walks the table list itself (instead of the archetypes'
// active lists) and keeps what matches also keeps free tables, which are later recycled for other targets. Every loop
// over the whole table list whose body puts table ids into a list therefore reads the free flag of the table.
func c05r7(c *core.Ctx) {
	m := c.M
	for _, f := range m.AllFuncs() {
		core.InspectNoLits(f.Body, func(n ast.Node) bool {
			body, ok := loopOverAll(m, n, "storage.tables")
			if !ok {
				return true
			}
			selects, readsFree := false, false
			ast.Inspect(body, func(x ast.Node) bool {
				switch y := x.(type) {
				case *ast.CallExpr:
					if m.IsBuiltin(y, "append") && len(y.Args) >= 2 {
						if sl, ok := m.Info.TypeOf(y.Args[0]).Underlying().(*types.Slice); ok && core.NamedName(sl.Elem()) == "tableID" {
							selects = true
						}
					}
				case *ast.SelectorExpr:
					if fieldKeyOf(m, y) == "table.isFree" {
						readsFree = true
					}
				}
				return true
			})
			if !selects {
				return true
			}
			subject := f.Name + ": selection from the list of all tables"
			if readsFree {
				c.OK("C05/R7", subject, c.At(n.Pos()), "the loop over all tables looks at the free flag before it keeps a table")
			} else {
				c.Violation("C05/R7", subject, c.At(n.Pos()), f.Name+" collects table ids in a loop over the storage's whole table list without looking at the free flag; tables on a free list (which keep their old targets until recycled) would be selected, and recycled later under other targets")
			}
			return true
		})
	}
}
