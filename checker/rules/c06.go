package rules

import (
	"fmt"
	"go/ast"
	"go/token"
	"go/types"
	"strings"

	"arkverif/checker/core"
)

func init() {
	register(&Property{
		ID:    "C06",
		Level: "other",
		Explanation: "Structural necessary conditions of 'batch operations equal the per-entity operations they abbreviate': " +
			"(R1) select before mutate: in every batch operation the table enumeration precedes the first row mutation and is not repeated after one; " +
			"(R2) bulk moves follow the move protocol (C01/R4), no table pointer is used after the table slice may have grown without being re-derived (C01/R5), and the (table, start, count) handed to the batch callback are the destination table, the destination's length read before the move (or the start returned by it) and the moved count; records written back into a batch list are written through a pointer or index, never into a range-value copy (R8: no field assignment and no storing pointer-receiver method call on a range-value copy whose result is dropped, and no field assignment on a local copy of an element that is never used again, anywhere in the package); " +
			"(R3) row coherence: wherever a callback receives T.GetEntity(i) together with component pointers col.Get(j), i and j are the same expression and every col is a column of table T; " +
			"(R4) deferred cleanup: in the batch entity removal no call that can free or move tables lies inside the loop over the selected tables; (R5) callbacks run under the internal lock (C07/R2); " +
			"(R6) scratch exclusivity: while a function holds a scratch slice of the storage (taken into a local, not yet handed back) it calls no function that itself takes that scratch slice; (R9) what is put back into a scratch slot (`slot = list[:0]`) is on every path the slot's own buffer or freshly allocated memory, never a list that belongs to another owner (a cache entry's table list, a table's relation list), followed through re-slices, appends, locals, helper results and parameters; (R10) a batch plan describes each table by itself: no field of a per-table plan record built in the planning loop, and nothing used by a later loop over the records, is a variable that is declared outside the planning loop and overwritten inside it (a memoised destination, one accumulator for all tables) - flags, counters and the record list excepted. " +
			"(R11 = C04/R15) the deferred target cleanup walks its table list backwards while freeing tables; (R12 = C12/O6) no constructed value takes a field from a package-level variable that holds mutable memory (scratch slices are per world). Not decided: equivalence of the resulting world with sequential execution; exactly-once across several source tables mapping to one destination.",
		TrustedBase: []string{"go/types, go/cfg", "rules C01/R4 and C07/R2"},
		Rules: []Rule{
			{ID: "C06/R1", Run: c06r1, Min: 1},
			{ID: "C06/R2", Run: func(c *core.Ctx) { c01r4(c); c01r5(c); c06r2(c) }, Min: 4},
			{ID: "C06/R3", Run: c06r3, Min: 1},
			{ID: "C06/R4", Run: c06r4, Min: 1},
			{ID: "C06/R5", Run: c07r2r3, Min: 1},
			{ID: "C06/R6", Run: c06r6, Min: 1},
			{ID: "C01/R9", Run: c01r9, Min: 1},
			{ID: "C06/R8", Run: c06r8, Min: 1},
			{ID: "C06/R9", Run: c06r9, Min: 1},
			{ID: "C06/R10", Run: c06r10, Min: 8},
			{ID: "C04/R15", Run: c04r15, Min: 1},
			{ID: "C12/O6", Run: c12o6, Min: 0},
		},
	})
}

// batchEnumerator: the function that lists the tables a batch selects. It returns []tableID and is handed the batch:
// either a *Batch parameter, or - called from a function that has a Batch parameter - arguments taken from the batch
// (its filter and relations).
func batchEnumerator(c *core.Ctx) *core.Func {
	m := c.M
	listsTables := func(f *core.Func) bool {
		if f.Sig == nil || f.Sig.Results().Len() != 1 {
			return false
		}
		sl, ok := f.Sig.Results().At(0).Type().(*types.Slice)
		return ok && core.NamedName(sl.Elem()) == "tableID"
	}
	for _, f := range m.Funcs {
		if listsTables(f) && f.Sig.Params().Len() == 1 && isPtrTo(f.Sig.Params().At(0).Type(), "Batch") {
			return f
		}
	}
	isBatch := func(t types.Type) bool {
		if p, ok := t.(*types.Pointer); ok {
			t = p.Elem()
		}
		return core.NamedName(t) == "Batch"
	}
	votes := map[*core.Func]int{}
	for _, cs := range m.CallSites() {
		if !listsTables(cs.Callee) || cs.Caller.Sig == nil || cs.Callee.Recv != "storage" {
			continue
		}
		var bp *types.Var
		for i := 0; i < cs.Caller.Sig.Params().Len(); i++ {
			if isBatch(cs.Caller.Sig.Params().At(i).Type()) {
				bp = cs.Caller.Sig.Params().At(i)
			}
		}
		if bp == nil {
			continue
		}
		fromBatch := 0
		for _, a := range cs.Call.Args {
			ast.Inspect(m.Inline(a), func(n ast.Node) bool {
				if id, ok := n.(*ast.Ident); ok && m.Info.ObjectOf(id) == bp {
					fromBatch++
					return false
				}
				return true
			})
		}
		if fromBatch > 0 && fromBatch == len(cs.Call.Args) {
			votes[cs.Callee]++
		}
	}
	var best *core.Func
	for f, n := range votes {
		if best == nil || n > votes[best] || (n == votes[best] && f.Pos() < best.Pos()) {
			best = f
		}
	}
	return best
}

func c06r1(c *core.Ctx) {
	m := c.M
	enum := batchEnumerator(c)
	if enum == nil {
		c.Undecide("C06/R1", "enumerator role", "no function that lists the tables selected by a batch")
		return
	}
	res := m.NeverAfter(core.OrderSpec{
		IsA: rowMutation(m),
		IsB: func(f *core.Func, n ast.Node) string {
			if call, ok := n.(*ast.CallExpr); ok {
				if _, ok := callTo(m, call, enum); ok {
					return "table enumeration for the batch"
				}
			}
			return ""
		},
	})
	bad := map[*core.Func]bool{}
	for _, v := range res.Violations {
		bad[v.Func] = true
		c.Violation("C06/R1", v.Func.Name, c.At(v.B.Node.Pos()), fmt.Sprintf("%s enumerates the batch's tables at %s after rows were already mutated at %s; entities moved by the batch could be selected again (or missed)", v.Func.Name, c.At(v.B.Node.Pos()), c.At(v.A.Deep.Pos())))
	}
	for _, cs := range m.CallSites() {
		if cs.Callee == enum && !bad[cs.Caller] {
			c.OK("C06/R1", cs.Caller.Name, c.At(cs.Call.Pos()), "the batch's tables are enumerated once, before any row mutation")
		}
	}
}

func c06r2(c *core.Ctx) {
	m := c.M
	tr := GetTableRoles(c)
	// movers: functions that (directly) call a bulk-add role
	isMover := func(f *core.Func) bool {
		found := false
		core.InspectNoLits(f.Body, func(n ast.Node) bool {
			if call, ok := n.(*ast.CallExpr); ok {
				for _, r := range tr.AddAll {
					if _, ok := callTo(m, call, r); ok {
						found = true
					}
				}
			}
			return true
		})
		return found
	}
	// callback invocations with (table, start, count)
	for _, f := range m.Funcs {
		core.InspectNoLits(f.Body, func(n ast.Node) bool {
			call, ok := n.(*ast.CallExpr)
			if !ok || len(call.Args) != 3 {
				return true
			}
			k, _, _ := m.Callee(call)
			v := dynamicCallee(m, call)
			if k != core.CallDynamic || v == nil {
				return true
			}
			if _, isP := paramIndexOf(f, v); !isP {
				return true
			}
			if core.NamedName(m.Info.TypeOf(call.Args[0])) != "tableID" && fieldKeyOf(m, call.Args[0]) != "table.id" {
				return true
			}
			subject := fmt.Sprintf("%s: %s", f.Name, m.ExprString(call))
			// find the move in the same block list before the call
			list, idx := enclosingStmtList(f, call)
			var mv *ast.CallExpr
			var mvResults []string
			var mvPrefix []ast.Stmt // the statements before the move in the move's own statement list
			if list != nil {
				// the callback may sit in `if fn != nil { fn(...) }`: search the parent list too
				search := list[:idx]
				if pl, pi := enclosingStmtList(f, list[0]); pl != nil && len(search) == 0 {
					_ = pi
				}
				outer, oi := list, idx
				for tries := 0; tries < 2 && mv == nil; tries++ {
					for si, st := range outer[:oi] {
						ast.Inspect(st, func(x ast.Node) bool {
							c2, isC := x.(*ast.CallExpr)
							if !isC {
								return true
							}
							if k2, cal, _ := m.Callee(c2); k2 == core.CallStatic && (isMover(cal)) {
								mv = c2
								mvPrefix = outer[:si]
								if as, isAs := st.(*ast.AssignStmt); isAs {
									mvResults = nil
									for _, l := range as.Lhs {
										mvResults = append(mvResults, m.ExprString(l))
									}
								}
							}
							return true
						})
					}
					// go one level up
					var parentStmt ast.Stmt
					core.InspectNoLits(f.Body, func(x ast.Node) bool {
						if is, isIf := x.(*ast.IfStmt); isIf && len(outer) > 0 && is.Body.Pos() <= outer[0].Pos() && outer[len(outer)-1].End() <= is.Body.End() {
							parentStmt = is
						}
						return true
					})
					if parentStmt == nil {
						break
					}
					outer, oi = enclosingStmtList(f, parentStmt)
					if outer == nil {
						break
					}
				}
			}
			if mv == nil {
				c.Violation("C06/R2", subject, c.At(call.Pos()), f.Name+": the batch callback is invoked without a preceding bulk move in the same iteration")
				return true
			}
			start, count := m.ExprString(call.Args[1]), m.ExprString(call.Args[2])
			okArgs, why := false, ""
			if len(mvResults) == 2 {
				// start, len := move(...)
				if start == mvResults[0] && count == mvResults[1] {
					okArgs = true
				} else {
					why = fmt.Sprintf("callback gets (%s, %s) but the move returned (%s, %s)", start, count, mvResults[0], mvResults[1])
				}
			} else {
				// start := dst.Len() read before the move; count = the count passed to the move
				okStart := false
				startChain := valueChain(m, f, call.Args[1], 0)
				if sel, isSel := ast.Unparen(m.StripConv(call.Args[1])).(*ast.SelectorExpr); isSel {
					// the start travels through a record field: `rec.start = dst.Len()` stored before the move in the same
					// statement list (hence the same iteration); the last such store is the value read by the callback
					for _, st := range mvPrefix {
						if as, isAs := st.(*ast.AssignStmt); isAs && len(as.Lhs) == 1 && len(as.Rhs) == 1 && m.ExprString(as.Lhs[0]) == m.ExprString(sel) {
							startChain = valueChain(m, f, as.Rhs[0], 0)
						}
					}
				}
				for _, sv := range startChain {
					if strings.HasSuffix(sv, ".Len()") || strings.HasSuffix(sv, ".len") {
						dst := strings.TrimSuffix(strings.TrimSuffix(sv, ".Len()"), ".len")
						// the read must precede the move (the defining statement of the local)
						readBefore := true
						if id, isID := ast.Unparen(m.StripConv(call.Args[1])).(*ast.Ident); isID {
							if vv, okv := m.Info.ObjectOf(id).(*types.Var); okv {
								for _, d := range localDefsOf(m, f, vv) {
									if d.Pos() > mv.Pos() {
										readBefore = false
									}
								}
							}
						}
						for _, a := range mv.Args {
							if (m.ExprString(a) == dst || m.BaseString(a) == dst) && readBefore {
								okStart = true
							}
						}
					}
				}
				okCount := false
				for _, a := range mv.Args {
					if sameValue(m, f, a, call.Args[2]) {
						okCount = true
					}
				}
				okArgs = okStart && okCount
				if !okStart {
					why = "the start index is not the destination table's length read before the move"
				} else if !okCount {
					why = "the count is not the count passed to the move"
				}
			}
			if !okArgs {
				// the start and the count may travel through helper results and batch-record fields: trace them to their
				// sources (destination length read before it grew; moved/created count) like the dispatch-range rule does
				rc := c06RangeCtx(c)
				if rc.isStart(f, call.Args[1], 0) && rc.isCount(f, call.Args[2], 0) && !rc.isStart(f, call.Args[2], 0) {
					okArgs = true
				}
			}
			if okArgs {
				c.OK("C06/R2", subject, c.At(call.Pos()), "callback receives the destination table, the start row of the moved block and the moved count")
			} else {
				c.Violation("C06/R2", subject, c.At(call.Pos()), f.Name+": "+why+"; the callback would run over rows that are not the moved entities")
			}
			return true
		})
	}
	// the batch record write-back exists: the start row of batch records is stored through a pointer or index.
	// The record type is the element type of the scratch list of batch records (found by type, not by name).
	recType := ""
	if fv := m.FieldByKey("slices.batches"); fv != nil {
		if el := listElemOf(fv.Type()); el != nil {
			recType = core.NamedName(el)
		}
	}
	if recType == "" {
		return
	}
	for _, f := range m.Funcs {
		stored := map[string]bool{}
		core.InspectNoLits(f.Body, func(n ast.Node) bool {
			if as, ok := n.(*ast.AssignStmt); ok {
				for _, s := range m.DirectStores(f, as) {
					if k := s.Path.Last(); ownerOf(k) == recType {
						stored[k] = true
						// a store of a whole nested struct of the record (rec.rows = rows) stores the fields grouped in it
						if fv := m.FieldByKey(k); fv != nil {
							if st, ok := fv.Type().Underlying().(*types.Struct); ok {
								for i := 0; i < st.NumFields(); i++ {
									if k2 := m.FieldKey(st.Field(i).Origin()); ownerOf(k2) == recType {
										stored[k2] = true
									}
								}
							}
						}
					}
				}
			}
			return true
		})
		read := map[string]bool{}
		core.InspectNoLits(f.Body, func(n ast.Node) bool {
			if sel, ok := n.(*ast.SelectorExpr); ok {
				if k := fieldKeyOf(m, sel); ownerOf(k) == recType {
					read[k] = true
				}
			}
			return true
		})
		// fields of the record that are read in this function but only initialised by the composite literal
		// (oldTable/newTable) need no write-back; fields read by the event passes after the move loop must be stored
		if len(read) == 0 {
			continue
		}
		// the move loop: calls a mover and invokes the callback; fields assigned there
		var needs []string
		for _, cn := range constructionsOf(m, f) {
			if cn.typ != recType {
				continue
			}
			for k := range read {
				if _, init := cn.fields[k]; !init && !stored[k] {
					needs = append(needs, k)
				}
			}
		}
		subject := f.Name + ": batch records"
		if len(needs) == 0 {
			c.OK("C06/R2", subject, c.At(f.Pos()), "every field of a batch record that is read was initialised or written back into the list (through a pointer/index)")
		} else {
			c.Violation("C06/R2", subject, c.At(f.Pos()), fmt.Sprintf("%s reads %v of batch records but never stores them into the batch list; later passes would iterate rows [0,len) of the destination instead of the moved block", f.Name, needs))
		}
	}
}

// c06r8: no lost updates on range-value copies. In `for _, v := range xs` over a slice of struct values, v is a copy:
// an assignment to a field of v, or a pointer-receiver method that stores into the struct itself, changes the copy and
// not the element — unless the copy is used again afterwards in the same iteration (then it is a working copy).
func c06r8(c *core.Ctx) {
	m := c.M
	n := 0
	// lost updates: assignment to a field of a range-value copy
	for _, f := range m.AllFuncs() {
		core.InspectNoLits(f.Body, func(nd ast.Node) bool {
			rs, ok := nd.(*ast.RangeStmt)
			if !ok || rs.Value == nil {
				return true
			}
			id, ok := rs.Value.(*ast.Ident)
			if !ok {
				return true
			}
			v, ok := m.Info.ObjectOf(id).(*types.Var)
			if !ok {
				return true
			}
			if _, isStruct := v.Type().Underlying().(*types.Struct); !isStruct {
				return true
			}
			ast.Inspect(rs.Body, func(x ast.Node) bool {
				// a method with a pointer receiver called on the copy: whatever it stores in the struct itself (not through
				// a pointer, slice or map held by it) is stored in the copy and lost
				if call, isCall := x.(*ast.CallExpr); isCall {
					if sel, isS := ast.Unparen(call.Fun).(*ast.SelectorExpr); isS {
						if bid, isID := ast.Unparen(sel.X).(*ast.Ident); isID && m.Info.ObjectOf(bid) == v {
							// a method called for its result works on the copy by design (the copy is its scratch); only a call made
							// for its effect alone is a lost update
							if k, cal, _ := m.Callee(call); k == core.CallStatic && cal.Sig != nil && cal.Sig.Recv() != nil && cal.Sig.Results().Len() == 0 {
								if _, ptrRecv := cal.Sig.Recv().Type().(*types.Pointer); ptrRecv {
									lost := ""
									for _, st := range c.Eff.Stores(cal) {
										if st.Path.Kind == core.RootParam && st.Path.Index == -1 && len(st.Path.Keys) > 0 && storedInStructItself(m, st.Path.Keys) {
											lost = st.Path.Last()
											break
										}
									}
									readLater := false
									ast.Inspect(rs.Body, func(y ast.Node) bool {
										if uid, isU := y.(*ast.Ident); isU && uid.Pos() > call.End() && m.Info.ObjectOf(uid) == v {
											readLater = true
										}
										return true
									})
									if lost != "" && !readLater {
										c.Violation("C06/R8", fmt.Sprintf("%s: %s", f.Name, m.ExprString(call)), c.At(call.Pos()), fmt.Sprintf("%s calls %s on the per-iteration copy of a %s element; what the method stores in the struct itself (%s) is stored in the copy and lost, the slice element keeps its old state", f.Name, cal.Name, core.NamedName(v.Type()), lost))
									}
								}
							}
						}
					}
				}
				if as, isAs := x.(*ast.AssignStmt); isAs {
					for _, l := range as.Lhs {
						if sel, isS := ast.Unparen(l).(*ast.SelectorExpr); isS {
							if bid, isID := ast.Unparen(sel.X).(*ast.Ident); isID && m.Info.ObjectOf(bid) == v {
								// is the copy read afterwards in the loop body?
								readLater := false
								ast.Inspect(rs.Body, func(y ast.Node) bool {
									if uid, isU := y.(*ast.Ident); isU && uid.Pos() > as.End() && m.Info.ObjectOf(uid) == v {
										readLater = true
									}
									return true
								})
								if !readLater {
									c.Violation("C06/R8", fmt.Sprintf("%s: %s", f.Name, m.ExprString(l)), c.At(as.Pos()), fmt.Sprintf("%s assigns %s, a field of the per-iteration copy of a %s element; the update is lost (the slice element keeps its old value)", f.Name, m.ExprString(l), core.NamedName(v.Type())))
								}
							}
						}
					}
				}
				return true
			})
			return true
		})
	}
	// the same for a local copy of an element: `t := tables[id]; t.isFree = true` changes the copy; unless the copy is
	// used afterwards (stored back, passed on, returned, its address taken) the update is lost
	for _, f := range m.AllFuncs() {
		core.InspectNoLits(f.Body, func(nd ast.Node) bool {
			def, ok := nd.(*ast.AssignStmt)
			if !ok || def.Tok != token.DEFINE || len(def.Lhs) != 1 || len(def.Rhs) != 1 {
				return true
			}
			id, ok := def.Lhs[0].(*ast.Ident)
			if !ok {
				return true
			}
			v, ok := m.Info.Defs[id].(*types.Var)
			if !ok {
				return true
			}
			if _, isStruct := v.Type().Underlying().(*types.Struct); !isStruct || core.NamedName(v.Type()) == "" {
				return true
			}
			if _, isIx := ast.Unparen(def.Rhs[0]).(*ast.IndexExpr); !isIx {
				return true
			}
			// every mention of the copy after its definition
			var stores []*ast.AssignStmt
			other := false
			lhsIdent := map[*ast.Ident]bool{}
			core.InspectNoLits(f.Body, func(x ast.Node) bool {
				if as, isAs := x.(*ast.AssignStmt); isAs && as.Tok == token.ASSIGN && len(as.Lhs) == 1 {
					if sel, isS := ast.Unparen(as.Lhs[0]).(*ast.SelectorExpr); isS {
						if bid, isID := ast.Unparen(sel.X).(*ast.Ident); isID && m.Info.ObjectOf(bid) == types.Object(v) && m.FieldOf(sel) != nil {
							stores = append(stores, as)
							lhsIdent[bid] = true
						}
					}
				}
				return true
			})
			ast.Inspect(f.Body, func(x ast.Node) bool {
				if uid, isU := x.(*ast.Ident); isU && uid != id && m.Info.ObjectOf(uid) == types.Object(v) && !lhsIdent[uid] {
					other = true
				}
				return true
			})
			if len(stores) > 0 && !other {
				as := stores[0]
				c.Violation("C06/R8", fmt.Sprintf("%s: %s", f.Name, m.RawString(as.Lhs[0])), c.At(as.Pos()), fmt.Sprintf("%s assigns %s, a field of a local copy of a %s element that is never used afterwards; the update is lost (the element keeps its old value)", f.Name, m.RawString(as.Lhs[0]), core.NamedName(v.Type())))
			}
			return true
		})
	}
	_ = n
	c.OK("C06/R8", "range-value copies", "", "no field assignment or storing pointer-receiver call on a per-iteration copy whose result is dropped")
}

// storedInStructItself: the field path stays inside the memory of the root struct (no hop through a pointer, slice or
// map field, no element access), so a store along it is lost when the root is a copy.
func storedInStructItself(m *core.Model, keys []string) bool {
	for i, k := range keys {
		if k == "[]" {
			return false
		}
		if i == len(keys)-1 {
			break
		}
		fv := m.FieldByKey(k)
		if fv == nil {
			return false
		}
		switch fv.Type().Underlying().(type) {
		case *types.Pointer, *types.Slice, *types.Map, *types.Chan, *types.Interface:
			return false
		}
	}
	return true
}

var c06RangeCache = map[*core.Model]*rangeCtx{}

func c06RangeCtx(c *core.Ctx) *rangeCtx {
	if r, ok := c06RangeCache[c.M]; ok {
		return r
	}
	r := newRangeCtx(c)
	c06RangeCache[c.M] = r
	return r
}

// c06r3: row coherence of callbacks.
func c06r3(c *core.Ctx) {
	m := c.M
	tr := GetTableRoles(c)
	if tr.GetEntity == nil {
		c.Undecide("C06/R3", "role", "get-entity role not derivable")
		return
	}
	for _, f := range m.AllFuncs() {
		core.InspectNoLits(f.Body, func(n ast.Node) bool {
			call, ok := n.(*ast.CallExpr)
			if !ok || len(call.Args) < 2 {
				return true
			}
			if k, _, _ := m.Callee(call); k != core.CallDynamic {
				return true
			}
			ge, ok := ast.Unparen(call.Args[0]).(*ast.CallExpr)
			if !ok {
				return true
			}
			rv, isG := callTo(m, ge, tr.GetEntity)
			if !isG || rv == nil {
				return true
			}
			T := m.ExprString(rv)
			row := m.ExprString(ge.Args[0])
			// id expression of the table T in this function
			tids := tableIDAlternatives(m, f, rv)
			subject := fmt.Sprintf("%s: callback over %s", f.Name, T)
			var problems []string
			for _, arg := range call.Args[1:] {
				conv, isConv := ast.Unparen(arg).(*ast.CallExpr)
				if !isConv || len(conv.Args) != 1 {
					continue
				}
				get, isGet := ast.Unparen(conv.Args[0]).(*ast.CallExpr)
				if !isGet || len(get.Args) != 1 {
					continue
				}
				sel, isSel := ast.Unparen(get.Fun).(*ast.SelectorExpr)
				if !isSel {
					continue
				}
				if m.ExprString(get.Args[0]) != row {
					problems = append(problems, fmt.Sprintf("component pointer %s is taken at row %s but the entity at row %s", m.ExprString(arg), m.ExprString(get.Args[0]), row))
				}
				// the column: a local defined as storageX.columns[ID] or T.Column(id)
				col := sel.X
				if id, isID := ast.Unparen(col).(*ast.Ident); isID {
					if v, okv := m.Info.ObjectOf(id).(*types.Var); okv {
						for _, d := range localDefsOf(m, f, v) {
							col = d
						}
					}
				}
				okCol := false
				switch y := ast.Unparen(col).(type) {
				case *ast.IndexExpr:
					if fieldKeyOf(m, y.X) == "componentStorage.columns" && tids[m.ExprString(y.Index)] {
						okCol = true
					}
				case *ast.CallExpr:
					if s2, isS := ast.Unparen(y.Fun).(*ast.SelectorExpr); isS && m.ExprString(s2.X) == T {
						okCol = true
					}
				}
				if !okCol {
					problems = append(problems, fmt.Sprintf("column %s is not a column of table %s", m.ExprString(col), T))
				}
			}
			if len(problems) == 0 {
				c.OK("C06/R3", subject, c.At(call.Pos()), "entity and all component pointers are taken from the same table at the same row")
			} else {
				c.Violation("C06/R3", subject, c.At(call.Pos()), f.Name+": "+strings.Join(dedupe(problems), "; "))
			}
			return true
		})
	}
}

// c06r4: no table-freeing call inside the loop over the selected tables.
func c06r4(c *core.Ctx) {
	a := GetAnchors(c)
	m := c.M
	enum := batchEnumerator(c)
	n := 0
	for _, f := range m.Funcs {
		// recycles entities, itself or through a helper
		var recyclesIn func(g *core.Func, depth int) bool
		recyclesIn = func(g *core.Func, depth int) bool {
			found := false
			core.InspectNoLits(g.Body, func(x ast.Node) bool {
				if call, ok := x.(*ast.CallExpr); ok && !found {
					if k, cal, _ := m.Callee(call); k == core.CallStatic && cal != nil {
						if a.PoolRecycle[cal] || (depth < 2 && cal.Body != nil && cal.Recv != "entityPool" && recyclesIn(cal, depth+1)) {
							found = true
						}
					}
				}
				return !found
			})
			return found
		}
		recycles := recyclesIn(f, 0)
		if !recycles || enum == nil {
			continue
		}
		// the selected list: local assigned from the enumerator
		var listVar *types.Var
		core.InspectNoLits(f.Body, func(x ast.Node) bool {
			if as, ok := x.(*ast.AssignStmt); ok && len(as.Rhs) == 1 {
				if call, ok := ast.Unparen(as.Rhs[0]).(*ast.CallExpr); ok {
					if _, ok := callTo(m, call, enum); ok {
						if id, ok := as.Lhs[0].(*ast.Ident); ok {
							listVar, _ = m.Info.ObjectOf(id).(*types.Var)
						}
					}
				}
			}
			return true
		})
		if listVar == nil {
			continue
		}
		n++
		bad := ""
		core.InspectNoLits(f.Body, func(x ast.Node) bool {
			rs, ok := x.(*ast.RangeStmt)
			if !ok {
				return true
			}
			if id, ok := ast.Unparen(rs.X).(*ast.Ident); !ok || m.Info.ObjectOf(id) != listVar {
				return true
			}
			ast.Inspect(rs.Body, func(y ast.Node) bool {
				if call, ok := y.(*ast.CallExpr); ok {
					if k, cal, _ := m.Callee(call); k == core.CallStatic {
						for _, s := range c.Eff.Stores(cal) {
							if s.Path.Last() == "table.isFree" || (s.Path.Last() == "storage.tables" && s.Kind == core.StoreAssign) {
								bad = cal.Name
							}
						}
					}
				}
				return true
			})
			return true
		})
		if bad == "" {
			c.OK("C06/R4", f.Name, c.At(f.Pos()), "no call that frees, creates or re-targets tables inside the loop over the selected tables; target cleanup runs afterwards")
		} else {
			c.Violation("C06/R4", f.Name, c.At(f.Pos()), fmt.Sprintf("%s calls %s inside the loop over the selected tables; it can free or move tables that are still to be processed", f.Name, bad))
		}
	}
	if n == 0 {
		c.Undecide("C06/R4", "batch removal", "no function that enumerates batch tables and recycles entities")
	}
}

// c06r6: scratch slices of the storage are not taken twice at the same time.
func c06r6(c *core.Ctx) {
	m := c.M
	st := m.Prog.LookupType("slices")
	if st == nil {
		c.Undecide("C06/R6", "anchor", "type slices not found")
		return
	}
	n := 0
	for _, f := range m.Funcs {
		// takes: local := X.slices.F ; releases: X.slices.F = ...
		type take struct {
			key     string
			at, end token.Pos
		}
		var takes []take
		core.InspectNoLits(f.Body, func(x ast.Node) bool {
			as, ok := x.(*ast.AssignStmt)
			if !ok {
				return true
			}
			for i, r := range as.Rhs {
				if k := fieldKeyOf(m, r); k != "" && isScratchOwner(m, ownerOf(k)) && isSliceType(m.Info.TypeOf(r)) && i < len(as.Lhs) {
					takes = append(takes, take{key: k, at: as.Pos(), end: f.Body.End()})
				}
			}
			return true
		})
		// also lists obtained from a callee that returns a scratch slice (getBatchTables, getExchangeTargetsUnchecked)
		core.InspectNoLits(f.Body, func(x ast.Node) bool {
			as, ok := x.(*ast.AssignStmt)
			if !ok || len(as.Rhs) != 1 {
				return true
			}
			if call, ok := ast.Unparen(as.Rhs[0]).(*ast.CallExpr); ok {
				if k, cal, _ := m.Callee(call); k == core.CallStatic {
					if key := returnsScratch(m, cal); key != "" {
						takes = append(takes, take{key: key, at: as.End(), end: f.Body.End()})
					}
				}
			}
			return true
		})
		for i := range takes {
			core.InspectNoLits(f.Body, func(x ast.Node) bool {
				if as, ok := x.(*ast.AssignStmt); ok && as.Pos() > takes[i].at {
					for _, l := range as.Lhs {
						if fieldKeyOf(m, l) == takes[i].key && as.Pos() < takes[i].end {
							takes[i].end = as.Pos()
						}
					}
				}
				return true
			})
		}
		for _, t := range takes {
			n++
			conflict := ""
			core.InspectNoLits(f.Body, func(x ast.Node) bool {
				call, ok := x.(*ast.CallExpr)
				if !ok || call.Pos() <= t.at || call.Pos() >= t.end {
					return true
				}
				if k, cal, _ := m.Callee(call); k == core.CallStatic && takesScratch(m, cal, t.key, 0, map[*core.Func]bool{}) {
					conflict = cal.Name + " at " + c.At(call.Pos())
				}
				return true
			})
			subject := fmt.Sprintf("%s holds %s", f.Name, t.key)
			if conflict == "" {
				c.OK("C06/R6", subject, c.At(t.at), "no callee takes the same scratch slice while it is held")
			} else {
				c.Violation("C06/R6", subject, c.At(t.at), fmt.Sprintf("%s holds the scratch slice %s while calling %s, which takes the same slice; the two uses overwrite each other's contents", f.Name, t.key, conflict))
			}
		}
	}
	if n == 0 {
		c.Undecide("C06/R6", "scratch uses", "no function takes a scratch slice")
	}
}

// returnsScratch: the callee returns a slice that it took from a scratch field without releasing it.
func returnsScratch(m *core.Model, f *core.Func) string {
	if f.Sig == nil || f.Sig.Results().Len() == 0 {
		return ""
	}
	key := ""
	core.InspectNoLits(f.Body, func(n ast.Node) bool {
		rs, ok := n.(*ast.ReturnStmt)
		if !ok || len(rs.Results) == 0 {
			return true
		}
		id, ok := ast.Unparen(rs.Results[0]).(*ast.Ident)
		if !ok {
			return true
		}
		v, ok := m.Info.ObjectOf(id).(*types.Var)
		if !ok {
			return true
		}
		for _, d := range localDefsOf(m, f, v) {
			if k := fieldKeyOf(m, d); k != "" && isScratchOwner(m, ownerOf(k)) && isSliceType(m.Info.TypeOf(d)) {
				// not released inside f
				released := false
				core.InspectNoLits(f.Body, func(x ast.Node) bool {
					if as, ok := x.(*ast.AssignStmt); ok {
						for _, l := range as.Lhs {
							if fieldKeyOf(m, l) == k {
								released = true
							}
						}
					}
					return true
				})
				if !released {
					key = k
				}
			}
		}
		return true
	})
	return key
}

// takesScratch: f (transitively) reads the scratch field key into use (any occurrence that is not the target of an assignment).
func takesScratch(m *core.Model, f *core.Func, key string, depth int, seen map[*core.Func]bool) bool {
	if seen[f] || depth > 5 {
		return false
	}
	seen[f] = true
	lhs := map[ast.Node]bool{}
	core.InspectNoLits(f.Body, func(n ast.Node) bool {
		if as, ok := n.(*ast.AssignStmt); ok {
			for _, l := range as.Lhs {
				lhs[ast.Unparen(l)] = true
			}
		}
		return true
	})
	found := false
	core.InspectNoLits(f.Body, func(n ast.Node) bool {
		if found {
			return false
		}
		switch x := n.(type) {
		case *ast.SelectorExpr:
			if fieldKeyOf(m, x) == key && !lhs[x] {
				found = true
			}
		case *ast.CallExpr:
			if k, cal, _ := m.Callee(x); k == core.CallStatic && takesScratch(m, cal, key, depth+1, seen) {
				found = true
			}
		}
		return true
	})
	return found
}
