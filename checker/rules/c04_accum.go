package rules

import (
	"fmt"
	"go/ast"
	"go/token"
	"go/types"

	"arkverif/checker/core"
)

// C04/R11 (shared with C08): per-iteration accumulators start empty in every iteration.
//
// A local slice or mask V that is declared outside a loop L, filled inside L (V = append(V, ...), or V handed by
// address to a callee that stores into it) and consumed inside L (passed to another call, or stored into a record),
// and that is not read after L (so it is not a result that is meant to accumulate), holds per-iteration data. It must
// then be emptied inside L on every path of an iteration (`V = V[:0]`, a zero value, a Reset). Otherwise what one table
// or archetype contributed leaks into the next one: the relations of an earlier table are reset for a later one, the
// changed-relation bits of an earlier table are reported for a later one.

func c04r11(c *core.Ctx) {
	m := c.M
	n := 0
	for _, f := range m.AllFuncs() {
		if f.Body == nil {
			continue
		}
		// candidate variables: locals of slice or mask type
		type use struct {
			accum   []ast.Node
			consume []ast.Node
			reset   []ast.Node
			other   []*ast.Ident
		}
		uses := map[*types.Var]*use{}
		get := func(v *types.Var) *use {
			if uses[v] == nil {
				uses[v] = &use{}
			}
			return uses[v]
		}
		isCand := func(v *types.Var) bool {
			if v == nil || v.IsField() {
				return false
			}
			if _, isP := paramIndexOf(f, v); isP {
				return false
			}
			switch v.Type().Underlying().(type) {
			case *types.Slice:
				return true
			case *types.Pointer:
				return false
			}
			nm := core.NamedName(v.Type())
			return nm == "bitMask" || nm == "bitMask256" || nm == "bitMask64"
		}
		// aliasOf: a pointer local whose every definition is &V (possibly under a condition) stands for V by address
		aliasOf := func(id *ast.Ident) *types.Var {
			pv, ok := m.Info.ObjectOf(id).(*types.Var)
			if !ok || pv.IsField() {
				return nil
			}
			if _, isPtr := pv.Type().(*types.Pointer); !isPtr {
				return nil
			}
			var target *types.Var
			for _, d := range localDefsOf(m, f, pv) {
				u, ok := ast.Unparen(d).(*ast.UnaryExpr)
				if !ok || u.Op != token.AND {
					return nil
				}
				tid, ok := ast.Unparen(u.X).(*ast.Ident)
				if !ok {
					return nil
				}
				tv, ok := m.Info.ObjectOf(tid).(*types.Var)
				if !ok || !isCand(tv) || (target != nil && target != tv) {
					return nil
				}
				target = tv
			}
			return target
		}
		byAddress := func(e ast.Expr) bool {
			e = ast.Unparen(e)
			if u, ok := e.(*ast.UnaryExpr); ok && u.Op == token.AND {
				return true
			}
			if id, ok := e.(*ast.Ident); ok && aliasOf(id) != nil {
				return true
			}
			return false
		}
		varOf := func(e ast.Expr) *types.Var {
			e = ast.Unparen(e)
			if u, ok := e.(*ast.UnaryExpr); ok && u.Op == token.AND {
				e = ast.Unparen(u.X)
			}
			if id, ok := e.(*ast.Ident); ok {
				if v, ok := m.Info.ObjectOf(id).(*types.Var); ok && isCand(v) {
					return v
				}
				if v := aliasOf(id); v != nil {
					return v
				}
			}
			return nil
		}
		classified := map[*ast.Ident]bool{}
		mark := func(e ast.Expr) {
			ast.Inspect(e, func(y ast.Node) bool {
				if id, ok := y.(*ast.Ident); ok {
					classified[id] = true
				}
				return true
			})
		}
		core.InspectNoLits(f.Body, func(x ast.Node) bool {
			switch s := x.(type) {
			case *ast.AssignStmt:
				if len(s.Lhs) == len(s.Rhs) {
					for i, l := range s.Lhs {
						v := varOf(l)
						if v == nil {
							continue
						}
						rhs := ast.Unparen(s.Rhs[i])
						// V = append(V, ...)
						if call, ok := rhs.(*ast.CallExpr); ok && m.IsBuiltin(call, "append") && len(call.Args) > 0 && varOf(call.Args[0]) == v {
							get(v).accum = append(get(v).accum, s)
							mark(l)
							mark(call.Args[0])
							continue
						}
						// V = V[:0] | V = T{} | V = nil
						if se, ok := rhs.(*ast.SliceExpr); ok && varOf(se.X) == v && se.Low == nil && se.High != nil {
							if tv, ok := m.Info.Types[se.High]; ok && tv.Value != nil && tv.Value.String() == "0" {
								get(v).reset = append(get(v).reset, s)
								mark(l)
								mark(se.X)
								continue
							}
						}
						if cl, ok := rhs.(*ast.CompositeLit); ok && len(cl.Elts) == 0 {
							get(v).reset = append(get(v).reset, s)
							mark(l)
							continue
						}
						if id, ok := rhs.(*ast.Ident); ok && id.Name == "nil" {
							get(v).reset = append(get(v).reset, s)
							mark(l)
							continue
						}
					}
				}
			case *ast.CallExpr:
				if m.IsBuiltin(s, "append") || m.IsBuiltin(s, "len") || m.IsBuiltin(s, "cap") {
					return true
				}
				k, cal, _ := m.Callee(s)
				// receiver: V.Reset()-like (stores into the receiver, no parameters) is a reset; other storing methods accumulate
				if sel, ok := ast.Unparen(s.Fun).(*ast.SelectorExpr); ok {
					if v := varOf(sel.X); v != nil && k == core.CallStatic {
						storesRecv := false
						for _, st := range c.Eff.Stores(cal) {
							if st.Path.Kind == core.RootParam && st.Path.Index == -1 {
								storesRecv = true
							}
						}
						if storesRecv {
							if len(s.Args) == 0 {
								get(v).reset = append(get(v).reset, s)
							} else {
								get(v).accum = append(get(v).accum, s)
							}
						} else {
							get(v).consume = append(get(v).consume, s)
						}
						mark(sel.X)
					}
				}
				for ai, a := range s.Args {
					v := varOf(a)
					if v == nil {
						continue
					}
					mark(a)
					stores := false
					if k == core.CallStatic {
						for _, st := range c.Eff.Stores(cal) {
							if st.Path.Kind == core.RootParam && st.Path.Index == ai {
								stores = true
							}
						}
					}
					if stores && byAddress(a) {
						get(v).accum = append(get(v).accum, s)
					} else {
						get(v).consume = append(get(v).consume, s)
					}
				}
			case *ast.KeyValueExpr:
				if v := varOf(s.Value); v != nil {
					get(v).consume = append(get(v).consume, s)
					mark(s.Value)
				}
			}
			return true
		})
		// all other mentions
		// truncating re-slices (V[:0], e.g. when the buffer is handed back to its pool) are not reads of the contents
		core.InspectNoLits(f.Body, func(x ast.Node) bool {
			if se, ok := x.(*ast.SliceExpr); ok && se.Low == nil && se.High != nil {
				if tv, ok := m.Info.Types[se.High]; ok && tv.Value != nil && tv.Value.String() == "0" {
					mark(se.X)
				}
			}
			return true
		})
		core.InspectNoLits(f.Body, func(x ast.Node) bool {
			if id, ok := x.(*ast.Ident); ok && !classified[id] {
				if v, ok := m.Info.ObjectOf(id).(*types.Var); ok && uses[v] != nil && m.Info.Defs[id] == nil {
					uses[v].other = append(uses[v].other, id)
				}
			}
			return true
		})
		for v, u := range uses {
			if len(u.accum) == 0 || len(u.consume) == 0 {
				continue
			}
			for _, cons := range u.consume {
				L := enclosingLoopOf(f, cons)
				if L == nil {
					continue
				}
				// declared outside L
				if L.Pos() <= v.Pos() && v.Pos() <= L.End() {
					continue
				}
				// filled inside L
				filled := false
				for _, a := range u.accum {
					if L.Pos() <= a.Pos() && a.End() <= L.End() {
						filled = true
					}
				}
				if !filled {
					continue
				}
				// read after L (a result accumulator)? other mentions or consumptions positioned after the loop
				after := false
				for _, id := range u.other {
					if id.Pos() > L.End() {
						after = true
					}
				}
				for _, c2 := range u.consume {
					if c2.Pos() > L.End() {
						after = true
					}
				}
				if after {
					continue
				}
				n++
				subject := fmt.Sprintf("%s: %s in the loop at %s", f.Name, v.Name(), c.At(L.Pos()))
				var body *ast.BlockStmt
				switch l := L.(type) {
				case *ast.ForStmt:
					body = l.Body
				case *ast.RangeStmt:
					body = l.Body
				}
				ok := false
				for _, r := range u.reset {
					if body.Pos() <= r.Pos() && r.End() <= body.End() && enclosingLoopOf(f, r) == L {
						ok = true
					}
				}
				// ... and on every path of an iteration: whatever way the body is left towards the next iteration, what
				// was filled in has been emptied again (a reset under a condition that does not cover the fill leaks)
				leak := false
				if ok {
					inNode := func(list []ast.Node, s ast.Stmt) []token.Pos {
						var ps []token.Pos
						for _, x := range list {
							if s.Pos() <= x.Pos() && x.End() <= s.End() {
								ps = append(ps, x.Pos())
							}
						}
						return ps
					}
					type st struct{ dirty bool }
					ends := enumeratePaths(m, body.List, func(s ast.Stmt, cur st) st {
						last, dirty := token.NoPos, cur.dirty
						for _, p := range inNode(u.accum, s) {
							if p >= last {
								last, dirty = p, true
							}
						}
						for _, p := range inNode(u.reset, s) {
							if p >= last {
								last, dirty = p, false
							}
						}
						return st{dirty}
					}, func(ast.Expr) (bool, bool) { return false, false })
					for _, e := range ends {
						if e.dirty {
							leak = true
						}
					}
				}
				if ok && leak {
					c.Violation("C04/R11", subject, c.At(cons.Pos()), fmt.Sprintf("%s fills %s and consumes it inside the loop at %s and empties it there, but not on every path of an iteration: on some path the loop body ends with what this iteration collected still in %s, and the next iteration (table, archetype) starts with it", f.Name, v.Name(), c.At(L.Pos()), v.Name()))
				} else if ok {
					c.OK("C04/R11", subject, c.At(cons.Pos()), "filled and consumed per iteration, and emptied inside the same loop on every path of an iteration")
				} else {
					c.Violation("C04/R11", subject, c.At(cons.Pos()), fmt.Sprintf("%s fills %s and consumes it (at %s) inside the loop at %s, does not read it after the loop, but never empties it inside that loop; what one iteration collected leaks into the next (an earlier table's relations or changed-relation bits are applied to a later table)", f.Name, v.Name(), c.At(cons.Pos()), c.At(L.Pos())))
				}
				break
			}
		}
	}
	if n == 0 {
		c.OK("C04/R11", "per-iteration accumulators", "", "no local slice or mask is filled and consumed inside a loop it is declared outside of")
	}
}
