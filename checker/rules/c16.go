package rules

import (
	"fmt"
	"go/ast"
	"go/token"
	"go/types"
	"math"
	"sort"
	"strings"

	"arkverif/checker/core"
)

func init() {
	register(&Property{
		ID:    "C16",
		Level: "other",
		Explanation: "Structural necessary conditions of 'Reset returns the world to a reusable empty state': " +
			"(R1) field exhaustiveness of the reset chain discovered from World.Reset: for every struct on the chain, every field is reset by the struct's reset function (assigned, cleared, or its own reset called) or listed as persistent with a reason; early returns in reset functions are only the nothing-to-reset idiom; a field in neither class fails closed; " +
			"(R2) every registered filter and every observer of every event slice is detached (its id set to the unregistered marker) and counters and aggregates are cleared; (R3) no loop bound of a narrow unsigned type can wrap around; " +
			"(R4) relation archetypes reset every active table - in a loop that visits the whole table list, forwards or backwards - and then purge all lookup containers (C04/R3); (R5) the lock test precedes everything (C07/R1); (R6 = C06/R8) the reset chain does not operate on range-value copies of the structures it resets. (= C04/R14) the active-table list is walked (free flags set) before it is emptied. Not decided: equivalence with a fresh world over a second history.",
		TrustedBase: []string{"go/types", "frozen classification of the ~90 fields on the reset chain (reset / persistent with reason)", "interval arithmetic over Go's integer types"},
		Rules: []Rule{
			{ID: "C16/R1", Run: c16r1, Min: 1},
			{ID: "C16/R2", Run: c16r2, Min: 1},
			{ID: "C16/R3", Run: c16r3, Min: 1},
			{ID: "C16/R4", Run: c16r4, Min: 1},
			{ID: "C16/R4b", Run: c04r3, Min: 1},
			{ID: "C16/R5", Run: c16r5, Min: 1},
			{ID: "C06/R8", Run: c06r8, Min: 1},
			{ID: "C04/R14", Run: c04r14, Min: 1},
		},
	})
}

// persistent fields of the reset chain with reasons; every other field of a chain struct must be reset.
var c16Persistent = map[string]string{
	"World.stats":                  "statistics object is recomputed on every Stats call",
	"storage.graph":                "documented: Reset does not remove archetypes; graph nodes map masks to archetypes",
	"storage.archetypes":           "documented: archetypes persist; each is reset in the loop",
	"storage.archetypesData":       "archetype data persists with the archetypes",
	"storage.allArchetypes":        "archetypes persist",
	"storage.componentIndex":       "archetypes persist",
	"storage.relationArchetypes":   "archetypes persist",
	"storage.tables":               "tables persist (memory is kept); reset through their archetypes",
	"storage.components":           "column lookup of persisting tables",
	"storage.registry":             "documented: the registry is not cleared",
	"storage.config":               "configuration",
	"storage.slices":               "scratch slices are empty between operations",
	"entityPool.pointer":           "the buffer is re-sliced, not reallocated; the base pointer stays valid",
	"entityPool.reserved":          "constant",
	"lock.mu":                      "mutex",
	"bitPool.bits":                 "slots are overwritten by getNew before use",
	"observerManager.maxEventType": "reset (assigned) in the function; listed for the early-return path",
	"archetype.archetypeData":      "pointer to persisting data",
	"archetype.componentsMap":      "immutable after creation",
	"archetype.mask":               "immutable after creation",
	"archetype.id":                 "immutable after creation",
	"archetype.numRelations":       "immutable after creation",
	"archetypeData.components":     "immutable after creation",
	"archetypeData.itemSizes":      "immutable after creation",
	"archetypeData.isRelation":     "immutable after creation",
	"archetypeData.zeroValue":      "immutable after creation",
	"archetypeData.node":           "immutable after creation",
	"table.entities":               "rows beyond len are never read; entities are plain integers",
	"table.zeroPointer":            "immutable after creation",
	"table.components":             "column lookup, immutable after creation",
	"table.ids":                    "immutable after creation",
	"table.relationIDs":            "relation tables are freed by the archetype reset and re-targeted on recycling",
	"table.id":                     "immutable",
	"table.archetype":              "immutable",
	"table.cap":                    "memory is kept by design",
	"table.isFree":                 "set by the archetype reset for relation tables; tables without relations are never free",
	"column.pointer":               "buffer kept",
	"column.itemSize":              "immutable",
	"column.elemType":              "immutable",
	"column.target":                "re-assigned on recycling",
	"column.index":                 "immutable",
	"column.isRelation":            "immutable",
	"column.isTrivial":             "immutable",
	"Resources.registry":           "documented: the registry is not cleared",
	"intPool.capacityIncrement":    "constant",
	"tableIDs.indices":             "cleared (re-made) by the clear function; listed for completeness",
}

// fields that the chain's reset functions must handle (frozen from the pinned tree; a field in neither table fails closed).
var c16Reset = map[string]bool{
	"World.resources": true, "World.storage": true,
	"storage.entities": true, "storage.isTarget": true, "storage.cache": true, "storage.entityPool": true, "storage.locks": true, "storage.observers": true,
	"entityPool.entities": true, "entityPool.next": true, "entityPool.available": true,
	"cache.indices": true, "cache.filters": true, "cache.intPool": true,
	"lock.bitPool": true, "lock.locks": true,
	"bitPool.length": true, "bitPool.next": true, "bitPool.available": true,
	"observerManager.observers": true, "observerManager.hasObservers": true, "observerManager.allComps": true, "observerManager.allWith": true,
	"observerManager.anyNoComps": true, "observerManager.anyNoWith": true, "observerManager.pool": true, "observerManager.indices": true, "observerManager.totalCount": true,
	"archetype.tables": true, "archetype.relationTables": true, "archetypeData.freeTables": true, "archetypeData.targetTables": true,
	"table.len": true, "table.columns": true,
	"column.data":         true,
	"Resources.resources": true,
	"intPool.pool":        true, "intPool.next": true, "intPool.available": true,
	"tableIDs.tables": true,
}

type resetInfo struct {
	f       *core.Func
	handled map[string]bool
	nodes   map[string][]ast.Node // per handled key: the nodes of f (statements or calls) that handle it
	callees []*core.Func          // reset functions of field types
	wiped   []string              // persistent fields replaced by a whole-value store that does not carry them over
}

func containsStr(list []string, s string) bool {
	for _, x := range list {
		if x == s {
			return true
		}
	}
	return false
}

func c16r1(c *core.Ctx) {
	m := c.M
	root := m.FuncNamed("World.Reset")
	if root == nil {
		c.Undecide("C16/R1", "anchor", "World.Reset not found")
		return
	}
	visited := map[*core.Func]*resetInfo{}
	var analyze func(f *core.Func)
	analyze = func(f *core.Func) {
		if visited[f] != nil {
			return
		}
		ri := &resetInfo{f: f, handled: map[string]bool{}, nodes: map[string][]ast.Node{}}
		visited[f] = ri
		recvType := f.Recv
		var walkBody func(g *core.Func, depth int, top ast.Node)
		walkBody = func(g *core.Func, depth int, top ast.Node) {
			core.InspectNoLits(g.Body, func(n ast.Node) bool {
				at := top
				if depth == 0 {
					at = n
				}
				mark := func(k string) {
					if isGroupKey(m, k) {
						return // a field that only groups fields keyed under the owner: those are what is reset
					}
					ri.handled[k] = true
					ri.nodes[k] = append(ri.nodes[k], at)
				}
				switch x := n.(type) {
				case *ast.AssignStmt, *ast.IncDecStmt:
					// a whole-value store through the receiver (*r = newT(), *r = T{..}) resets every field of the
					// type - including those documented to survive the reset, unless the stored value carries them over
					if as, isAs := x.(*ast.AssignStmt); isAs && len(as.Lhs) == 1 && len(as.Rhs) == 1 && g.Sig != nil && g.Sig.Recv() != nil {
						if st, isStar := ast.Unparen(as.Lhs[0]).(*ast.StarExpr); isStar {
							if id := identOf(st.X); id != nil && m.Info.ObjectOf(id) == types.Object(g.Sig.Recv()) {
								if nt := m.Prog.LookupType(recvType); nt != nil {
									if stt, ok := nt.Underlying().(*types.Struct); ok {
										fields := valueFields(m, g, as.Rhs[0])
										if fields == nil {
											if call, isCall := ast.Unparen(as.Rhs[0]).(*ast.CallExpr); isCall {
												if _, cal, _ := m.Callee(call); cal != nil && cal.Body != nil {
													core.InspectNoLits(cal.Body, func(y ast.Node) bool {
														if rs, isR := y.(*ast.ReturnStmt); isR && len(rs.Results) == 1 && fields == nil {
															fields = valueFields(m, cal, rs.Results[0])
														}
														return true
													})
												}
											}
										}
										for i := 0; i < stt.NumFields(); i++ {
											k := m.FieldKey(stt.Field(i))
											mark(k)
											keeps := false
											if v, has := fields[k]; has {
												if sel, isSel := ast.Unparen(v).(*ast.SelectorExpr); isSel && fieldKeyOf(m, sel) == k {
													keeps = true
												}
											}
											if c16Persistent[k] != "" && !keeps {
												ri.wiped = append(ri.wiped, k)
											}
										}
									}
								}
							}
						}
					}
					for _, s := range m.DirectStores(g, x) {
						for _, k := range s.Path.Fields() {
							if ownerOf(k) == recvType || (recvType == "archetype" && ownerOf(k) == "archetypeData") {
								mark(k)
							}
						}
					}
				case *ast.CallExpr:
					if m.IsBuiltin(x, "delete") || m.IsBuiltin(x, "clear") {
						if len(x.Args) > 0 {
							for _, k := range m.AccessPath(g, x.Args[0]).Fields() {
								if ownerOf(k) == recvType {
									mark(k)
								}
							}
						}
					}
					if bp, isPair := bufferPairs[recvType]; isPair && len(c.Eff.StoresAt(g, x)) > 0 {
						for _, arg := range x.Args {
							for _, e := range exprChain(m, g, arg, 0) {
								ast.Inspect(m.Inline(e), func(y ast.Node) bool {
									if sel, ok := y.(*ast.SelectorExpr); ok && fieldKeyOf(m, sel) == recvType+"."+bp[1] {
										mark(recvType + "." + bp[0])
									}
									return true
								})
							}
						}
					}
					sel, ok := ast.Unparen(x.Fun).(*ast.SelectorExpr)
					if !ok {
						return true
					}
					k, cal, _ := m.Callee(x)
					rp := m.AccessPath(g, sel.X)
					// method call on a field (or element of a field) of the receiver: the field is handled by that method
					if fs := withoutGroupKeys(m, rp.Fields()); len(fs) > 0 && (ownerOf(fs[0]) == recvType || (recvType == "archetype" && ownerOf(fs[0]) == "archetypeData")) {
						for _, fk := range rp.Fields() {
							if ownerOf(fk) == recvType || ownerOf(fk) == "archetypeData" {
								mark(fk)
							}
						}
						if k == core.CallStatic && cal.Recv != recvType {
							ri.callees = append(ri.callees, cal)
						}
					} else if k == core.CallStatic && cal.Recv != recvType && cal.Recv != "" && len(rp.Fields()) > 0 {
						// method on something reached through another struct (e.g. storage.tables[...].Reset() from archetype.Reset)
						ri.callees = append(ri.callees, cal)
					}
					// helper on the same receiver: inline
					if k == core.CallStatic && cal.Recv == recvType && cal != g && depth < 3 {
						if id, ok := ast.Unparen(sel.X).(*ast.Ident); ok && g.Sig.Recv() != nil && m.Info.ObjectOf(id) == g.Sig.Recv() {
							walkBody(cal, depth+1, at)
						}
					}
					// raw zeroing through the pointer derived from a buffer field handles that buffer
					// (the two zeroing strategies of a column are alternatives for the same obligation)
				}
				return true
			})
		}
		walkBody(f, 0, nil)
		for _, cal := range ri.callees {
			if cal.Sig != nil && cal.Sig.Results().Len() == 0 {
				analyze(cal)
			}
		}
	}
	analyze(root)
	var fs []*core.Func
	for f := range visited {
		fs = append(fs, f)
	}
	sort.Slice(fs, func(i, j int) bool { return fs[i].Pos() < fs[j].Pos() })
	types_ := map[string]*resetInfo{}
	for _, f := range fs {
		if f.Recv == "" {
			continue
		}
		// only functions that look like the reset function of their type (no results); keep the first per type
		if _, dup := types_[f.Recv]; !dup {
			types_[f.Recv] = visited[f]
		} else {
			for k := range visited[f].handled {
				types_[f.Recv].handled[k] = true
			}
		}
	}
	var tnames []string
	for t := range types_ {
		tnames = append(tnames, t)
	}
	sort.Strings(tnames)
	for _, t := range tnames {
		ri := types_[t]
		owners := []string{t}
		if t == "archetype" {
			owners = append(owners, "archetypeData")
		}
		for _, o := range owners {
			n := m.Prog.LookupType(o)
			if n == nil {
				continue
			}
			st, ok := n.Underlying().(*types.Struct)
			if !ok {
				continue
			}
			for i := 0; i < st.NumFields(); i++ {
				key := m.FieldKey(st.Field(i))
				if isGroupKey(m, key) {
					continue
				}
				subject := key + " in " + ri.f.Name
				switch {
				case c16Persistent[key] != "" && containsStr(ri.wiped, key):
					c.Violation("C16/R1", subject, c.At(ri.f.Pos()), fmt.Sprintf("%s replaces the whole value and with it %s, which is documented to survive a Reset (%s); ids and registrations handed out before the Reset would name other things afterwards", ri.f.Name, key, c16Persistent[key]))
				case ri.handled[key]:
					c.OK("C16/R1", subject, c.At(ri.f.Pos()), "reset by the chain")
				case c16Persistent[key] != "":
					c.OK("C16/R1", subject, c.At(ri.f.Pos()), "persistent: "+c16Persistent[key])
				case c16Reset[key]:
					c.Violation("C16/R1", subject, c.At(ri.f.Pos()), fmt.Sprintf("%s does not reset field %s; state from before the Reset would survive into the reused world", ri.f.Name, key))
				default:
					// a field the classification does not know (added later): it may stay as it is only if nothing
					// modifies it after construction; otherwise state from before the Reset survives
					if w := writtenAfterConstruction(c, key); w == "" {
						c.OK("C16/R1", subject, c.At(ri.f.Pos()), "not in the classification; immutable after construction (no function other than constructors of "+o+" stores it)")
					} else {
						c.Violation("C16/R1", subject, c.At(ri.f.Pos()), fmt.Sprintf("%s does not reset field %s, which %s modifies; state from before the Reset would survive into the reused world", ri.f.Name, key, w))
					}
				}
			}
		}
		// Every field the function resets is reset on every normal path, except on exits that are dominated by a
		// nothing-to-reset test (an emptiness test of an own length/index/count, or an immutable boolean property of
		// the receiver such as "has no relations"). Formulated on paths, so early returns, else-branches and
		// alternative strategies in separate branches are all treated alike.
		exemptExit := func(at core.Atom) bool { return nothingToResetAtom(m, ri.f, at) }
		for _, miss := range keysNotOnAllPaths(c, ri.f, ri.nodes, exemptExit, func(k string) {
			c.OK("C16/R1", ri.f.Name+": "+k+" on all paths", c.At(ri.f.Pos()), "reset on every normal path (exits under a nothing-to-reset test excepted)")
		}) {
			c.Violation("C16/R1", ri.f.Name+": "+miss+" on all paths", c.At(ri.f.Pos()), fmt.Sprintf("%s resets %s only on some paths: a normal path reaches a return without it and without a nothing-to-reset test; part of the state may be left un-reset", ri.f.Name, miss))
		}
	}
	if len(types_) < 3 {
		c.Undecide("C16/R1", "chain", fmt.Sprintf("reset chain discovered from World.Reset has only %d types: %v", len(types_), tnames))
	}
}

// keysNotOnAllPaths: nodes maps a key (a field) to the nodes of f that handle it. A key is fine when every normal path
// from the entry of f to a return passes one of its nodes, where a node inside a loop counts as passed when the loop
// is reached (zero iterations mean there is nothing to handle) and returns listed in exempt are ignored. Buffer and
// derived pointer of a buffer pair are one obligation. Returns the keys that are handled on some paths only; ok is
// called for the others.
func keysNotOnAllPaths(c *core.Ctx, f *core.Func, nodes map[string][]ast.Node, exempt func(core.Atom) bool, ok func(string)) []string {
	m := c.M
	var bad []string
	var keys []string
	for k := range nodes {
		keys = append(keys, k)
	}
	sort.Strings(keys)
	for _, k := range keys {
		set := map[ast.Node]bool{}
		for _, n := range nodes[k] {
			if n != nil {
				set[n] = true
			}
		}
		for owner, bp := range bufferPairs {
			if k == owner+"."+bp[0] || k == owner+"."+bp[1] {
				for _, n := range append(append([]ast.Node{}, nodes[owner+"."+bp[0]]...), nodes[owner+"."+bp[1]]...) {
					if n != nil {
						set[n] = true
					}
				}
			}
		}
		if len(set) == 0 {
			continue
		}
		type span struct{ lo, hi token.Pos }
		var headers []span
		for n := range set {
			var outer ast.Stmt
			core.InspectNoLits(f.Body, func(x ast.Node) bool {
				switch l := x.(type) {
				case *ast.ForStmt:
					if outer == nil && l.Body.Pos() <= n.Pos() && n.End() <= l.Body.End() {
						outer = l
						headers = append(headers, span{l.Pos(), l.Body.Lbrace})
					}
				case *ast.RangeStmt:
					if outer == nil && l.Body.Pos() <= n.Pos() && n.End() <= l.Body.End() {
						outer = l
						headers = append(headers, span{l.Pos(), l.Body.Lbrace})
					}
				}
				return true
			})
		}
		passes := func(n ast.Node) bool {
			if set[n] {
				return true
			}
			for _, h := range headers {
				if h.lo <= n.Pos() && n.End() <= h.hi {
					return true
				}
			}
			return false
		}
		if passedOrGuardedOnAllPaths(m, f, passes, exempt) {
			if ok != nil {
				ok(k)
			}
		} else {
			bad = append(bad, k)
		}
	}
	return bad
}

// writtenAfterConstruction returns the name of a function that stores into the field (or into what it holds) and is
// not a constructor of the field's owner type (a function whose result is that type), or "".
func writtenAfterConstruction(c *core.Ctx, key string) string {
	m := c.M
	owner := ownerOf(key)
	for _, f := range m.AllFuncs() {
		if f.Sig != nil && f.Sig.Results().Len() > 0 {
			rt := f.Sig.Results().At(0).Type()
			if p, ok := rt.(*types.Pointer); ok {
				rt = p.Elem()
			}
			if core.NamedName(rt) == owner {
				continue
			}
		}
		for _, st := range c.Eff.Stores(f) {
			if len(st.Via) == 0 && st.Path.Kind != core.RootFresh && st.Path.Has(key) {
				return f.Name
			}
		}
	}
	return ""
}

// nothingToResetAtom: the atom says that there is nothing to reset: an own length, index or count (field of the
// receiver, len of such a field, or an integer parameter) is zero, or an immutable boolean property of the receiver
// (parameterless bool method without stores) has some value.
func nothingToResetAtom(m *core.Model, f *core.Func, at core.Atom) bool {
	e := ast.Unparen(at.Expr)
	own := func(x ast.Expr) bool {
		x = ast.Unparen(m.StripConv(x))
		if call, ok := x.(*ast.CallExpr); ok && m.IsBuiltin(call, "len") && len(call.Args) == 1 {
			x = ast.Unparen(call.Args[0])
		}
		if id, ok := x.(*ast.Ident); ok {
			if v, ok := m.Info.ObjectOf(id).(*types.Var); ok {
				if _, isP := paramIndexOf(f, v); isP && isInt(v.Type()) {
					return true
				}
			}
			return false
		}
		p := m.AccessPath(f, x)
		return p.Kind == core.RootParam && p.Index == -1 && len(p.Fields()) > 0
	}
	switch x := e.(type) {
	case *ast.BinaryExpr:
		zeroY := false
		if tv, ok := m.Info.Types[x.Y]; ok && tv.Value != nil && tv.Value.String() == "0" {
			zeroY = true
		}
		if !zeroY || !own(x.X) {
			return false
		}
		switch x.Op {
		case token.EQL, token.LEQ:
			return at.Truth
		case token.NEQ, token.GTR:
			return !at.Truth
		}
	case *ast.CallExpr:
		if k, cal, _ := m.Callee(x); k == core.CallStatic && returnsBool(cal) && cal.Recv == f.Recv && cal.Sig.Params().Len() == 0 {
			return true
		}
	}
	return false
}

// c16r2: observers of every event slice are detached.
func c16r2(c *core.Ctx) {
	m := c.M
	c05r4(c)
	f := resetFuncOf(c, "observerManager")
	if f == nil {
		c.Undecide("C16/R2", "anchor", "reset function of observerManager not found on the chain from World.Reset")
		return
	}
	// outer loop over event types, inner loop over m.observers[i] storing the unregistered marker into o.id
	ok, covers := false, ""
	outerOf := func(n ast.Node) (body *ast.BlockStmt, key string, bound string) {
		switch l := n.(type) {
		case *ast.RangeStmt:
			if l.Key != nil {
				return l.Body, m.ExprString(l.Key), m.ExprString(l.X)
			}
		case *ast.ForStmt:
			if as, isAs := l.Init.(*ast.AssignStmt); isAs && len(as.Lhs) == 1 && l.Cond != nil {
				return l.Body, m.ExprString(as.Lhs[0]), m.ExprString(l.Cond)
			}
		}
		return nil, "", ""
	}
	// scan looks, in the body of the loop over event types (or in a helper that the body calls with the loop key), for
	// the inner loop over observers[key] that stores the unregistered marker
	var scan func(fn *core.Func, body ast.Node, key, bound string, depth int)
	scan = func(fn *core.Func, body ast.Node, key, bound string, depth int) {
		ast.Inspect(body, func(x ast.Node) bool {
			if call, isCall := x.(*ast.CallExpr); isCall && depth < 2 {
				if k, cal, _ := m.Callee(call); k == core.CallStatic && cal != nil && cal.Body != nil && cal.Recv == fn.Recv && cal != fn {
					for i, a := range call.Args {
						if m.ExprString(a) == key && i < cal.Sig.Params().Len() {
							scan(cal, cal.Body, cal.Sig.Params().At(i).Name(), bound, depth+1)
						}
					}
				}
			}
			src, innerBody, isLoop := elementLoop(m, x)
			if !isLoop {
				return true
			}
			ix, isIx := ast.Unparen(src).(*ast.IndexExpr)
			if !isIx || fieldKeyOf(m, ix.X) != "observerManager.observers" {
				return true
			}
			if m.ExprString(ix.Index) != key {
				return true
			}
			ast.Inspect(innerBody, func(y ast.Node) bool {
				if as, isAs := y.(*ast.AssignStmt); isAs {
					for i, l := range as.Lhs {
						if fieldKeyOf(m, l) == "observerData.id" && i < len(as.Rhs) {
							if tv, okc := m.Info.Types[as.Rhs[i]]; okc && tv.Value != nil {
								ok = true
								covers = bound
							}
						}
					}
				}
				return true
			})
			return true
		})
	}
	core.InspectNoLits(f.Body, func(n ast.Node) bool {
		body, key, bound := outerOf(n)
		if body == nil {
			return true
		}
		scan(f, body, key, bound, 0)
		return true
	})
	if ok {
		c.OK("C16/R2", f.Name, c.At(f.Pos()), "every observer of every event slice in the range "+covers+" is marked unregistered")
	} else {
		c.Violation("C16/R2", f.Name, c.At(f.Pos()), f.Name+": does not mark the observers of every per-event slice as unregistered; observers registered before Reset could not be registered again, or would still fire")
	}
	// the loop may skip events only by the emptiness flag of that event
	core.InspectNoLits(f.Body, func(n ast.Node) bool {
		obody, _, _ := outerOf(n)
		if obody == nil {
			return true
		}
		for _, st := range obody.List {
			if is, isIf := st.(*ast.IfStmt); isIf && len(is.Body.List) == 1 {
				if br, isBr := is.Body.List[0].(*ast.BranchStmt); isBr && br.Tok == token.CONTINUE {
					cond := ast.Unparen(is.Cond)
					okSkip := false
					if u, isU := cond.(*ast.UnaryExpr); isU && u.Op == token.NOT {
						if ix, isIx := ast.Unparen(u.X).(*ast.IndexExpr); isIx && fieldKeyOf(m, ix.X) == "observerManager.hasObservers" {
							okSkip = true
						}
					}
					if okSkip {
						c.OK("C16/R2", f.Name+": skip", c.At(is.Pos()), "event types are skipped only when they have no observers")
					} else {
						c.Violation("C16/R2", f.Name+": skip", c.At(is.Pos()), fmt.Sprintf("%s skips event types under `%s`, which is not the per-event emptiness flag", f.Name, m.ExprString(is.Cond)))
					}
				}
			}
		}
		return false
	})
}

// interval of an integer type.
func typeRange(t types.Type) (float64, float64, bool) {
	b, ok := t.Underlying().(*types.Basic)
	if !ok {
		return 0, 0, false
	}
	switch b.Kind() {
	case types.Uint8:
		return 0, math.MaxUint8, true
	case types.Uint16:
		return 0, math.MaxUint16, true
	case types.Uint32:
		return 0, math.MaxUint32, true
	case types.Int8:
		return math.MinInt8, math.MaxInt8, true
	case types.Int16:
		return math.MinInt16, math.MaxInt16, true
	case types.Int32:
		return math.MinInt32, math.MaxInt32, true
	case types.Int, types.Int64:
		return math.MinInt64, math.MaxInt64, true
	case types.Uint, types.Uint64, types.Uintptr:
		return 0, math.MaxUint64, true
	}
	return 0, 0, false
}

// c16r3: loop bounds of narrow unsigned types cannot wrap.
func c16r3(c *core.Ctx) {
	m := c.M
	n := 0
	for _, f := range m.AllFuncs() {
		core.InspectNoLits(f.Body, func(x ast.Node) bool {
			var bound ast.Expr
			switch l := x.(type) {
			case *ast.RangeStmt:
				if tv, ok := m.Info.Types[l.X]; ok {
					if _, _, isInt := typeRange(tv.Type); isInt {
						bound = l.X
					}
				}
			case *ast.ForStmt:
				if be, ok := ast.Unparen(l.Cond).(*ast.BinaryExpr); ok && (be.Op == token.LSS || be.Op == token.LEQ) {
					bound = be.Y
				}
			}
			if bound == nil {
				return true
			}
			n++
			tv, ok := m.Info.Types[bound]
			if !ok {
				return true
			}
			_, hi, isInt := typeRange(tv.Type)
			if !isInt || hi > math.MaxUint16 {
				c.OK("C16/R3", fmt.Sprintf("%s: bound %s", f.Name, m.ExprString(bound)), c.At(bound.Pos()), "bound type is at least 32 bits wide")
				return true
			}
			// narrow type: an addition/multiplication in the bound may wrap unless its operands are provably small
			iv := (&ivEval{c: c, f: f}).eval(bound)
			subject := fmt.Sprintf("%s: bound %s", f.Name, m.ExprString(bound))
			if iv.wrap {
				c.Violation("C16/R3", subject, c.At(bound.Pos()), fmt.Sprintf("%s: loop bound %s has type %s and can wrap around (value range before truncation [%g,%g] exceeds %g); the loop would run zero or too few times", f.Name, m.ExprString(bound), tv.Type.String(), iv.lo, iv.hi, hi))
			} else {
				c.OK("C16/R3", subject, c.At(bound.Pos()), fmt.Sprintf("narrow bound cannot wrap: range [%g,%g]", iv.lo, iv.hi))
			}
			return true
		})
	}
	if n == 0 {
		c.Undecide("C16/R3", "loops", "no counted loops found")
	}
}

func c16r4(c *core.Ctx) {
	m := c.M
	f := resetFuncOf(c, "archetype")
	tr := GetTableRoles(c)
	if f == nil || tr.Reset == nil {
		c.Undecide("C16/R4", "anchor", "archetype.Reset / table reset role not found")
		return
	}
	// every active table is reset: a loop over a.tables.tables calling the table reset role, plus the single-table branch
	loopReset, singleReset := false, false
	core.InspectNoLits(f.Body, func(n ast.Node) bool {
		switch x := n.(type) {
		case *ast.ForStmt, *ast.RangeStmt:
			hasCond := false
			// the loop visits every active table: a loop over all elements (or all indices) of the archetype's
			// table list, forwards or backwards - not one that starts later or stops earlier
			full := false
			if src, _, ok := elementLoop(m, x); ok && fieldKeyOf(m, src) == "tableIDs.tables" {
				full = true
			}
			if src, _, ok := reverseLoop(m, x); ok && fieldKeyOf(m, src) == "tableIDs.tables" {
				full = true
			}
			ast.Inspect(x, func(y ast.Node) bool {
				if call, ok := y.(*ast.CallExpr); ok {
					if _, ok := callTo(m, call, tr.Reset); ok && full {
						loopReset = true
					}
				}
				if _, ok := y.(*ast.BranchStmt); ok {
					hasCond = true
				}
				return true
			})
			if hasCond {
				loopReset = false
			}
			return false
		case *ast.CallExpr:
			if rv, ok := callTo(m, x, tr.Reset); ok && rv != nil {
				if strings.Contains(m.ExprString(rv), "tables[0]") {
					singleReset = true
				}
			}
		}
		return true
	})
	if loopReset && singleReset {
		c.OK("C16/R4", f.Name, c.At(f.Pos()), "every active table of a relation archetype, and table 0 otherwise, is reset")
	} else {
		c.Violation("C16/R4", f.Name, c.At(f.Pos()), fmt.Sprintf("%s: all active relation tables reset=%v, table 0 of plain archetypes reset=%v; entities would survive World.Reset", f.Name, loopReset, singleReset))
	}
}

func c16r5(c *core.Ctx) {
	a := GetAnchors(c)
	m := c.M
	f := m.FuncNamed("World.Reset")
	if f == nil {
		c.Undecide("C16/R5", "anchor", "World.Reset not found")
		return
	}
	spec := lockGuardSpec(c, a)
	// every store of any class reachable from Reset must be guarded, not only structural ones
	spec.Needs = func(g *core.Func, n ast.Node) []core.Witness {
		switch n.(type) {
		case *ast.AssignStmt, *ast.IncDecStmt:
			if len(m.DirectStores(g, n)) > 0 {
				return []core.Witness{{What: "store"}}
			}
		}
		return nil
	}
	spec.Lift = nil
	res := m.MustPrecede(spec)
	if len(res.Unguarded[f]) == 0 {
		c.OK("C16/R5", f.Name, c.At(f.Pos()), "the lock test precedes every store of the reset")
	} else {
		w := res.Unguarded[f][0]
		c.Violation("C16/R5", f.Name, c.At(w.Node.Pos()), fmt.Sprintf("World.Reset reaches a store at %s before testing the world lock", c.At(w.Deep.Pos())))
	}
}

// hasParamOf: f takes a value of the named type (by pointer) as a parameter.
func hasParamOf(f *core.Func, typ string) bool {
	if f.Sig == nil {
		return false
	}
	for i := 0; i < f.Sig.Params().Len(); i++ {
		if isPtrTo(f.Sig.Params().At(i).Type(), typ) {
			return true
		}
	}
	return false
}

// resetFuncOf returns the function through which the reset chain starting at World.Reset resets values of the given type.
func resetFuncOf(c *core.Ctx, typ string) *core.Func {
	m := c.M
	root := m.FuncNamed("World.Reset")
	if root == nil {
		return nil
	}
	seen := map[*core.Func]bool{}
	var found *core.Func
	var visit func(f *core.Func, depth int)
	visit = func(f *core.Func, depth int) {
		if seen[f] || depth > 6 || found != nil {
			return
		}
		seen[f] = true
		core.InspectNoLits(f.Body, func(n ast.Node) bool {
			if call, ok := n.(*ast.CallExpr); ok {
				if k, cal, _ := m.Callee(call); k == core.CallStatic && cal.Sig != nil && cal.Sig.Results().Len() == 0 {
					if found == nil && (cal.Recv == typ || hasParamOf(cal, typ)) {
						found = cal
					}
					visit(cal, depth+1)
				}
			}
			return true
		})
	}
	visit(root, 0)
	return found
}
