package rules

import (
	"fmt"
	"go/ast"
	"go/types"
	"sort"
	"strings"

	"golang.org/x/tools/go/cfg"

	"arkverif/checker/core"
)

func init() {
	register(&Property{
		ID:    "C13",
		Level: "other",
		Explanation: "Static lockset analysis (Eraser style) of the query API that is documented as usable from several goroutines: " +
			"(R1) entry points are the Query methods of all filter types and the exported methods of all query types; fields of the query value are owned by the calling goroutine, everything reached through the world, a filter, a cache entry or a table is shared; " +
			"for every shared field with at least one write reachable from an entry point, the intersection of the mutexes that are held on every path at every reachable access (reads included) must be non-empty; " +
			"(R2) the concurrency-safe lock/unlock variants and the query typestate follow C07/R3–R5; (R3) the per-query relation slice is a private copy whenever per-call relations are appended: every append to the output slice that reaches the return value is preceded by its replacement with a fresh slice, or lies on the path where copying was not requested, and every Query method requests the copy. " +
			"Not decided: exactness of results under concurrency, the 64-query limit, races on component data (the user's responsibility per the documentation).",
		TrustedBase: []string{"go/types, go/cfg", "sync.Mutex Lock/Unlock semantics", "ownership classification stated in the rule", "frozen benign entry: first-time registration of a component type from Rel[C] inside Query panics two statements later"},
		Rules: []Rule{
			{ID: "C13/R1", Run: c13r1, Min: 1},
			{ID: "C13/R2", Run: func(c *core.Ctx) { c07r2r3(c); c07r4(c); c07r5(c) }, Min: 10},
			{ID: "C13/R3", Run: c13r3, Min: 1},
		},
	})
}

type access struct {
	key   string
	write bool
	locks string // sorted, comma separated mutex keys held on all paths
	fn    *core.Func
	node  ast.Node
}

// mutexKey returns the field key of the mutex on which Lock/Unlock is called, and which of the two it is.
func mutexOp(m *core.Model, call *ast.CallExpr) (string, string) {
	sel, ok := ast.Unparen(call.Fun).(*ast.SelectorExpr)
	if !ok || (sel.Sel.Name != "Lock" && sel.Sel.Name != "Unlock") {
		return "", ""
	}
	tv, ok := m.Info.Types[sel.X]
	if !ok || !strings.HasSuffix(tv.Type.String(), "sync.Mutex") {
		return "", ""
	}
	k := fieldKeyOf(m, sel.X)
	if k == "" {
		return "", ""
	}
	// generated filter arities form one class
	if o := ownerOf(k); isFilterType(o) && o != "UnsafeFilter" {
		k = "Filter*." + strings.TrimPrefix(k, o+".")
	}
	return k, sel.Sel.Name
}

func lockJoin(a, b string) string {
	if a == "*" {
		return b
	}
	if b == "*" {
		return a
	}
	as := map[string]bool{}
	for _, x := range strings.Split(a, ",") {
		if x != "" {
			as[x] = true
		}
	}
	var out []string
	for _, x := range strings.Split(b, ",") {
		if x != "" && as[x] {
			out = append(out, x)
		}
	}
	sort.Strings(out)
	return strings.Join(out, ",")
}

func lockAdd(a, k string) string {
	if a == "*" {
		a = ""
	}
	set := map[string]bool{k: true}
	for _, x := range strings.Split(a, ",") {
		if x != "" {
			set[x] = true
		}
	}
	var out []string
	for x := range set {
		out = append(out, x)
	}
	sort.Strings(out)
	return strings.Join(out, ",")
}

func lockRemove(a, k string) string {
	var out []string
	for _, x := range strings.Split(a, ",") {
		if x != "" && x != k && x != "*" {
			out = append(out, x)
		}
	}
	return strings.Join(out, ",")
}

func isQueryType(n string) bool {
	return n == "UnsafeQuery" || (strings.HasPrefix(n, "Query") && len(n) <= 7)
}
func isFilterType(n string) bool {
	return n == "UnsafeFilter" || (strings.HasPrefix(n, "Filter") && len(n) <= 8)
}

func c13r1(c *core.Ctx) {
	m := c.M
	// entry points
	var entries []*core.Func
	for _, f := range m.Funcs {
		if !f.Exported() {
			continue
		}
		if isFilterType(f.Recv) && f.Obj.Name() == "Query" {
			entries = append(entries, f)
		}
		if isQueryType(f.Recv) {
			entries = append(entries, f)
		}
	}
	if len(entries) < 20 {
		c.Undecide("C13/R1", "entry points", fmt.Sprintf("only %d entry points of the concurrent query API found", len(entries)))
		return
	}
	// frozen benign: everything below World.componentID (first-time registration from Rel[C] inside Query)
	benign := map[*core.Func]bool{}
	if f := componentRegistrar(c); f != nil {
		var mark func(g *core.Func)
		mark = func(g *core.Func) {
			if benign[g] {
				return
			}
			benign[g] = true
			core.InspectNoLits(g.Body, func(n ast.Node) bool {
				if call, ok := n.(*ast.CallExpr); ok {
					if k, cal, _ := m.Callee(call); k == core.CallStatic {
						mark(cal)
					}
				}
				return true
			})
		}
		mark(f)
	} else {
		c.Undecide("C13/R1", "benign entry", "the function registering component types through storage.registry was not found")
	}
	// entry lockset per function: intersection over call sites reachable from the entries
	entryLocks := map[*core.Func]string{}
	for _, e := range entries {
		entryLocks[e] = ""
	}
	var accesses []access
	analyze := func(f *core.Func, collect bool) map[*ast.CallExpr]string {
		atCall := map[*ast.CallExpr]string{}
		g := m.CFG(f)
		transfer := func(s string, n ast.Node, rec bool) string {
			core.WalkEval(n, func(x ast.Node, cond bool) {
				switch y := x.(type) {
				case *ast.CallExpr:
					if k, op := mutexOp(m, y); k != "" {
						if op == "Lock" {
							s = lockAdd(s, k)
						} else {
							s = lockRemove(s, k)
						}
						return
					}
					if kd, cal, _ := m.Callee(y); kd == core.CallStatic && cal != nil {
						if prev, ok := atCall[y]; ok {
							atCall[y] = lockJoin(prev, s)
						} else {
							atCall[y] = s
						}
					}
					if rec && collect {
						for _, st := range m.DirectStores(f, y) {
							accesses = append(accesses, accessOf(m, f, st.Path, true, s, y)...)
						}
					}
				case *ast.AssignStmt, *ast.IncDecStmt:
					if rec && collect {
						for _, st := range m.DirectStores(f, y) {
							accesses = append(accesses, accessOf(m, f, st.Path, true, s, y)...)
						}
					}
				case *ast.SelectorExpr:
					if rec && collect {
						if fld := m.FieldOf(y); fld != nil {
							p := m.AccessPath(f, y)
							accesses = append(accesses, accessOf(m, f, p, false, s, y)...)
						}
					}
				}
			})
			return s
		}
		fr := core.Forward(g, core.Flow[string]{
			Entry: entryLocks[f],
			Join:  lockJoin,
			Equal: func(a, b string) bool { return a == b },
			Node:  func(s string, _ *cfg.Block, n ast.Node) string { return transfer(s, n, false) },
		})
		for _, b := range g.Blocks {
			if !fr.Reached[b] {
				continue
			}
			s := fr.In[b]
			for _, n := range b.Nodes {
				s = transfer(s, n, true)
			}
		}
		return atCall
	}
	// fixpoint over reachable functions
	reach := map[*core.Func]bool{}
	work := append([]*core.Func{}, entries...)
	for _, e := range entries {
		reach[e] = true
	}
	for iter := 0; len(work) > 0 && iter < 10000; iter++ {
		f := work[0]
		work = work[1:]
		if benign[f] {
			continue
		}
		calls := analyze(f, false)
		for call, ls := range calls {
			_, cal, _ := m.Callee(call)
			if cal == nil || benign[cal] {
				continue
			}
			prev, seen := entryLocks[cal]
			nl := ls
			if seen {
				nl = lockJoin(prev, ls)
			}
			isEntry := false
			for _, e := range entries {
				if e == cal {
					isEntry = true
				}
			}
			if isEntry {
				nl = ""
			}
			if !seen || nl != prev {
				entryLocks[cal] = nl
				if !reach[cal] || nl != prev {
					reach[cal] = true
					work = append(work, cal)
				}
			}
		}
	}
	var fs []*core.Func
	for f := range reach {
		if !benign[f] {
			fs = append(fs, f)
		}
	}
	sort.Slice(fs, func(i, j int) bool { return fs[i].Pos() < fs[j].Pos() })
	for _, f := range fs {
		analyze(f, true)
	}
	// group by shared field
	type agg struct {
		writes, reads int
		locks         string
		first         bool
		unlocked      *access
		writeSite     *access
	}
	byKey := map[string]*agg{}
	for i := range accesses {
		a := &accesses[i]
		g := byKey[a.key]
		if g == nil {
			g = &agg{first: true}
			byKey[a.key] = g
		}
		if a.write {
			g.writes++
			if g.writeSite == nil {
				g.writeSite = a
			}
		} else {
			g.reads++
		}
		if g.first {
			g.locks, g.first = a.locks, false
		} else {
			g.locks = lockJoin(g.locks, a.locks)
		}
		if a.locks == "" && g.unlocked == nil {
			g.unlocked = a
		}
	}
	var keys []string
	for k := range byKey {
		keys = append(keys, k)
	}
	sort.Strings(keys)
	nshared := 0
	for _, k := range keys {
		g := byKey[k]
		if g.writes == 0 {
			continue
		}
		nshared++
		subject := "shared field " + k
		if g.locks != "" {
			c.OK("C13/R1", subject, c.At(g.writeSite.node.Pos()), fmt.Sprintf("%d writes and %d reads reachable from the concurrent query API, all under %s", g.writes, g.reads, g.locks))
		} else {
			u := g.unlocked
			if u == nil {
				u = g.writeSite
			}
			c.Violation("C13/R1", subject, c.At(u.node.Pos()),
				fmt.Sprintf("%s is written at %s (in %s) and accessed at %s (in %s) with no common mutex held; concurrent queries race on it", k, c.At(g.writeSite.node.Pos()), g.writeSite.fn.Name, c.At(u.node.Pos()), u.fn.Name))
		}
	}
	c.Info("C13/R1", "analysed", "", fmt.Sprintf("%d entry points, %d reachable functions, %d accesses, %d shared fields with writes", len(entries), len(fs), len(accesses), nshared))
	if nshared == 0 {
		c.Undecide("C13/R1", "shared writes", "no shared field with a write was found (the lock mask must be among them)")
	}
}

// accessOf classifies an access path as shared (returning an access record) or owned (nothing).
func accessOf(m *core.Model, f *core.Func, p core.Path, write bool, locks string, n ast.Node) []access {
	fields := p.Fields()
	if len(fields) == 0 {
		return nil
	}
	switch p.Kind {
	case core.RootFresh:
		return nil
	case core.RootParam:
		// query receivers: owned unless the path hops through a pointer field into shared structure
		if p.Index == -1 && isQueryType(f.Recv) {
			shared := false
			for _, k := range fields {
				o := ownerOf(k)
				if !isQueryType(o) && !queryOwnedTypes(m)[o] {
					shared = true
				}
			}
			if !shared {
				return nil
			}
		}
		// value parameters / value receivers that are copies
		if !p.Deref {
			return nil
		}
	case core.RootUnknown, core.RootCall, core.RootCapture, core.RootGlobal:
	}
	key := fields[len(fields)-1]
	// normalise the generated arities: Filter3.rareComp -> Filter*.rareComp
	o := ownerOf(key)
	if isFilterType(o) && o != "UnsafeFilter" {
		key = "Filter*." + strings.TrimPrefix(key, o+".")
	}
	if isQueryType(o) || queryOwnedTypes(m)[o] {
		// fields of another query object reached through a pointer, or of a struct that only ever lives by value inside
		// query objects (their cursor) and is reached through a method receiver: still per-goroutine
		return nil
	}
	if o == "Relation" || o == "relationID" || o == "Entity" || o == "ID" {
		return nil // value types copied per call
	}
	return []access{{key: key, write: write, locks: locks, fn: f, node: n}}
}

var queryOwnedCache = map[*core.Model]map[string]bool{}

// queryOwnedTypes: named struct types of the package that occur as field types only by value and only inside query
// types (or inside other such types). Their memory is part of the query value and therefore owned by the goroutine that
// owns the query, also when accessed through the receiver of one of their own methods.
func queryOwnedTypes(m *core.Model) map[string]bool {
	if r, ok := queryOwnedCache[m]; ok {
		return r
	}
	holders := map[string]map[string]bool{} // type -> owners that hold it by value
	viaPointer := map[string]bool{}
	for _, k := range m.AllFieldKeys() {
		fv := m.FieldByKey(k)
		if fv == nil {
			continue
		}
		t := fv.Type()
		ptr := false
		for {
			switch x := t.(type) {
			case *types.Pointer:
				t, ptr = x.Elem(), true
				continue
			case *types.Slice:
				t, ptr = x.Elem(), true
				continue
			case *types.Map:
				t, ptr = x.Elem(), true
				continue
			}
			break
		}
		n := core.NamedName(t)
		if n == "" {
			continue
		}
		if _, isStruct := t.Underlying().(*types.Struct); !isStruct {
			continue
		}
		if ptr {
			viaPointer[n] = true
			continue
		}
		if holders[n] == nil {
			holders[n] = map[string]bool{}
		}
		holders[n][ownerOf(k)] = true
	}
	out := map[string]bool{}
	for changed := true; changed; {
		changed = false
		for n, hs := range holders {
			if out[n] || viaPointer[n] || isQueryType(n) {
				continue
			}
			all := len(hs) > 0
			for h := range hs {
				if !isQueryType(h) && !out[h] {
					all = false
				}
			}
			if all {
				out[n] = true
				changed = true
			}
		}
	}
	queryOwnedCache[m] = out
	return out
}

// c13r3: private copy of the relation slice.
func c13r3(c *core.Ctx) {
	m := c.M
	// the converter: function with a []relationID parameter `out`, a bool parameter `copy`, returning []relationID, that appends to out
	var conv []*core.Func
	for _, f := range m.Funcs {
		if f.Sig == nil || f.Sig.Results().Len() != 1 || relationIDsParam(f) == nil {
			continue
		}
		if sl, ok := f.Sig.Results().At(0).Type().(*types.Slice); !ok || core.NamedName(sl.Elem()) != "relationID" {
			continue
		}
		hasBool := false
		for i := 0; i < f.Sig.Params().Len(); i++ {
			if isBool(f.Sig.Params().At(i).Type()) {
				hasBool = true
			}
		}
		if hasBool {
			conv = append(conv, f)
		}
	}
	if len(conv) == 0 {
		c.Undecide("C13/R3", "converter role", "no function with a relation output slice and a copy flag")
		return
	}
	for _, f := range conv {
		outPar := relationIDsParam(f)
		var copyPar *types.Var
		for i := 0; i < f.Sig.Params().Len(); i++ {
			if isBool(f.Sig.Params().At(i).Type()) {
				copyPar = f.Sig.Params().At(i)
			}
		}
		appends := false
		core.InspectNoLits(f.Body, func(n ast.Node) bool {
			if call, ok := n.(*ast.CallExpr); ok && m.IsBuiltin(call, "append") && len(call.Args) > 0 {
				if id, ok := ast.Unparen(call.Args[0]).(*ast.Ident); ok && m.Info.ObjectOf(id) == outPar {
					appends = true
				}
			}
			return true
		})
		if !appends {
			// forwarder: must pass the flag on unchanged
			okFwd := false
			core.InspectNoLits(f.Body, func(n ast.Node) bool {
				if call, ok := n.(*ast.CallExpr); ok {
					if k, cal, _ := m.Callee(call); k == core.CallStatic {
						for _, cf := range conv {
							if cf == cal {
								for _, a := range call.Args {
									if id, ok := ast.Unparen(a).(*ast.Ident); ok && m.Info.ObjectOf(id) == copyPar {
										okFwd = true
									}
								}
							}
						}
					}
				}
				return true
			})
			if okFwd {
				c.OK("C13/R3", f.Name, c.At(f.Pos()), "forwards the copy flag unchanged")
			} else {
				c.Violation("C13/R3", f.Name, c.At(f.Pos()), f.Name+": does not forward the copy request to the converting function")
			}
			continue
		}
		// path-sensitive: state fresh = out was replaced by a fresh slice
		type st struct{ fresh bool }
		var bad []string
		ps := &core.PS[st]{M: m, F: f, Entry: st{false},
			Node: func(s st, n ast.Node, cond bool, facts core.Facts) st {
				switch x := n.(type) {
				case *ast.AssignStmt:
					for i, l := range x.Lhs {
						if id, ok := ast.Unparen(l).(*ast.Ident); ok && m.Info.ObjectOf(id) == outPar && i < len(x.Rhs) {
							// out = temp where temp derives from make(...); out = append(out, ...) keeps the current status
							if call, isCall := ast.Unparen(x.Rhs[i]).(*ast.CallExpr); isCall && m.IsBuiltin(call, "append") && len(call.Args) > 0 {
								if aid, isID := ast.Unparen(call.Args[0]).(*ast.Ident); isID && m.Info.ObjectOf(aid) == outPar {
									continue
								}
							}
							s.fresh = freshSlice(m, f, x.Rhs[i], 0)
						}
					}
				case *ast.CallExpr:
					if m.IsBuiltin(x, "append") && len(x.Args) > 0 {
						if id, ok := ast.Unparen(x.Args[0]).(*ast.Ident); ok && m.Info.ObjectOf(id) == outPar {
							isTrue, known := facts["var:"+copyPar.Name()]
							if !s.fresh && !(known && !isTrue) {
								bad = append(bad, c.At(x.Pos()))
							}
						}
					}
				}
				return s
			}}
		ps.Solve()
		// Solve's transfer runs per world; collect violations by a reporting pass
		bad = nil
		res := ps.Solve()
		g := m.CFG(f)
		for _, b := range g.Blocks {
			for _, w := range res.In[b] {
				cur := w
				for _, n := range b.Nodes {
					cur = ps.TransferNode(cur, n)
				}
			}
		}
		bad = dedupe(bad)
		if len(bad) == 0 {
			c.OK("C13/R3", f.Name, c.At(f.Pos()), "every append to the output slice happens after it was replaced by a fresh slice, or on a path where no copy was requested")
		} else {
			c.Violation("C13/R3", f.Name, c.At(f.Pos()), fmt.Sprintf("%s appends to the caller's relation slice at %s on a path where a private copy was requested but not made; concurrent or nested queries of one filter would share (and overwrite) one relation buffer", f.Name, strings.Join(bad, ", ")))
		}
	}
	// every Query method requests the copy, every other caller does not need to
	for _, f := range m.Funcs {
		if !(isFilterType(f.Recv) && f.Obj != nil && f.Obj.Name() == "Query") {
			continue
		}
		found := false
		core.InspectNoLits(f.Body, func(n ast.Node) bool {
			call, ok := n.(*ast.CallExpr)
			if !ok {
				return true
			}
			k, cal, _ := m.Callee(call)
			if k != core.CallStatic {
				return true
			}
			isConv := false
			for _, cf := range conv {
				if cf == cal {
					isConv = true
				}
			}
			if !isConv {
				// the unsafe filter builds its slice from nil
				if cal.Sig != nil && cal.Sig.Results().Len() == 1 && relationIDsParam(cal) != nil && f.Recv == "UnsafeFilter" {
					for _, a := range call.Args {
						if m.ExprString(a) == "nil" {
							found = true
							c.OK("C13/R3", f.Name, c.At(call.Pos()), "per-query relations are built into a fresh slice (nil output)")
						}
					}
				}
				return true
			}
			found = true
			last := call.Args[len(call.Args)-1]
			if m.ExprString(last) == "true" {
				c.OK("C13/R3", f.Name, c.At(call.Pos()), "requests a private copy of the relation slice")
			} else {
				c.Violation("C13/R3", f.Name, c.At(call.Pos()), fmt.Sprintf("%s converts per-query relations with copy=%s; queries of one filter would share the filter's relation buffer", f.Name, m.ExprString(last)))
			}
			return true
		})
		if !found {
			c.Violation("C13/R3", f.Name, c.At(f.Pos()), f.Name+": does not build a per-query relation slice")
		}
	}
}

// freshSlice: e is make(...), or a local whose definitions start from make(...) and are otherwise appends to itself.
func freshSlice(m *core.Model, f *core.Func, e ast.Expr, depth int) bool {
	if depth > 3 {
		return false
	}
	e = ast.Unparen(e)
	if call, ok := e.(*ast.CallExpr); ok {
		if m.IsBuiltin(call, "make") {
			return true
		}
		if m.IsBuiltin(call, "append") && len(call.Args) > 0 {
			return freshSlice(m, f, call.Args[0], depth+1)
		}
	}
	if id, ok := e.(*ast.Ident); ok {
		if v, ok := m.Info.ObjectOf(id).(*types.Var); ok {
			defs := localDefsOf(m, f, v)
			if len(defs) == 0 {
				return false
			}
			// the first definition decides; later self-appends keep freshness
			for i, d := range defs {
				if i == 0 {
					if !freshSlice(m, f, d, depth+1) {
						return false
					}
					continue
				}
				if call, ok := ast.Unparen(d).(*ast.CallExpr); ok && m.IsBuiltin(call, "append") {
					if id2, ok := ast.Unparen(call.Args[0]).(*ast.Ident); ok && m.Info.ObjectOf(id2) == v {
						continue
					}
				}
				return false
			}
			return true
		}
	}
	return false
}

// componentRegistrar: the function that registers component types through the storage's registry (the call whose
// receiver path goes through storage.registry and whose callee can insert into the type map).
func componentRegistrar(c *core.Ctx) *core.Func {
	m := c.M
	reg := registryRegistrar(c)
	if reg == nil {
		return nil
	}
	family := map[*core.Func]bool{reg: true}
	for changed := true; changed; {
		changed = false
		for _, cs := range m.CallSites() {
			if family[cs.Callee] && !family[cs.Caller] && (cs.Caller.Recv == "registry" || cs.Caller.Recv == "componentRegistry") {
				family[cs.Caller] = true
				changed = true
			}
		}
	}
	for _, cs := range m.CallSites() {
		if !family[cs.Callee] {
			continue
		}
		if sel, ok := ast.Unparen(cs.Call.Fun).(*ast.SelectorExpr); ok && m.AccessPath(cs.Caller, sel.X).Has("storage.registry") {
			return cs.Caller
		}
	}
	return nil
}
