package rules

import (
	"fmt"
	"go/ast"
	"go/token"
	"go/types"
	"regexp"
	"sort"
	"strings"

	"arkverif/checker/core"
)

func init() {
	register(&Property{
		ID:    "C19",
		Level: "other",
		Explanation: "Structural necessary conditions of 'statistics agree with the world': " +
			"(R1) fresh and incremental paths agree: for the table and the archetype statistics every field the fresh path assigns is assigned by the update path from the same source expression (modulo the receiver and the memory-per-entity operand), or is listed as immutable after creation; the update path truncates the cached table list when the archetype has fewer active tables, updates the common prefix and appends the rest, and both paths add the free tables' capacity and memory; " +
			"(R2) provenance: used/recycled/total/capacity come from the pool accessors with exactly those meanings (derived from the accessor bodies), cached filters from the cache's entry list, observers from the observer counter, locked from the lock test, and the memory figures are sums over the per-archetype figures; " +
			"(R3) the observer counter is incremented on every path that registers an observer, decremented where one is removed and zeroed on reset; (R4) archetype uniqueness site (C01/R7). (R5) the graph's find-or-create step compares the wanted component set with every existing node (a loop over the whole node list) before it appends a node. Not decided: numeric equality with the world for every history.",
		TrustedBase: []string{"go/types, go/cfg", "frozen table of statistics fields that are immutable after archetype creation"},
		Rules: []Rule{
			{ID: "C19/R1", Run: c19r1, Min: 1},
			{ID: "C19/R2", Run: c19r2, Min: 1},
			{ID: "C19/R3", Run: c19r3, Min: 1},
			{ID: "C19/R4", Run: c01r7, Min: 1},
			{ID: "C19/R5", Run: c19r5, Min: 1},
		},
	})
}

// stats fields that never change after the archetype was created (reason: component set and item sizes are fixed per archetype).
var c19Immutable = map[string]bool{"ComponentIDs": true, "ComponentTypes": true, "ComponentTypeNames": true, "NumRelations": true, "MemoryPerEntity": true}

// normExpr renders e with identifiers that denote the memory-per-entity operand unified.
var intConvRe = regexp.MustCompile(`\b(int|int32|int64|uint|uint32|uint64|uintptr)\(([^()]*)\)`)

func normStatsExpr(m *core.Model, e ast.Expr) string {
	s := m.ExprString(e)
	for _, v := range []string{"stats.MemoryPerEntity", "memPerEntity"} {
		s = strings.ReplaceAll(s, v, "MPE")
	}
	// value-preserving integer conversions do not matter for the comparison
	for i := 0; i < 4; i++ {
		s = intConvRe.ReplaceAllString(s, "$2")
	}
	return s
}

func c19r1(c *core.Ctx) {
	m := c.M
	type pair struct{ fresh, update *core.Func }
	var pairs []pair
	for _, recv := range []string{"table", "archetype"} {
		var fr, up *core.Func
		for _, f := range m.Funcs {
			if f.Recv != recv || f.Sig == nil {
				continue
			}
			// fresh: returns a stats struct; update: takes a pointer to that stats struct
			if f.Sig.Results().Len() == 1 && strings.HasPrefix(f.Sig.Results().At(0).Type().String(), core.EcsPath+"/stats.") {
				fr = f
			}
			for i := 0; i < f.Sig.Params().Len(); i++ {
				if p, ok := f.Sig.Params().At(i).Type().(*types.Pointer); ok && strings.HasPrefix(p.Elem().String(), core.EcsPath+"/stats.") {
					up = f
				}
			}
		}
		if fr == nil || up == nil {
			c.Undecide("C19/R1", recv, "fresh / update statistics functions not found")
			continue
		}
		pairs = append(pairs, pair{fr, up})
	}
	for _, p := range pairs {
		// fresh: composite literal of the stats type (last one returned)
		fresh := map[string]string{}
		{
			// the statistics value the fresh path returns, built as a literal or field by field
			rt := core.NamedName(p.fresh.Sig.Results().At(0).Type())
			for _, cn := range constructionsOf(m, p.fresh) {
				if cn.typ != rt {
					continue
				}
				for k, v := range cn.fields {
					fresh[k[strings.LastIndexByte(k, '.')+1:]] = normStatsExpr(m, v)
				}
				// a field computed from fields assigned before it (st.Memory = st.Capacity * m): in terms of their values
				if id, isLocal := cn.node.(*ast.Ident); isLocal {
					for round := 0; round < 3; round++ {
						for g, gv := range fresh {
							for f2, fv := range fresh {
								if f2 != g {
									gv = strings.ReplaceAll(gv, id.Name+"."+f2, fv)
								}
							}
							fresh[g] = gv
						}
					}
				}
			}
			// the fresh path may simply run the update path on a zero value
			if len(fresh) == 0 {
				delegates := false
				core.InspectNoLits(p.fresh.Body, func(n ast.Node) bool {
					if call, ok := n.(*ast.CallExpr); ok {
						if _, isU := callTo(m, call, p.update); isU {
							for _, a := range call.Args {
								if u, ok := ast.Unparen(a).(*ast.UnaryExpr); ok && u.Op == token.AND && core.NamedName(m.Info.TypeOf(u.X)) == rt {
									delegates = true
								}
							}
						}
					}
					return true
				})
				if delegates {
					c.OK("C19/R1", p.fresh.Name+" / "+p.update.Name, c.At(p.fresh.Pos()), "the fresh path runs the update path on a zero value: the two agree by construction")
					continue
				}
			}
			if len(fresh) == 0 {
				c.Undecide("C19/R1", p.fresh.Name, "the fresh statistics path builds no value of type "+rt+" that the rule recognises")
			}
		}
		update := map[string]string{}
		var statsPar *types.Var
		for i := 0; i < p.update.Sig.Params().Len(); i++ {
			if pt, ok := p.update.Sig.Params().At(i).Type().(*types.Pointer); ok && strings.HasPrefix(pt.Elem().String(), core.EcsPath+"/stats.") {
				statsPar = p.update.Sig.Params().At(i)
			}
		}
		core.InspectNoLits(p.update.Body, func(n ast.Node) bool {
			if as, ok := n.(*ast.AssignStmt); ok {
				for i, l := range as.Lhs {
					if sel, ok := ast.Unparen(l).(*ast.SelectorExpr); ok && i < len(as.Rhs) {
						if id, ok := ast.Unparen(sel.X).(*ast.Ident); ok && m.Info.ObjectOf(id) == statsPar {
							update[sel.Sel.Name] = normStatsExpr(m, as.Rhs[i])
						}
					}
				}
			}
			return true
		})
		// the update path performs its unconditional assignments on every normal path (no early exit before them)
		{
			nodes := map[string][]ast.Node{}
			top := map[ast.Node]bool{}
			for _, st := range p.update.Body.List {
				top[st] = true
			}
			core.InspectNoLits(p.update.Body, func(n ast.Node) bool {
				if as, ok := n.(*ast.AssignStmt); ok && top[as] {
					for _, l := range as.Lhs {
						if sel, ok := ast.Unparen(l).(*ast.SelectorExpr); ok {
							if id, ok := ast.Unparen(sel.X).(*ast.Ident); ok && m.Info.ObjectOf(id) == statsPar {
								nodes[sel.Sel.Name] = append(nodes[sel.Sel.Name], as)
							}
						}
					}
				}
				return true
			})
			for _, miss := range keysNotOnAllPaths(c, p.update, nodes, nil, func(k string) {
				c.OK("C19/R1", p.update.Name+": "+k+" on all paths", c.At(p.update.Pos()), "assigned on every normal path of the update")
			}) {
				c.Violation("C19/R1", p.update.Name+": "+miss+" on all paths", c.At(p.update.Pos()), fmt.Sprintf("%s assigns %s only on some paths: a normal path returns before it, so the reused statistics object keeps the figure of the previous call", p.update.Name, miss))
			}
		}
		var names []string
		for k := range fresh {
			names = append(names, k)
		}
		sort.Strings(names)
		for _, k := range names {
			subject := fmt.Sprintf("%s / %s: %s", p.fresh.Name, p.update.Name, k)
			fv := fresh[k]
			uv, ok := update[k]
			switch {
			case c19Immutable[k]:
				c.OK("C19/R1", subject, c.At(p.fresh.Pos()), "immutable after creation")
			case k == "Tables":
				// handled below (truncate / update / append)
				c.OK("C19/R1", subject, c.At(p.update.Pos()), "maintained by the truncate-update-append protocol (checked separately)")
			case !ok:
				c.Violation("C19/R1", subject, c.At(p.update.Pos()), fmt.Sprintf("%s assigns %s but %s never updates it; incrementally updated statistics would go stale", p.fresh.Name, k, p.update.Name))
			case sameStatsSource(fv, uv):
				c.OK("C19/R1", subject, c.At(p.update.Pos()), "fresh and update path use the same source: "+uv)
			default:
				c.Violation("C19/R1", subject, c.At(p.update.Pos()), fmt.Sprintf("%s computes %s from `%s` but %s from `%s`", p.fresh.Name, k, fv, p.update.Name, uv))
			}
		}
	}
	// archetype update: truncate, update prefix, append rest, free tables
	for _, p := range pairs {
		if p.update.Recv != "archetype" {
			continue
		}
		f := p.update
		var truncated, prefix, appended bool
		freeBoth := 0
		for _, g := range []*core.Func{p.fresh, p.update} {
			// the accumulation may sit in the function itself or in a helper whose results it uses
			scope := []*core.Func{g}
			core.InspectNoLits(g.Body, func(n ast.Node) bool {
				if es, ok := n.(*ast.ExprStmt); ok {
					if call, ok := es.X.(*ast.CallExpr); ok {
						if k, cal, _ := m.Callee(call); k == core.CallStatic && cal != nil && cal.Sig != nil && cal.Sig.Results().Len() > 0 {
							return false // results discarded
						}
					}
				}
				if call, ok := n.(*ast.CallExpr); ok {
					if k, cal, _ := m.Callee(call); k == core.CallStatic && cal != nil && cal.Body != nil && cal != p.fresh && cal != p.update && (cal.Obj == nil || !cal.Obj.Exported() || !isExportedName(cal.Recv)) && cal.Recv != "table" {
						scope = append(scope, cal)
					}
				}
				return true
			})
			found := false
			for _, h := range scope {
				core.InspectNoLits(h.Body, func(n ast.Node) bool {
					body, ok := loopOverAll(m, n, "archetypeData.freeTables")
					if !ok {
						// the list handed in as a parameter (every call site passes the archetype's free list)
						if rs, isR := n.(*ast.RangeStmt); isR && fieldKeyDeep(m, h, rs.X, 0) == "archetypeData.freeTables" {
							body, ok = rs.Body, true
						}
					}
					if ok {
						capAdd, memAdd := false, false
						// the additions themselves may sit in a small helper that is handed the capacity (totals.addFree(int(table.cap), mem))
						inspectThrough(m, body, 2, nil, func(x ast.Node) bool {
							as, ok := x.(*ast.AssignStmt)
							if !ok || as.Tok != token.ADD_ASSIGN || len(as.Rhs) != 1 {
								return true
							}
							readsCap, product := false, false
							ast.Inspect(m.Inline(as.Rhs[0]), func(y ast.Node) bool {
								switch z := y.(type) {
								case *ast.SelectorExpr:
									if fieldKeyOf(m, z) == "table.cap" {
										readsCap = true
									}
								case *ast.BinaryExpr:
									if z.Op == token.MUL {
										product = true
									}
								}
								return true
							})
							if readsCap && product {
								memAdd = true
							} else if readsCap {
								capAdd = true
							}
							return true
						})
						if capAdd && memAdd {
							found = true
						}
					}
					return true
				})
			}
			if found {
				freeBoth++
			}
		}
		core.InspectNoLits(f.Body, func(n ast.Node) bool {
			switch x := n.(type) {
			case *ast.IfStmt:
				// if cntNew < cntOld { stats.Tables = stats.Tables[:cntNew] ... }
				if be, ok := ast.Unparen(x.Cond).(*ast.BinaryExpr); ok && (be.Op == token.LSS || be.Op == token.GTR) {
					ast.Inspect(x.Body, func(y ast.Node) bool {
						if as, ok := y.(*ast.AssignStmt); ok && len(as.Lhs) == 1 && len(as.Rhs) == 1 {
							if sel, ok := ast.Unparen(as.Lhs[0]).(*ast.SelectorExpr); ok && sel.Sel.Name == "Tables" {
								if se, ok := ast.Unparen(as.Rhs[0]).(*ast.SliceExpr); ok && se.High != nil && se.Low == nil {
									truncated = true
								}
							}
						}
						return true
					})
				}
			case *ast.RangeStmt, *ast.ForStmt:
				ast.Inspect(x, func(y ast.Node) bool {
					if call, ok := y.(*ast.CallExpr); ok {
						if k, cal, _ := m.Callee(call); k == core.CallStatic && cal.Recv == "table" {
							for _, pp := range pairs {
								if pp.update == cal {
									prefix = true
								}
								if pp.fresh == cal {
									// appended to stats.Tables in the same loop
									ast.Inspect(x, func(z ast.Node) bool {
										if as, ok := z.(*ast.AssignStmt); ok && len(as.Rhs) == 1 {
											if c2, ok := ast.Unparen(as.Rhs[0]).(*ast.CallExpr); ok && m.IsBuiltin(c2, "append") {
												appended = true
											}
										}
										return true
									})
								}
							}
						}
					}
					return true
				})
			}
			return true
		})
		subject := f.Name + ": cached table list"
		if truncated && prefix && appended {
			c.OK("C19/R1", subject, c.At(f.Pos()), "truncated to the current number of active tables, common prefix updated in place, new tables appended")
		} else {
			c.Violation("C19/R1", subject, c.At(f.Pos()), fmt.Sprintf("%s: truncate when fewer tables=%v, update prefix=%v, append new=%v; the cached per-table statistics would keep entries of freed tables (sum of tables ≠ archetype size)", f.Name, truncated, prefix, appended))
		}
		subject = p.fresh.Name + " / " + f.Name + ": free tables"
		if freeBoth == 2 {
			c.OK("C19/R1", subject, c.At(f.Pos()), "both paths add the capacity and memory of free tables")
		} else {
			c.Violation("C19/R1", subject, c.At(f.Pos()), "the fresh and the update path do not both add the capacity and memory of the archetype's free tables")
		}
	}
}

func sameStatsSource(a, b string) bool {
	if a == b {
		return true
	}
	// local aggregates with the same name on both paths: count/cap/memory/memoryUsed/len(a.freeTables)
	return false
}

// poolAccessorRole classifies a parameterless int accessor of entityPool by what its body mentions.
func poolAccessorRole(m *core.Model, f *core.Func) string {
	if f.Recv != "entityPool" || f.Sig == nil || f.Sig.Params().Len() != 0 || f.Sig.Results().Len() != 1 || !isInt(f.Sig.Results().At(0).Type()) {
		return ""
	}
	var hasLen, hasCap, res, avail bool
	core.InspectNoLits(f.Body, func(n ast.Node) bool {
		switch x := n.(type) {
		case *ast.CallExpr:
			if m.IsBuiltin(x, "len") {
				hasLen = true
			}
			if m.IsBuiltin(x, "cap") {
				hasCap = true
			}
		case *ast.SelectorExpr:
			switch fieldKeyOf(m, x) {
			case "entityPool.reserved":
				res = true
			case "entityPool.available":
				avail = true
			}
		}
		return true
	})
	switch {
	case hasLen && res && avail:
		return "Used"
	case hasLen && res:
		return "Total"
	case avail && !hasLen && !hasCap:
		return "Recycled"
	case hasCap:
		return "Capacity"
	}
	return ""
}

// accumulatorOf: e reads a local accumulator - a local variable or a field of a struct-valued local.
func accumulatorOf(m *core.Model, e ast.Expr) bool {
	e = m.StripConv(e)
	if identOf(e) != nil {
		return true
	}
	if sel, ok := ast.Unparen(e).(*ast.SelectorExpr); ok {
		if id := identOf(sel.X); id != nil {
			if v, ok := m.Info.ObjectOf(id).(*types.Var); ok && !v.IsField() && v.Parent() != nil && v.Pkg() != nil && v.Parent() != v.Pkg().Scope() {
				return true
			}
		}
	}
	return false
}

func c19r2(c *core.Ctx) {
	a := GetAnchors(c)
	m := c.M
	var f *core.Func
	for _, g := range m.Funcs {
		if g.Recv == "World" && g.Sig != nil && g.Sig.Results().Len() == 1 && strings.HasSuffix(g.Sig.Results().At(0).Type().String(), "stats.World") {
			f = g
		}
	}
	if f == nil {
		c.Undecide("C19/R2", "anchor", "World statistics function not found")
		return
	}
	// entity figures
	found := 0
	// the entity figures are built in the statistics function or in a helper of it: any construction of the entity
	// statistics in the package counts, whether written as a literal or field by field
	for _, g := range m.AllFuncs() {
		cons := constructionsOf(m, g)
		// stores into the fields of an existing value (w.stats.Entities.Used = ...) count like a construction
		direct := construction{typ: "Entities", fields: map[string]ast.Expr{}}
		core.InspectNoLits(g.Body, func(n ast.Node) bool {
			if as, ok := n.(*ast.AssignStmt); ok && len(as.Lhs) == len(as.Rhs) {
				for i, l := range as.Lhs {
					if sel, ok := ast.Unparen(l).(*ast.SelectorExpr); ok && m.FieldOf(sel) != nil && identOf(sel.X) == nil {
						if tv, ok := m.Info.Types[sel.X]; ok && core.NamedName(tv.Type) == "Entities" && strings.HasSuffix(tv.Type.String(), "stats.Entities") {
							direct.fields["Entities."+sel.Sel.Name] = as.Rhs[i]
						}
					}
				}
			}
			return true
		})
		if len(direct.fields) > 0 {
			cons = append(cons, direct)
		}
		for _, cn := range cons {
			if cn.typ != "Entities" {
				continue
			}
			var keys []string
			for k := range cn.fields {
				keys = append(keys, k)
			}
			sort.Strings(keys)
			for _, k := range keys {
				field := k[strings.LastIndexByte(k, '.')+1:]
				val := cn.fields[k]
				subject := "Entities." + field
				found++
				call, ok := ast.Unparen(m.InlineLocals(val)).(*ast.CallExpr)
				if !ok {
					c.Violation("C19/R2", subject, c.At(val.Pos()), "not taken from a pool accessor")
					continue
				}
				k2, cal, _ := m.Callee(call)
				role := ""
				if k2 == core.CallStatic {
					role = poolAccessorRole(m, cal)
				}
				if role == field {
					c.OK("C19/R2", subject, c.At(val.Pos()), "from pool accessor "+cal.Name+" ("+role+")")
				} else {
					name := "?"
					if cal != nil {
						name = cal.Name
					}
					c.Violation("C19/R2", subject, c.At(val.Pos()), fmt.Sprintf("Entities.%s is taken from %s, whose body computes '%s'", field, name, role))
				}
			}
		}
	}
	if found != 4 {
		c.Violation("C19/R2", "Entities", c.At(f.Pos()), fmt.Sprintf("expected the four entity figures in one literal, found %d", found))
	}
	// scalar figures
	want := map[string]func(e ast.Expr) bool{
		"CachedFilters": func(e ast.Expr) bool {
			call, ok := ast.Unparen(e).(*ast.CallExpr)
			return ok && m.IsBuiltin(call, "len") && fieldKeyOf(m, call.Args[0]) == "cache.filters"
		},
		"Observers": func(e ast.Expr) bool {
			found := false
			ast.Inspect(e, func(n ast.Node) bool {
				if sel, ok := n.(*ast.SelectorExpr); ok && fieldKeyOf(m, sel) == "observerManager.totalCount" {
					found = true
				}
				return true
			})
			return found
		},
		"Locked": func(e ast.Expr) bool {
			call, ok := ast.Unparen(e).(*ast.CallExpr)
			if !ok {
				return false
			}
			k, cal, _ := m.Callee(call)
			return k == core.CallStatic && a.LockTests[cal]
		},
		// the sums are accumulated in locals (checked below: every loop over the archetypes adds both figures)
		"Memory":     func(e ast.Expr) bool { return accumulatorOf(m, e) },
		"MemoryUsed": func(e ast.Expr) bool { return accumulatorOf(m, e) },
	}
	got := map[string]bool{}
	core.InspectNoLits(f.Body, func(n ast.Node) bool {
		if as, ok := n.(*ast.AssignStmt); ok && len(as.Lhs) == 1 && len(as.Rhs) == 1 {
			if sel, ok := ast.Unparen(as.Lhs[0]).(*ast.SelectorExpr); ok {
				if chk, ok := want[sel.Sel.Name]; ok && strings.HasPrefix(fieldKeyOf(m, sel), "stats.World.") {
					got[sel.Sel.Name] = true
					subject := "World." + sel.Sel.Name
					if chk(as.Rhs[0]) {
						c.OK("C19/R2", subject, c.At(as.Pos()), "from "+m.ExprString(as.Rhs[0]))
					} else {
						c.Violation("C19/R2", subject, c.At(as.Pos()), fmt.Sprintf("World.%s is computed from %s", sel.Sel.Name, m.ExprString(as.Rhs[0])))
					}
				}
			}
		}
		return true
	})
	for k := range want {
		if !got[k] {
			c.Violation("C19/R2", "World."+k, c.At(f.Pos()), "figure is never assigned")
		}
	}
	// memory sums: every loop (in the statistics function or in a helper of the world that it calls) that produces or
	// updates per-archetype statistics adds that archetype's Memory and MemoryUsed to an accumulator
	scope := []*core.Func{f}
	core.InspectNoLits(f.Body, func(n ast.Node) bool {
		if call, ok := n.(*ast.CallExpr); ok {
			if k, cal, _ := m.Callee(call); k == core.CallStatic && cal != nil && cal.Body != nil && cal.Recv == f.Recv && cal != f {
				scope = append(scope, cal)
			}
		}
		return true
	})
	isArchStatsCall := func(call *ast.CallExpr) bool {
		k, cal, _ := m.Callee(call)
		if k != core.CallStatic || cal == nil || cal.Recv != "archetype" || cal.Sig == nil {
			return false
		}
		if cal.Sig.Results().Len() == 1 && strings.HasSuffix(cal.Sig.Results().At(0).Type().String(), "stats.Archetype") {
			return true
		}
		for i := 0; i < cal.Sig.Params().Len(); i++ {
			if p, ok := cal.Sig.Params().At(i).Type().(*types.Pointer); ok && strings.HasSuffix(p.Elem().String(), "stats.Archetype") {
				return true
			}
		}
		return false
	}
	loops, adds := 0, 0
	for _, g := range scope {
		core.InspectNoLits(g.Body, func(n ast.Node) bool {
			var body *ast.BlockStmt
			switch l := n.(type) {
			case *ast.ForStmt:
				body = l.Body
			case *ast.RangeStmt:
				body = l.Body
			default:
				return true
			}
			calls := false
			mem, used := false, false
			// the additions may sit in a small helper that is handed the archetype's statistics (totals.add(archStats))
			inspectThrough(m, body, 2, func(cal *core.Func) bool { return cal.Recv != "archetype" && cal.Recv != "table" }, func(x ast.Node) bool {
				switch y := x.(type) {
				case *ast.CallExpr:
					if isArchStatsCall(y) {
						calls = true
					}
				case *ast.AssignStmt:
					if y.Tok == token.ADD_ASSIGN && len(y.Rhs) == 1 {
						if sel, ok := ast.Unparen(m.Inline(y.Rhs[0])).(*ast.SelectorExpr); ok {
							if tv, ok := m.Info.Types[sel.X]; ok && strings.HasSuffix(strings.TrimPrefix(tv.Type.String(), "*"), "stats.Archetype") {
								switch sel.Sel.Name {
								case "Memory":
									mem = true
								case "MemoryUsed":
									used = true
								}
							}
						}
					}
				}
				return true
			})
			if calls {
				loops++
				if mem {
					adds++
				}
				if used {
					adds++
				}
			}
			return true
		})
	}
	if loops > 0 && adds == 2*loops {
		c.OK("C19/R2", "World memory sums", c.At(f.Pos()), fmt.Sprintf("each of the %d loops that produce or update archetype statistics adds the archetype's Memory and MemoryUsed", loops))
	} else {
		c.Violation("C19/R2", "World memory sums", c.At(f.Pos()), fmt.Sprintf("%d loops produce or update per-archetype statistics, but only %d of the %d additions of their Memory / MemoryUsed figures are present", loops, adds, 2*loops))
	}
}

func c19r3(c *core.Ctx) {
	m := c.M
	key := "observerManager.totalCount"
	for _, f := range m.Funcs {
		if f.Recv != "observerManager" {
			continue
		}
		var appendNode, removeNode ast.Node
		inc, dec, zero := false, false, false
		core.InspectNoLits(f.Body, func(n ast.Node) bool {
			switch x := n.(type) {
			case *ast.AssignStmt:
				for i, l := range x.Lhs {
					if ix, ok := ast.Unparen(l).(*ast.IndexExpr); ok && fieldKeyOf(m, ix.X) == "observerManager.observers" && i < len(x.Rhs) {
						// (list methods that merely name append(l, o) or l[:0] are read as those)
						rhs := ast.Unparen(m.Inline(x.Rhs[i]))
						if appendOf(m, rhs) != nil {
							appendNode = x
						} else if _, isSlice := rhs.(*ast.SliceExpr); !isSlice {
							removeNode = x
						}
					}
					if fieldKeyOf(m, l) == key && i < len(x.Rhs) && m.ExprString(x.Rhs[i]) == "0" {
						zero = true
					}
				}
			case *ast.ExprStmt:
				if l := appendThroughPointer(m, x); l != nil {
					if ix, ok := ast.Unparen(l).(*ast.IndexExpr); ok && fieldKeyOf(m, ix.X) == "observerManager.observers" {
						appendNode = x
					}
				}
			case *ast.IncDecStmt:
				if fieldKeyOf(m, x.X) == key {
					if x.Tok == token.INC {
						inc = true
					} else {
						dec = true
					}
				}
			}
			return true
		})
		isCounter := func(tok token.Token) func(ast.Node) bool {
			return func(n ast.Node) bool {
				if id, ok := n.(*ast.IncDecStmt); ok && fieldKeyOf(m, id.X) == key && id.Tok == tok {
					return true
				}
				return false
			}
		}
		if appendNode != nil {
			subject := f.Name + ": observer added"
			if inc && (followedOnAllPaths(m, f, appendNode, isCounter(token.INC)) || precededOnAllPaths(m, f, appendNode, isCounter(token.INC))) {
				c.OK("C19/R3", subject, c.At(appendNode.Pos()), "the observer counter is incremented on every path that registers an observer")
			} else {
				c.Violation("C19/R3", subject, c.At(appendNode.Pos()), f.Name+": an observer is appended but the observer counter is not incremented on every path to return (e.g. an early return between them); Stats().Observers would undercount and later wrap around")
			}
		}
		if removeNode != nil && appendNode == nil {
			subject := f.Name + ": observer removed"
			if dec && (followedOnAllPaths(m, f, removeNode, isCounter(token.DEC)) || precededOnAllPaths(m, f, removeNode, isCounter(token.DEC))) {
				c.OK("C19/R3", subject, c.At(removeNode.Pos()), "the observer counter is decremented on every path that removes an observer")
			} else {
				c.Violation("C19/R3", subject, c.At(removeNode.Pos()), f.Name+": an observer is removed but the counter is not decremented on every path")
			}
		}
		if f.Sig != nil && f.Sig.Params().Len() == 0 && f.Sig.Results().Len() == 0 && (zero || strings.EqualFold(f.Obj.Name(), "reset")) {
			subject := f.Name + ": counter reset"
			if zero {
				c.OK("C19/R3", subject, c.At(f.Pos()), "the observer counter is zeroed")
			} else {
				c.Violation("C19/R3", subject, c.At(f.Pos()), f.Name+": does not zero the observer counter")
			}
		}
	}
}

// precededOnAllPaths: every path from the entry to node `to` passes a node satisfying pred.
func precededOnAllPaths(m *core.Model, f *core.Func, to ast.Node, pred func(ast.Node) bool) bool {
	spec := core.GuardSpec{
		Only:      f,
		GuardNode: func(ff *core.Func, n ast.Node) bool { return pred(n) },
		Needs: func(ff *core.Func, n ast.Node) []core.Witness {
			if n == to {
				return []core.Witness{{What: "target"}}
			}
			return nil
		},
		SkipCallee: func(*core.Func) bool { return true },
	}
	return len(m.MustPrecede(spec).Unguarded[f]) == 0
}
