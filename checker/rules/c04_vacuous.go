package rules

import (
	"fmt"
	"go/ast"
	"go/token"
	"go/types"

	"golang.org/x/tools/go/cfg"

	"arkverif/checker/core"
)

// C04/R14 (= C15/R6 = C16/R7): a list is walked before it is emptied.
//
// Several bookkeeping steps have the shape "do something for every element of a list, then empty the list" (mark every
// active table free, then clear the active list; reset every table, then hand the list to the free list). If the
// emptying is moved in front of the walk, the walk silently does nothing: tables end up on the free list without
// their free flag, rows are not reset. For every function that both walks a slice field (a loop over all its
// elements) and empties that same slice (assigns it `[:0]`, nil or an empty literal, or calls a method of its owner
// that does), the walk must not be reached, on every path, with the slice just emptied and not refilled.
func c04r14(c *core.Ctx) {
	m := c.M
	// truncators: methods that empty a slice field of their receiver -> the field keys they empty
	trunc := map[*core.Func][]string{}
	emptyRHS := func(f *core.Func, lhs, rhs ast.Expr) bool {
		rhs = ast.Unparen(rhs)
		if id, ok := rhs.(*ast.Ident); ok && id.Name == "nil" {
			return true
		}
		if cl, ok := rhs.(*ast.CompositeLit); ok && len(cl.Elts) == 0 {
			return true
		}
		if se, ok := rhs.(*ast.SliceExpr); ok && se.Low == nil && se.High != nil {
			if tv, ok := m.Info.Types[se.High]; ok && tv.Value != nil && tv.Value.String() == "0" {
				return m.RawString(se.X) == m.RawString(lhs)
			}
		}
		return false
	}
	for _, f := range m.Funcs {
		if f.Body == nil || f.Sig == nil || f.Sig.Recv() == nil {
			continue
		}
		core.InspectNoLits(f.Body, func(n ast.Node) bool {
			as, ok := n.(*ast.AssignStmt)
			if !ok || len(as.Lhs) != len(as.Rhs) {
				return true
			}
			for i, l := range as.Lhs {
				sel, ok := ast.Unparen(l).(*ast.SelectorExpr)
				if !ok || !isSliceType(m.Info.TypeOf(l)) {
					continue
				}
				if id := identOf(sel.X); id == nil || m.Info.ObjectOf(id) != types.Object(f.Sig.Recv()) {
					continue
				}
				if k := fieldKeyOf(m, sel); k != "" && emptyRHS(f, l, as.Rhs[i]) {
					trunc[f] = append(trunc[f], k)
				}
			}
			return true
		})
	}
	n := 0
	for _, f := range m.AllFuncs() {
		if f.Body == nil {
			continue
		}
		// the events of f: emptying / refilling of a rendered slice expression, and the walks
		type event struct {
			list    string
			empties bool
		}
		events := map[ast.Node][]event{}
		walks := map[ast.Node]string{}
		cleared := map[string]bool{}
		core.InspectNoLits(f.Body, func(x ast.Node) bool {
			switch y := x.(type) {
			case *ast.AssignStmt:
				if len(y.Lhs) == len(y.Rhs) {
					for i, l := range y.Lhs {
						if _, isSel := ast.Unparen(l).(*ast.SelectorExpr); !isSel || !isSliceType(m.Info.TypeOf(l)) || fieldKeyOf(m, l) == "" {
							continue
						}
						r := m.ExprString(l)
						if emptyRHS(f, l, y.Rhs[i]) {
							events[y] = append(events[y], event{r, true})
							cleared[r] = true
						} else {
							events[y] = append(events[y], event{r, false})
						}
					}
				}
			case *ast.CallExpr:
				if k, cal, _ := m.Callee(y); k == core.CallStatic && len(trunc[cal]) > 0 {
					if sel, ok := ast.Unparen(y.Fun).(*ast.SelectorExpr); ok {
						for _, fk := range trunc[cal] {
							if fv := m.FieldByKey(fk); fv != nil {
								r := m.ExprString(sel.X) + "." + fv.Name()
								events[y] = append(events[y], event{r, true})
								cleared[r] = true
							}
						}
					}
				}
			}
			if src, _, ok := elementLoop(m, x); ok {
				if _, isSel := ast.Unparen(src).(*ast.SelectorExpr); isSel && fieldKeyOf(m, src) != "" {
					walks[x] = m.ExprString(src)
				}
			}
			return true
		})
		if len(walks) == 0 || len(cleared) == 0 {
			continue
		}
		g := m.CFG(f)
		if g == nil || len(g.Blocks) == 0 {
			continue
		}
		for loop, list := range walks {
			if !cleared[list] {
				continue
			}
			n++
			subject := fmt.Sprintf("%s: walk over %s", f.Name, list)
			// must-analysis: "emptied and not refilled since" on every path
			type st = bool
			vacuous := false
			loopPos := loop.Pos()
			core.Forward(g, core.Flow[st]{
				Entry: false,
				Join:  func(a, b st) st { return a && b },
				Equal: func(a, b st) bool { return a == b },
				Node: func(s st, _ *cfg.Block, nd ast.Node) st {
					// the loop header (its range expression / condition) is evaluated in a node positioned inside the loop statement
					if nd.Pos() >= loopPos && nd.End() <= loop.End() && s {
						if rs, ok := loop.(*ast.RangeStmt); ok && nd.Pos() <= rs.X.Pos() && rs.X.End() <= nd.End() {
							vacuous = true
						}
						if fs, ok := loop.(*ast.ForStmt); ok && fs.Cond != nil && nd.Pos() <= fs.Cond.Pos() && fs.Cond.End() <= nd.End() && nd.Pos() < fs.Body.Pos() {
							vacuous = true
						}
					}
					core.WalkEval(nd, func(x ast.Node, _ bool) {
						for _, e := range events[x] {
							if e.list == list {
								s = e.empties
							}
						}
					})
					return s
				},
			})
			_ = token.NoPos
			if vacuous {
				c.Violation("C04/R14", subject, c.At(loop.Pos()), fmt.Sprintf("%s walks %s after having emptied it on every path that reaches the loop; the loop body never runs, and what it was meant to do for every element (mark, reset, release) is silently skipped", f.Name, list))
			} else {
				c.OK("C04/R14", subject, c.At(loop.Pos()), "the list is walked before it is emptied (or is refilled in between)")
			}
		}
	}
	if n == 0 {
		c.Undecide("C04/R14", "walk-then-empty", "no function both walks a slice field and empties it")
	}
}
