package rules

import (
	"fmt"
	"go/ast"
	"go/token"

	"arkverif/checker/core"
)

// C01/R10: the archetype graph is linked mutually. Where a new edge is recorded (a store into the neighbour map of a
// node), the same statement list records the reverse edge: for `X.neighbors.Set(k, idOf(Y))` there is
// `Y.neighbors.Set(k, idOf(X))` with the same key k. A back edge that points anywhere else (say, to the start node of a
// multi-step search) sends a later "add k" from the new node to the wrong archetype, so entities silently gain or lose
// components they never had.
func c01r10(c *core.Ctx) {
	m := c.M
	// the setter role of the neighbour map: method called on a node's neighbour field with (key, node id)
	nodeIDOf := func(recv ast.Expr) string {
		// recv is `N.neighbors`; N is a *node local/param, or g.nodes[E]
		sel, ok := ast.Unparen(recv).(*ast.SelectorExpr)
		if !ok || fieldKeyOf(m, sel) != "node.neighbors" {
			return ""
		}
		base := ast.Unparen(m.Inline(ast.Unparen(sel.X)))
		if u, ok := base.(*ast.UnaryExpr); ok && u.Op == token.AND {
			base = ast.Unparen(u.X)
		}
		if ix, ok := base.(*ast.IndexExpr); ok && fieldKeyOf(m, ix.X) == "graph.nodes" {
			return m.ExprString(ast.Unparen(m.StripConv(ix.Index)))
		}
		return m.BaseString(base) + "." + actualFieldName(m, "node.id")
	}
	type link struct {
		call     *ast.CallExpr
		from, to string // node id expressions
		key      string
	}
	n := 0
	for _, f := range m.AllFuncs() {
		lists := map[*ast.BlockStmt][]link{}
		var order []*ast.BlockStmt
		core.InspectNoLits(f.Body, func(x ast.Node) bool {
			blk, ok := x.(*ast.BlockStmt)
			if !ok {
				return true
			}
			for _, st := range blk.List {
				es, ok := st.(*ast.ExprStmt)
				if !ok {
					continue
				}
				call, ok := es.X.(*ast.CallExpr)
				if !ok || len(call.Args) != 2 {
					continue
				}
				sel, ok := ast.Unparen(call.Fun).(*ast.SelectorExpr)
				if !ok {
					continue
				}
				from := nodeIDOf(sel.X)
				if from == "" {
					continue
				}
				// a storing method of the neighbour map
				k, cal, _ := m.Callee(call)
				if k != core.CallStatic || len(c.Eff.Stores(cal)) == 0 {
					continue
				}
				if _, seen := lists[blk]; !seen {
					order = append(order, blk)
				}
				// the id read from g.nodes[E] is E (the node list is indexed by node id, as nodeIDOf assumes too)
				to := m.ExprString(ast.Unparen(m.StripConv(call.Args[1])))
				if ts, ok := ast.Unparen(m.Inline(m.StripConv(call.Args[1]))).(*ast.SelectorExpr); ok && fieldKeyOf(m, ts) == "node.id" {
					if ix, ok := ast.Unparen(ts.X).(*ast.IndexExpr); ok && fieldKeyOf(m, ix.X) == "graph.nodes" {
						to = m.ExprString(ast.Unparen(m.StripConv(ix.Index)))
					}
				}
				lists[blk] = append(lists[blk], link{call, from, to, m.ExprString(ast.Unparen(call.Args[0]))})
			}
			return true
		})
		for _, blk := range order {
			ls := lists[blk]
			for i, a := range ls {
				n++
				subject := fmt.Sprintf("%s: %s", f.Name, m.ExprString(a.call))
				mutual := false
				for j, b := range ls {
					if i != j && b.key == a.key && b.from == a.to && b.to == a.from {
						mutual = true
					}
				}
				if mutual {
					c.OK("C01/R10", subject, c.At(a.call.Pos()), "the reverse edge with the same key is recorded next to it")
				} else {
					c.Violation("C01/R10", subject, c.At(a.call.Pos()), fmt.Sprintf("%s records the edge %s -[%s]-> %s, but no reverse edge %s -[%s]-> %s is recorded in the same block; a later search from the other node would follow a one-sided or misdirected edge and land in an archetype with a different component set", f.Name, a.from, a.key, a.to, a.to, a.key, a.from))
				}
			}
		}
	}
	if n == 0 {
		c.Undecide("C01/R10", "graph links", "no store into a node's neighbour map found")
	}
}
