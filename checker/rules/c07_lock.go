package rules

import (
	"fmt"
	"go/ast"
	"go/constant"
	"go/token"
	"go/types"
	"golang.org/x/tools/go/cfg"
	"sort"
	"strings"

	"arkverif/checker/core"
)

// lockState is the per-world state of the lock pairing analysis: the set of held token names.
type lockState struct{ held string }

func (s lockState) has(tok string) bool {
	for _, t := range strings.Split(s.held, ",") {
		if t == tok && t != "" {
			return true
		}
	}
	return false
}
func (s lockState) add(tok string) lockState {
	if s.has(tok) {
		return s
	}
	ts := append(strings.Split(s.held, ","), tok)
	var out []string
	for _, t := range ts {
		if t != "" {
			out = append(out, t)
		}
	}
	sort.Strings(out)
	return lockState{strings.Join(out, ",")}
}
func (s lockState) remove(tok string) lockState {
	var out []string
	for _, t := range strings.Split(s.held, ",") {
		if t != "" && t != tok {
			out = append(out, t)
		}
	}
	return lockState{strings.Join(out, ",")}
}

// lockSites analyses acquire/release pairing in one function and reports what holds at the given interest nodes.
type lockAnalysis struct {
	c       *core.Ctx
	a       *Anchors
	f       *core.Func
	tokenOf map[*ast.CallExpr]string // acquire call -> token variable ("" if the token escapes into a field/result)
	ps      *core.PS[lockState]
	res     core.PSResult[lockState]
}

func newLockAnalysis(c *core.Ctx, a *Anchors, f *core.Func) *lockAnalysis {
	la := &lockAnalysis{c: c, a: a, f: f, tokenOf: map[*ast.CallExpr]string{}}
	m := c.M
	isAcq := func(e ast.Expr) *ast.CallExpr {
		call, ok := ast.Unparen(e).(*ast.CallExpr)
		if !ok {
			return nil
		}
		if k, cal, _ := m.Callee(call); k == core.CallStatic && a.Acquire[cal] {
			return call
		}
		return nil
	}
	core.InspectNoLits(f.Body, func(n ast.Node) bool {
		switch x := n.(type) {
		case *ast.AssignStmt:
			if len(x.Lhs) == len(x.Rhs) {
				for i, r := range x.Rhs {
					if call := isAcq(r); call != nil {
						if id, ok := ast.Unparen(x.Lhs[i]).(*ast.Ident); ok {
							la.tokenOf[call] = id.Name
						}
					}
				}
			}
		case *ast.ValueSpec:
			for i, r := range x.Values {
				if call := isAcq(r); call != nil && i < len(x.Names) {
					la.tokenOf[call] = x.Names[i].Name
				}
			}
		}
		return true
	})
	la.ps = &core.PS[lockState]{M: m, F: f, Entry: lockState{},
		Node: func(s lockState, n ast.Node, cond bool, _ core.Facts) lockState {
			call, ok := n.(*ast.CallExpr)
			if !ok {
				return s
			}
			k, cal, _ := m.Callee(call)
			if k != core.CallStatic {
				return s
			}
			if a.Acquire[cal] {
				if tok, ok := la.tokenOf[call]; ok {
					return s.add(tok)
				}
				return s
			}
			if a.Release[cal] && len(call.Args) == 1 {
				if id, ok := ast.Unparen(call.Args[0]).(*ast.Ident); ok {
					return s.remove(id.Name)
				}
			}
			return s
		}}
	la.res = la.ps.Solve()
	return la
}

// walk re-runs the transfer over every reachable block and calls visit before each evaluation-order node with the world's state.
func (la *lockAnalysis) walk(visit func(s lockState, n ast.Node)) {
	g := la.c.M.CFG(la.f)
	for _, b := range g.Blocks {
		for _, w := range la.res.In[b] {
			cur := w
			for _, n := range b.Nodes {
				s := cur.S
				core.WalkEval(n, func(x ast.Node, cond bool) {
					visit(s, x)
					s = la.ps.Node(s, x, cond, cur.Facts)
				})
				cur = la.ps.TransferNode(cur, n)
			}
		}
	}
}

func inLoop(f *core.Func, n ast.Node) bool {
	found := false
	var stack []ast.Node
	ast.Inspect(f.Body, func(x ast.Node) bool {
		if x == nil {
			stack = stack[:len(stack)-1]
			return false
		}
		if x == n {
			for _, s := range stack {
				switch s.(type) {
				case *ast.ForStmt, *ast.RangeStmt:
					found = true
				}
			}
			return false
		}
		if _, ok := x.(*ast.FuncLit); ok && x != n {
			// do not enter literals (n is not inside, literals are separate functions)
			return false
		}
		stack = append(stack, x)
		return true
	})
	return found
}

// dynamicCallee returns the variable called by a dynamic call (parameter, local or captured func value), or nil for field calls.
func dynamicCallee(m *core.Model, call *ast.CallExpr) *types.Var {
	if id, ok := ast.Unparen(call.Fun).(*ast.Ident); ok {
		if v, ok := m.Info.ObjectOf(id).(*types.Var); ok {
			return v
		}
	}
	return nil
}

// c07r3: acquire/release pairing; c07r2: user code under lock. Both use the same path-sensitive analysis.
func c07r2r3(c *core.Ctx) {
	a := GetAnchors(c)
	m := c.M
	if len(a.Acquire) == 0 || len(a.Release) == 0 {
		c.Undecide("C07/R3", "roles", "no acquire/release function derived")
		return
	}
	// parameters that receive user callbacks invoked under lock: (function, param index) -> checked
	type paramKey struct {
		f   *core.Func
		idx int
	}
	lockedParam := map[paramKey]bool{}
	for _, f := range m.AllFuncs() {
		if a.Acquire[f] || a.Release[f] || f.Recv == "lock" {
			continue
		}
		hasLockCall, hasInterest := false, false
		core.InspectNoLits(f.Body, func(n ast.Node) bool {
			if call, ok := n.(*ast.CallExpr); ok {
				k, cal, _ := m.Callee(call)
				if k == core.CallStatic && (a.Acquire[cal] || a.Release[cal]) {
					hasLockCall = true
				}
				if k == core.CallDynamic && dynamicCallee(m, call) != nil {
					hasInterest = true
				}
				if fc := a.FireCallOf(f, call); fc != nil && (fc.Pre() || inLoop(f, call)) {
					hasInterest = true
				}
			}
			return true
		})
		if !hasLockCall && !hasInterest {
			continue
		}
		if a.Fire[f] {
			continue
		}
		if _, isWrapper := a.fireWrappers()[f]; isWrapper {
			continue
		}
		la := newLockAnalysis(c, a, f)
		g := m.CFG(f)
		// R3: exits
		if hasLockCall {
			leak := ""
			for _, b := range g.Blocks {
				for _, w := range la.res.Out[b] {
					if w.S.held == "" {
						continue
					}
					if m.IsReturnExit(b) {
						leak = w.S.held
					} else if m.IsPanicExit(b) {
						c.Info("C07/R3", f.Name, c.At(b.Nodes[len(b.Nodes)-1].Pos()), "panic-under-lock: explicit panic while token "+w.S.held+" is held (precondition failure inside the locked region; not a violation of the property's quantifier)")
					}
				}
			}
			bad := false
			if leak != "" {
				bad = true
				c.Violation("C07/R3", f.Name+" leaks "+leak, c.At(f.Pos()), fmt.Sprintf("%s: lock token %q is not released on some normal path to return", f.Name, leak))
			}
			// releases of tokens not held
			reported := map[token.Pos]bool{}
			la.walk(func(s lockState, n ast.Node) {
				call, ok := n.(*ast.CallExpr)
				if !ok {
					return
				}
				if k, cal, _ := m.Callee(call); k == core.CallStatic && a.Release[cal] && len(call.Args) == 1 {
					if id, ok := ast.Unparen(call.Args[0]).(*ast.Ident); ok {
						if v, isVar := m.Info.ObjectOf(id).(*types.Var); isVar && !v.IsField() {
							if _, isParam := paramIndexOf(f, v); isParam {
								return // releasing a caller's token: wrapper
							}
							if !s.has(id.Name) && !reported[call.Pos()] {
								reported[call.Pos()] = true
								bad = true
								c.Violation("C07/R3", f.Name+" releases "+id.Name+" unheld", c.At(call.Pos()), fmt.Sprintf("%s: release of token %q on a path where it is not held (double or unpaired release)", f.Name, id.Name))
							}
						}
					}
				}
			})
			if !bad {
				c.OK("C07/R3", f.Name, c.At(f.Pos()), "every acquired token is released exactly once on every normal path")
			}
		}
		// R2: interest nodes
		la.walk(func(s lockState, n ast.Node) {
			call, ok := n.(*ast.CallExpr)
			if !ok {
				return
			}
			if fc := a.FireCallOf(f, call); fc != nil && (fc.Pre() || inLoop(f, call)) {
				key := fmt.Sprintf("%s fires %s", f.Name, fc.Event)
				what := "removal event"
				if !fc.Pre() {
					what = "batch event (dispatched row by row in a loop)"
				}
				if s.held == "" && heldByAllCallers(c, a, f, call, 0) {
					c.OK("C07/R2", key, c.At(call.Pos()), what+" dispatched in a helper whose every call site lies between acquire and release")
				} else if s.held == "" {
					c.Violation("C07/R2", key, c.At(call.Pos()), fmt.Sprintf("%s dispatches %s %s while the world is not locked by this operation", f.Name, what, fc.Event))
				} else {
					c.OK("C07/R2", key, c.At(call.Pos()), what+" dispatched between acquire and release of "+s.held)
				}
				return
			}
			if k, _, _ := m.Callee(call); k == core.CallDynamic {
				v := dynamicCallee(m, call)
				if v == nil {
					return
				}
				idx, isParam := paramIndexOf(f, v)
				loop := inLoop(f, call)
				// an internal visitor: a function parameter whose type mentions an unexported type cannot be handed
				// in by user code; when every call site passes a function literal, that literal is what runs here, and
				// a literal that itself calls user code in a loop is decided by the clause on literals below
				if isParam && f.Lit == nil && internalFuncType(v.Type()) && allActualsLiterals(m, f, idx) {
					c.OK("C07/R2", fmt.Sprintf("%s calls %s (internal visitor)", f.Name, v.Name()), c.At(call.Pos()), "the callback type is not constructible outside the package and every call site passes a function literal")
					return
				}
				if f.Lit == nil && isParam && s.held != "" {
					lockedParam[paramKey{f, idx}] = true
				}
				if f.Lit == nil && isParam && s.held == "" {
					lockedParam[paramKey{f, idx}] = lockedParam[paramKey{f, idx}] && false
				}
				if !loop || f.Lit != nil {
					return
				}
				key := fmt.Sprintf("%s calls %s in row loop", f.Name, v.Name())
				if s.held == "" && heldByAllCallers(c, a, f, call, 0) {
					c.OK("C07/R2", key, c.At(call.Pos()), "batch callback invoked in a helper whose every call site lies between acquire and release")
				} else if s.held == "" {
					c.Violation("C07/R2", key, c.At(call.Pos()), fmt.Sprintf("%s invokes user callback %s in a loop over rows without holding the world lock", f.Name, v.Name()))
				} else {
					c.OK("C07/R2", key, c.At(call.Pos()), "batch callback invoked between acquire and release of "+s.held)
				}
			}
		})
	}
	// literals with callback loops: must flow only into parameters invoked under lock
	for _, f := range m.AllFuncs() {
		if f.Lit == nil {
			continue
		}
		hasLoopCall := false
		core.InspectNoLits(f.Body, func(n ast.Node) bool {
			if call, ok := n.(*ast.CallExpr); ok {
				if k, _, _ := m.Callee(call); k == core.CallDynamic && dynamicCallee(m, call) != nil && inLoop(f, call) {
					hasLoopCall = true
				}
			}
			return true
		})
		if !hasLoopCall {
			continue
		}
		flows, ok, detail := literalFlows(c, a, f)
		key := f.Name + " callback loop"
		if flows == 0 {
			c.Violation("C07/R2", key, c.At(f.Pos()), "function literal with a user-callback loop does not flow into a lock-holding batch operation")
		} else if !ok {
			c.Violation("C07/R2", key, c.At(f.Pos()), "function literal with a user-callback loop: "+detail)
		} else {
			c.OK("C07/R2", key, c.At(f.Pos()), "literal flows only into a parameter that is invoked between acquire and release")
		}
	}
}

// literalFlows follows a function literal to the calls it is passed to (directly, through the local that holds it, or
// through a builder that returns it): flows counts them; ok is false when one of them does not invoke the
// corresponding parameter between acquire and release of the world lock.
func literalFlows(c *core.Ctx, a *Anchors, f *core.Func) (int, bool, string) {
	m := c.M
	// find the variable the literal is assigned to in the parent, and the calls it is passed to
	parent := f.Parent
	var holder *types.Var
	core.InspectNoLits(parent.Body, func(n ast.Node) bool {
		if as, ok := n.(*ast.AssignStmt); ok {
			for i, r := range as.Rhs {
				if ast.Unparen(r) == f.Lit && i < len(as.Lhs) {
					if id, ok := ast.Unparen(as.Lhs[i]).(*ast.Ident); ok {
						holder, _ = m.Info.ObjectOf(id).(*types.Var)
					}
				}
			}
		}
		return true
	})
	flows := 0
	ok := true
	detail := ""
	// sinks: the calls in function g that receive the value (isValue) as an argument
	var sinks func(g *core.Func, isValue func(ast.Expr) bool)
	sinks = func(g *core.Func, isValue func(ast.Expr) bool) {
		core.InspectNoLits(g.Body, func(n ast.Node) bool {
			call, isCall := n.(*ast.CallExpr)
			if !isCall {
				return true
			}
			for i, arg := range call.Args {
				if !isValue(ast.Unparen(arg)) {
					continue
				}
				flows++
				k, cal, _ := m.Callee(call)
				if k != core.CallStatic {
					ok = false
					detail = "flows into a non-static call"
					continue
				}
				if !paramInvokedUnderLock(c, a, cal, i, 0) {
					ok = false
					detail = fmt.Sprintf("parameter %d of %s is not invoked under the world lock", i, cal.Name)
				}
			}
			return true
		})
	}
	// a builder that returns the literal (directly or through its holder): the value continues at every call site
	// of the builder, passed on directly or through the local that receives it
	returned := false
	core.InspectNoLits(parent.Body, func(n ast.Node) bool {
		if rs, isR := n.(*ast.ReturnStmt); isR {
			for _, r := range rs.Results {
				r = ast.Unparen(r)
				if r == ast.Expr(f.Lit) {
					returned = true
				}
				if id, isID := r.(*ast.Ident); isID && holder != nil && m.Info.ObjectOf(id) == holder {
					returned = true
				}
			}
		}
		return true
	})
	if returned && parent.Lit == nil {
		for _, cs := range m.CallSites() {
			if cs.Callee != parent {
				continue
			}
			bcall := cs.Call
			var h2 *types.Var
			core.InspectNoLits(cs.Caller.Body, func(n ast.Node) bool {
				if as, isAs := n.(*ast.AssignStmt); isAs {
					for i, r := range as.Rhs {
						if ast.Unparen(r) == ast.Expr(bcall) && i < len(as.Lhs) && len(as.Lhs) == len(as.Rhs) {
							if id, isID := ast.Unparen(as.Lhs[i]).(*ast.Ident); isID {
								h2, _ = m.Info.ObjectOf(id).(*types.Var)
							}
						}
					}
				}
				return true
			})
			sinks(cs.Caller, func(e ast.Expr) bool {
				if e == ast.Expr(bcall) {
					return true
				}
				id, isID := e.(*ast.Ident)
				return isID && h2 != nil && m.Info.ObjectOf(id) == h2
			})
		}
	}
	core.InspectNoLits(parent.Body, func(n ast.Node) bool {
		call, isCall := n.(*ast.CallExpr)
		if !isCall {
			return true
		}
		for i, arg := range call.Args {
			passes := ast.Unparen(arg) == f.Lit
			if id, isID := ast.Unparen(arg).(*ast.Ident); isID && holder != nil && m.Info.ObjectOf(id) == holder {
				passes = true
			}
			if !passes {
				continue
			}
			flows++
			k, cal, _ := m.Callee(call)
			if k != core.CallStatic {
				ok = false
				detail = "flows into a non-static call"
				continue
			}
			// follow simple forwarders (e.g. removeBatch -> exchangeBatch) until a function that invokes the parameter
			if !paramInvokedUnderLock(c, a, cal, i, 0) {
				ok = false
				detail = fmt.Sprintf("parameter %d of %s is not invoked under the world lock", i, cal.Name)
			}
		}
		return true
	})
	return flows, ok, detail
}

func paramIndexOf(f *core.Func, v *types.Var) (int, bool) {
	if f.Sig == nil {
		return -2, false
	}
	for i := 0; i < f.Sig.Params().Len(); i++ {
		if f.Sig.Params().At(i) == v {
			return i, true
		}
	}
	return -2, false
}

// paramInvokedUnderLock: every dynamic call of parameter idx in g happens while a token is held, or g forwards it to such a function.
func paramInvokedUnderLock(c *core.Ctx, a *Anchors, g *core.Func, idx int, depth int) bool {
	m := c.M
	if depth > 4 || g.Sig == nil || idx >= g.Sig.Params().Len() {
		return false
	}
	pv := g.Sig.Params().At(idx)
	la := newLockAnalysis(c, a, g)
	invoked, allHeld := false, true
	forwardedOK, forwarded := true, false
	la.walk(func(s lockState, n ast.Node) {
		call, ok := n.(*ast.CallExpr)
		if !ok {
			return
		}
		k, cal, _ := m.Callee(call)
		if k == core.CallDynamic && dynamicCallee(m, call) == pv {
			invoked = true
			if s.held == "" {
				allHeld = false
			}
		}
		if k == core.CallStatic {
			for i, arg := range call.Args {
				if id, ok := ast.Unparen(arg).(*ast.Ident); ok && m.Info.ObjectOf(id) == pv {
					forwarded = true
					if s.held == "" && !paramInvokedUnderLock(c, a, cal, i, depth+1) {
						forwardedOK = false
					}
				}
			}
			// captured by a literal defined in g: handled by the literal rule when g's literal is analysed
		}
	})
	// the parameter captured in a literal inside g (process closures): the literal is checked on its own
	captured := false
	for _, l := range g.Lits {
		ast.Inspect(l.Body, func(n ast.Node) bool {
			if id, ok := n.(*ast.Ident); ok && m.Info.ObjectOf(id) == pv {
				captured = true
			}
			return true
		})
	}
	if !invoked && !forwarded && !captured {
		return false
	}
	return allHeld && forwardedOK
}

// c07r5: the lock bit is tested before it is cleared and its number recycled. The functions that clear a bit of the lock
// word directly (a call on the lock word that stores into it, with the token as argument) are found by effect; each is
// fine if the clearing is dominated, inside it, by a test of that same token's bit — or, for a helper without its own
// test, if every call of the helper is dominated by such a test in the caller.
func c07r5(c *core.Ctx) {
	a := GetAnchors(c)
	m := c.M
	bitTest := func(ff *core.Func, at core.Atom, wantTruth bool) bool {
		// (the test may be taken into a local first: locked := m.locks.Get(l); if locked {..})
		call, ok := ast.Unparen(m.InlineLocals(at.Expr)).(*ast.CallExpr)
		if !ok || len(call.Args) != 1 {
			return false
		}
		sel, ok := ast.Unparen(call.Fun).(*ast.SelectorExpr)
		if !ok {
			return false
		}
		if ff.Sig == nil || ff.Sig.Params().Len() == 0 {
			return false
		}
		if id, ok := m.StripConv(call.Args[0]).(*ast.Ident); !ok || m.Info.ObjectOf(id) != ff.Sig.Params().At(0) {
			return false
		}
		if m.AccessPath(ff, sel.X).Has("lock.locks") {
			return at.Truth == wantTruth
		}
		return false
	}
	// clearing sites: calls on the lock word / the bit pool of a lock that store into it, inside release-role functions
	clearsDirectly := func(f *core.Func, x ast.Node) string {
		call, ok := x.(*ast.CallExpr)
		if !ok {
			return ""
		}
		sel, ok := ast.Unparen(call.Fun).(*ast.SelectorExpr)
		if !ok {
			return ""
		}
		p := m.AccessPath(f, sel.X)
		if !(p.Has("lock.locks") || p.Has("lock.bitPool")) {
			return ""
		}
		for _, s := range c.Eff.StoresAt(f, call) {
			if s.Path.Has("lock.locks") || s.Path.Has("lock.bitPool") {
				return "write to " + s.Path.Last() + " via " + strings.Join(s.Via, "->")
			}
		}
		return ""
	}
	guardedIn := func(f *core.Func, isNeed func(ast.Node) string) []core.Witness {
		spec := core.GuardSpec{
			Only:      f,
			GuardAtom: func(ff *core.Func, at core.Atom) bool { return bitTest(ff, at, true) },
			Needs: func(ff *core.Func, x ast.Node) []core.Witness {
				if w := isNeed(x); w != "" {
					return []core.Witness{{What: w}}
				}
				return nil
			},
			SkipCallee: func(*core.Func) bool { return true },
		}
		return m.MustPrecede(spec).Unguarded[f]
	}
	n := 0
	for _, f := range m.Funcs {
		if f.Recv != "lock" || !a.Release[f] || f.Body == nil {
			continue
		}
		direct := false
		core.InspectNoLits(f.Body, func(x ast.Node) bool {
			if clearsDirectly(f, x) != "" {
				direct = true
			}
			return true
		})
		if !direct {
			continue
		}
		n++
		res := guardedIn(f, func(x ast.Node) string { return clearsDirectly(f, x) })
		if len(res) == 0 {
			c.OK("C07/R5", f.Name, c.At(f.Pos()), "the lock bit is tested before it is cleared and its number recycled")
			continue
		}
		// a helper without its own test: every caller must test before calling
		callers, bad := 0, ""
		for _, cs := range m.CallSites() {
			if cs.Callee != f {
				continue
			}
			callers++
			call := cs.Call
			if w := guardedIn(cs.Caller, func(x ast.Node) string {
				if x == ast.Node(call) {
					return "call of " + f.Name
				}
				return ""
			}); len(w) > 0 {
				bad = cs.Caller.Name
			}
		}
		if callers > 0 && bad == "" {
			c.OK("C07/R5", f.Name, c.At(f.Pos()), "clears the bit without a test of its own; every caller tests the bit before the call")
		} else {
			c.Violation("C07/R5", f.Name, c.At(res[0].Node.Pos()), fmt.Sprintf("%s: %s without a preceding test of the token's lock bit%s (unbalanced unlock would go undetected and corrupt the bit pool)", f.Name, res[0].What, map[bool]string{true: " in " + f.Name + " or in its caller " + bad, false: ""}[bad != ""]))
		}
	}
	if n == 0 {
		c.Undecide("C07/R5", "roles", "no release function on type lock clears a lock bit directly")
	}
}

// singleFuncGuard runs the K1 analysis restricted to one function (callees are opaque).
func singleFuncGuard(m *core.Model, f *core.Func, spec core.GuardSpec) []core.Witness {
	if spec.SkipCallee == nil {
		spec.SkipCallee = func(*core.Func) bool { return true }
	}
	spec.Only = f
	res := m.MustPrecede(spec)
	return res.Unguarded[f]
}

// c07r4: query typestate — Close is idempotent, exhaustion passes Close, the stored token comes from the acquire in Query.
func c07r4(c *core.Ctx) {
	a := GetAnchors(c)
	m := c.M
	// closers: methods that call a release role with a field of their receiver as token
	type closer struct {
		f        *core.Func
		tokenKey string // "Query2.lock"
	}
	var closers []closer
	for _, f := range m.Funcs {
		if f.Sig == nil || f.Sig.Recv() == nil || f.Lit != nil {
			continue
		}
		core.InspectNoLits(f.Body, func(n ast.Node) bool {
			call, ok := n.(*ast.CallExpr)
			if !ok {
				return true
			}
			if k, cal, _ := m.Callee(call); k == core.CallStatic && a.Release[cal] && len(call.Args) == 1 {
				if sel, ok := ast.Unparen(call.Args[0]).(*ast.SelectorExpr); ok {
					if fld := m.FieldOf(sel); fld != nil {
						if id, ok := ast.Unparen(sel.X).(*ast.Ident); ok && m.Info.ObjectOf(id) == f.Sig.Recv() {
							closers = append(closers, closer{f, m.FieldKey(fld)})
						}
					}
				}
			}
			return true
		})
	}
	if len(closers) == 0 {
		c.Undecide("C07/R4", "closers", "no method releasing a token stored in its receiver found")
		return
	}
	closerOf := map[string]*core.Func{}
	for _, cl := range closers {
		closerOf[cl.f.Recv] = cl.f
	}
	for _, cl := range closers {
		f := cl.f
		// (a) idempotence: the first statement is `if <marker> { return }`, and on the continuing path
		// constant stores make <marker> true and exactly one release happens.
		okIdem, why := closeIdempotent(c, a, f)
		if okIdem {
			c.OK("C07/R4a", f.Name, c.At(f.Pos()), "Close returns early iff closed, otherwise marks the query closed and releases the token exactly once")
		} else {
			c.Violation("C07/R4a", f.Name, c.At(f.Pos()), f.Name+": "+why)
		}
		// (c) the token field is initialised from an acquire call in every composite literal of the type
		lits, good := 0, 0
		for _, g := range m.AllFuncs() {
			for _, cn := range constructionsOf(m, g) {
				if cn.typ != f.Recv {
					continue
				}
				lits++
				if v, ok := cn.fields[cl.tokenKey]; ok {
					if call, ok := ast.Unparen(v).(*ast.CallExpr); ok {
						if k, cal, _ := m.Callee(call); k == core.CallStatic && a.Acquire[cal] {
							good++
						}
					}
				}
			}
		}
		if lits > 0 && lits == good {
			c.OK("C07/R4c", f.Recv, c.At(f.Pos()), fmt.Sprintf("token field %s is initialised from an acquire call in all %d constructions", cl.tokenKey, lits))
		} else {
			c.Violation("C07/R4c", f.Recv, c.At(f.Pos()), fmt.Sprintf("%s: %d of %d constructions initialise %s from an acquire call; Close would release a token that was never taken", f.Recv, good, lits, cl.tokenKey))
		}
	}
	// (b) exhaustion passes Close: for every exported bool method "Next"-like that (transitively) may call the closer
	for _, f := range m.Funcs {
		if !f.Exported() || !returnsBool(f) || f.Sig.Recv() == nil || f.Sig.Params().Len() != 0 {
			continue
		}
		cl := closerOf[f.Recv]
		if cl == nil {
			continue
		}
		ce := &closeEval{c: c, a: a, closer: cl, memo: map[string]int{}}
		if ce.closesOnFalse(f, core.Facts{}, 0) {
			c.OK("C07/R4b", f.Name, c.At(f.Pos()), "every path on which the method reports exhaustion has called Close (unlocking the world)")
		} else {
			c.Violation("C07/R4b", f.Name, c.At(f.Pos()), f.Name+": a path returns false (iteration finished) without having passed "+cl.Name+"; the world would stay locked after exhaustion: "+ce.why)
		}
	}
}

// closeIdempotent checks the shape of a Close method (see c07r4).
func closeIdempotent(c *core.Ctx, a *Anchors, f *core.Func) (bool, string) {
	m := c.M
	// Idempotence, stated on paths instead of statement shapes:
	//  (1) the function has exactly one release call, not inside a loop;
	//  (2) some test of the query's own state (the closed-marker) with a known outcome dominates that call;
	//  (3) on every path through the call a constant is stored into the marker under which the test of (2) has the
	//      opposite outcome, so a second Close cannot reach the release again.
	var rel []*ast.CallExpr
	core.InspectNoLits(f.Body, func(n ast.Node) bool {
		if call, ok := n.(*ast.CallExpr); ok {
			if k, cal, _ := m.Callee(call); k == core.CallStatic && a.Release[cal] {
				rel = append(rel, call)
			}
		}
		return true
	})
	if len(rel) != 1 {
		return false, fmt.Sprintf("%d release calls, want exactly 1", len(rel))
	}
	R := rel[0]
	if enclosingLoopOf(f, R) != nil {
		return false, "the release call is inside a loop (cannot establish exactly-once release)"
	}
	type cand struct {
		marker ast.Expr
		text   string
		truth  bool
		// closes reports whether storing v into the marker makes the test fail next time
		closes func(v constant.Value) bool
		// viaField: the test is a pure boolean method of the object `marker`; it compares this field of its receiver
		viaField string
	}
	var cands []cand
	seenCand := map[string]bool{}
	addAtom := func(at core.Atom) {
		e := ast.Unparen(at.Expr)
		var cd cand
		switch x := e.(type) {
		case *ast.BinaryExpr:
			rv, ok := m.Info.Types[x.Y]
			lv, lok := m.Info.Types[x.X]
			switch {
			case ok && rv.Value != nil:
				op, k := x.Op, rv.Value
				cd = cand{marker: x.X, closes: func(v constant.Value) bool { return constant.Compare(v, op, k) != at.Truth }}
			case lok && lv.Value != nil:
				op, k := x.Op, lv.Value
				cd = cand{marker: x.Y, closes: func(v constant.Value) bool { return constant.Compare(k, op, v) != at.Truth }}
			default:
				return
			}
		case *ast.Ident, *ast.SelectorExpr:
			if t := m.Info.TypeOf(e); t == nil || !isBoolType(t) {
				return
			}
			cd = cand{marker: e, closes: func(v constant.Value) bool { return v.Kind() == constant.Bool && constant.BoolVal(v) != at.Truth }}
		case *ast.CallExpr:
			// a pure boolean method of a part of the query (e.g. its cursor) whose body is `return field <op> const`
			sel, ok := ast.Unparen(x.Fun).(*ast.SelectorExpr)
			k, cal, _ := m.Callee(x)
			if !ok || k != core.CallStatic || cal.Body == nil || !returnsBool(cal) || len(x.Args) != 0 || len(c.Eff.Stores(cal)) != 0 || len(cal.Body.List) != 1 {
				return
			}
			rs, ok := cal.Body.List[0].(*ast.ReturnStmt)
			if !ok || len(rs.Results) != 1 {
				return
			}
			be, ok := ast.Unparen(rs.Results[0]).(*ast.BinaryExpr)
			if !ok {
				return
			}
			rv, okc := m.Info.Types[be.Y]
			fk := fieldKeyOf(m, be.X)
			if !okc || rv.Value == nil || fk == "" {
				return
			}
			if bsel, ok := ast.Unparen(be.X).(*ast.SelectorExpr); !ok || !isIdentOf(m, bsel.X, cal.Sig.Recv()) {
				return
			}
			op, kv := be.Op, rv.Value
			cd = cand{marker: sel.X, viaField: fk, closes: func(v constant.Value) bool { return constant.Compare(v, op, kv) != at.Truth }}
		default:
			return
		}
		// the marker must be the query's own state: a field path of the receiver without pointer hops
		mp := m.AccessPath(f, cd.marker)
		if mp.Kind != core.RootParam || mp.Index != -1 || len(mp.Fields()) == 0 {
			return
		}
		for _, k := range mp.Fields() {
			if o := ownerOf(k); o != f.Recv && o != "cursor" {
				return
			}
		}
		cd.text, cd.truth = m.ExprString(e), at.Truth
		key := fmt.Sprintf("%s=%v", cd.text, cd.truth)
		if seenCand[key] {
			return
		}
		seenCand[key] = true
		cands = append(cands, cd)
	}
	core.InspectNoLits(f.Body, func(n ast.Node) bool {
		var cond ast.Expr
		switch x := n.(type) {
		case *ast.IfStmt:
			cond = x.Cond
		case *ast.CaseClause:
			if len(x.List) == 1 && core.TaglessCases[x] {
				cond = x.List[0]
			}
		}
		if cond != nil {
			for _, t := range []bool{true, false} {
				for _, at := range core.Assume(cond, t) {
					addAtom(at)
				}
			}
		}
		return true
	})
	if len(cands) == 0 {
		return false, "no test of the query's own state guards the release; a second Close would release again"
	}
	why := "no test of the query's own state dominates the release"
	for _, cd := range cands {
		cd := cd
		spec := core.GuardSpec{
			Only: f,
			GuardAtom: func(ff *core.Func, at core.Atom) bool {
				return at.Truth == cd.truth && m.ExprString(ast.Unparen(at.Expr)) == cd.text
			},
			Needs: func(ff *core.Func, n ast.Node) []core.Witness {
				if n == ast.Node(R) {
					return []core.Witness{{What: "release"}}
				}
				return nil
			},
			SkipCallee: func(*core.Func) bool { return true },
		}
		if len(m.MustPrecede(spec).Unguarded[f]) > 0 {
			continue
		}
		// (3) a closing constant store on every path through R
		mtext := m.ExprString(ast.Unparen(cd.marker))
		isClosingStore := func(n ast.Node) bool {
			if cd.viaField != "" {
				// a method of the same object that stores a closing constant into the tested field
				call, ok := n.(*ast.CallExpr)
				if !ok {
					return false
				}
				sel, ok := ast.Unparen(call.Fun).(*ast.SelectorExpr)
				k, cal, _ := m.Callee(call)
				if !ok || k != core.CallStatic || cal.Body == nil || m.ExprString(ast.Unparen(sel.X)) != mtext {
					return false
				}
				found := false
				core.InspectNoLits(cal.Body, func(y ast.Node) bool {
					if as, ok := y.(*ast.AssignStmt); ok && len(as.Lhs) == len(as.Rhs) {
						for i, l := range as.Lhs {
							if fieldKeyOf(m, l) == cd.viaField {
								if bsel, ok := ast.Unparen(l).(*ast.SelectorExpr); ok && isIdentOf(m, bsel.X, cal.Sig.Recv()) {
									if tv, ok := m.Info.Types[as.Rhs[i]]; ok && tv.Value != nil && cd.closes(tv.Value) {
										found = true
									}
								}
							}
						}
					}
					return true
				})
				return found && passedOnAllPaths(m, cal, func(z ast.Node) bool {
					as, ok := z.(*ast.AssignStmt)
					if !ok {
						return false
					}
					for _, l := range as.Lhs {
						if fieldKeyOf(m, l) == cd.viaField {
							return true
						}
					}
					return false
				})
			}
			as, ok := n.(*ast.AssignStmt)
			if !ok {
				return false
			}
			for i, l := range as.Lhs {
				if m.ExprString(ast.Unparen(l)) == mtext && i < len(as.Rhs) {
					if tv, ok := m.Info.Types[as.Rhs[i]]; ok && tv.Value != nil && cd.closes(tv.Value) {
						return true
					}
				}
			}
			return false
		}
		if followedOnAllPaths(m, f, R, isClosingStore) || precededOnAllPaths(m, f, R, isClosingStore) {
			return true, ""
		}
		why = "the release is guarded by a test of " + mtext + ", but no constant store on every path through the release makes that test fail afterwards; a second Close would release again"
	}
	return false, why
}

func isBoolType(t types.Type) bool {
	b, ok := t.Underlying().(*types.Basic)
	return ok && b.Info()&types.IsBoolean != 0
}

// closeEval decides "every path returning false has called the closer" for a chain of methods on one receiver.
type closeEval struct {
	c      *core.Ctx
	a      *Anchors
	closer *core.Func
	memo   map[string]int // 0 unknown/in progress, 1 true, 2 false
	why    string
}

type closedState struct{ closed bool }

func (ce *closeEval) closesOnFalse(f *core.Func, entry core.Facts, depth int) bool {
	m := ce.c.M
	key := f.Name + "|" + factsKey(entry)
	switch ce.memo[key] {
	case 1:
		return true
	case 2:
		return false
	}
	if depth > 6 {
		return false
	}
	ce.memo[key] = 2 // pessimistic for recursion
	recvName := ""
	if f.Decl != nil && f.Decl.Recv != nil && len(f.Decl.Recv.List) > 0 && len(f.Decl.Recv.List[0].Names) > 0 {
		recvName = f.Decl.Recv.List[0].Names[0].Name
	}
	ps := &core.PS[closedState]{M: m, F: f, Entry: closedState{}, EntryFacts: entry,
		Node: func(s closedState, n ast.Node, cond bool, _ core.Facts) closedState {
			if call, ok := n.(*ast.CallExpr); ok && !cond {
				if k, cal, _ := m.Callee(call); k == core.CallStatic && cal == ce.closer {
					return closedState{true}
				}
			}
			return s
		}}
	res := ps.Solve()
	g := m.CFG(f)
	ok := true
	for _, b := range g.Blocks {
		if len(b.Succs) != 0 || len(b.Nodes) == 0 {
			continue
		}
		ret, isRet := b.Nodes[len(b.Nodes)-1].(*ast.ReturnStmt)
		if !isRet || len(ret.Results) != 1 {
			continue
		}
		for _, w := range res.In[b] {
			// state before the return expression is evaluated
			cur := w
			for _, n := range b.Nodes[:len(b.Nodes)-1] {
				cur = ps.TransferNode(cur, n)
			}
			if cur.S.closed {
				continue
			}
			r := ast.Unparen(ret.Results[0])
			// closes(e): whenever e evaluates to false, the closer has been called
			var closes func(e ast.Expr) bool
			closes = func(e ast.Expr) bool {
				e = ast.Unparen(e)
				if tv, isConst := m.Info.Types[e]; isConst && tv.Value != nil {
					return constant.BoolVal(tv.Value) // constant true is never false; constant false does not close
				}
				switch x := e.(type) {
				case *ast.BinaryExpr:
					switch x.Op.String() {
					case "||":
						return closes(x.X) || closes(x.Y) // both operands were evaluated to false
					case "&&":
						return closes(x.X) && closes(x.Y) // either operand may be the false one
					}
				case *ast.CallExpr:
					if k, cal, _ := m.Callee(x); k == core.CallStatic && cal.Recv == f.Recv && returnsBool(cal) {
						sub := core.Facts{}
						calRecv := ""
						if cal.Decl != nil && cal.Decl.Recv != nil && len(cal.Decl.Recv.List[0].Names) > 0 {
							calRecv = cal.Decl.Recv.List[0].Names[0].Name
						}
						for k2, v := range cur.Facts {
							if recvName != "" && strings.HasPrefix(k2, recvName+".") {
								sub[calRecv+strings.TrimPrefix(k2, recvName)] = v
							}
						}
						return ce.closesOnFalse(cal, sub, depth+1)
					}
				}
				return false
			}
			if closes(r) {
				continue
			}
			ok = false
			ce.why = fmt.Sprintf("%s returns a value that may be false at %s without Close", f.Name, ce.c.At(ret.Pos()))
		}
	}
	if ok {
		ce.memo[key] = 1
	}
	return ok
}

func factsKey(f core.Facts) string {
	var ks []string
	for k, v := range f {
		ks = append(ks, fmt.Sprintf("%s=%v", k, v))
	}
	sort.Strings(ks)
	return strings.Join(ks, ";")
}

// heldByAllCallers: f is unexported and every static call site of f is reached with a token held
// (directly, or in a caller that itself satisfies this).
func heldByAllCallers(c *core.Ctx, a *Anchors, f *core.Func, site ast.Node, depth int) bool {
	m := c.M
	if f.Exported() || f.Lit != nil || depth > 3 {
		return false
	}
	sites := 0
	ok := true
	for _, g := range m.AllFuncs() {
		calls := false
		core.InspectNoLits(g.Body, func(n ast.Node) bool {
			if call, isCall := n.(*ast.CallExpr); isCall {
				if k, cal, _ := m.Callee(call); k == core.CallStatic && cal == f {
					calls = true
				}
			}
			return true
		})
		if !calls {
			continue
		}
		if g.Lit != nil {
			// called from a function literal: the literal runs where it is invoked; held when it flows only into
			// parameters that are invoked between acquire and release (the literal clause of R2 reports it too)
			sites++
			if flows, lok, _ := literalFlows(c, a, g); flows == 0 || !lok {
				ok = false
			}
			continue
		}
		la := newLockAnalysis(c, a, g)
		la.walk(func(s lockState, n ast.Node) {
			call, isCall := n.(*ast.CallExpr)
			if !isCall {
				return
			}
			if k, cal, _ := m.Callee(call); k == core.CallStatic && cal == f {
				sites++
				if s.held == "" && !heldByAllCallers(c, a, g, call, depth+1) {
					// a call outside the lock is harmless when what is known at the call (the branch conditions
					// on the way to it) contradicts a condition under which the site in f runs:
					// `if !hasObs && fn == nil { f(fn, hasObs); return }` never reaches `if fn != nil { fn(..) }`
					if site == nil || !unreachableUnder(m, g, call, f, site) {
						ok = false
					}
				}
			}
		})
	}
	return sites > 0 && ok
}

// knownAtoms returns what the branch conditions passed on every path to node say about nil tests and boolean
// variables: key "<expr>==nil" or "<expr>" (rendered, conversions and naming locals resolved) -> truth.
func knownAtoms(m *core.Model, f *core.Func, node ast.Node) map[string]bool {
	g := m.CFG(f)
	if g == nil || len(g.Blocks) == 0 {
		return nil
	}
	norm := func(a core.Atom) (string, bool, bool) {
		// (an accessor that merely names a test - slots.has(i) for slots[i] != nil - is read as that test)
		e := ast.Unparen(m.Inline(a.Expr))
		if be, ok := e.(*ast.BinaryExpr); ok && (be.Op == token.EQL || be.Op == token.NEQ) {
			x, y := ast.Unparen(be.X), ast.Unparen(be.Y)
			if id, ok := x.(*ast.Ident); ok && id.Name == "nil" {
				x, y = y, x
			}
			if id, ok := y.(*ast.Ident); ok && id.Name == "nil" {
				return m.ExprString(x) + "==nil", a.Truth == (be.Op == token.EQL), true
			}
			return "", false, false
		}
		// (a boolean variable or field is an atom as written, whatever its defining expression inlines to)
		for _, e := range []ast.Expr{ast.Unparen(a.Expr), e} {
			if t := m.Info.TypeOf(e); t != nil {
				if b, ok := t.Underlying().(*types.Basic); ok && b.Info()&types.IsBoolean != 0 {
					switch e.(type) {
					case *ast.Ident, *ast.SelectorExpr:
						return m.ExprString(e), a.Truth, true
					}
				}
			}
		}
		return "", false, false
	}
	type st = map[string]bool
	fr := core.Forward(g, core.Flow[st]{
		Entry: st{},
		Join: func(a, b st) st {
			out := st{}
			for k, v := range a {
				if w, ok := b[k]; ok && w == v {
					out[k] = v
				}
			}
			return out
		},
		Equal: func(a, b st) bool {
			if len(a) != len(b) {
				return false
			}
			for k, v := range a {
				if w, ok := b[k]; !ok || w != v {
					return false
				}
			}
			return true
		},
		Node: func(s st, _ *cfg.Block, _ ast.Node) st { return s },
		Edge: func(s st, b *cfg.Block, succ int) (st, bool) {
			c := core.BlockCond(b)
			if c == nil {
				return s, true
			}
			out := st{}
			for k, v := range s {
				out[k] = v
			}
			for _, a := range core.Assume(c, succ == 0) {
				if k, v, ok := norm(a); ok {
					out[k] = v
				}
			}
			return out, true
		},
	})
	for _, b := range g.Blocks {
		if !fr.Reached[b] {
			continue
		}
		for _, n := range b.Nodes {
			if n.Pos() <= node.Pos() && node.End() <= n.End() {
				return fr.In[b]
			}
		}
	}
	return nil
}

// unreachableUnder: the facts known at `call` (in caller), translated to f's parameters, contradict a condition that
// holds on every path to `site` in f.
func unreachableUnder(m *core.Model, caller *core.Func, call *ast.CallExpr, f *core.Func, site ast.Node) bool {
	if f.Sig == nil || f.Sig.Params().Len() != len(call.Args) || f.Sig.Variadic() {
		return false
	}
	at := knownAtoms(m, caller, call)
	if len(at) == 0 {
		return false
	}
	facts := map[string]bool{}
	for i, a := range call.Args {
		pn := f.Sig.Params().At(i).Name()
		as := m.ExprString(ast.Unparen(a))
		if v, ok := at[as+"==nil"]; ok {
			facts[pn+"==nil"] = v
		}
		if v, ok := at[as]; ok {
			facts[pn] = v
		}
		// a constant argument is a fact as well
		if b, ok := m.ConstBool(a); ok {
			facts[pn] = b
		}
		if id, ok := ast.Unparen(a).(*ast.Ident); ok && id.Name == "nil" {
			facts[pn+"==nil"] = true
		}
	}
	if len(facts) == 0 {
		return false
	}
	// parameters that f itself re-assigns cannot be reasoned about
	reassigned := map[string]bool{}
	core.InspectNoLits(f.Body, func(n ast.Node) bool {
		if as, ok := n.(*ast.AssignStmt); ok {
			for _, l := range as.Lhs {
				if id, ok := ast.Unparen(l).(*ast.Ident); ok {
					reassigned[id.Name] = true
				}
			}
		}
		return true
	})
	for k, v := range knownAtoms(m, f, site) {
		name := strings.TrimSuffix(k, "==nil")
		if reassigned[name] {
			continue
		}
		if w, ok := facts[k]; ok && w != v {
			return true
		}
	}
	return false
}

// internalFuncType: t is a function type whose parameters or results mention an unexported named type of this module
// (user code cannot write a function of that type).
func internalFuncType(t types.Type) bool {
	sig, ok := t.Underlying().(*types.Signature)
	if !ok {
		return false
	}
	unexp := func(tt types.Type) bool {
		for {
			switch x := tt.(type) {
			case *types.Pointer:
				tt = x.Elem()
				continue
			case *types.Slice:
				tt = x.Elem()
				continue
			case *types.Named:
				return x.Obj().Pkg() != nil && !x.Obj().Exported()
			}
			return false
		}
	}
	for i := 0; i < sig.Params().Len(); i++ {
		if unexp(sig.Params().At(i).Type()) {
			return true
		}
	}
	for i := 0; i < sig.Results().Len(); i++ {
		if unexp(sig.Results().At(i).Type()) {
			return true
		}
	}
	return false
}

// allActualsLiterals: every static call site of f passes a function literal (or a method value / function of the
// package) for parameter idx - never a value that comes from one of the caller's own parameters.
func allActualsLiterals(m *core.Model, f *core.Func, idx int) bool {
	n := 0
	for _, cs := range m.CallSites() {
		if cs.Callee != f {
			continue
		}
		n++
		if idx >= len(cs.Call.Args) {
			return false
		}
		switch a := ast.Unparen(cs.Call.Args[idx]).(type) {
		case *ast.FuncLit:
		case *ast.SelectorExpr:
			// a bound method of an internal helper value (finder.visit)
			if sel, ok := m.Info.Selections[a]; !ok || sel.Kind() != types.MethodVal {
				return false
			}
		default:
			return false
		}
	}
	return n > 0
}
