package rules

import (
	"fmt"
	"go/ast"
	"go/types"
	"strings"

	"arkverif/checker/core"
)

func init() {
	register(&Property{
		ID:    "C09",
		Level: "other",
		Explanation: "Structural necessary conditions of 'observer callbacks see a consistent world at the documented time', decided on every path (loop back-edges and callees included): " +
			"(R1) inside one operation no path leads from a row mutation (table length, entity index, entity pool) to the dispatch of a removal event; (R2) no path leads from the dispatch of a creation/addition/set/relation-assignment event to a row mutation; " +
			"(R3) after a table was emptied (Reset, or source of a bulk move) no row of that same table value is read; (R4) the entity handed to observers is the operation's own entity parameter, a freshly created entity, or a row read from a table; " +
			"(R5) a dispatch loop over table rows visits exactly the affected rows: removal events rows [0,len) of the source table, all other events rows [start,start+count) of the destination table with start traced to the destination's length read before it grew and count to the moved/created count (through helper results, batch-record fields and parameters); " +
			"(R6) removal events, events dispatched row by row in a loop (batch operations) and batch callbacks run under the internal lock (rule C07/R2, path-sensitive: `shouldLock := a || b; if shouldLock { lock } ... if b { fire }` is understood). Not decided: the values read inside callbacks.",
		TrustedBase: []string{"go/types, go/cfg", "anchor table (row-state fields)", "fire-function role = indirect call through observerData.callback; event kind from the EventType constant"},
		Rules: []Rule{
			{ID: "C09/R1+R2", Run: c09r1r2, Min: 1},
			{ID: "C09/R3", Run: c09r3, Min: 1},
			{ID: "C09/R4", Run: c09r4, Min: 1},
			{ID: "C09/R5", Run: c09r5, Min: 1},
			{ID: "C09/R6", Run: c07r2r3, Min: 1},
		},
	})
}

func rowMutation(m *core.Model) func(f *core.Func, n ast.Node) string {
	return func(f *core.Func, n ast.Node) string {
		switch n.(type) {
		case *ast.AssignStmt, *ast.IncDecStmt, *ast.CallExpr:
		default:
			return ""
		}
		for _, s := range m.DirectStores(f, n) {
			if cls, key := Classify(s.Path); cls == ClsRow {
				return "row mutation (store to " + key + ")"
			}
		}
		return ""
	}
}

func c09r1r2(c *core.Ctx) {
	a := GetAnchors(c)
	m := c.M
	isFire := func(pre bool) func(f *core.Func, n ast.Node) string {
		return func(f *core.Func, n ast.Node) string {
			call, ok := n.(*ast.CallExpr)
			if !ok || a.Fire[f] {
				return ""
			}
			if _, w := a.fireWrappers()[f]; w {
				return ""
			}
			fc := a.FireCallOf(f, call)
			if fc == nil {
				return ""
			}
			if pre && fc.Pre() {
				return "dispatch of " + fc.Event
			}
			if !pre && postEvents[fc.Event] {
				return "dispatch of " + fc.Event
			}
			return ""
		}
	}
	skip := func(cal *core.Func) bool {
		_, w := a.fireWrappers()[cal]
		return a.Fire[cal] || w
	}
	// R1: ROWMUT -> FIRE_PRE
	r1 := m.NeverAfter(core.OrderSpec{IsA: rowMutation(m), IsB: isFire(true), SkipCallee: skip})
	bad := map[string]bool{}
	for _, v := range r1.Violations {
		key := v.Func.Name + ": " + v.B.What + " after row mutation"
		if bad[key] {
			continue
		}
		bad[key] = true
		c.Violation("C09/R1", key, c.At(v.B.Node.Pos()),
			fmt.Sprintf("%s: %s at %s is reachable after %s at %s; removal observers would see a partially moved world", v.Func.Name, v.B.What, c.At(v.B.Deep.Pos()), v.A.What, c.At(v.A.Deep.Pos())),
			"mutation via "+strings.Join(append([]string{v.Func.Name}, v.A.Chain...), " -> "), "dispatch via "+strings.Join(append([]string{v.Func.Name}, v.B.Chain...), " -> "))
	}
	// R2: FIRE_POST -> ROWMUT
	r2 := m.NeverAfter(core.OrderSpec{IsA: isFire(false), IsB: rowMutation(m), SkipCallee: skip})
	for _, v := range r2.Violations {
		key := v.Func.Name + ": row mutation after " + v.A.What
		if bad[key] {
			continue
		}
		bad[key] = true
		c.Violation("C09/R2", key, c.At(v.B.Node.Pos()),
			fmt.Sprintf("%s: %s at %s is reachable after %s at %s; post-operation observers would run before the operation is complete", v.Func.Name, v.B.What, c.At(v.B.Deep.Pos()), v.A.What, c.At(v.A.Deep.Pos())),
			"dispatch via "+strings.Join(append([]string{v.Func.Name}, v.A.Chain...), " -> "), "mutation via "+strings.Join(append([]string{v.Func.Name}, v.B.Chain...), " -> "))
	}
	// obligations: every function that both mutates rows and dispatches
	for _, f := range m.Funcs {
		if r1.MayA[f] != nil && r1.MayB[f] != nil {
			viol := false
			for k := range bad {
				if strings.HasPrefix(k, f.Name+":") {
					viol = true
				}
			}
			if !viol {
				c.OK("C09/R1", f.Name, c.At(f.Pos()), "all removal-event dispatches precede every row mutation on every path")
			}
		}
		if r2.MayA[f] != nil && r2.MayB[f] != nil {
			viol := false
			for k := range bad {
				if strings.HasPrefix(k, f.Name+":") {
					viol = true
				}
			}
			if !viol {
				c.OK("C09/R2", f.Name, c.At(f.Pos()), "all post-event dispatches follow every row mutation on every path")
			}
		}
	}
}

// emptiers: functions that empty a table designated by one of their parameters (receiver = -1).
func emptiers(c *core.Ctx) map[*core.Func][]int {
	m := c.M
	out := map[*core.Func][]int{}
	add := func(f *core.Func, i int) bool {
		for _, x := range out[f] {
			if x == i {
				return false
			}
		}
		out[f] = append(out[f], i)
		return true
	}
	// base: methods of table that assign the constant 0 to table.len of the receiver
	for _, f := range m.Funcs {
		if f.Recv != "table" {
			continue
		}
		core.InspectNoLits(f.Body, func(n ast.Node) bool {
			as, ok := n.(*ast.AssignStmt)
			if !ok || len(as.Lhs) != 1 || len(as.Rhs) != 1 {
				return true
			}
			if sel, ok := ast.Unparen(as.Lhs[0]).(*ast.SelectorExpr); ok {
				if fld := m.FieldOf(sel); fld != nil && m.FieldKey(fld) == "table.len" {
					if tv, ok := m.Info.Types[as.Rhs[0]]; ok && tv.Value != nil && tv.Value.String() == "0" {
						add(f, -1)
					}
				}
			}
			return true
		})
	}
	// propagate through pointer parameters passed on as receiver/argument
	for changed := true; changed; {
		changed = false
		for _, f := range m.Funcs {
			if f.Sig == nil {
				continue
			}
			core.InspectNoLits(f.Body, func(n ast.Node) bool {
				call, ok := n.(*ast.CallExpr)
				if !ok {
					return true
				}
				k, cal, _ := m.Callee(call)
				if k != core.CallStatic {
					return true
				}
				for _, pi := range out[cal] {
					var actual ast.Expr
					if pi == -1 {
						if sel, ok := ast.Unparen(call.Fun).(*ast.SelectorExpr); ok {
							actual = sel.X
						}
					} else if pi < len(call.Args) {
						actual = call.Args[pi]
					}
					if id, ok := ast.Unparen(actual).(*ast.Ident); ok {
						if v, ok := m.Info.ObjectOf(id).(*types.Var); ok {
							if idx, isP := paramIndexOf(f, v); isP {
								if add(f, idx) {
									changed = true
								}
							}
						}
					}
				}
				return true
			})
		}
	}
	return out
}

// rowReader: methods of table taking a row index and returning an entity or a pointer into row memory.
func isRowReader(f *core.Func) bool {
	if f == nil || f.Recv != "table" || f.Sig == nil || f.Sig.Results().Len() != 1 {
		return false
	}
	rt := f.Sig.Results().At(0).Type()
	if core.NamedName(rt) != "Entity" {
		if b, ok := rt.Underlying().(*types.Basic); !ok || b.Kind() != types.UnsafePointer {
			return false
		}
	}
	for i := 0; i < f.Sig.Params().Len(); i++ {
		if b, ok := f.Sig.Params().At(i).Type().Underlying().(*types.Basic); ok && b.Info()&types.IsInteger != 0 {
			return true
		}
	}
	return false
}

// c09r3: typestate "emptied table is not read".
func c09r3(c *core.Ctx) {
	m := c.M
	em := emptiers(c)
	if len(em) == 0 {
		c.Undecide("C09/R3", "emptying role", "no function derived")
		return
	}
	for _, f := range m.AllFuncs() {
		// emptied expressions in this function
		type emp struct {
			expr string
			node ast.Node
		}
		var emptied []emp
		core.InspectNoLits(f.Body, func(n ast.Node) bool {
			call, ok := n.(*ast.CallExpr)
			if !ok {
				return true
			}
			k, cal, _ := m.Callee(call)
			if k != core.CallStatic {
				return true
			}
			for _, pi := range em[cal] {
				var actual ast.Expr
				if pi == -1 {
					if sel, ok := ast.Unparen(call.Fun).(*ast.SelectorExpr); ok {
						actual = sel.X
					}
				} else if pi < len(call.Args) {
					actual = call.Args[pi]
				}
				if actual != nil {
					emptied = append(emptied, emp{m.ExprString(actual), call})
				}
			}
			return true
		})
		if len(emptied) == 0 {
			continue
		}
		for _, e := range emptied {
			target := e.expr
			emptyNode := e.node
			spec := core.OrderSpec{
				IsA: func(ff *core.Func, n ast.Node) string {
					if n == emptyNode {
						return "table " + target + " emptied"
					}
					return ""
				},
				IsB: func(ff *core.Func, n ast.Node) string {
					if ff != f {
						return ""
					}
					call, ok := n.(*ast.CallExpr)
					if !ok {
						return ""
					}
					k, cal, _ := m.Callee(call)
					if k != core.CallStatic || !isRowReader(cal) {
						return ""
					}
					if sel, ok := ast.Unparen(call.Fun).(*ast.SelectorExpr); ok && m.ExprString(sel.X) == target {
						return "read of row via " + target + "." + cal.Obj.Name()
					}
					return ""
				},
				Reset: func(ff *core.Func, n ast.Node) bool {
					// re-assignment of the table variable re-derives it
					if as, ok := n.(*ast.AssignStmt); ok && ff == f {
						for _, l := range as.Lhs {
							if m.ExprString(l) == target {
								return true
							}
						}
					}
					return false
				},
				SkipCallee: func(*core.Func) bool { return true },
			}
			res := singleFuncOrder(m, f, spec)
			if len(res) == 0 {
				c.OK("C09/R3", f.Name+" "+target, c.At(emptyNode.Pos()), "no row of the emptied table is read afterwards")
				continue
			}
			v := res[0]
			c.Violation("C09/R3", f.Name+" reads emptied "+target, c.At(v.B.Node.Pos()),
				fmt.Sprintf("%s: %s at %s after the table was emptied at %s (stale or zero rows are read)", f.Name, v.B.What, c.At(v.B.Node.Pos()), c.At(v.A.Node.Pos())))
		}
	}
}

func singleFuncOrder(m *core.Model, f *core.Func, spec core.OrderSpec) []core.OrderViolation {
	res := m.NeverAfter(spec)
	var out []core.OrderViolation
	for _, v := range res.Violations {
		if v.Func == f {
			out = append(out, v)
		}
	}
	return out
}

// c09r4: entity argument of fire calls.
func c09r4(c *core.Ctx) {
	a := GetAnchors(c)
	m := c.M
	for _, f := range m.AllFuncs() {
		if a.Fire[f] {
			continue
		}
		if _, w := a.fireWrappers()[f]; w {
			continue
		}
		core.InspectNoLits(f.Body, func(n ast.Node) bool {
			call, ok := n.(*ast.CallExpr)
			if !ok {
				return true
			}
			fc := a.FireCallOf(f, call)
			if fc == nil || fc.Entity == nil {
				return true
			}
			subject := fmt.Sprintf("%s fires %s", f.Name, fc.Event)
			arg := ast.Unparen(fc.Entity)
			ok2, why := false, ""
			switch x := arg.(type) {
			case *ast.Ident:
				v, _ := m.Info.ObjectOf(x).(*types.Var)
				if v == nil {
					break
				}
				if _, isP := paramIndexOf(f, v); isP {
					ok2, why = true, "operation's entity parameter"
					break
				}
				// local: must come from a creating call (pool get / newEntity family) in this function
				for _, d := range localDefsOf(m, f, v) {
					if cl, isCall := ast.Unparen(d).(*ast.CallExpr); isCall {
						if k, cal, _ := m.Callee(cl); k == core.CallStatic && (a.PoolGet[cal] || returnsEntityFirst(cal)) {
							ok2, why = true, "entity created by "+cal.Name
						}
					}
				}
			case *ast.CallExpr:
				if k, cal, _ := m.Callee(x); k == core.CallStatic && isRowReader(cal) && core.NamedName(cal.Sig.Results().At(0).Type()) == "Entity" {
					ok2, why = true, "row read via "+cal.Name
				}
			}
			if ok2 {
				c.OK("C09/R4", subject, c.At(call.Pos()), "entity argument: "+why)
			} else {
				c.Violation("C09/R4", subject, c.At(call.Pos()), fmt.Sprintf("%s: the entity handed to observers (%s) is neither the operation's entity parameter, a freshly created entity, nor a table row", f.Name, m.ExprString(fc.Entity)))
			}
			return true
		})
	}
}

func localDefsOf(m *core.Model, f *core.Func, v *types.Var) []ast.Expr {
	var out []ast.Expr
	core.InspectNoLits(f.Body, func(n ast.Node) bool {
		if as, ok := n.(*ast.AssignStmt); ok {
			for i, l := range as.Lhs {
				if id, ok := ast.Unparen(l).(*ast.Ident); ok && m.Info.ObjectOf(id) == v {
					if len(as.Rhs) == len(as.Lhs) {
						out = append(out, as.Rhs[i])
					} else if len(as.Rhs) == 1 {
						out = append(out, as.Rhs[0])
					}
				}
			}
		}
		return true
	})
	return out
}

func returnsEntityFirst(f *core.Func) bool {
	return f.Sig != nil && f.Sig.Results().Len() >= 1 && core.NamedName(f.Sig.Results().At(0).Type()) == "Entity"
}
