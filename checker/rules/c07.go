package rules

import (
	"fmt"
	"go/ast"
	"strings"

	"arkverif/checker/core"
)

func init() {
	register(&Property{
		ID:    "C07",
		Level: "other",
		Explanation: "Structural necessary conditions of the world-lock discipline, decided on every path of /repo's current source: " +
			"(R1) on every path from an exported entry point to a store into lock-guarded structure (rows, capacity, table set, target flags, entity pool) a lock test whose locked outcome panics comes first, " +
			"with the registry-growth idiom checked separately (R1b); (R2) every removal-event dispatch, every event dispatched row by row in a loop (batch operations) and every user callback invoked in a loop over table rows lies between an acquire and its release; " +
			"(R3) every acquired lock token is released exactly once on every normal path; (R4) query Close is idempotent and every path on which Next reports exhaustion passes Close; (R5) unlock tests the bit before clearing it. " +
			"Not decided: bit-pool arithmetic for all recycle orders, the 64-query limit, behaviour of reads under lock.",
		TrustedBase: []string{"go/packages + go/types type checking of /repo", "go/cfg control-flow graphs", "anchor table of DESIGN.md §2.3 (field classes)", "callee resolution through types (no name matching)"},
		Rules: []Rule{
			{ID: "C07/R1", Run: c07r1, Min: 1},
			{ID: "C07/R2+R3", Run: c07r2r3, Min: 1},
			{ID: "C07/R4", Run: c07r4, Min: 1},
			{ID: "C07/R5", Run: c07r5, Min: 1},
		},
	})
}

// structuralNeeds returns a Needs function for stores into lock-guarded structure.
func structuralNeeds(c *core.Ctx, classes func(Class) bool) (func(f *core.Func, n ast.Node) []core.Witness, func(f *core.Func, call *ast.CallExpr, callee *core.Func, w core.Witness) (core.Witness, bool)) {
	m := c.M
	needs := func(f *core.Func, n ast.Node) []core.Witness {
		var out []core.Witness
		switch n.(type) {
		case *ast.AssignStmt, *ast.IncDecStmt, *ast.CallExpr:
		default:
			return nil
		}
		for _, s := range m.DirectStores(f, n) {
			cls, key := Classify(s.Path)
			switch {
			case classes(cls):
				out = append(out, core.Witness{What: fmt.Sprintf("store to %s (%s)", key, cls), Node: n, Deep: n})
			case cls == ClsDeferred:
				st := s
				out = append(out, core.Witness{What: "store to " + s.Path.String(), Node: n, Deep: n, Data: &st})
			}
		}
		return out
	}
	lift := func(f *core.Func, call *ast.CallExpr, callee *core.Func, w core.Witness) (core.Witness, bool) {
		st, ok := w.Data.(*core.Store)
		if !ok || st == nil {
			return w, true
		}
		// re-root the deferred store at the actual argument
		var actual ast.Expr
		if st.Path.Kind == core.RootParam {
			if st.Path.Index == -1 {
				if sel, ok := ast.Unparen(call.Fun).(*ast.SelectorExpr); ok {
					actual = sel.X
				}
			} else if st.Path.Index < len(call.Args) {
				actual = call.Args[st.Path.Index]
			}
		}
		if actual == nil {
			return w, false
		}
		ap := m.AccessPath(f, actual)
		np := core.Path{Kind: ap.Kind, Index: ap.Index, Var: ap.Var, Call: ap.Call, Deref: true, Keys: append(append([]string{}, ap.Keys...), st.Path.Keys...)}
		cls, key := Classify(np)
		switch {
		case classes(cls):
			w.What = fmt.Sprintf("store to %s (%s)", key, cls)
			w.Data = nil
			return w, true
		case cls == ClsDeferred:
			ns := *st
			ns.Path = np
			w.Data = &ns
			w.What = "store to " + np.String()
			return w, true
		}
		return w, false
	}
	return needs, lift
}

// lockGuardSpec builds the K1 specification "a failed lock test precedes every structural store".
func lockGuardSpec(c *core.Ctx, a *Anchors) core.GuardSpec {
	needs, lift := structuralNeeds(c, func(cl Class) bool { return cl.Structural() })
	return core.GuardSpec{
		GuardAtom: func(f *core.Func, at core.Atom) bool {
			if at.Truth {
				return false
			}
			call, ok := ast.Unparen(at.Expr).(*ast.CallExpr)
			if !ok {
				return false
			}
			k, callee, _ := c.M.Callee(call)
			return k == core.CallStatic && a.LockTests[callee]
		},
		Needs: needs,
		Lift:  lift,
	}
}

// c07r1: lock test dominates every structural store, from every exported entry point.
func c07r1(c *core.Ctx) {
	a := GetAnchors(c)
	for _, miss := range a.Missing {
		c.Undecide("C07/R1", "anchor", "unresolved: "+miss)
	}
	if len(a.LockTests) == 0 {
		c.Undecide("C07/R1", "role lock-test", "no function derived")
		return
	}
	res := c.M.MustPrecede(lockGuardSpec(c, a))
	entries := 0
	for _, f := range c.M.Funcs {
		if !f.Exported() {
			continue
		}
		entries++
		ws := res.Unguarded[f]
		// deferred stores still rooted at a parameter of an exported entry point: classify by the receiver type
		var real []core.Witness
		for _, w := range ws {
			if st, ok := w.Data.(*core.Store); ok && st != nil {
				continue // parameter-rooted helper-type store: belongs to the caller's data (e.g. a user-held mask)
			}
			real = append(real, w)
		}
		reaches := false
		for _, s := range c.Eff.Stores(f) {
			if cls, _ := Classify(s.Path); cls.Structural() {
				reaches = true
				break
			}
		}
		if len(real) == 0 {
			if reaches {
				c.OK("C07/R1", f.Name, c.At(f.Pos()), "every structural store is dominated by a failed lock test")
			}
			continue
		}
		// one finding per entry point and innermost callee function
		seen := map[string]bool{}
		for _, w := range real {
			deepFn := f.Name
			if len(w.Chain) > 0 {
				deepFn = w.Chain[len(w.Chain)-1]
			}
			key := f.Name + " -> " + deepFn
			if seen[key] {
				continue
			}
			seen[key] = true
			c.Violation("C07/R1", key, c.At(w.Node.Pos()),
				fmt.Sprintf("exported %s reaches %s at %s without a preceding lock test", f.Name, w.What, c.At(w.Deep.Pos())),
				"entry "+f.Name+" ("+c.At(f.Pos())+")", "via "+strings.Join(append([]string{f.Name}, w.Chain...), " -> "), "store at "+c.At(w.Deep.Pos()))
		}
	}
	if entries == 0 {
		c.Undecide("C07/R1", "entry points", "no exported function found")
	}
}
