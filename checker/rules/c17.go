package rules

import (
	"fmt"
	"go/ast"
	"go/constant"
	"go/token"
	"go/types"
	"sort"
	"strings"

	"arkverif/checker/core"
)

func init() {
	register(&Property{
		ID:    "C17",
		Level: "other",
		Explanation: "Structural necessary conditions of 'entity state serialization round-trips': " +
			"(R1) codec agreement: from the binary writer(s) and the binary reader the tuples (field, byte range, byte order) are extracted and must be equal and cover both fields of Entity at their widths; the JSON writer and reader both go through encoding/json on an array of the same type with the fields at the same positions; " +
			"(R2) every constant-bound slice of the input in the binary reader is dominated by a length test whose failing branch returns a non-nil error, and the tested length is the largest offset used; " +
			"(R3) dump/load agreement: every field of the dump is written by the dump function and read by the load function; the dump copies pool memory instead of aliasing it; the load function assigns every field of the entity pool (including the derived pointer, C01/R6) from fresh copies, re-creates the index and target-flag slices with the dumped length, and its emptiness guard and lock test precede all effects. " +
			"(R4) the codec methods of Entity and the helpers they call use no package-level variable of the package that holds mutable memory (no shared encode buffer). Not decided: the round-trip identity for every free-list shape; internals of encoding/json.",
		TrustedBase: []string{"go/types, go/cfg", "semantics of encoding/binary ByteOrder methods and encoding/json on fixed arrays"},
		Rules: []Rule{
			{ID: "C17/R1", Run: c17r1, Min: 1},
			{ID: "C17/R2", Run: c17r2, Min: 1},
			{ID: "C17/R3", Run: c17r3, Min: 1},
			{ID: "C17/R4", Run: c17r4, Min: 4},
		},
	})
}

type codecTuple struct {
	field  string
	lo, hi int64
	order  string
}

func (t codecTuple) String() string { return fmt.Sprintf("%s@[%d,%d)%s", t.field, t.lo, t.hi, t.order) }

// entityFieldIn returns the Entity field key mentioned in e ("Entity.id"/"Entity.gen"), or "".
func entityFieldIn(m *core.Model, e ast.Expr) string {
	out := ""
	ast.Inspect(e, func(n ast.Node) bool {
		if sel, ok := n.(*ast.SelectorExpr); ok {
			if k := fieldKeyOf(m, sel); strings.HasPrefix(k, "Entity.") {
				out = k
			}
		}
		return true
	})
	return out
}

func constInt(m *core.Model, e ast.Expr) (int64, bool) {
	if e == nil {
		return 0, false
	}
	if tv, ok := m.Info.Types[e]; ok && tv.Value != nil {
		return constant.Int64Val(tv.Value)
	}
	return 0, false
}

type litElem struct {
	key string
	val ast.Expr
}

// structLitElems returns the (field key, value) pairs of a struct literal, keyed or positional.
func structLitElems(m *core.Model, cl *ast.CompositeLit) []litElem {
	var out []litElem
	t := m.Info.TypeOf(cl)
	if t == nil {
		return nil
	}
	st, _ := t.Underlying().(*types.Struct)
	for i, e := range cl.Elts {
		if kv, ok := e.(*ast.KeyValueExpr); ok {
			out = append(out, litElem{litFieldKey(m, kv), kv.Value})
		} else if st != nil && i < st.NumFields() {
			out = append(out, litElem{m.FieldKey(st.Field(i).Origin()), e})
		}
	}
	return out
}

// fieldStoredFrom returns the key of the one field of the receiver value that f stores the local v into (possibly
// converted), or "".
func fieldStoredFrom(m *core.Model, f *core.Func, v *types.Var) string {
	keys := map[string]bool{}
	core.InspectNoLits(f.Body, func(n ast.Node) bool {
		as, ok := n.(*ast.AssignStmt)
		if !ok || len(as.Lhs) != len(as.Rhs) {
			return true
		}
		for i, l := range as.Lhs {
			k := fieldKeyOf(m, l)
			if _, isSel := ast.Unparen(l).(*ast.SelectorExpr); !isSel || k == "" {
				continue
			}
			if id := identOf(m.StripConv(as.Rhs[i])); id != nil && m.Info.ObjectOf(id) == types.Object(v) {
				keys[k] = true
			}
		}
		return true
	})
	if len(keys) != 1 {
		return ""
	}
	for k := range keys {
		return k
	}
	return ""
}

// binaryOps extracts the codec tuples of f.
func binaryOps(m *core.Model, f *core.Func) ([]codecTuple, string) {
	var out []codecTuple
	fail := ""
	offset := int64(0) // running offset for Append* calls
	var visit func(n ast.Node, lhsField string)
	handleCall := func(call *ast.CallExpr, lhsField string) {
		sel, ok := ast.Unparen(call.Fun).(*ast.SelectorExpr)
		if !ok {
			return
		}
		osel, ok := ast.Unparen(sel.X).(*ast.SelectorExpr)
		if !ok {
			return
		}
		pid, ok := osel.X.(*ast.Ident)
		if !ok {
			return
		}
		pn, ok := m.Info.ObjectOf(pid).(*types.PkgName)
		if !ok || pn.Imported().Path() != "encoding/binary" {
			return
		}
		order := osel.Sel.Name
		name := sel.Sel.Name
		width := int64(0)
		for _, w := range []struct {
			s string
			n int64
		}{{"Uint16", 2}, {"Uint32", 4}, {"Uint64", 8}} {
			if strings.HasSuffix(name, w.s) {
				width = w.n
			}
		}
		if width == 0 {
			fail = "unrecognised byte-order method " + name
			return
		}
		switch {
		case strings.HasPrefix(name, "Put") && len(call.Args) == 2:
			se, ok := ast.Unparen(call.Args[0]).(*ast.SliceExpr)
			if !ok {
				fail = "Put* on a non-constant slice"
				return
			}
			lo, ok1 := constInt(m, se.Low)
			hi, ok2 := constInt(m, se.High)
			if se.Low == nil {
				lo, ok1 = 0, true
			}
			if !ok1 || !ok2 {
				fail = "Put* with non-constant bounds"
				return
			}
			out = append(out, codecTuple{entityFieldIn(m, call.Args[1]), lo, hi, order})
			if hi-lo != width {
				fail = fmt.Sprintf("Put%d on a slice of %d bytes", width*8, hi-lo)
			}
		case strings.HasPrefix(name, "Append") && len(call.Args) == 2:
			out = append(out, codecTuple{entityFieldIn(m, call.Args[1]), offset, offset + width, order})
			offset += width
		case len(call.Args) == 1:
			se, ok := ast.Unparen(call.Args[0]).(*ast.SliceExpr)
			if !ok {
				fail = "read from a non-constant slice"
				return
			}
			lo, ok1 := constInt(m, se.Low)
			hi, ok2 := constInt(m, se.High)
			if se.Low == nil {
				lo, ok1 = 0, true
			}
			if !ok1 || !ok2 {
				fail = "read with non-constant bounds"
				return
			}
			out = append(out, codecTuple{lhsField, lo, hi, order})
			if hi-lo != width {
				fail = fmt.Sprintf("Uint%d read from a slice of %d bytes", width*8, hi-lo)
			}
		}
	}
	visit = func(n ast.Node, lhsField string) {
		ast.Inspect(n, func(x ast.Node) bool {
			switch y := x.(type) {
			case *ast.AssignStmt:
				for i, r := range y.Rhs {
					lf := ""
					if i < len(y.Lhs) {
						lf = fieldKeyOf(m, y.Lhs[i])
						// the value is first taken into a local and stored from there (id := binary..Uint32(..); e.id = entityID(id))
						if lf == "" {
							if id := identOf(y.Lhs[i]); id != nil {
								if v, ok := m.Info.ObjectOf(id).(*types.Var); ok && !v.IsField() {
									lf = fieldStoredFrom(m, f, v)
								}
							}
						}
					}
					// a whole-value store (*e = Entity{id: .., gen: ..}, possibly through a constructor helper that
					// merely names the literal): each element is the store of that field
					if lf == "" {
						ir := m.Inline(r)
						if call, ok := ast.Unparen(ir).(*ast.CallExpr); ok {
							if x := m.ExpandCall(call); x != nil {
								ir = x
							}
						}
						if cl, ok := ast.Unparen(ir).(*ast.CompositeLit); ok && core.NamedName(m.Info.TypeOf(cl)) == "Entity" {
							for _, fv := range structLitElems(m, cl) {
								visit(fv.val, fv.key)
							}
							continue
						}
					}
					visit(r, lf)
				}
				return false
			case *ast.CallExpr:
				handleCall(y, lhsField)
			}
			return true
		})
	}
	visit(f.Body, "")
	return out, fail
}

func c17r1(c *core.Ctx) {
	m := c.M
	var writers, readers []*core.Func
	var jsonW, jsonR *core.Func
	for _, f := range m.Funcs {
		if f.Recv != "Entity" {
			continue
		}
		switch f.Obj.Name() {
		case "MarshalBinary", "AppendBinary":
			writers = append(writers, f)
		case "UnmarshalBinary":
			readers = append(readers, f)
		case "MarshalJSON":
			jsonW = f
		case "UnmarshalJSON":
			jsonR = f
		}
	}
	if len(writers) == 0 || len(readers) == 0 || jsonW == nil || jsonR == nil {
		c.Undecide("C17/R1", "codec methods", "binary/JSON marshalling methods of Entity not found (interface method names are fixed by encoding)")
		return
	}
	// encoding/json looks the encoder up on the value it is given: an Entity passed by value, held in a by-value struct
	// field or as a map value is encoded through MarshalJSON only if the method is in the value method set. With a
	// pointer receiver those uses silently fall back to the default struct encoding (`{}` for unexported fields), and
	// the handle is lost.
	if jsonW.Sig != nil && jsonW.Sig.Recv() != nil {
		if _, ptr := jsonW.Sig.Recv().Type().(*types.Pointer); ptr {
			c.Violation("C17/R1", "Entity.MarshalJSON receiver", c.At(jsonW.Pos()), "Entity.MarshalJSON has a pointer receiver: entities marshalled by value (plain values, by-value struct fields, map values) are encoded by the default struct encoding as `{}` and cannot be decoded")
		} else {
			c.OK("C17/R1", "Entity.MarshalJSON receiver", c.At(jsonW.Pos()), "value receiver: by-value and by-pointer uses are both encoded through the method")
		}
	}
	norm := func(ts []codecTuple) string {
		var s []string
		for _, t := range ts {
			s = append(s, t.String())
		}
		sort.Strings(s)
		return strings.Join(s, " ")
	}
	var ref string
	for i, f := range append(append([]*core.Func{}, writers...), readers...) {
		ts, fail := binaryOps(m, f)
		subject := f.Name
		// a writer that hands the work to another writer of the same value has that writer's layout
		if len(ts) == 0 && fail == "" {
			for _, w := range writers {
				if w == f {
					continue
				}
				delegates := false
				core.InspectNoLits(f.Body, func(n ast.Node) bool {
					if rs, ok := n.(*ast.ReturnStmt); ok && len(rs.Results) == 1 {
						if call, ok := ast.Unparen(rs.Results[0]).(*ast.CallExpr); ok {
							if rv, ok := callTo(m, call, w); ok && rv != nil && f.Sig.Recv() != nil && identOf(rv) != nil && m.Info.ObjectOf(identOf(rv)) == types.Object(f.Sig.Recv()) {
								delegates = true
							}
						}
					}
					return true
				})
				if delegates {
					ts, fail = binaryOps(m, w)
				}
			}
		}
		if fail != "" {
			c.Violation("C17/R1", subject, c.At(f.Pos()), f.Name+": "+fail)
			continue
		}
		// coverage and widths
		fields := map[string]bool{}
		for _, t := range ts {
			fields[t.field] = true
		}
		if !fields["Entity.id"] || !fields["Entity.gen"] || len(ts) != 2 {
			c.Violation("C17/R1", subject, c.At(f.Pos()), fmt.Sprintf("%s does not encode exactly the two fields of Entity once each (got %s)", f.Name, norm(ts)))
			continue
		}
		if i == 0 {
			ref = norm(ts)
			c.OK("C17/R1", subject, c.At(f.Pos()), "layout "+ref)
			continue
		}
		if norm(ts) == ref {
			c.OK("C17/R1", subject, c.At(f.Pos()), "same layout as "+writers[0].Name+": "+ref)
		} else {
			c.Violation("C17/R1", subject, c.At(f.Pos()), fmt.Sprintf("%s uses layout %s but %s uses %s; handles would not survive a binary round trip", f.Name, norm(ts), writers[0].Name, ref))
		}
	}
	// JSON: writer marshals an array literal [n]T{fields...}; reader unmarshals into an array of the same type and assigns by position
	jsonCall := func(f *core.Func, fn string) *ast.CallExpr {
		var out *ast.CallExpr
		core.InspectNoLits(f.Body, func(n ast.Node) bool {
			if call, ok := n.(*ast.CallExpr); ok {
				if sel, ok := ast.Unparen(call.Fun).(*ast.SelectorExpr); ok && sel.Sel.Name == fn {
					if id, ok := sel.X.(*ast.Ident); ok {
						if pn, ok := m.Info.ObjectOf(id).(*types.PkgName); ok && pn.Imported().Path() == "encoding/json" {
							out = call
						}
					}
				}
			}
			return true
		})
		return out
	}
	wc, rc := jsonCall(jsonW, "Marshal"), jsonCall(jsonR, "Unmarshal")
	if wc == nil || rc == nil {
		c.Violation("C17/R1", "JSON codec", c.At(jsonW.Pos()), fmt.Sprintf("the JSON writer (json.Marshal: %v) and reader (json.Unmarshal: %v) do not both use encoding/json; the reader would not accept everything the documented JSON form allows", wc != nil, rc != nil))
		return
	}
	wt := m.Info.TypeOf(wc.Args[0])
	var rt types.Type
	if len(rc.Args) == 2 {
		rt = m.Info.TypeOf(rc.Args[1])
		if p, ok := rt.(*types.Pointer); ok {
			rt = p.Elem()
		}
	}
	// positions: writer literal elements; reader assignments e.f = conv(arr[k])
	wpos := map[string]int{}
	arrayLit := func(cl *ast.CompositeLit) {
		if _, isArr := m.Info.TypeOf(cl).Underlying().(*types.Array); isArr {
			for i, e := range cl.Elts {
				if k := entityFieldIn(m, e); k != "" {
					wpos[k] = i
				}
			}
		}
	}
	core.InspectNoLits(jsonW.Body, func(n ast.Node) bool {
		if cl, ok := n.(*ast.CompositeLit); ok {
			arrayLit(cl)
		}
		return true
	})
	if len(wpos) == 0 {
		// the array may be built by a helper that merely names the literal
		if cl, ok := ast.Unparen(m.Inline(wc.Args[0])).(*ast.CompositeLit); ok {
			arrayLit(cl)
		}
	}
	rpos := map[string]int{}
	posIn := func(k string, e ast.Expr) {
		ast.Inspect(e, func(x ast.Node) bool {
			if ix, ok := x.(*ast.IndexExpr); ok {
				if v, ok := constInt(m, ix.Index); ok {
					rpos[k] = int(v)
				}
			}
			return true
		})
	}
	core.InspectNoLits(jsonR.Body, func(n ast.Node) bool {
		if as, ok := n.(*ast.AssignStmt); ok {
			for i, l := range as.Lhs {
				if i >= len(as.Rhs) {
					continue
				}
				k := fieldKeyOf(m, l)
				if strings.HasPrefix(k, "Entity.") {
					posIn(k, as.Rhs[i])
					continue
				}
				// whole-value store of a literal (or of a helper that names one)
				if cl, ok := ast.Unparen(m.Inline(as.Rhs[i])).(*ast.CompositeLit); ok && core.NamedName(m.Info.TypeOf(cl)) == "Entity" {
					for _, fv := range structLitElems(m, cl) {
						posIn(fv.key, fv.val)
					}
				}
			}
		}
		return true
	})
	same := wt != nil && rt != nil && types.Identical(wt, rt) && len(wpos) == 2 && len(rpos) == 2 && wpos["Entity.id"] == rpos["Entity.id"] && wpos["Entity.gen"] == rpos["Entity.gen"] && wpos["Entity.id"] != wpos["Entity.gen"]
	if same {
		c.OK("C17/R1", "JSON codec", c.At(jsonW.Pos()), fmt.Sprintf("writer and reader use encoding/json on %s with id at %d and gen at %d", wt, wpos["Entity.id"], wpos["Entity.gen"]))
	} else {
		c.Violation("C17/R1", "JSON codec", c.At(jsonR.Pos()), fmt.Sprintf("JSON writer (%v, positions %v) and reader (%v, positions %v) disagree", wt, wpos, rt, rpos))
	}
}

func c17r2(c *core.Ctx) {
	m := c.M
	for _, f := range m.Funcs {
		if f.Recv != "Entity" || f.Obj.Name() != "UnmarshalBinary" {
			continue
		}
		data := f.Sig.Params().At(0)
		maxHi := int64(0)
		core.InspectNoLits(f.Body, func(n ast.Node) bool {
			if se, ok := n.(*ast.SliceExpr); ok {
				if id, ok := ast.Unparen(se.X).(*ast.Ident); ok && m.Info.ObjectOf(id) == data {
					if hi, ok := constInt(m, se.High); ok && hi > maxHi {
						maxHi = hi
					}
				}
			}
			return true
		})
		tested := int64(-1)
		spec := core.GuardSpec{
			Only: f,
			GuardAtom: func(ff *core.Func, at core.Atom) bool {
				be, ok := ast.Unparen(at.Expr).(*ast.BinaryExpr)
				if !ok {
					return false
				}
				call, ok := ast.Unparen(be.X).(*ast.CallExpr)
				if !ok || !m.IsBuiltin(call, "len") {
					return false
				}
				if id, ok := ast.Unparen(call.Args[0]).(*ast.Ident); !ok || m.Info.ObjectOf(id) != data {
					return false
				}
				v, ok := constInt(m, be.Y)
				if !ok {
					return false
				}
				// len(data) != N known false, len(data) == N known true, len(data) < N known false
				if (be.Op == token.NEQ && !at.Truth) || (be.Op == token.EQL && at.Truth) || (be.Op == token.LSS && !at.Truth) || (be.Op == token.GEQ && at.Truth) {
					tested = v
					return true
				}
				return false
			},
			Needs: func(ff *core.Func, x ast.Node) []core.Witness {
				if se, ok := x.(*ast.SliceExpr); ok {
					if id, ok := ast.Unparen(se.X).(*ast.Ident); ok && m.Info.ObjectOf(id) == data {
						return []core.Witness{{What: "slice of the input"}}
					}
				}
				// reporting success (a nil error) also needs the established length: on the failing outcome of the
				// test every return must carry a non-nil error, in whatever form the branches are written
				if rs, ok := x.(*ast.ReturnStmt); ok && len(rs.Results) == 1 {
					if tv, ok := m.Info.Types[rs.Results[0]]; ok && tv.IsNil() {
						return []core.Witness{{What: "return of a nil error"}}
					}
				}
				return nil
			},
			SkipCallee: func(*core.Func) bool { return true },
		}
		res := m.MustPrecede(spec)
		subject := f.Name
		switch {
		case len(res.Unguarded[f]) > 0:
			c.Violation("C17/R2", subject, c.At(res.Unguarded[f][0].Node.Pos()), fmt.Sprintf("%s: %s without a dominating length test; malformed input would panic or be accepted instead of returning an error", f.Name, res.Unguarded[f][0].What))
		case tested < maxHi:
			c.Violation("C17/R2", subject, c.At(f.Pos()), fmt.Sprintf("%s tests the input length against %d but slices up to offset %d", f.Name, tested, maxHi))
		default:
			c.OK("C17/R2", subject, c.At(f.Pos()), fmt.Sprintf("length test against %d dominates all slices (largest offset %d) and its failing branch returns an error", tested, maxHi))
		}
	}
}

func c17r3(c *core.Ctx) {
	m := c.M
	dumpT := m.Prog.LookupType("EntityDump")
	if dumpT == nil {
		c.Undecide("C17/R3", "anchor", "type EntityDump not found")
		return
	}
	st := dumpT.Underlying().(*types.Struct)
	// dump function: returns EntityDump; load function: takes *EntityDump
	var dump, load *core.Func
	for _, f := range m.Funcs {
		if f.Sig == nil {
			continue
		}
		if f.Sig.Results().Len() == 1 && core.NamedName(f.Sig.Results().At(0).Type()) == "EntityDump" && f.Exported() {
			dump = f
		}
		for i := 0; i < f.Sig.Params().Len(); i++ {
			if isPtrTo(f.Sig.Params().At(i).Type(), "EntityDump") && f.Exported() {
				load = f
			}
		}
	}
	if dump == nil || load == nil {
		c.Undecide("C17/R3", "roles", "dump / load functions not found")
		return
	}
	// dump writes every field; values that are slices of pool memory are copies
	written := map[string]ast.Expr{}
	for _, cn := range constructionsOf(m, dump) {
		if cn.typ != "EntityDump" {
			continue
		}
		for k, v := range cn.fields {
			written[k[strings.LastIndexByte(k, '.')+1:]] = v
		}
	}
	// the load may be split into helpers: everything below looks at the load function and the unexported functions it
	// calls (two levels)
	scope := withCallees(m, load, 2)
	read := map[string]bool{}
	for _, g := range scope {
		core.InspectNoLits(g.Body, func(n ast.Node) bool {
			if sel, ok := n.(*ast.SelectorExpr); ok {
				if k := fieldKeyOf(m, sel); strings.HasPrefix(k, "EntityDump.") {
					read[strings.TrimPrefix(k, "EntityDump.")] = true
				}
			}
			return true
		})
	}
	for i := 0; i < st.NumFields(); i++ {
		name := st.Field(i).Name()
		subject := "EntityDump." + name
		v, w := written[name]
		switch {
		case !w:
			c.Violation("C17/R3", subject, c.At(dump.Pos()), dump.Name+" does not write dump field "+name)
		case !read[name]:
			c.Violation("C17/R3", subject, c.At(load.Pos()), load.Name+" does not read dump field "+name)
		default:
			// slices must not alias pool memory
			if _, isSlice := st.Field(i).Type().Underlying().(*types.Slice); isSlice {
				p := m.AccessPath(dump, v)
				if p.Kind != core.RootFresh && p.Has("entityPool.entities") {
					c.Violation("C17/R3", subject, c.At(v.Pos()), fmt.Sprintf("%s stores %s in the dump: the dump aliases the live entity pool and silently changes when the source world removes or recycles entities", dump.Name, m.ExprString(v)))
					continue
				}
			}
			c.OK("C17/R3", subject, c.At(dump.Pos()), "written by the dump (as a copy where it is pool memory) and read by the load")
		}
	}
	// load assigns every field of the entity pool
	poolT := m.Prog.LookupType("entityPool")
	pst := poolT.Underlying().(*types.Struct)
	assigned := map[string]ast.Expr{}
	assignedIn := map[string]*core.Func{}
	for _, g := range scope {
		if g.Recv == "entityPool" {
			continue // the pool's own methods maintain the pool; restoring it is the load's business
		}
		for _, cn := range constructionsOf(m, g) {
			if cn.typ != "entityPool" {
				continue
			}
			for k, v := range cn.fields {
				assigned[k], assignedIn[k] = v, g
			}
		}
		core.InspectNoLits(g.Body, func(n ast.Node) bool {
			if x, ok := n.(*ast.AssignStmt); ok {
				for i, l := range x.Lhs {
					if k := fieldKeyOf(m, l); strings.HasPrefix(k, "entityPool.") && i < len(x.Rhs) {
						assigned[k], assignedIn[k] = x.Rhs[i], g
					}
				}
			}
			return true
		})
	}
	for i := 0; i < pst.NumFields(); i++ {
		key := m.FieldKey(pst.Field(i).Origin())
		name := strings.TrimPrefix(key, "entityPool.")
		subject := load.Name + ": entityPool." + name
		v, ok := assigned[key]
		if !ok {
			c.Violation("C17/R3", subject, c.At(load.Pos()), fmt.Sprintf("%s does not restore entityPool.%s from the dump; the loaded world would issue handles that differ from the source world's (or duplicate ones)", load.Name, name))
			continue
		}
		if name == "entities" {
			// must be a fresh copy of the dumped slice
			var freshIn func(g *core.Func, e ast.Expr, depth int) bool
			freshIn = func(g *core.Func, e ast.Expr, depth int) bool {
				if depth > 3 {
					return false
				}
				if m.AccessPath(g, e).Kind == core.RootFresh {
					return true
				}
				id, isID := ast.Unparen(e).(*ast.Ident)
				if !isID {
					return false
				}
				vv, okv := m.Info.ObjectOf(id).(*types.Var)
				if !okv {
					return false
				}
				if _, isP := paramIndexOf(g, vv); isP {
					acts := actualsOf(m, g, vv)
					if len(acts) == 0 {
						return false
					}
					for _, a := range acts {
						if !freshIn(a.caller, a.expr, depth+1) {
							return false
						}
					}
					return true
				}
				for _, d := range localDefsOf(m, g, vv) {
					if call, isC := ast.Unparen(d).(*ast.CallExpr); isC && m.IsBuiltin(call, "make") {
						return true
					}
				}
				return false
			}
			fresh := freshIn(assignedIn[key], v, 0)
			if !fresh {
				c.Violation("C17/R3", subject, c.At(v.Pos()), fmt.Sprintf("%s sets the pool buffer to %s, which is not a fresh copy of the dumped entities", load.Name, m.ExprString(v)))
				continue
			}
		}
		c.OK("C17/R3", subject, c.At(load.Pos()), "restored from the dump")
	}
	// every restoring store happens on every normal path: a path that returns early (say, for a dump without alive
	// entities) would leave the free list and the generations of the dump unrestored
	{
		nodes := map[string][]ast.Node{}
		topOf := map[ast.Node]ast.Node{} // call node -> its statement
		want := func(k string) bool {
			return strings.HasPrefix(k, "entityPool.") || k == "storage.entityPool" || k == "storage.entities" || k == "storage.isTarget"
		}
		core.InspectNoLits(load.Body, func(n ast.Node) bool {
			switch x := n.(type) {
			case *ast.AssignStmt:
				for _, l := range x.Lhs {
					if k := fieldKeyOf(m, l); want(k) {
						nodes[k] = append(nodes[k], x)
					}
				}
			case *ast.ExprStmt:
				// a helper that performs the stores: the call statement stands for them
				if call, ok := x.X.(*ast.CallExpr); ok {
					if kk, cal, _ := m.Callee(call); kk == core.CallStatic && cal != nil && cal.Body != nil && cal.Recv != "entityPool" && cal.Recv != "table" {
						for _, st := range c.Eff.StoresAt(load, call) {
							if k := st.Path.Last(); want(k) && st.Kind == core.StoreAssign {
								nodes[k] = append(nodes[k], call)
								topOf[call] = x
							}
						}
					}
				}
			}
			return true
		})
		// a whole-pool assignment restores every pool field at once
		if whole := nodes["storage.entityPool"]; len(whole) > 0 {
			for i := 0; i < pst.NumFields(); i++ {
				k := m.FieldKey(pst.Field(i).Origin())
				nodes[k] = append(nodes[k], whole...)
			}
			delete(nodes, "storage.entityPool")
		}
		// only fields that some statement restores unconditionally (a top-level statement of the function) carry the
		// obligation; a store that is itself under a "the dump has no entities" test is conditional by design
		top := map[ast.Node]bool{}
		for _, st := range load.Body.List {
			top[st] = true
		}
		for k, ns := range nodes {
			uncond := false
			for _, n := range ns {
				if top[n] || (topOf[n] != nil && top[topOf[n]]) {
					uncond = true
				}
			}
			if !uncond {
				delete(nodes, k)
			}
		}
		for _, miss := range keysNotOnAllPaths(c, load, nodes, nil, nil) {
			c.Violation("C17/R3", load.Name+": "+miss+" on all paths", c.At(load.Pos()), fmt.Sprintf("%s restores %s only on some paths: a normal path returns before it; the loaded world would keep part of its previous entity state", load.Name, miss))
		}
	}
	// index and flag slices re-created with the dumped length
	for _, key := range []string{"storage.entities", "storage.isTarget"} {
		okLen := false
		for _, g := range scope {
			core.InspectNoLits(g.Body, func(n ast.Node) bool {
				if as, ok := n.(*ast.AssignStmt); ok {
					for i, l := range as.Lhs {
						if fieldKeyOf(m, l) == key && i < len(as.Rhs) {
							if call, ok := ast.Unparen(as.Rhs[i]).(*ast.CallExpr); ok && m.IsBuiltin(call, "make") && len(call.Args) >= 2 {
								// the length derives from len(data.Entities)
								if derivesFromDumpLen(m, g, call.Args[1], 0) {
									okLen = true
								}
							}
						}
					}
				}
				return true
			})
		}
		subject := load.Name + ": " + key
		if okLen {
			c.OK("C17/R3", subject, c.At(load.Pos()), "re-created with the length of the dumped pool")
		} else {
			c.Violation("C17/R3", subject, c.At(load.Pos()), fmt.Sprintf("%s does not re-create %s with the dumped pool's length; ids beyond it would index out of range", load.Name, key))
		}
	}
	// guards precede effects: lock test (C07/R1 covers) and the emptiness guard dominate every store
	a := GetAnchors(c)
	emptiness := false
	spec := lockGuardSpec(c, a)
	lockAtom := spec.GuardAtom
	haveLock, haveEmpty := false, false
	spec.Only = nil
	spec.GuardAtom = func(ff *core.Func, at core.Atom) bool {
		if lockAtom(ff, at) {
			haveLock = true
		}
		if ff == load && !at.Truth {
			s := m.ExprString(at.Expr)
			if strings.Contains(s, "entityPool.entities") || strings.Contains(s, "entityPool.available") {
				haveEmpty = true
				emptiness = true
			}
		}
		return false
	}
	_ = m.MustPrecede(spec)
	_ = haveLock
	// position-based: the emptiness guard is a top-level if with panic before the first store
	firstStore := token.NoPos
	core.InspectNoLits(load.Body, func(n ast.Node) bool {
		switch x := n.(type) {
		case *ast.AssignStmt:
			if len(m.DirectStores(load, x)) > 0 && (firstStore == token.NoPos || x.Pos() < firstStore) {
				firstStore = x.Pos()
			}
		case *ast.CallExpr:
			if len(c.Eff.StoresAt(load, x)) > 0 && (firstStore == token.NoPos || x.Pos() < firstStore) {
				firstStore = x.Pos()
			}
		}
		return true
	})
	guardPos := token.NoPos
	isGuard := func(stt ast.Stmt) bool {
		is, ok := stt.(*ast.IfStmt)
		if !ok {
			return false
		}
		keys := map[string]bool{}
		ast.Inspect(is.Cond, func(x ast.Node) bool {
			if sel, ok := x.(*ast.SelectorExpr); ok {
				keys[fieldKeyOf(m, sel)] = true
			}
			return true
		})
		if keys["entityPool.entities"] && keys["entityPool.available"] {
			for _, b := range is.Body.List {
				if es, ok := b.(*ast.ExprStmt); ok {
					if call, ok := es.X.(*ast.CallExpr); ok && m.IsBuiltin(call, "panic") {
						return true
					}
				}
			}
		}
		return false
	}
	for _, stt := range load.Body.List {
		if isGuard(stt) {
			guardPos = stt.Pos()
		}
		// the guard as a helper of its own: a function without effects whose body is the test-and-panic
		if es, ok := stt.(*ast.ExprStmt); ok {
			if call, ok := es.X.(*ast.CallExpr); ok {
				if k, cal, _ := m.Callee(call); k == core.CallStatic && cal != nil && cal.Body != nil && len(c.Eff.Stores(cal)) == 0 {
					for _, st2 := range cal.Body.List {
						if isGuard(st2) && guardPos == token.NoPos {
							guardPos = stt.Pos()
						}
					}
				}
			}
		}
	}
	_ = emptiness
	_ = haveEmpty
	subject := load.Name + ": emptiness guard"
	if guardPos != token.NoPos && (firstStore == token.NoPos || guardPos < firstStore) {
		c.OK("C17/R3", subject, c.At(guardPos), "the world-is-empty guard (pool size and free count) precedes every store")
	} else {
		c.Violation("C17/R3", subject, c.At(load.Pos()), load.Name+": no guard on both the pool size and the free count precedes the first store; loading into a used world would corrupt it")
	}
}

func derivesFromDumpLen(m *core.Model, f *core.Func, e ast.Expr, depth int) bool {
	if depth > 3 {
		return false
	}
	found := false
	ast.Inspect(e, func(n ast.Node) bool {
		switch x := n.(type) {
		case *ast.CallExpr:
			if m.IsBuiltin(x, "len") && len(x.Args) == 1 && fieldKeyOf(m, x.Args[0]) == "EntityDump.Entities" {
				found = true
			}
		case *ast.Ident:
			if v, ok := m.Info.ObjectOf(x).(*types.Var); ok && !v.IsField() {
				for _, d := range localDefsOf(m, f, v) {
					if d != e && derivesFromDumpLen(m, f, d, depth+1) {
						found = true
					}
				}
			}
		}
		return !found
	})
	return found
}

// C17/R4: the codecs of a handle keep no state between calls.
//
// What MarshalBinary / MarshalJSON / AppendBinary return must stay what it was when a second handle is encoded, and
// decoding must not depend on earlier calls: the codec methods of Entity (the interface method names are fixed by the
// encoding packages), together with the unexported helpers they call, neither read nor write a package-level variable
// of the package that holds mutable memory (a slice, array, map, pointer or struct variable). A shared buffer handed
// out as the result of one encoding is overwritten by the next.
func c17r4(c *core.Ctx) {
	m := c.M
	n := 0
	for _, f := range m.Funcs {
		if f.Recv != "Entity" || f.Obj == nil {
			continue
		}
		switch f.Obj.Name() {
		case "MarshalBinary", "AppendBinary", "UnmarshalBinary", "MarshalJSON", "UnmarshalJSON", "MarshalText", "UnmarshalText", "AppendText":
		default:
			continue
		}
		n++
		bad := ""
		for _, g := range withCallees(m, f, 3) {
			if g.Body == nil {
				continue
			}
			ast.Inspect(g.Body, func(x ast.Node) bool {
				id, ok := x.(*ast.Ident)
				if !ok || bad != "" {
					return true
				}
				v, ok := m.Info.Uses[id].(*types.Var)
				if !ok || v.IsField() || v.Pkg() == nil || v.Pkg() != m.Prog.Ecs.Types || v.Parent() != v.Pkg().Scope() {
					return true
				}
				switch v.Type().Underlying().(type) {
				case *types.Slice, *types.Array, *types.Map, *types.Pointer, *types.Struct:
					bad = fmt.Sprintf("%s uses the package-level variable %s (%s) at %s", g.Name, v.Name(), v.Type().String(), c.At(id.Pos()))
				}
				return true
			})
		}
		if bad == "" {
			c.OK("C17/R4", f.Name, c.At(f.Pos()), "uses no package-level mutable memory; every result is built from the receiver, the arguments and fresh allocations")
		} else {
			c.Violation("C17/R4", f.Name, c.At(f.Pos()), fmt.Sprintf("%s: %s; an encoding handed out earlier (or a decoding in progress) shares that memory with the next call, so a stored handle would silently turn into another one", f.Name, bad))
		}
	}
	if n == 0 {
		c.Undecide("C17/R4", "codec methods", "no marshalling method of Entity found")
	}
}
