package rules

import (
	"fmt"
	"go/ast"
	"go/token"
	"go/types"
	"strings"

	"arkverif/checker/core"
)

// C09/R5: the rows over which a batch dispatches events are the rows of the entities the batch affects.
//
// Every dispatch whose entity argument is a table row read `T.GetEntity(idx)` inside a loop is resolved to a symbolic
// row range [lo, hi) (or [lo, lo+count)). The bounds are then traced to their *sources* (through conversions,
// single-definition locals, tuple results of helpers, fields of batch records and parameters):
//
//   - removal (pre-operation) events run over the source table before anything moved: lo must be 0 and the
//     bound must be that table's own length (or the length recorded in the batch record for it);
//   - all other (post-operation) events run over the destination table, which may already have held rows:
//     lo must be a *start value* — the destination's length read before a call that grows it (or a helper
//     result / record field carrying such a value) — and the bound must be start+count with count a moved/created
//     count (source length, record length field, count handed to the creating helper), or the destination's length.
//
// When the table itself comes from a batch record (`&tables[rec.F]`), F must be the field that move loops use as
// the source (pre events) resp. destination (post events).
//
// The rule derives everything from roles (row reader, length mutators of table, the record type of the batch scratch
// list); it does not look at identifiers.

type rangeCtx struct {
	c          *core.Ctx
	m          *core.Model
	a          *Anchors
	tr         *TableRoles
	recType    string
	growParams map[*core.Func]map[int]bool // params (-1: receiver) whose table is grown by the function
	startRes   map[*core.Func]map[int]bool
	countRes   map[*core.Func]map[int]bool
	busy       map[*core.Func]bool
	startField map[string]bool
	lenField   map[string]bool
	srcField   map[string]bool
	dstField   map[string]bool
}

// exprChain resolves e through conversions and single-definition locals and returns all expressions on the way.
func exprChain(m *core.Model, f *core.Func, e ast.Expr, depth int) []ast.Expr {
	e = ast.Unparen(m.StripConv(e))
	out := []ast.Expr{e}
	if depth > 5 {
		return out
	}
	if id, ok := e.(*ast.Ident); ok {
		if v, ok := m.Info.ObjectOf(id).(*types.Var); ok && !v.IsField() {
			for fn := f; fn != nil; fn = fn.Parent {
				defs := localDefsOf(m, fn, v)
				if len(defs) == 1 {
					if _, isCall := ast.Unparen(defs[0]).(*ast.CallExpr); isCall && tupleArity(m, defs[0]) > 1 {
						break // tuple results are handled by tupleSource
					}
					out = append(out, exprChain(m, fn, defs[0], depth+1)...)
					break
				}
				if len(defs) > 1 {
					break
				}
			}
		}
	}
	return out
}

func tupleArity(m *core.Model, e ast.Expr) int {
	if t, ok := m.Info.TypeOf(e).(*types.Tuple); ok {
		return t.Len()
	}
	return 1
}

// tableLenRead: e reads the row count of a table (the len field, or a parameterless method returning it);
// returns the table expression.
func (r *rangeCtx) tableLenRead(e ast.Expr) (ast.Expr, bool) {
	m := r.m
	e = ast.Unparen(e)
	if sel, ok := e.(*ast.SelectorExpr); ok {
		if fld := m.FieldOf(sel); fld != nil && m.FieldKey(fld) == "table.len" {
			return sel.X, true
		}
	}
	if call, ok := e.(*ast.CallExpr); ok && len(call.Args) == 0 {
		if k, cal, _ := m.Callee(call); k == core.CallStatic && cal.Recv == "table" && cal.Sig != nil && cal.Sig.Results().Len() == 1 && isInt(cal.Sig.Results().At(0).Type()) {
			reads := false
			core.InspectNoLits(cal.Body, func(n ast.Node) bool {
				if rs, ok := n.(*ast.ReturnStmt); ok && len(rs.Results) == 1 {
					if s, ok := ast.Unparen(m.StripConv(rs.Results[0])).(*ast.SelectorExpr); ok {
						if fld := m.FieldOf(s); fld != nil && m.FieldKey(fld) == "table.len" {
							reads = true
						}
					}
				}
				return true
			})
			if reads {
				if sel, ok := ast.Unparen(call.Fun).(*ast.SelectorExpr); ok {
					return sel.X, true
				}
			}
		}
	}
	return nil, false
}

type growSite struct {
	dst  ast.Expr
	srcs []ast.Expr
	ints []ast.Expr
	pos  token.Pos
}

func (r *rangeCtx) computeGrowParams() {
	m := r.m
	r.growParams = map[*core.Func]map[int]bool{}
	for f := range r.tr.LenMutators {
		if f == r.tr.Remove || f == r.tr.Reset {
			continue
		}
		r.growParams[f] = map[int]bool{-1: true}
	}
	for changed, rounds := true, 0; changed && rounds < 4; rounds++ {
		changed = false
		for _, f := range m.Funcs {
			for _, gs := range r.growSitesOf(f) {
				id, ok := ast.Unparen(gs.dst).(*ast.Ident)
				if !ok {
					continue
				}
				v, ok := m.Info.ObjectOf(id).(*types.Var)
				if !ok {
					continue
				}
				idx, isP := paramIndexOf(f, v)
				if !isP {
					if f.Sig != nil && f.Sig.Recv() == v {
						idx, isP = -1, true
					}
				}
				if isP {
					if r.growParams[f] == nil {
						r.growParams[f] = map[int]bool{}
					}
					if !r.growParams[f][idx] {
						r.growParams[f][idx] = true
						changed = true
					}
				}
			}
		}
	}
}

// growSitesOf lists the calls in f (not in its literals) that grow a table, with the grown table expression.
func (r *rangeCtx) growSitesOf(f *core.Func) []growSite {
	m := r.m
	var out []growSite
	core.InspectNoLits(f.Body, func(n ast.Node) bool {
		call, ok := n.(*ast.CallExpr)
		if !ok {
			return true
		}
		k, cal, _ := m.Callee(call)
		if k != core.CallStatic {
			return true
		}
		gp := r.growParams[cal]
		if len(gp) == 0 {
			return true
		}
		for idx := range gp {
			gs := growSite{pos: call.Pos()}
			if idx == -1 {
				if sel, ok := ast.Unparen(call.Fun).(*ast.SelectorExpr); ok {
					gs.dst = sel.X
				}
			} else if idx < len(call.Args) {
				gs.dst = call.Args[idx]
			}
			if gs.dst == nil {
				continue
			}
			for i, a := range call.Args {
				if i == idx {
					continue
				}
				if isPtrTo(m.Info.TypeOf(a), "table") {
					gs.srcs = append(gs.srcs, a)
				} else if t := m.Info.TypeOf(a); t != nil && isInt(t) {
					gs.ints = append(gs.ints, a)
				}
			}
			out = append(out, gs)
		}
		return true
	})
	return out
}

func (r *rangeCtx) sameTable(f *core.Func, a, b ast.Expr) bool {
	m := r.m
	if m.ExprString(ast.Unparen(a)) == m.ExprString(ast.Unparen(b)) {
		return true
	}
	aa, bb := tableIDAlternatives(m, f, a), tableIDAlternatives(m, f, b)
	for k := range aa {
		if bb[k] && !strings.HasSuffix(k, ".id") {
			return true
		}
	}
	return false
}

// isStart: e is a start value in f: the length of a table read before a call that grows that table, a helper result
// or record field carrying one, or a parameter that is one at every call site.
func (r *rangeCtx) isStart(f *core.Func, e ast.Expr, depth int) bool {
	m := r.m
	if depth > 3 {
		return false
	}
	for _, x := range exprChain(m, f, e, 0) {
		if t, ok := r.tableLenRead(x); ok {
			for fn := f; fn != nil; fn = fn.Parent {
				for _, gs := range r.growSitesOf(fn) {
					if gs.pos > x.Pos() && r.sameTable(fn, gs.dst, t) {
						// a length read in one loop and a growth in a later loop are separated by the other iterations:
						// an earlier iteration of the growing loop may have grown the same table in between
						if rl := enclosingLoopOf(fn, x); rl != nil && !(rl.Pos() <= gs.pos && gs.pos < rl.End()) {
							continue
						}
						return true
					}
				}
			}
		}
		if sel, ok := x.(*ast.SelectorExpr); ok {
			if k := fieldKeyOf(m, sel); k != "" && r.startField[k] {
				// a record field that carries start values somewhere in the package; if this very function assigns it,
				// what it assigns here must be a start value too (a length read after the move is not)
				local, allStart := 0, true
				for fn := f; fn != nil; fn = fn.Parent {
					core.InspectNoLits(fn.Body, func(n ast.Node) bool {
						if as, ok := n.(*ast.AssignStmt); ok && len(as.Lhs) == len(as.Rhs) {
							for i, l := range as.Lhs {
								if fieldKeyOf(m, l) == k {
									local++
									if !r.isStart(fn, as.Rhs[i], depth+1) {
										allStart = false
									}
								}
							}
						}
						// the field initialised in a literal of the record
						if kv, ok := n.(*ast.KeyValueExpr); ok && litFieldKey(m, kv) == k {
							local++
							if !r.isStart(fn, kv.Value, depth+1) {
								allStart = false
							}
						}
						return true
					})
				}
				if local == 0 || allStart {
					return true
				}
			}
		}
		// a field of a small struct that a helper returns (rows := w.exchangeTable(..); rows.start): what every return
		// of the helper gives for that field
		if cal, vals := structResultField(m, f, x); cal != nil {
			all := len(vals) > 0
			for _, v := range vals {
				if !r.isStart(cal, v, depth+1) {
					all = false
				}
			}
			if all {
				return true
			}
		}
		if id, ok := x.(*ast.Ident); ok {
			for fn := f; fn != nil; fn = fn.Parent {
				if call, k := tupleSource(m, fn, id); call != nil {
					if kk, cal, _ := m.Callee(call); kk == core.CallStatic && r.resultsOf(cal, true)[k] {
						return true
					}
				}
			}
			if v, ok := m.Info.ObjectOf(id).(*types.Var); ok {
				if _, isP := paramIndexOf(f, v); isP {
					acts := actualsOf(m, f, v)
					all := len(acts) > 0
					for _, a := range acts {
						if !r.isStart(a.caller, a.expr, depth+1) {
							all = false
						}
					}
					if all {
						return true
					}
				}
			}
		}
		if call, ok := x.(*ast.CallExpr); ok && tupleArity(m, call) == 1 {
			if kk, cal, _ := m.Callee(call); kk == core.CallStatic && r.resultsOf(cal, true)[0] {
				return true
			}
		}
	}
	return false
}

// isCount: e is the number of rows moved or created.
func (r *rangeCtx) isCount(f *core.Func, e ast.Expr, depth int) bool {
	m := r.m
	if depth > 3 {
		return false
	}
	for _, x := range exprChain(m, f, e, 0) {
		if _, ok := r.tableLenRead(x); ok {
			return true
		}
		if sel, ok := x.(*ast.SelectorExpr); ok {
			if k := fieldKeyOf(m, sel); k != "" && r.lenField[k] {
				return true
			}
		}
		if cal, vals := structResultField(m, f, x); cal != nil {
			all := len(vals) > 0
			for _, v := range vals {
				if !r.isCount(cal, v, depth+1) {
					all = false
				}
			}
			if all {
				return true
			}
		}
		if id, ok := x.(*ast.Ident); ok {
			for fn := f; fn != nil; fn = fn.Parent {
				if call, k := tupleSource(m, fn, id); call != nil {
					if kk, cal, _ := m.Callee(call); kk == core.CallStatic && r.resultsOf(cal, false)[k] {
						return true
					}
				}
			}
			if v, ok := m.Info.ObjectOf(id).(*types.Var); ok {
				for fn := f; fn != nil; fn = fn.Parent {
					if _, isP := paramIndexOf(fn, v); !isP {
						continue
					}
					// the parameter is the count handed to a growing call (directly or through a start-producing helper)
					for _, gs := range r.growSitesOf(fn) {
						for _, a := range gs.ints {
							if sameValue(m, fn, a, id) {
								return true
							}
						}
					}
					handed := false
					core.InspectNoLits(fn.Body, func(n ast.Node) bool {
						if call, ok := n.(*ast.CallExpr); ok {
							if kk, cal, _ := m.Callee(call); kk == core.CallStatic && len(r.resultsOf(cal, true)) > 0 {
								for _, a := range call.Args {
									if sameValue(m, fn, a, id) {
										handed = true
									}
								}
							}
						}
						return true
					})
					if handed {
						return true
					}
					acts := actualsOf(m, fn, v)
					all := len(acts) > 0
					for _, a := range acts {
						if !r.isCount(a.caller, a.expr, depth+1) {
							all = false
						}
					}
					if all {
						return true
					}
				}
			}
		}
	}
	return false
}

// resultsOf returns the result positions of g that are start values (start=true) or counts in every return statement.
func (r *rangeCtx) resultsOf(g *core.Func, start bool) map[int]bool {
	cache := r.countRes
	if start {
		cache = r.startRes
	}
	if v, ok := cache[g]; ok {
		return v
	}
	if r.busy[g] || g == nil || g.Sig == nil || g.Body == nil {
		return nil
	}
	r.busy[g] = true
	defer delete(r.busy, g)
	res := map[int]bool{}
	n := g.Sig.Results().Len()
	for k := 0; k < n; k++ {
		if !isInt(g.Sig.Results().At(k).Type()) || core.NamedName(g.Sig.Results().At(k).Type()) == "tableID" {
			continue
		}
		all, cnt := true, 0
		core.InspectNoLits(g.Body, func(x ast.Node) bool {
			rs, ok := x.(*ast.ReturnStmt)
			if !ok || len(rs.Results) != n {
				return true
			}
			cnt++
			if start && !r.isStart(g, rs.Results[k], 1) {
				all = false
			}
			if !start && (r.isStart(g, rs.Results[k], 1) || !r.isCount(g, rs.Results[k], 1)) {
				all = false
			}
			return true
		})
		if all && cnt > 0 {
			res[k] = true
		}
	}
	cache[g] = res
	return res
}

// recFieldOfTable: the table expression t resolves to &X.tables[rec.F] with rec a batch record; returns F's key.
func (r *rangeCtx) recFieldOfTable(f *core.Func, t ast.Expr) string {
	m := r.m
	for _, x := range exprChain(m, f, t, 0) {
		if u, ok := x.(*ast.UnaryExpr); ok {
			x = ast.Unparen(u.X)
		}
		if ix, ok := x.(*ast.IndexExpr); ok {
			if sel, ok := ast.Unparen(m.StripConv(ix.Index)).(*ast.SelectorExpr); ok {
				if k := fieldKeyOf(m, sel); ownerOf(k) == r.recType && r.recType != "" {
					return k
				}
			}
		}
	}
	return ""
}

func newRangeCtx(c *core.Ctx) *rangeCtx {
	m := c.M
	r := &rangeCtx{c: c, m: m, a: GetAnchors(c), tr: GetTableRoles(c),
		startRes: map[*core.Func]map[int]bool{}, countRes: map[*core.Func]map[int]bool{}, busy: map[*core.Func]bool{},
		startField: map[string]bool{}, lenField: map[string]bool{}, srcField: map[string]bool{}, dstField: map[string]bool{}}
	if fv := m.FieldByKey("slices.batches"); fv != nil {
		if el := listElemOf(fv.Type()); el != nil {
			r.recType = core.NamedName(el)
		}
	}
	r.computeGrowParams()
	if r.recType == "" {
		return r
	}
	// record fields: start fields are assigned start values; length fields are initialised/assigned counts;
	// source/destination fields index the tables handed to growing calls.
	// (fields grouped into a nested struct of the record - rows{start, len} - are fields of the record)
	recTypes := map[string]bool{r.recType: true}
	if nt := m.Prog.LookupType(r.recType); nt != nil {
		if st, ok := nt.Underlying().(*types.Struct); ok {
			for i := 0; i < st.NumFields(); i++ {
				if ft, ok := st.Field(i).Type().(*types.Named); ok {
					if _, isStruct := ft.Underlying().(*types.Struct); isStruct && ft.Obj().Pkg() == st.Field(i).Pkg() {
						recTypes[ft.Obj().Name()] = true
					}
				}
			}
		}
	}
	for _, f := range m.Funcs {
		core.InspectNoLits(f.Body, func(n ast.Node) bool {
			switch x := n.(type) {
			case *ast.AssignStmt:
				if len(x.Lhs) != len(x.Rhs) {
					return true
				}
				for i, l := range x.Lhs {
					sel, ok := ast.Unparen(l).(*ast.SelectorExpr)
					if !ok {
						continue
					}
					k := fieldKeyOf(m, sel)
					if !recTypes[ownerOf(k)] {
						continue
					}
					if r.isStart(f, x.Rhs[i], 0) {
						r.startField[k] = true
					} else if r.isCount(f, x.Rhs[i], 0) {
						r.lenField[k] = true
					}
				}
			case *ast.CompositeLit:
				if !recTypes[core.NamedName(m.Info.TypeOf(x))] {
					return true
				}
				for _, e := range x.Elts {
					kv, ok := e.(*ast.KeyValueExpr)
					if !ok {
						continue
					}
					id, ok := kv.Key.(*ast.Ident)
					if !ok {
						continue
					}
					fld, _ := m.Info.ObjectOf(id).(*types.Var)
					if fld == nil {
						continue
					}
					k := m.FieldKey(fld.Origin())
					if k != "" && isInt(fld.Type()) && core.NamedName(fld.Type()) != "tableID" && r.isCount(f, kv.Value, 0) {
						r.lenField[k] = true
					}
				}
			}
			return true
		})
		for _, gs := range r.growSitesOf(f) {
			if k := r.recFieldOfTable(f, gs.dst); k != "" {
				r.dstField[k] = true
			}
			for _, s := range gs.srcs {
				if k := r.recFieldOfTable(f, s); k != "" {
					r.srcField[k] = true
				}
			}
		}
	}
	// helpers taking table ids: g(rec.A, rec.B) where g grows &tables[param]
	for _, f := range m.Funcs {
		for _, gs := range r.growSitesOf(f) {
			mark := func(t ast.Expr, into map[string]bool) {
				for _, x := range exprChain(m, f, t, 0) {
					if u, ok := x.(*ast.UnaryExpr); ok {
						x = ast.Unparen(u.X)
					}
					ix, ok := x.(*ast.IndexExpr)
					if !ok {
						continue
					}
					id, ok := ast.Unparen(ix.Index).(*ast.Ident)
					if !ok {
						continue
					}
					v, ok := m.Info.ObjectOf(id).(*types.Var)
					if !ok {
						continue
					}
					if _, isP := paramIndexOf(f, v); !isP {
						continue
					}
					for _, a := range actualsOf(m, f, v) {
						if sel, ok := ast.Unparen(a.expr).(*ast.SelectorExpr); ok {
							if k := fieldKeyOf(m, sel); ownerOf(k) == r.recType {
								into[k] = true
							}
						}
					}
				}
			}
			mark(gs.dst, r.dstField)
			for _, s := range gs.srcs {
				mark(s, r.srcField)
			}
		}
	}
	return r
}

// loopRange describes the rows visited by a loop-carried row index.
type loopRange struct {
	lo    ast.Expr // nil: 0
	hi    ast.Expr // nil when count form
	count ast.Expr // nil when hi form
}

func isZeroLit(m *core.Model, e ast.Expr) bool {
	if e == nil {
		return true
	}
	if tv, ok := m.Info.Types[ast.Unparen(e)]; ok && tv.Value != nil {
		return tv.Value.String() == "0"
	}
	return false
}

// enclosingLoopOf returns the innermost for/range statement of f that contains n.
func enclosingLoopOf(f *core.Func, n ast.Node) ast.Stmt {
	var best ast.Stmt
	core.InspectNoLits(f.Body, func(x ast.Node) bool {
		switch l := x.(type) {
		case *ast.ForStmt:
			if l.Body.Pos() <= n.Pos() && n.End() <= l.Body.End() {
				best = l
			}
		case *ast.RangeStmt:
			if l.Body.Pos() <= n.Pos() && n.End() <= l.Body.End() {
				best = l
			}
		}
		return true
	})
	return best
}

// rowRange resolves the row index idx used inside loop to a symbolic range; ok=false if the shape is not understood.
func (r *rangeCtx) rowRange(f *core.Func, loop ast.Stmt, idx ast.Expr) (lr loopRange, ok bool) {
	m := r.m
	var loopVar types.Object
	var lo, hi, count ast.Expr
	switch l := loop.(type) {
	case *ast.RangeStmt:
		if l.Key == nil || l.Value != nil {
			return lr, false
		}
		t := m.Info.TypeOf(l.X)
		if t == nil || !isInt(t) {
			return lr, false
		}
		id, isID := l.Key.(*ast.Ident)
		if !isID {
			return lr, false
		}
		loopVar = m.Info.ObjectOf(id)
		count = l.X
	case *ast.ForStmt:
		as, isAs := l.Init.(*ast.AssignStmt)
		if !isAs || len(as.Lhs) != 1 || len(as.Rhs) != 1 {
			return lr, false
		}
		id, isID := as.Lhs[0].(*ast.Ident)
		if !isID {
			return lr, false
		}
		loopVar = m.Info.ObjectOf(id)
		lo = as.Rhs[0]
		be, isB := ast.Unparen(l.Cond).(*ast.BinaryExpr)
		if !isB {
			return lr, false
		}
		switch {
		case be.Op == token.LSS && isIdentOf(m, be.X, loopVar):
			hi = be.Y
		case be.Op == token.GTR && isIdentOf(m, be.Y, loopVar):
			hi = be.X
		default:
			return lr, false
		}
		inc, isInc := l.Post.(*ast.IncDecStmt)
		if !isInc || inc.Tok != token.INC || !isIdentOf(m, inc.X, loopVar) {
			return lr, false
		}
	default:
		return lr, false
	}
	// idx: loopVar, or S + loopVar (through a single-definition local inside the loop)
	var offset ast.Expr
	found := false
	for _, x := range exprChain(m, f, idx, 0) {
		if isIdentOf(m, x, loopVar) {
			found = true
			break
		}
		if be, isB := x.(*ast.BinaryExpr); isB && be.Op == token.ADD {
			if isIdentOf(m, m.StripConv(be.Y), loopVar) {
				offset, found = be.X, true
				break
			}
			if isIdentOf(m, m.StripConv(be.X), loopVar) {
				offset, found = be.Y, true
				break
			}
		}
	}
	if !found {
		return lr, false
	}
	if offset != nil {
		if !isZeroLit(m, lo) {
			return lr, false
		}
		// rows [offset, offset+N): N is the range count, or the bound of a classic loop that starts at 0
		if count != nil {
			return loopRange{lo: offset, count: count}, true
		}
		if hi != nil {
			return loopRange{lo: offset, count: hi}, true
		}
		return lr, false
	}
	if count != nil {
		return loopRange{lo: nil, count: count}, true
	}
	return loopRange{lo: lo, hi: hi}, true
}

func isIdentOf(m *core.Model, e ast.Expr, obj types.Object) bool {
	id, ok := ast.Unparen(e).(*ast.Ident)
	return ok && obj != nil && m.Info.ObjectOf(id) == obj
}

func c09r5(c *core.Ctx) {
	m := c.M
	r := newRangeCtx(c)
	a := r.a
	if r.tr.GetEntity == nil || len(r.growParams) == 0 {
		c.Undecide("C09/R5", "roles", "row reader / table growth roles not derivable")
		return
	}
	for _, f := range m.AllFuncs() {
		if a.Fire[f] {
			continue
		}
		if _, w := a.fireWrappers()[f]; w {
			continue
		}
		core.InspectNoLits(f.Body, func(n ast.Node) bool {
			call, ok := n.(*ast.CallExpr)
			if !ok {
				return true
			}
			fc := a.FireCallOf(f, call)
			if fc == nil || fc.Entity == nil || (!preEvents[fc.Event] && !postEvents[fc.Event]) {
				return true
			}
			ge, ok := ast.Unparen(fc.Entity).(*ast.CallExpr)
			if !ok {
				return true
			}
			T, isG := callTo(m, ge, r.tr.GetEntity)
			if !isG || T == nil || len(ge.Args) != 1 {
				return true
			}
			loop := enclosingLoopOf(f, call)
			if loop == nil {
				return true
			}
			subject := fmt.Sprintf("%s: rows of %s dispatch", f.Name, fc.Event)
			lr, understood := r.rowRange(f, loop, ge.Args[0])
			if !understood {
				c.Undecide("C09/R5", subject, "the row range of the dispatch loop at "+c.At(call.Pos())+" is not of a recognised form")
				return true
			}
			var problems []string
			recF := r.recFieldOfTable(f, T)
			if fc.Pre() {
				if !isZeroLit(m, lr.lo) {
					problems = append(problems, "the rows do not start at 0 of the source table")
				}
				bound := lr.count
				if bound == nil {
					bound = lr.hi
				}
				okBound := false
				for _, x := range exprChain(m, f, bound, 0) {
					if t, isLen := r.tableLenRead(x); isLen && r.sameTable(f, t, T) {
						okBound = true
					}
					if sel, isSel := x.(*ast.SelectorExpr); isSel && recF != "" {
						if k := fieldKeyOf(m, sel); r.lenField[k] {
							okBound = true
						}
					}
				}
				if !okBound {
					problems = append(problems, fmt.Sprintf("the bound %s is not the length of the table whose rows are reported", m.ExprString(bound)))
				}
				if recF != "" && len(r.srcField) > 0 && !r.srcField[recF] {
					problems = append(problems, fmt.Sprintf("the table is taken from record field %s, which move loops do not use as the source", recF))
				}
			} else {
				if lr.lo == nil || !r.isStart(f, lr.lo, 0) {
					problems = append(problems, fmt.Sprintf("the first row %s is not the destination's length before the rows were added", exprOrZero(m, lr.lo)))
				}
				if lr.count != nil {
					if !r.isCount(f, lr.count, 0) || r.isStart(f, lr.count, 0) {
						problems = append(problems, fmt.Sprintf("the row count %s is not the number of rows added", m.ExprString(lr.count)))
					}
				} else {
					okHi := false
					for _, x := range exprChain(m, f, lr.hi, 0) {
						if t, isLen := r.tableLenRead(x); isLen && r.sameTable(f, t, T) {
							okHi = true
						}
						if be, isB := x.(*ast.BinaryExpr); isB && be.Op == token.ADD {
							if (r.isStart(f, be.X, 0) && r.isCount(f, be.Y, 0) && !r.isStart(f, be.Y, 0)) || (r.isStart(f, be.Y, 0) && r.isCount(f, be.X, 0) && !r.isStart(f, be.X, 0)) {
								okHi = true
							}
						}
					}
					if !okHi {
						problems = append(problems, fmt.Sprintf("the bound %s is not start+count of the added rows", m.ExprString(lr.hi)))
					}
				}
				if recF != "" && len(r.dstField) > 0 && !r.dstField[recF] {
					problems = append(problems, fmt.Sprintf("the table is taken from record field %s, which move loops do not use as the destination", recF))
				}
			}
			if len(problems) == 0 {
				c.OK("C09/R5", subject, c.At(call.Pos()), "dispatch rows are exactly the affected rows (pre: [0,len) of the source; post: [start,start+count) of the destination)")
			} else {
				c.Violation("C09/R5", subject, c.At(call.Pos()), fmt.Sprintf("%s reports rows of %s to %s observers, but %s; observers would receive entities the operation does not affect (or miss affected ones)", f.Name, m.ExprString(T), fc.Event, strings.Join(problems, "; ")))
			}
			return true
		})
	}
}

func exprOrZero(m *core.Model, e ast.Expr) string {
	if e == nil {
		return "0"
	}
	return m.ExprString(e)
}

// structResultField: x is `v.fld` (or `call(..).fld`) where v is a local whose only definition is a static call of a
// helper with a single struct result; returns the helper and, for each of its return statements, the value it gives
// to that field (nil if x is not of that form or some return is not a recognisable construction).
func structResultField(m *core.Model, f *core.Func, x ast.Expr) (*core.Func, []ast.Expr) {
	sel, ok := ast.Unparen(x).(*ast.SelectorExpr)
	if !ok {
		return nil, nil
	}
	fld := m.FieldOf(sel)
	if fld == nil {
		return nil, nil
	}
	key := m.FieldKey(fld)
	var call *ast.CallExpr
	switch b := ast.Unparen(sel.X).(type) {
	case *ast.CallExpr:
		call = b
	case *ast.Ident:
		v, ok := m.Info.ObjectOf(b).(*types.Var)
		if !ok || v.IsField() {
			return nil, nil
		}
		for fn := f; fn != nil && call == nil; fn = fn.Parent {
			ds := localDefsOf(m, fn, v)
			if len(ds) == 1 {
				call, _ = ast.Unparen(ds[0]).(*ast.CallExpr)
			}
		}
	}
	if call == nil {
		return nil, nil
	}
	k, cal, _ := m.Callee(call)
	if k != core.CallStatic || cal == nil || cal.Body == nil || cal.Sig == nil || cal.Sig.Results().Len() != 1 {
		return nil, nil
	}
	if _, isStruct := cal.Sig.Results().At(0).Type().Underlying().(*types.Struct); !isStruct {
		return nil, nil
	}
	var vals []ast.Expr
	okAll := true
	core.InspectNoLits(cal.Body, func(n ast.Node) bool {
		rs, isR := n.(*ast.ReturnStmt)
		if !isR || len(rs.Results) != 1 {
			return true
		}
		fields := valueFields(m, cal, rs.Results[0])
		if v, has := fields[key]; has {
			vals = append(vals, v)
		} else {
			okAll = false
		}
		return true
	})
	if !okAll {
		return nil, nil
	}
	return cal, vals
}
