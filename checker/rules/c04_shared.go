package rules

import (
	"fmt"
	"go/ast"
	"sort"

	"arkverif/checker/core"
)

// C04/R13: a list that several objects share is never overwritten in place.
//
// Tables keep the relation list they are created with, and a table created from another one may be handed that other
// table's list unchanged (no relation added): the two then share one backing array. That is sound only as long as
// nobody writes into such an array. The rule finds bulk in-place writes into a slice field of a persistent object -
// `append(x.F[:k], ...)` or `copy(x.F, ...)` - and reports them when values read from field F (of any object) can
// reach a store into a persistent field (directly, through locals, parameters, helper results or retaining callees):
// then F's arrays may have a second owner. The sharing analysis is the path-sensitive taint analysis of C01/R8 with
// "field F" as the source.
func c04r13(c *core.Ctx) {
	m := c.M
	type write struct {
		f    *core.Func
		node ast.Node
		key  string
		how  string
	}
	var writes []write
	fieldOfBase := func(e ast.Expr) string {
		e = ast.Unparen(m.Inline(m.StripConv(e)))
		if k := fieldKeyOf(m, e); k != "" && isSliceType(m.Info.TypeOf(e)) && ownerOf(k) != "slices" && ownerOf(k) != "?" {
			return k
		}
		return ""
	}
	for _, f := range m.AllFuncs() {
		core.InspectNoLits(f.Body, func(x ast.Node) bool {
			call, ok := x.(*ast.CallExpr)
			if !ok {
				return true
			}
			switch {
			case m.IsBuiltin(call, "append") && len(call.Args) >= 2:
				if se, ok := ast.Unparen(m.Inline(m.StripConv(call.Args[0]))).(*ast.SliceExpr); ok {
					if k := fieldOfBase(se.X); k != "" {
						writes = append(writes, write{f, call, k, "appends to a re-slice of it"})
					}
				}
			case m.IsBuiltin(call, "copy") && len(call.Args) == 2:
				dst := ast.Unparen(m.Inline(m.StripConv(call.Args[0])))
				if se, ok := dst.(*ast.SliceExpr); ok {
					dst = se.X
				}
				if k := fieldOfBase(dst); k != "" {
					writes = append(writes, write{f, call, k, "copies into it"})
				}
			}
			return true
		})
	}
	shared := map[string]string{} // key -> witness ("" = not shared)
	decided := map[string]bool{}
	sharedWitness := func(key string) string {
		if decided[key] {
			return shared[key]
		}
		decided[key] = true
		sc := &scratchCtx{c: c, m: m, returns: map[*core.Func]map[int]bool{}, busy: map[*core.Func]bool{}, viol: map[string]scratchViol{},
			retainMemo: map[*core.Func]map[int][]map[int]bool{}, retainBusy: map[string]bool{}, sameFieldSinks: true,
			src: func(e ast.Expr) bool { return fieldKeyOf(m, e) == key }}
		for _, f := range m.AllFuncs() {
			reads := false
			core.InspectNoLits(f.Body, func(x ast.Node) bool {
				if sel, ok := x.(*ast.SelectorExpr); ok && fieldKeyOf(m, sel) == key {
					reads = true
				}
				return !reads
			})
			if reads {
				sc.analyse(f, nil)
			}
		}
		var ks []string
		for k := range sc.viol {
			ks = append(ks, k)
		}
		sort.Strings(ks)
		if len(ks) > 0 {
			v := sc.viol[ks[0]]
			shared[key] = fmt.Sprintf("%s at %s", v.f.Name, c.At(v.node.Pos()))
		}
		return shared[key]
	}
	for _, w := range writes {
		subject := fmt.Sprintf("%s: %s", w.f.Name, m.RawString(w.node.(ast.Expr)))
		if wit := sharedWitness(w.key); wit != "" {
			c.Violation("C04/R13", subject, c.At(w.node.Pos()), fmt.Sprintf("%s %s (field %s), but lists read from that field are handed on to other owners (%s), so two objects may share one array; the write would silently change the other owner's list", w.f.Name, w.how, w.key, wit))
		} else {
			c.OK("C04/R13", subject, c.At(w.node.Pos()), "no list read from field "+w.key+" reaches another persistent field: the array has one owner")
		}
	}
	if len(writes) == 0 {
		c.OK("C04/R13", "in-place list writes", "", "no bulk in-place write (append to a re-slice, copy into) into a slice field of a persistent object")
	}
}
