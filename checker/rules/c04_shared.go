package rules

import (
	"fmt"
	"go/ast"
	"sort"
	"strings"

	"arkverif/checker/core"
)

// C04/R13: a list that several objects share is never overwritten in place.
//
// Tables keep the relation list they are created with, and a table created from another one may be handed that other
// table's list unchanged (no relation added): the two then share one backing array. That is sound only as long as
// nobody writes into such an array. The rule finds bulk in-place writes into a slice field of a persistent object -
// `append(x.F[:k], ...)` or `copy(x.F, ...)` - and reports them when values read from field F (of any object) can
// reach a store into a persistent field (directly, through locals, parameters, helper results or retaining callees):
// then F's arrays may have a second owner. The sharing analysis is the path-sensitive taint analysis of C01/R8 with
// "field F" as the source.
func c04r13(c *core.Ctx) {
	m := c.M
	type write struct {
		f    *core.Func
		node ast.Node
		key  string
		how  string
	}
	var writes []write
	fieldOfBase := func(e ast.Expr) string {
		e = ast.Unparen(m.Inline(m.StripConv(e)))
		if k := fieldKeyOf(m, e); k != "" && isSliceType(m.Info.TypeOf(e)) && !isScratchOwner(m, ownerOf(k)) && ownerOf(k) != "?" {
			return k
		}
		return ""
	}
	for _, f := range m.AllFuncs() {
		core.InspectNoLits(f.Body, func(x ast.Node) bool {
			call, ok := x.(*ast.CallExpr)
			if !ok {
				return true
			}
			switch {
			case m.IsBuiltin(call, "append") && len(call.Args) >= 2:
				if se, ok := ast.Unparen(m.Inline(m.StripConv(call.Args[0]))).(*ast.SliceExpr); ok {
					if k := fieldOfBase(se.X); k != "" {
						writes = append(writes, write{f, call, k, "appends to a re-slice of it"})
					}
				}
			case m.IsBuiltin(call, "copy") && len(call.Args) == 2:
				dst := ast.Unparen(m.Inline(m.StripConv(call.Args[0])))
				if se, ok := dst.(*ast.SliceExpr); ok {
					dst = se.X
				}
				if k := fieldOfBase(dst); k != "" {
					writes = append(writes, write{f, call, k, "copies into it"})
				}
			}
			return true
		})
	}
	// truncate-then-append: a field that some function cuts back (x.F = x.F[:k]) and some function appends to
	// (x.F = append(x.F, ...)) is overwritten in place by that append
	truncated := map[string]bool{}
	type app struct {
		f    *core.Func
		node ast.Node
	}
	appends := map[string][]app{}
	for _, f := range m.AllFuncs() {
		core.InspectNoLits(f.Body, func(x ast.Node) bool {
			as, ok := x.(*ast.AssignStmt)
			if !ok || len(as.Lhs) != len(as.Rhs) {
				return true
			}
			for i, l := range as.Lhs {
				k := fieldOfBase(l)
				if k == "" {
					continue
				}
				r := ast.Unparen(m.Inline(m.StripConv(as.Rhs[i])))
				switch y := r.(type) {
				case *ast.SliceExpr:
					if fieldOfBase(y.X) == k && y.High != nil {
						truncated[k] = true
					}
				case *ast.CallExpr:
					if m.IsBuiltin(y, "append") && len(y.Args) >= 2 && fieldOfBase(y.Args[0]) == k {
						appends[k] = append(appends[k], app{f, y})
					}
				}
			}
			return true
		})
	}
	for k := range truncated {
		for _, a := range appends[k] {
			writes = append(writes, write{a.f, a.node, k, "appends to it after it may have been cut back (the append then overwrites the old elements)"})
		}
	}
	sort.SliceStable(writes, func(i, j int) bool { return writes[i].node.Pos() < writes[j].node.Pos() })
	shared := map[string]string{} // key -> witness ("" = not shared)
	decided := map[string]bool{}
	sharedWitness := func(key string) string {
		if decided[key] {
			return shared[key]
		}
		decided[key] = true
		sc := &scratchCtx{c: c, m: m, returns: map[*core.Func]map[int]bool{}, busy: map[*core.Func]bool{}, viol: map[string]scratchViol{},
			retainMemo: map[*core.Func]map[int][]map[int]bool{}, retainBusy: map[string]bool{}, sameFieldSinks: true,
			// a query holds views of the table lists for the time of its iteration only, during which the world lock
			// rejects every operation that changes them (C07/R1): not a second owner
			skipSink: func(key string) bool {
				o := ownerOf(key)
				return strings.HasPrefix(o, "Query") || o == "UnsafeQuery" || o == "cursor"
			},
			src: func(e ast.Expr) bool { return fieldKeyOf(m, e) == key }}
		for _, f := range m.AllFuncs() {
			reads := false
			core.InspectNoLits(f.Body, func(x ast.Node) bool {
				if sel, ok := x.(*ast.SelectorExpr); ok && fieldKeyOf(m, sel) == key {
					reads = true
				}
				return !reads
			})
			if reads {
				sc.analyse(f, nil)
			}
		}
		var ks []string
		for k := range sc.viol {
			ks = append(ks, k)
		}
		sort.Strings(ks)
		if len(ks) > 0 {
			v := sc.viol[ks[0]]
			shared[key] = fmt.Sprintf("%s at %s", v.f.Name, c.At(v.node.Pos()))
		}
		return shared[key]
	}
	for _, w := range writes {
		subject := fmt.Sprintf("%s: %s", w.f.Name, m.RawString(w.node.(ast.Expr)))
		if wit := sharedWitness(w.key); wit != "" {
			c.Violation("C04/R13", subject, c.At(w.node.Pos()), fmt.Sprintf("%s %s (field %s), but lists read from that field are handed on to other owners (%s), so two objects may share one array; the write would silently change the other owner's list", w.f.Name, w.how, w.key, wit))
		} else {
			c.OK("C04/R13", subject, c.At(w.node.Pos()), "no list read from field "+w.key+" reaches another persistent field: the array has one owner")
		}
	}
	if len(writes) == 0 {
		c.OK("C04/R13", "in-place list writes", "", "no bulk in-place write (append to a re-slice, copy into) into a slice field of a persistent object")
	}
}
