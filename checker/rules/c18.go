package rules

import (
	"fmt"
	"go/ast"
	"go/constant"
	"go/token"
	"go/types"
	"strings"

	"arkverif/checker/core"
)

func init() {
	register(&Property{
		ID:              "C18",
		Level:           "other",
		AllConfigsQuick: true,
		Explanation: "Structural necessary conditions of 'type registries are stable and the documented capacity is usable', decided under all four build configurations: " +
			"(R1) in the registering function the limit test on the un-narrowed count dominates every store into the type→id map, the id→type list, the used mask and the id list, and nothing else inserts into the map; this establishes Count() ∈ [0, maskTotalBits]; " +
			"(R2) registry growth on a locked world: after the registering call every path either learned that no new id was created or passes a lock test; the locked branch calls the unregister role and panics; the storage is extended only on the unlocked continuation; every field written by registration is restored by un-registration or listed with a reason; " +
			"(R3) interval analysis: every non-constant index into a fixed-size array in the mask and registry code is inside the array at the documented maximum, and every narrowing conversion of a computed id to uint8 is loss-free; " +
			"(R4) resources: the slot is tested before it is stored or cleared, and slots are indexed by the registry id. (R5) grow-before-index: where a slice is re-allocated under the guard that its length does not exceed an index and is then indexed with it (the neighbour maps of the archetype graph), the new length provably exceeds the index. (R6) an id is not derived from a container's length after an element was removed from it: on every path, an index into a field that is computed from len(F) read after a `delete` on F (directly or in a callee) is reported - the roll-back of a registration must address the removed entry, not the one before it. (R7 = C16/R1) the reset chain leaves the component and resource registries in place: no reset function replaces a whole value that contains a registry documented to survive (ids stay what they were). Not decided: use of the highest ids in queries (mask arithmetic); stability across arbitrary histories beyond R1.",
		TrustedBase: []string{"go/types, go/cfg", "interval arithmetic over Go integer types", "Count() ≤ limit follows from R1"},
		Rules: []Rule{
			{ID: "C18/R1", Run: c18r1, Min: 1},
			{ID: "C18/R2", Run: c18r2, Min: 1},
			{ID: "C18/R3", Run: c18r3, Min: 1},
			{ID: "C18/R4", Run: c18r4, Min: 1},
			{ID: "C18/R5", Run: c18r5, Min: 1},
			{ID: "C18/R6", Run: c18r6, Min: 1},
			{ID: "C16/R1", Run: c16r1, Min: 1},
		},
	})
}

// registrar: the function that inserts into registry.Components.
func registryRegistrar(c *core.Ctx) *core.Func {
	m := c.M
	var reg *core.Func
	for _, f := range m.Funcs {
		core.InspectNoLits(f.Body, func(n ast.Node) bool {
			if as, ok := n.(*ast.AssignStmt); ok {
				for _, l := range as.Lhs {
					if ix, ok := ast.Unparen(l).(*ast.IndexExpr); ok && fieldKeyOf(m, ix.X) == "registry.Components" {
						reg = f
					}
				}
			}
			return true
		})
	}
	return reg
}

func c18r1(c *core.Ctx) {
	m := c.M
	reg := registryRegistrar(c)
	if reg == nil {
		c.Undecide("C18/R1", "register role", "no function inserts into registry.Components")
		return
	}
	// K5: only one inserting function
	n := 0
	for _, f := range m.Funcs {
		core.InspectNoLits(f.Body, func(x ast.Node) bool {
			if as, ok := x.(*ast.AssignStmt); ok {
				for _, l := range as.Lhs {
					if ix, ok := ast.Unparen(l).(*ast.IndexExpr); ok && fieldKeyOf(m, ix.X) == "registry.Components" {
						n++
						if f != reg {
							c.Violation("C18/R1", f.Name+" inserts into the registry", c.At(as.Pos()), f.Name+": a second function assigns type→id entries; ids would no longer be assigned in one place under the limit test")
						}
					}
				}
			}
			return true
		})
	}
	// limit parameter and the guard
	var limitPar *types.Var
	for i := 0; i < reg.Sig.Params().Len(); i++ {
		if isInt(reg.Sig.Params().At(i).Type()) {
			limitPar = reg.Sig.Params().At(i)
		}
	}
	guardOK := func(at core.Atom) (bool, string) {
		be, ok := ast.Unparen(at.Expr).(*ast.BinaryExpr)
		if !ok || at.Truth {
			return false, ""
		}
		if be.Op != token.GEQ && be.Op != token.GTR {
			return false, ""
		}
		// right operand: the limit parameter (or the mask size constant)
		rid, ok := ast.Unparen(be.Y).(*ast.Ident)
		if !ok || (limitPar != nil && m.Info.ObjectOf(rid) != limitPar) {
			return false, ""
		}
		if be.Op == token.GTR {
			return false, "limit test uses > instead of >= (one id too many)"
		}
		// left operand: len(r.Components) itself or a local defined as exactly that, of type int (not narrowed)
		l := ast.Unparen(be.X)
		isLen := func(e ast.Expr) bool {
			call, ok := ast.Unparen(e).(*ast.CallExpr)
			return ok && m.IsBuiltin(call, "len") && fieldKeyOf(m, call.Args[0]) == "registry.Components"
		}
		if isLen(l) {
			return true, ""
		}
		if id, ok := l.(*ast.Ident); ok {
			if v, ok := m.Info.ObjectOf(id).(*types.Var); ok {
				ds := localDefsOf(m, reg, v)
				if len(ds) == 1 && isLen(ds[0]) {
					return true, ""
				}
			}
		}
		return false, fmt.Sprintf("the limit is tested on %s, which is not the un-narrowed count len(Components); a narrowed count wraps at 256 and the limit never triggers", m.ExprString(be.X))
	}
	why := ""
	spec := core.GuardSpec{
		Only: reg,
		GuardAtom: func(f *core.Func, at core.Atom) bool {
			ok, w := guardOK(at)
			if w != "" {
				why = w
			}
			return ok
		},
		Needs: func(f *core.Func, x ast.Node) []core.Witness {
			var out []core.Witness
			switch x.(type) {
			case *ast.AssignStmt, *ast.CallExpr:
				for _, s := range m.DirectStores(f, x) {
					if ownerOf(s.Path.Last()) == "registry" || s.Path.Has("registry.Components") || s.Path.Has("registry.Types") {
						out = append(out, core.Witness{What: "store to " + s.Path.Last()})
					}
				}
				if call, ok := x.(*ast.CallExpr); ok {
					if sel, ok := ast.Unparen(call.Fun).(*ast.SelectorExpr); ok && fieldKeyOf(m, sel.X) == "registry.Used" && sel.Sel.Name == "Set" {
						out = append(out, core.Witness{What: "store to registry.Used"})
					}
				}
			}
			return out
		},
		SkipCallee: func(*core.Func) bool { return true },
	}
	res := m.MustPrecede(spec)
	ws := res.Unguarded[reg]
	if len(ws) == 0 {
		c.OK("C18/R1", reg.Name, c.At(reg.Pos()), "the limit test count >= limit (on the un-narrowed count) dominates every store into the registry")
	} else {
		msg := fmt.Sprintf("%s: %s at %s is not dominated by the limit test", reg.Name, ws[0].What, c.At(ws[0].Node.Pos()))
		if why != "" {
			msg += ": " + why
		}
		c.Violation("C18/R1", reg.Name, c.At(ws[0].Node.Pos()), msg)
	}
	// ids are the count at that point: newID := uint8(val) with val the tested count
	okID := false
	core.InspectNoLits(reg.Body, func(x ast.Node) bool {
		if as, ok := x.(*ast.AssignStmt); ok {
			for i, l := range as.Lhs {
				if ix, ok := ast.Unparen(l).(*ast.IndexExpr); ok && fieldKeyOf(m, ix.X) == "registry.Components" && i < len(as.Rhs) {
					// the assigned id derives from len(Components)
					if derivedFromLen(m, reg, as.Rhs[i], 0) {
						okID = true
					}
				}
			}
		}
		return true
	})
	if okID {
		c.OK("C18/R1", reg.Name+": id", c.At(reg.Pos()), "the assigned id is the number of registered types at that point")
	} else {
		c.Violation("C18/R1", reg.Name+": id", c.At(reg.Pos()), reg.Name+": the id stored in the type→id map is not derived from the current number of registered types")
	}
	// callers pass the configuration's limit
	for _, cs := range m.CallSites() {
		if cs.Callee != reg || limitPar == nil {
			continue
		}
		idx, _ := paramIndexOf(reg, limitPar)
		if idx < 0 || idx >= len(cs.Call.Args) {
			continue
		}
		arg := ast.Unparen(cs.Call.Args[idx])
		subject := cs.Caller.Name + ": limit argument"
		okArg := false
		if id, ok := arg.(*ast.Ident); ok {
			if cn, ok := m.Info.ObjectOf(id).(*types.Const); ok && cn.Name() == "maskTotalBits" {
				okArg = true
			}
			if v, ok := m.Info.ObjectOf(id).(*types.Var); ok {
				if _, isP := paramIndexOf(cs.Caller, v); isP {
					okArg = true // forwarded
				}
			}
		}
		if okArg {
			c.OK("C18/R1", subject, c.At(cs.Call.Pos()), "registers under the configuration's mask size")
		} else {
			c.Violation("C18/R1", subject, c.At(cs.Call.Pos()), fmt.Sprintf("%s registers types under the limit %s instead of the mask size", cs.Caller.Name, m.ExprString(arg)))
		}
	}
}

func derivedFromLen(m *core.Model, f *core.Func, e ast.Expr, depth int) bool {
	if depth > 4 {
		return false
	}
	found := false
	ast.Inspect(e, func(n ast.Node) bool {
		switch x := n.(type) {
		case *ast.CallExpr:
			if m.IsBuiltin(x, "len") && len(x.Args) == 1 && fieldKeyOf(m, x.Args[0]) == "registry.Components" {
				found = true
			}
		case *ast.Ident:
			if v, ok := m.Info.ObjectOf(x).(*types.Var); ok && !v.IsField() {
				for _, d := range localDefsOf(m, f, v) {
					if d != e && derivedFromLen(m, f, d, depth+1) {
						found = true
					}
				}
			}
		}
		return !found
	})
	return found
}

// c18r2: registry growth on a locked world (C07/R1b) and rollback completeness.
func c18r2(c *core.Ctx) {
	a := GetAnchors(c)
	m := c.M
	reg := registryRegistrar(c)
	if reg == nil {
		c.Undecide("C18/R2", "register role", "not derivable")
		return
	}
	// register family: functions that (transitively) call the registrar
	family := map[*core.Func]bool{reg: true}
	for changed := true; changed; {
		changed = false
		for _, cs := range m.CallSites() {
			if family[cs.Callee] && !family[cs.Caller] && (cs.Caller.Recv == "registry" || cs.Caller.Recv == "componentRegistry") {
				family[cs.Caller] = true
				changed = true
			}
		}
	}
	// unregister role: deletes from registry.Components (and wrappers on componentRegistry)
	unreg := map[*core.Func]bool{}
	for _, f := range m.Funcs {
		core.InspectNoLits(f.Body, func(n ast.Node) bool {
			if call, ok := n.(*ast.CallExpr); ok && m.IsBuiltin(call, "delete") && fieldKeyOf(m, call.Args[0]) == "registry.Components" {
				unreg[f] = true
			}
			return true
		})
	}
	for changed := true; changed; {
		changed = false
		for _, cs := range m.CallSites() {
			if unreg[cs.Callee] && !unreg[cs.Caller] && cs.Caller.Recv == "componentRegistry" {
				unreg[cs.Caller] = true
				changed = true
			}
		}
	}
	if len(unreg) == 0 {
		c.Undecide("C18/R2", "unregister role", "not derivable")
		return
	}
	// registrars of the component registry: call sites whose receiver path goes through storage.registry
	sites := 0
	for _, f := range m.Funcs {
		core.InspectNoLits(f.Body, func(n ast.Node) bool {
			as, ok := n.(*ast.AssignStmt)
			if !ok || len(as.Rhs) != 1 {
				return true
			}
			call, ok := ast.Unparen(as.Rhs[0]).(*ast.CallExpr)
			if !ok {
				return true
			}
			k, cal, _ := m.Callee(call)
			if k != core.CallStatic || !family[cal] {
				return true
			}
			sel, ok := ast.Unparen(call.Fun).(*ast.SelectorExpr)
			if !ok || !m.AccessPath(f, sel.X).Has("storage.registry") {
				return true
			}
			sites++
			subject := f.Name + ": registration on a possibly locked world"
			var newVar string
			if len(as.Lhs) == 2 {
				newVar = m.ExprString(as.Lhs[1])
			}
			// path-sensitive walk: phases 0 none, 1 registered, 2 locked branch, 3 locked+unregistered, 4 verified
			type st struct{ phase int }
			early := ""
			ps := &core.PS[st]{M: m, F: f, Entry: st{0},
				Node: func(s st, x ast.Node, cond bool, _ core.Facts) st {
					if x == ast.Node(call) {
						return st{1}
					}
					if cl, ok := x.(*ast.CallExpr); ok && s.phase >= 1 && s.phase <= 3 {
						if k2, c2, _ := m.Callee(cl); k2 == core.CallStatic {
							for _, es := range c.Eff.Stores(c2) {
								if cls, key := Classify(es.Path); cls.Structural() && es.Path.Kind == core.RootParam {
									early = fmt.Sprintf("%s (store to %s) is called before the world lock was tested; on a locked world the rollback would leave it behind", c2.Name, key)
								}
							}
						}
					}
					if cl, ok := x.(*ast.CallExpr); ok && s.phase == 2 {
						if k2, c2, _ := m.Callee(cl); k2 == core.CallStatic && unreg[c2] {
							return st{3}
						}
					}
					return s
				},
				Atom: func(s st, at core.Atom, _ core.Facts) st {
					if s.phase != 1 {
						return s
					}
					if id, ok := ast.Unparen(at.Expr).(*ast.Ident); ok && id.Name == newVar && !at.Truth {
						return st{4}
					}
					if cl, ok := ast.Unparen(at.Expr).(*ast.CallExpr); ok {
						if k2, c2, _ := m.Callee(cl); k2 == core.CallStatic && a.LockTests[c2] {
							if at.Truth {
								return st{2}
							}
							return st{4}
						}
					}
					return s
				}}
			res := ps.Solve()
			g := m.CFG(f)
			var problems []string
			for _, b := range g.Blocks {
				for _, w := range res.Out[b] {
					if m.IsReturnExit(b) && (w.S.phase == 1 || w.S.phase == 2 || w.S.phase == 3) {
						switch w.S.phase {
						case 1:
							problems = append(problems, "a path returns with a possibly new id without having tested the world lock")
						default:
							problems = append(problems, "the locked branch returns instead of panicking")
						}
					}
					if m.IsPanicExit(b) && w.S.phase == 2 {
						problems = append(problems, "the locked branch panics without un-registering the new type (the id stays consumed)")
					}
				}
			}
			if early != "" {
				problems = append(problems, early)
			}
			if len(problems) == 0 {
				c.OK("C18/R2", subject, c.At(call.Pos()), "every path after the registration learned 'no new id' or passed a lock test; the locked branch un-registers and panics")
			} else {
				c.Violation("C18/R2", subject, c.At(call.Pos()), f.Name+": "+strings.Join(dedupe(problems), "; "))
			}
			return true
		})
	}
	if sites == 0 {
		c.Undecide("C18/R2", "sites", "no registration through storage.registry found")
	}
	// rollback completeness: fields written by the register family vs. restored by the unregister family
	written, restored := map[string]bool{}, map[string]bool{}
	collect := func(set map[*core.Func]bool, into map[string]bool) {
		for f := range set {
			core.InspectNoLits(f.Body, func(n ast.Node) bool {
				switch x := n.(type) {
				case *ast.AssignStmt, *ast.IncDecStmt:
					for _, s := range m.DirectStores(f, x) {
						for _, k := range s.Path.Fields() {
							if ownerOf(k) == "registry" || ownerOf(k) == "componentRegistry" {
								into[k] = true
							}
						}
					}
				case *ast.CallExpr:
					if m.IsBuiltin(x, "delete") && len(x.Args) > 0 {
						into[fieldKeyOf(m, x.Args[0])] = true
					}
					if sel, ok := ast.Unparen(x.Fun).(*ast.SelectorExpr); ok {
						if k := fieldKeyOf(m, sel.X); ownerOf(k) == "registry" && (sel.Sel.Name == "Set" || sel.Sel.Name == "Clear") {
							into[k] = true
						}
					}
				}
				return true
			})
		}
	}
	collect(family, written)
	collect(unreg, restored)
	frozen := map[string]string{"componentRegistry.IsTrivial": "unconditionally overwritten by the next registration of that id", "componentRegistry.registry": "embedded registry (its fields are listed separately)"}
	for k := range written {
		subject := "rollback of " + k
		switch {
		case restored[k]:
			c.OK("C18/R2", subject, "", "written by registration and restored by un-registration")
		case frozen[k] != "":
			c.Info("C18/R2", subject, "", "frozen: "+frozen[k])
		default:
			c.Violation("C18/R2", subject, "", fmt.Sprintf("registration writes %s but the rollback for a locked world does not restore it", k))
		}
	}
}

func dedupe(s []string) []string {
	seen := map[string]bool{}
	var out []string
	for _, x := range s {
		if !seen[x] {
			seen[x] = true
			out = append(out, x)
		}
	}
	return out
}

// c18r3: array indices and narrowing conversions in the mask / registry code.
func c18r3(c *core.Ctx) {
	m := c.M
	scope := map[string]bool{"bitMask256": true, "bitMask64": true, "registry": true, "componentRegistry": true, "idMap": true, "Resources": true}
	n := 0
	for _, f := range m.Funcs {
		if !scope[f.Recv] {
			continue
		}
		// arithmetic carried out in the 8-bit id type itself must stay inside it: (id/8+1)*8 wraps to 0 for the
		// highest ids. Only the outermost 8-bit sum, product or shift of an expression is evaluated.
		inner := map[ast.Expr]bool{}
		core.InspectNoLits(f.Body, func(x ast.Node) bool {
			be, ok := x.(*ast.BinaryExpr)
			if !ok || inner[be] {
				return true
			}
			switch be.Op {
			case token.ADD, token.MUL, token.SHL:
			default:
				return true
			}
			tv, ok := m.Info.Types[be]
			if !ok || tv.Value != nil {
				return true
			}
			if b, isB := tv.Type.Underlying().(*types.Basic); !isB || b.Kind() != types.Uint8 {
				return true
			}
			ast.Inspect(be, func(y ast.Node) bool {
				if e, ok := y.(*ast.BinaryExpr); ok && e != be {
					inner[e] = true
				}
				return true
			})
			n++
			e := &ivEval{c: c, f: f, at: be.Pos()}
			r := e.eval(be)
			subject := fmt.Sprintf("%s: %s", f.Name, m.ExprString(be))
			if r.lo >= 0 && r.hi <= 255 && !r.wrap {
				c.OK("C18/R3", subject, c.At(be.Pos()), fmt.Sprintf("8-bit arithmetic stays in range: [%g,%g]", r.lo, r.hi))
			} else {
				c.Violation("C18/R3", subject, c.At(be.Pos()), fmt.Sprintf("%s: %s is computed in the 8-bit id type and can leave it (range [%g,%g] before truncation); for the highest ids the result wraps", f.Name, m.ExprString(be), r.lo, r.hi))
			}
			return true
		})
		core.InspectNoLits(f.Body, func(x ast.Node) bool {
			switch y := x.(type) {
			case *ast.IndexExpr:
				tv, ok := m.Info.Types[y.X]
				if !ok {
					return true
				}
				at, isArr := tv.Type.Underlying().(*types.Array)
				if !isArr {
					if pt, isP := tv.Type.Underlying().(*types.Pointer); isP {
						at, isArr = pt.Elem().Underlying().(*types.Array)
					}
				}
				if !isArr {
					return true
				}
				if itv, ok := m.Info.Types[y.Index]; ok && itv.Value != nil {
					return true // constant index: checked by the compiler
				}
				n++
				e := &ivEval{c: c, f: f, at: y.Pos()}
				r := e.eval(y.Index)
				subject := fmt.Sprintf("%s: %s", f.Name, m.ExprString(y))
				if r.lo >= 0 && r.hi < float64(at.Len()) && !r.wrap {
					c.OK("C18/R3", subject, c.At(y.Pos()), fmt.Sprintf("index range [%g,%g] inside [0,%d)", r.lo, r.hi, at.Len()))
				} else {
					c.Violation("C18/R3", subject, c.At(y.Pos()), fmt.Sprintf("%s: index %s ranges over [%g,%g] at the documented maximum of registered types, but the array has %d elements", f.Name, m.ExprString(y.Index), r.lo, r.hi, at.Len()))
				}
			case *ast.CallExpr:
				if k, _, _ := m.Callee(y); k != core.CallConversion || len(y.Args) != 1 {
					return true
				}
				tv, ok := m.Info.Types[y]
				if !ok {
					return true
				}
				b, isB := tv.Type.Underlying().(*types.Basic)
				if !isB || b.Kind() != types.Uint8 {
					return true
				}
				if atv, ok := m.Info.Types[y.Args[0]]; ok {
					if atv.Value != nil {
						return true
					}
					if ab, isB := atv.Type.Underlying().(*types.Basic); isB && ab.Kind() == types.Uint8 {
						return true
					}
				}
				n++
				e := &ivEval{c: c, f: f, at: y.Pos(), lenAtLeastOne: isUnregister(m, f)}
				r := e.eval(y.Args[0])
				subject := fmt.Sprintf("%s: %s", f.Name, m.ExprString(y))
				if r.lo >= 0 && r.hi <= 255 && !r.wrap {
					c.OK("C18/R3", subject, c.At(y.Pos()), fmt.Sprintf("narrowing is loss-free: operand range [%g,%g]", r.lo, r.hi))
				} else {
					c.Violation("C18/R3", subject, c.At(y.Pos()), fmt.Sprintf("%s: conversion %s may lose bits: operand range [%g,%g]; two types would share an id", f.Name, m.ExprString(y), r.lo, r.hi))
				}
			}
			return true
		})
	}
	if n == 0 {
		c.Undecide("C18/R3", "sites", "no computed array index or narrowing conversion in the mask/registry code")
	}
}

// c18r4: resource slots.
func c18r4(c *core.Ctx) {
	m := c.M
	n := 0
	for _, f := range m.Funcs {
		if f.Recv != "Resources" || f.Sig == nil {
			continue
		}
		// the store into a slot: in the method itself (the slot, or a local pointer to it), or in a small accessor of a
		// wrapper type around the slot list that the method calls (r.resources.set(id.id, res)), read under the call's
		// arguments; `site` is the node of f at which the store happens
		var site ast.Node
		slot, isClear, okIdx := "", false, false
		look := func(root ast.Node, at ast.Node) {
			core.InspectNoLits(root, func(x ast.Node) bool {
				as, ok := x.(*ast.AssignStmt)
				if !ok || len(as.Lhs) != 1 || len(as.Rhs) != 1 || as.Tok != token.ASSIGN || site != nil {
					return true
				}
				i2, ok := ast.Unparen(m.Inline(as.Lhs[0])).(*ast.IndexExpr)
				if !ok || fieldKeyOf(m, i2.X) != "Resources.resources" {
					return true
				}
				site = at
				if at == nil {
					site = as
				}
				slot = m.ExprString(i2)
				isClear = m.ExprString(as.Rhs[0]) == "nil"
				if sel, ok := ast.Unparen(m.Inline(i2.Index)).(*ast.SelectorExpr); ok && fieldKeyOf(m, sel) == "ResID.id" {
					okIdx = true
				}
				return true
			})
		}
		look(f.Body, nil)
		if site == nil {
			core.InspectNoLits(f.Body, func(x ast.Node) bool {
				call, ok := x.(*ast.CallExpr)
				if !ok || site != nil {
					return true
				}
				if k, cal, _ := m.Callee(call); k == core.CallStatic && cal != nil && cal.Body != nil && cal.Obj != nil && !cal.Obj.Exported() && cal.Recv != "Resources" {
					m.WithCall(cal, call, func() { look(cal.Body, call) })
				}
				return true
			})
		}
		if site == nil || f.Sig.Params().Len() == 0 {
			continue
		}
		subject := f.Name
		n++
		// guard, decided on paths: the store that adds is reached only with the slot known to be empty, the store
		// that clears only with it known to be occupied (whatever the if / else / early-return form of the test)
		guarded := false
		if v, known := knownAtoms(m, f, site)[slot+"==nil"]; known && v == !isClear {
			guarded = true
		}
		if okIdx && guarded {
			c.OK("C18/R4", subject, c.At(f.Pos()), "slot indexed by the resource id and tested before it is written")
		} else {
			c.Violation("C18/R4", subject, c.At(site.Pos()), fmt.Sprintf("%s: slot indexed by id=%v, tested before write=%v; a second resource of one type could replace the first (or a missing one be removed silently)", f.Name, okIdx, guarded))
		}
	}
	if n == 0 {
		c.Undecide("C18/R4", "sites", "no Resources method writes a slot")
	}
}

// isUnregister: functions of the registry that (directly or through the embedded registry) delete from the type→id map.
func isUnregister(m *core.Model, f *core.Func) bool {
	found := false
	core.InspectNoLits(f.Body, func(n ast.Node) bool {
		if call, ok := n.(*ast.CallExpr); ok {
			if m.IsBuiltin(call, "delete") && len(call.Args) > 0 && fieldKeyOf(m, call.Args[0]) == "registry.Components" {
				found = true
			}
			if k, cal, _ := m.Callee(call); k == core.CallStatic && cal != f && (cal.Recv == "registry") {
				core.InspectNoLits(cal.Body, func(x ast.Node) bool {
					if c2, ok := x.(*ast.CallExpr); ok && m.IsBuiltin(c2, "delete") && len(c2.Args) > 0 && fieldKeyOf(m, c2.Args[0]) == "registry.Components" {
						found = true
					}
					return true
				})
			}
		}
		return true
	})
	return found
}

// c18r5: grow-before-index. Where a slice is re-allocated under the guard "its length does not exceed index i" and
// then indexed with i, the new length must provably exceed i: the length expression is bounded from below relative to
// i (i + k with k >= 1), using floor((a)/c)*c >= a-(c-1) for the round-up-to-chunk idiom. This is what makes every
// id up to the documented maximum usable as a key of the per-node neighbour maps of the archetype graph.
func c18r5(c *core.Ctx) {
	m := c.M
	n := 0
	for _, f := range m.AllFuncs() {
		core.InspectNoLits(f.Body, func(x ast.Node) bool {
			is, ok := x.(*ast.IfStmt)
			if !ok || is.Else != nil {
				return true
			}
			// guard: len(X) <= I  |  I >= len(X)  |  len(X) < I+1 is not needed here
			be, ok := ast.Unparen(is.Cond).(*ast.BinaryExpr)
			if !ok {
				return true
			}
			var lenArg, idx ast.Expr
			lenOf := func(e ast.Expr) ast.Expr {
				if call, ok := ast.Unparen(m.StripConv(e)).(*ast.CallExpr); ok && m.IsBuiltin(call, "len") && len(call.Args) == 1 {
					return call.Args[0]
				}
				return nil
			}
			switch be.Op {
			case token.LEQ:
				lenArg, idx = lenOf(be.X), be.Y
			case token.GEQ:
				lenArg, idx = lenOf(be.Y), be.X
			}
			if lenArg == nil || fieldKeyOf(m, lenArg) == "" {
				return true
			}
			key := fieldKeyOf(m, lenArg)
			idxObj := rootIdent(m, idx)
			if idxObj == nil {
				return true
			}
			// the new length: make([]T, N, ...) assigned to the field directly or through a local in the body
			var newLen ast.Expr
			ast.Inspect(is.Body, func(y ast.Node) bool {
				if call, ok := y.(*ast.CallExpr); ok && m.IsBuiltin(call, "make") && len(call.Args) >= 2 {
					if _, isSlice := m.Info.TypeOf(call).Underlying().(*types.Slice); isSlice {
						newLen = call.Args[1]
					}
				}
				return true
			})
			stored := false
			ast.Inspect(is.Body, func(y ast.Node) bool {
				if as, ok := y.(*ast.AssignStmt); ok {
					for _, l := range as.Lhs {
						if fieldKeyOf(m, l) == key {
							stored = true
						}
					}
				}
				return true
			})
			if newLen == nil || !stored {
				return true
			}
			// indexed with the same variable afterwards
			used := false
			core.InspectNoLits(f.Body, func(y ast.Node) bool {
				if ix, ok := y.(*ast.IndexExpr); ok && ix.Pos() > is.End() && fieldKeyOf(m, ix.X) == key && rootIdent(m, ix.Index) == idxObj {
					used = true
				}
				return true
			})
			if !used {
				return true
			}
			n++
			subject := fmt.Sprintf("%s: %s grown for index %s", f.Name, key, m.ExprString(idx))
			coef, k, okB := lowerBoundRel(m, f, newLen, idxObj, 0)
			switch {
			case okB && coef >= 1 && k >= 1:
				c.OK("C18/R5", subject, c.At(is.Pos()), fmt.Sprintf("new length %s >= %s + %d", m.ExprString(newLen), m.ExprString(idx), k))
			default:
				c.Violation("C18/R5", subject, c.At(is.Pos()), fmt.Sprintf("%s re-allocates %s with length %s when its length does not exceed %s and then indexes it with %s, but the new length cannot be shown to exceed the index (lower bound: %d*index%+d); for some ids the index is out of range", f.Name, key, m.ExprString(newLen), m.ExprString(idx), m.ExprString(idx), coef, k))
			}
			return true
		})
	}
	if n == 0 {
		c.OK("C18/R5", "grow-before-index sites", "", "no slice is re-allocated under an index guard and indexed afterwards")
	}
}

// rootIdent returns the variable that e denotes after conversions, or nil.
func rootIdent(m *core.Model, e ast.Expr) types.Object {
	if id, ok := ast.Unparen(m.StripConv(e)).(*ast.Ident); ok {
		return m.Info.ObjectOf(id)
	}
	return nil
}

// lowerBoundRel computes a lower bound coef*v + k of the non-negative integer expression e, for v >= 0.
func lowerBoundRel(m *core.Model, f *core.Func, e ast.Expr, v types.Object, depth int) (coef int64, k int64, ok bool) {
	if depth > 6 {
		return 0, 0, false
	}
	e = ast.Unparen(m.StripConv(e))
	if tv, isC := m.Info.Types[e]; isC && tv.Value != nil {
		if c, exact := constant.Int64Val(constant.ToInt(tv.Value)); exact {
			return 0, c, true
		}
	}
	switch x := e.(type) {
	case *ast.Ident:
		if m.Info.ObjectOf(x) == v {
			return 1, 0, true
		}
		if lv, isVar := m.Info.ObjectOf(x).(*types.Var); isVar && !lv.IsField() {
			if ds := localDefsOf(m, f, lv); len(ds) == 1 {
				return lowerBoundRel(m, f, ds[0], v, depth+1)
			}
		}
	case *ast.BinaryExpr:
		switch x.Op {
		case token.ADD:
			a1, k1, ok1 := lowerBoundRel(m, f, x.X, v, depth+1)
			a2, k2, ok2 := lowerBoundRel(m, f, x.Y, v, depth+1)
			if ok1 && ok2 {
				return a1 + a2, k1 + k2, true
			}
		case token.SUB:
			a1, k1, ok1 := lowerBoundRel(m, f, x.X, v, depth+1)
			if tv, isC := m.Info.Types[x.Y]; ok1 && isC && tv.Value != nil {
				if c, exact := constant.Int64Val(constant.ToInt(tv.Value)); exact {
					return a1, k1 - c, true
				}
			}
		case token.MUL:
			// (A / C) * C  >=  A - (C-1)
			cv := func(y ast.Expr) (int64, bool) {
				if tv, isC := m.Info.Types[y]; isC && tv.Value != nil {
					return constant.Int64Val(constant.ToInt(tv.Value))
				}
				return 0, false
			}
			try := func(q, cexpr ast.Expr) (int64, int64, bool) {
				cc, okc := cv(cexpr)
				d, isDiv := ast.Unparen(m.StripConv(q)).(*ast.BinaryExpr)
				if !okc || cc <= 0 || !isDiv || d.Op != token.QUO {
					return 0, 0, false
				}
				dc, okd := cv(d.Y)
				if !okd || dc != cc {
					return 0, 0, false
				}
				a1, k1, ok1 := lowerBoundRel(m, f, d.X, v, depth+1)
				if !ok1 {
					return 0, 0, false
				}
				return a1, k1 - (cc - 1), true
			}
			if a, k, ok := try(x.X, x.Y); ok {
				return a, k, true
			}
			if a, k, ok := try(x.Y, x.X); ok {
				return a, k, true
			}
		}
	}
	return 0, 0, false
}
