package rules

import (
	"fmt"
	"go/ast"
	"go/token"
	"go/types"
	"strings"

	"arkverif/checker/core"
)

func init() {
	register(&Property{
		ID:    "C02",
		Level: "other",
		Explanation: "Structural necessary conditions of 'entity handles are unique and liveness is exact': " +
			"(R1) who may touch the pool: every entity taken from the pool is placed into a table row in the same function; the pool's fields are stored outside the pool's own methods only by the dump loader (whose emptiness guard is rule C17/R3); " +
			"(R2) generation bump: in the recycle role the generation of the entry at the handle's id is changed by a non-zero constant before the entry is linked into the free list, on every path; the liveness test compares the handle's generation with the generation stored at the handle's id in pool memory; " +
			"(R3) one recycle per removed row: every recycled entity is the entity of a row that the same function removes (swap-remove of the row stored in the entity index for that entity, or a per-row loop over a table that is reset after the loop); " +
			"(R4) the pool's raw base pointer is refreshed whenever the buffer may be reallocated (C01/R6); (R5) dump and load copy, and restore every field of, the pool (C17/R3); (R6 = C16/R4) a world reset clears the rows of every active table (a full loop over the archetype's table list), so that no row keeps the id of an entity the reset pool hands out again. Not decided: the implicit free list for all recycle orders, count arithmetic.",
		TrustedBase: []string{"go/types, go/cfg", "roles pool-get / pool-recycle / alive-test derived from field effects"},
		Rules: []Rule{
			{ID: "C02/R1", Run: c02r1, Min: 1},
			{ID: "C02/R2", Run: c02r2, Min: 1},
			{ID: "C02/R3", Run: c02r3, Min: 1},
			{ID: "C02/R4", Run: c01r6, Min: 1},
			{ID: "C02/R5", Run: c17r3, Min: 1},
			{ID: "C16/R4", Run: c16r4, Min: 1},
		},
	})
}

func c02r1(c *core.Ctx) {
	a := GetAnchors(c)
	m := c.M
	tr := GetTableRoles(c)
	if len(a.PoolGet) == 0 || tr.Add == nil || tr.SetEntity == nil {
		c.Undecide("C02/R1", "roles", "pool-get / row-add roles not derivable")
		return
	}
	for _, f := range m.AllFuncs() {
		if f.Recv == "entityPool" {
			continue
		}
		core.InspectNoLits(f.Body, func(n ast.Node) bool {
			as, ok := n.(*ast.AssignStmt)
			if !ok || len(as.Lhs) != 1 || len(as.Rhs) != 1 {
				return true
			}
			call, ok := ast.Unparen(as.Rhs[0]).(*ast.CallExpr)
			if !ok {
				return true
			}
			if k, cal, _ := m.Callee(call); k != core.CallStatic || !a.PoolGet[cal] {
				return true
			}
			ent := m.ExprString(as.Lhs[0])
			subject := fmt.Sprintf("%s: %s := pool-get", f.Name, ent)
			placed := func(x ast.Node) bool {
				c2, ok := x.(*ast.CallExpr)
				if !ok {
					return false
				}
				if _, ok := callTo(m, c2, tr.Add); ok && m.ExprString(c2.Args[0]) == ent {
					return true
				}
				if _, ok := callTo(m, c2, tr.SetEntity); ok && m.ExprString(roleArg(m, tr.SetEntity, c2, "entity")) == ent {
					return true
				}
				return false
			}
			if followedOnAllPaths(m, f, as, placed) {
				c.OK("C02/R1", subject, c.At(as.Pos()), "the entity taken from the pool is placed into a table row on every path")
			} else {
				c.Violation("C02/R1", subject, c.At(as.Pos()), fmt.Sprintf("%s takes an entity from the pool but does not place it into a table row on every path; the handle would be counted alive without a row (or lost)", f.Name))
			}
			return true
		})
	}
	// stores to pool fields outside the pool's own code: its methods, and unexported helper functions that take the pool
	// as a parameter and are called from nowhere else than the pool's own code
	own := map[*core.Func]bool{}
	for _, f := range m.Funcs {
		if f.Recv == "entityPool" {
			own[f] = true
		}
	}
	for changed := true; changed; {
		changed = false
		for _, g := range m.Funcs {
			if own[g] || g.Sig == nil || g.Recv != "" || g.Exported() {
				continue
			}
			takesPool := false
			for i := 0; i < g.Sig.Params().Len(); i++ {
				if isPtrTo(g.Sig.Params().At(i).Type(), "entityPool") {
					takesPool = true
				}
			}
			if !takesPool {
				continue
			}
			callers, allOwn := 0, true
			for _, cs := range m.CallSites() {
				if cs.Callee == g {
					callers++
					if !own[cs.Caller] {
						allOwn = false
					}
				}
			}
			if callers > 0 && allOwn {
				own[g] = true
				changed = true
			}
		}
	}
	for _, f := range m.AllFuncs() {
		if own[f] {
			continue
		}
		core.InspectNoLits(f.Body, func(n ast.Node) bool {
			switch n.(type) {
			case *ast.AssignStmt, *ast.IncDecStmt:
			default:
				return true
			}
			for _, s := range m.DirectStores(f, n) {
				if !(s.Path.HasOwner("entityPool") || s.Path.Last() == "storage.entityPool") {
					continue
				}
				subject := fmt.Sprintf("%s writes %s", f.Name, s.Path.Last())
				isLoader := false
				if f.Sig != nil {
					for i := 0; i < f.Sig.Params().Len(); i++ {
						if isPtrTo(f.Sig.Params().At(i).Type(), "EntityDump") {
							isLoader = true
						}
					}
				}
				if isLoader {
					c.OK("C02/R1", subject, c.At(n.Pos()), "pool state restored by the dump loader (emptiness guard: C17/R3)")
				} else {
					c.Violation("C02/R1", subject, c.At(n.Pos()), fmt.Sprintf("%s writes entity-pool state outside the pool's own methods; handle uniqueness rests on the pool being changed only through get/recycle/reset", f.Name))
				}
			}
			return true
		})
	}
}

func c02r2(c *core.Ctx) {
	a := GetAnchors(c)
	m := c.M
	for f := range a.PoolRecycle {
		par := f.Sig.Params().At(0)
		bump := func(x ast.Node) bool {
			switch y := x.(type) {
			case *ast.IncDecStmt:
				if fieldKeyOf(m, y.X) == "Entity.gen" && strings.Contains(m.ExprString(y.X), par.Name()+".id") {
					return true
				}
			case *ast.AssignStmt:
				if (y.Tok == token.ADD_ASSIGN || y.Tok == token.SUB_ASSIGN) && len(y.Lhs) == 1 && fieldKeyOf(m, y.Lhs[0]) == "Entity.gen" && strings.Contains(m.ExprString(y.Lhs[0]), par.Name()+".id") {
					if tv, ok := m.Info.Types[y.Rhs[0]]; ok && tv.Value != nil && tv.Value.String() != "0" {
						return true
					}
				}
			}
			return false
		}
		// the link into the free list: store to entityPool.next
		var link ast.Node
		core.InspectNoLits(f.Body, func(n ast.Node) bool {
			if as, ok := n.(*ast.AssignStmt); ok {
				for _, l := range as.Lhs {
					if fieldKeyOf(m, l) == "entityPool.next" {
						link = as
					}
				}
			}
			return true
		})
		subject := f.Name + ": generation bump"
		if link == nil {
			c.Violation("C02/R2", subject, c.At(f.Pos()), f.Name+": does not link the recycled entry into the free list")
			continue
		}
		if precededOnAllPaths(m, f, link, bump) {
			c.OK("C02/R2", subject, c.At(f.Pos()), "the generation at the recycled id is changed by a non-zero constant before the entry is linked into the free list, on every path")
		} else {
			c.Violation("C02/R2", subject, c.At(link.Pos()), f.Name+": the entry is linked into the free list without its generation having been bumped on every path; a stale handle of the recycled id would read as alive")
		}
	}
	for f := range a.AliveTest {
		if f.Recv != "entityPool" {
			continue
		}
		par := f.Sig.Params().At(0)
		ok := false
		core.InspectNoLits(f.Body, func(n ast.Node) bool {
			be, isB := n.(*ast.BinaryExpr)
			if !isB || be.Op != token.EQL {
				return true
			}
			l, r := be.X, be.Y
			if fieldKeyOf(m, r) == "Entity.gen" && m.ExprString(ast.Unparen(r).(*ast.SelectorExpr).X) == par.Name() {
				l, r = r, l
			}
			if fieldKeyOf(m, l) != "Entity.gen" || fieldKeyOf(m, r) != "Entity.gen" {
				return true
			}
			// left: the handle's own generation; right: the generation of the pool entry selected by the handle's id
			lsel, isSel := ast.Unparen(l).(*ast.SelectorExpr)
			if !isSel {
				return true
			}
			if id, isID := ast.Unparen(lsel.X).(*ast.Ident); !isID || m.Info.ObjectOf(id) != par {
				return true
			}
			usesID, usesPool := false, false
			ast.Inspect(r, func(y ast.Node) bool {
				if sel, isS := y.(*ast.SelectorExpr); isS {
					switch fieldKeyOf(m, sel) {
					case "Entity.id":
						if id, isID := ast.Unparen(sel.X).(*ast.Ident); isID && m.Info.ObjectOf(id) == par {
							usesID = true
						}
					case "entityPool.pointer", "entityPool.entities":
						usesPool = true
					}
				}
				return true
			})
			if usesID && usesPool {
				ok = true
			}
			return true
		})
		subject := f.Name + ": liveness test"
		if ok {
			c.OK("C02/R2", subject, c.At(f.Pos()), "compares the handle's generation with the generation stored at the handle's id in pool memory")
		} else {
			c.Violation("C02/R2", subject, c.At(f.Pos()), f.Name+": liveness is not decided by comparing the handle's generation with the pool entry at the handle's id")
		}
	}
}

func c02r3(c *core.Ctx) {
	a := GetAnchors(c)
	m := c.M
	tr := GetTableRoles(c)
	if tr.Remove == nil || tr.Reset == nil || tr.GetEntity == nil {
		c.Undecide("C02/R3", "roles", "not derivable")
		return
	}
	for _, f := range m.AllFuncs() {
		if f.Recv == "entityPool" {
			continue
		}
		core.InspectNoLits(f.Body, func(n ast.Node) bool {
			call, ok := n.(*ast.CallExpr)
			if !ok {
				return true
			}
			if k, cal, _ := m.Callee(call); k != core.CallStatic || !a.PoolRecycle[cal] {
				return true
			}
			ent := m.ExprString(call.Args[0])
			subject := fmt.Sprintf("%s: recycle(%s)", f.Name, ent)
			okRow, why := false, ""
			// idiom 1: index := &entities[ent.id]; table.Remove(index.row)
			core.InspectNoLits(f.Body, func(x ast.Node) bool {
				c2, isC := x.(*ast.CallExpr)
				if !isC {
					return true
				}
				if _, isR := callTo(m, c2, tr.Remove); !isR {
					return true
				}
				// the row argument: <index>.row with <index> defined from entities[ent.id]
				sel, isS := m.StripConv(m.Inline(m.StripConv(c2.Args[0]))).(*ast.SelectorExpr)
				if !isS || fieldKeyOf(m, sel) != "entityIndex.row" {
					return true
				}
				src := sel.X
				if id, isID := ast.Unparen(src).(*ast.Ident); isID {
					if v, okv := m.Info.ObjectOf(id).(*types.Var); okv {
						for _, d := range localDefsOf(m, f, v) {
							src = d
						}
					}
				}
				s := m.ExprString(src)
				if strings.Contains(s, "entities["+ent+".id]") {
					okRow, why = true, "the row stored in the entity index for "+ent+" is swap-removed"
				}
				return true
			})
			// idiom 2: ent := T.GetEntity(i) in a loop; T.Reset() after the loop
			if !okRow {
				if id, isID := ast.Unparen(call.Args[0]).(*ast.Ident); isID {
					if v, okv := m.Info.ObjectOf(id).(*types.Var); okv {
						for _, d := range localDefsOf(m, f, v) {
							if c2, isC := ast.Unparen(d).(*ast.CallExpr); isC {
								if rv, isG := callTo(m, c2, tr.GetEntity); isG && rv != nil {
									T := m.ExprString(rv)
									core.InspectNoLits(f.Body, func(x ast.Node) bool {
										if c3, isC3 := x.(*ast.CallExpr); isC3 && c3.Pos() > call.Pos() {
											if rv3, isR := callTo(m, c3, tr.Reset); isR && rv3 != nil && m.ExprString(rv3) == T {
												okRow, why = true, "every row of "+T+" is recycled in the loop and the table is reset afterwards"
											}
										}
										return true
									})
								}
							}
						}
					}
				}
			}
			if okRow {
				c.OK("C02/R3", subject, c.At(call.Pos()), why)
			} else {
				c.Violation("C02/R3", subject, c.At(call.Pos()), fmt.Sprintf("%s recycles %s but does not remove that entity's own row (the row stored in the entity index for it, or all rows of a table that is then reset); an alive entity would lose its id, or a dead one keep a row", f.Name, ent))
			}
			return true
		})
	}
}
