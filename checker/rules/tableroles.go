package rules

import (
	"go/ast"
	"go/types"

	"arkverif/checker/core"
)

// TableRoles are the roles of methods of type table, derived from signatures and field effects (not names).
type TableRoles struct {
	Remove     *core.Func   // (uint32) bool, decrements len
	Add        *core.Func   // (Entity) uint32
	SetEntity  *core.Func   // (uint32, Entity)
	Set        *core.Func   // (ID, uint32, *column, uint32)
	CopyAll    *core.Func   // (*table, uint32, uint32)
	AddAll     []*core.Func // (*table, uint32): bulk adds
	Reset      *core.Func   // empties the receiver
	GetEntity  *core.Func   // (uintptr) Entity
	LenMutators map[*core.Func]bool
}

func isNamed(t types.Type, name string) bool { return core.NamedName(t) == name }

func isInt(t types.Type) bool {
	b, ok := t.Underlying().(*types.Basic)
	return ok && b.Info()&types.IsInteger != 0
}

func isPtrTo(t types.Type, name string) bool {
	p, ok := t.(*types.Pointer)
	return ok && core.NamedName(p.Elem()) == name
}

var tableRolesCache = map[*core.Model]*TableRoles{}

// GetTableRoles derives the table method roles for the model.
func GetTableRoles(c *core.Ctx) *TableRoles {
	if r, ok := tableRolesCache[c.M]; ok {
		return r
	}
	m := c.M
	r := &TableRoles{LenMutators: map[*core.Func]bool{}}
	em := emptiers(c)
	for _, f := range m.Funcs {
		if f.Recv != "table" || f.Sig == nil {
			continue
		}
		ps, rs := f.Sig.Params(), f.Sig.Results()
		for _, s := range c.Eff.Stores(f) {
			if s.Path.Kind == core.RootParam && s.Path.Index == -1 && s.Path.Last() == "table.len" {
				r.LenMutators[f] = true
			}
		}
		switch {
		case ps.Len() == 1 && isInt(ps.At(0).Type()) && rs.Len() == 1 && returnsBool(f) && r.LenMutators[f]:
			r.Remove = f
		case ps.Len() == 1 && isNamed(ps.At(0).Type(), "Entity") && rs.Len() == 1 && isInt(rs.At(0).Type()):
			r.Add = f
		case ps.Len() == 2 && isInt(ps.At(0).Type()) && isNamed(ps.At(1).Type(), "Entity") && rs.Len() == 0:
			r.SetEntity = f
		case ps.Len() == 4 && isNamed(ps.At(0).Type(), "ID") && isInt(ps.At(1).Type()) && isPtrTo(ps.At(2).Type(), "column") && isInt(ps.At(3).Type()):
			r.Set = f
		case ps.Len() == 3 && isPtrTo(ps.At(0).Type(), "table") && isInt(ps.At(1).Type()) && isInt(ps.At(2).Type()) && rs.Len() == 0:
			r.CopyAll = f
		case ps.Len() == 2 && isPtrTo(ps.At(0).Type(), "table") && isInt(ps.At(1).Type()) && rs.Len() == 0:
			r.AddAll = append(r.AddAll, f)
		case ps.Len() == 1 && isInt(ps.At(0).Type()) && rs.Len() == 1 && isNamed(rs.At(0).Type(), "Entity"):
			r.GetEntity = f
		}
		for _, pi := range em[f] {
			if pi == -1 && ps.Len() == 0 && rs.Len() == 0 {
				r.Reset = f
			}
		}
	}
	tableRolesCache[c.M] = r
	return r
}

// missing lists the roles that could not be derived.
func (r *TableRoles) missing() []string {
	var out []string
	chk := func(name string, f *core.Func) {
		if f == nil {
			out = append(out, name)
		}
	}
	chk("table row-remove", r.Remove)
	chk("table row-add", r.Add)
	chk("table set-entity", r.SetEntity)
	chk("table column-set", r.Set)
	chk("table copy-all", r.CopyAll)
	chk("table reset", r.Reset)
	chk("table get-entity", r.GetEntity)
	if len(r.AddAll) == 0 {
		out = append(out, "table bulk-add")
	}
	return out
}

// callTo reports whether call statically calls f, returning the receiver expression.
func callTo(m *core.Model, call *ast.CallExpr, f *core.Func) (ast.Expr, bool) {
	if f == nil {
		return nil, false
	}
	k, cal, _ := m.Callee(call)
	if k != core.CallStatic || cal != f {
		return nil, false
	}
	if sel, ok := ast.Unparen(call.Fun).(*ast.SelectorExpr); ok {
		return sel.X, true
	}
	return nil, true
}

// tableIDExpr returns the canonical string of the id of the table designated by expression t inside f:
// X.tables[ID] -> ID; a local defined as &X.tables[ID] (all definitions agree) -> ID; otherwise t + ".id".
func tableIDExpr(m *core.Model, f *core.Func, t ast.Expr) string {
	t = ast.Unparen(t)
	if u, ok := t.(*ast.UnaryExpr); ok {
		t = ast.Unparen(u.X)
	}
	if ix, ok := t.(*ast.IndexExpr); ok {
		if sel, ok := ast.Unparen(ix.X).(*ast.SelectorExpr); ok {
			if fld := m.FieldOf(sel); fld != nil && m.FieldKey(fld) == "storage.tables" {
				return m.ExprString(ix.Index)
			}
		}
	}
	return m.ExprString(t) + ".id"
}

// tableIDAlternatives returns all canonical id strings equivalent to the id of table expression t in f
// (the expression itself plus the index expressions of its definitions when t is a local).
func tableIDAlternatives(m *core.Model, f *core.Func, t ast.Expr) map[string]bool {
	out := map[string]bool{tableIDExpr(m, f, t): true}
	if id, ok := ast.Unparen(t).(*ast.Ident); ok {
		if v, ok := m.Info.ObjectOf(id).(*types.Var); ok {
			for _, d := range localDefsOf(m, f, v) {
				s := tableIDExpr(m, f, d)
				if s != m.ExprString(d)+".id" {
					out[s] = true
				}
			}
			out[id.Name+".id"] = true
		}
	}
	return out
}
