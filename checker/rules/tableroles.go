package rules

import (
	"go/ast"
	"go/token"
	"go/types"
	"strings"

	"arkverif/checker/core"
)

// TableRoles are the roles of methods of type table, derived from signatures and field effects (not names).
type TableRoles struct {
	Remove      *core.Func   // (uint32) bool, decrements len
	Add         *core.Func   // (Entity) uint32
	SetEntity   *core.Func   // (uint32, Entity)
	Set         *core.Func   // (ID, uint32, *column, uint32)
	CopyAll     *core.Func   // (*table, uint32, uint32)
	AddAll      []*core.Func // (*table, uint32): bulk adds
	Reset       *core.Func   // empties the receiver
	GetEntity   *core.Func   // (uintptr) Entity
	LenMutators map[*core.Func]bool
}

func isNamed(t types.Type, name string) bool { return core.NamedName(t) == name }

func isInt(t types.Type) bool {
	b, ok := t.Underlying().(*types.Basic)
	return ok && b.Info()&types.IsInteger != 0
}

func isPtrTo(t types.Type, name string) bool {
	p, ok := t.(*types.Pointer)
	return ok && core.NamedName(p.Elem()) == name
}

var tableRolesCache = map[*core.Model]*TableRoles{}

// GetTableRoles derives the table method roles for the model.
func GetTableRoles(c *core.Ctx) *TableRoles {
	if r, ok := tableRolesCache[c.M]; ok {
		return r
	}
	m := c.M
	r := &TableRoles{LenMutators: map[*core.Func]bool{}}
	em := emptiers(c)
	for _, f := range m.Funcs {
		if f.Recv != "table" || f.Sig == nil {
			continue
		}
		ps, rs := f.Sig.Params(), f.Sig.Results()
		for _, s := range c.Eff.Stores(f) {
			if s.Path.Kind == core.RootParam && s.Path.Index == -1 && s.Path.Last() == "table.len" {
				r.LenMutators[f] = true
			}
		}
		// the roles are recognised by the multiset of parameter kinds, not by parameter order
		// (scalars bundled into a small struct parameter count as the scalars they are)
		kinds := map[string][]int{}
		fps := flatParams(f.Sig)
		for i, fp := range fps {
			kinds[fp.kind] = append(kinds[fp.kind], i)
		}
		has := func(want map[string]int) bool {
			n := 0
			for k, cnt := range want {
				if len(kinds[k]) != cnt {
					return false
				}
				n += cnt
			}
			return n == len(fps)
		}
		switch {
		case has(map[string]int{"int": 1}) && rs.Len() == 1 && returnsBool(f) && r.LenMutators[f]:
			r.Remove = f
		case has(map[string]int{"Entity": 1}) && rs.Len() == 1 && isInt(rs.At(0).Type()):
			r.Add = f
		case has(map[string]int{"int": 1, "Entity": 1}) && rs.Len() == 0:
			r.SetEntity = f
		case has(map[string]int{"ID": 1, "int": 2, "*column": 1}):
			r.Set = f
		case has(map[string]int{"*table": 1, "int": 2}) && rs.Len() == 0:
			r.CopyAll = f
		case has(map[string]int{"*table": 1, "int": 1}) && rs.Len() == 0:
			r.AddAll = append(r.AddAll, f)
		case has(map[string]int{"int": 1}) && rs.Len() == 1 && isNamed(rs.At(0).Type(), "Entity"):
			r.GetEntity = f
		}
		for _, pi := range em[f] {
			if pi == -1 && ps.Len() == 0 && rs.Len() == 0 {
				r.Reset = f
			}
		}
	}
	tableRolesCache[c.M] = r
	return r
}

// paramKind classifies a parameter type for role recognition.
func paramKind(t types.Type) string {
	switch {
	case isNamed(t, "Entity"):
		return "Entity"
	case isNamed(t, "ID"):
		return "ID"
	case isPtrTo(t, "table"):
		return "*table"
	case isPtrTo(t, "column"):
		return "*column"
	case isInt(t):
		return "int"
	}
	return "other:" + t.String()
}

// roleArg returns the argument of a call of role function f that fills the named slot. Slots: "entity", "comp",
// "src" (the other table), "srcCol", "row"/"dstRow" (first integer parameter), "srcRow"/"count" (the second integer
// parameter, or the only one for "count"). Independent of the order in which the function declares its parameters,
// except for the relative order of the two row parameters (destination first), which is the convention of every
// copy function of the package.
func roleArg(m *core.Model, f *core.Func, call *ast.CallExpr, slot string) ast.Expr {
	if f == nil || f.Sig == nil {
		return nil
	}
	fps := flatParams(f.Sig)
	var ints []int
	idx := -1
	for i, fp := range fps {
		switch k := fp.kind; {
		case k == "int":
			ints = append(ints, i)
		case k == "Entity" && slot == "entity", k == "ID" && slot == "comp", k == "*table" && slot == "src", k == "*column" && slot == "srcCol":
			idx = i
		}
	}
	switch slot {
	case "row", "dstRow":
		if len(ints) >= 1 {
			idx = ints[0]
		}
	case "srcRow":
		if len(ints) >= 2 {
			idx = ints[1]
		}
	case "count":
		if len(ints) >= 1 {
			idx = ints[len(ints)-1]
		}
	}
	if idx < 0 || idx >= len(fps) || fps[idx].param >= len(call.Args) {
		return nil
	}
	arg := call.Args[fps[idx].param]
	if fps[idx].field == nil {
		return arg
	}
	// a field of a bundled argument: the element of the struct literal that is passed (directly, through a naming
	// local or a constructor that merely names the literal)
	x := ast.Unparen(arg)
	if _, isLit := x.(*ast.CompositeLit); !isLit {
		x = ast.Unparen(m.InlineLocals(arg))
		if _, isLit := x.(*ast.CompositeLit); !isLit {
			x = ast.Unparen(m.Inline(arg))
		}
	}
	if cl, ok := x.(*ast.CompositeLit); ok {
		for _, el := range structLitElems(m, cl) {
			if el.key == m.FieldKey(fps[idx].field.Origin()) {
				return el.val
			}
		}
	}
	return nil
}

// flatParam is one scalar of a signature: a parameter, or a field of a parameter that bundles scalars in a small
// struct of the package.
type flatParam struct {
	param int
	field *types.Var
	kind  string
}

func flatParams(sig *types.Signature) []flatParam {
	var out []flatParam
	ps := sig.Params()
	for i := 0; i < ps.Len(); i++ {
		t := ps.At(i).Type()
		k := paramKind(t)
		if strings.HasPrefix(k, "other:") {
			if nt, ok := t.(*types.Named); ok && nt.Obj().Pkg() != nil && ps.At(i).Pkg() == nt.Obj().Pkg() {
				if st, ok := nt.Underlying().(*types.Struct); ok && st.NumFields() > 0 && st.NumFields() <= 4 {
					var sub []flatParam
					simple := true
					for j := 0; j < st.NumFields(); j++ {
						fk := paramKind(st.Field(j).Type())
						if strings.HasPrefix(fk, "other:") {
							simple = false
						}
						sub = append(sub, flatParam{i, st.Field(j), fk})
					}
					if simple {
						out = append(out, sub...)
						continue
					}
				}
			}
		}
		out = append(out, flatParam{i, nil, k})
	}
	return out
}

// missing lists the roles that could not be derived.
func (r *TableRoles) missing() []string {
	var out []string
	chk := func(name string, f *core.Func) {
		if f == nil {
			out = append(out, name)
		}
	}
	chk("table row-remove", r.Remove)
	chk("table row-add", r.Add)
	chk("table set-entity", r.SetEntity)
	chk("table column-set", r.Set)
	chk("table copy-all", r.CopyAll)
	chk("table reset", r.Reset)
	chk("table get-entity", r.GetEntity)
	if len(r.AddAll) == 0 {
		out = append(out, "table bulk-add")
	}
	return out
}

// callTo reports whether call statically calls f, returning the receiver expression.
func callTo(m *core.Model, call *ast.CallExpr, f *core.Func) (ast.Expr, bool) {
	if f == nil {
		return nil, false
	}
	k, cal, _ := m.Callee(call)
	if k != core.CallStatic || cal != f {
		return nil, false
	}
	if sel, ok := ast.Unparen(call.Fun).(*ast.SelectorExpr); ok {
		return sel.X, true
	}
	return nil, true
}

// tableIDExpr returns the canonical string of the id of the table designated by expression t inside f:
// X.tables[ID] -> ID; a local defined as &X.tables[ID] (all definitions agree) -> ID; otherwise t + ".id".
func tableIDExpr(m *core.Model, f *core.Func, t ast.Expr) string {
	t = ast.Unparen(m.Inline(ast.Unparen(t)))
	if u, ok := t.(*ast.UnaryExpr); ok {
		t = ast.Unparen(u.X)
	}
	if ix, ok := t.(*ast.IndexExpr); ok {
		if sel, ok := ast.Unparen(ix.X).(*ast.SelectorExpr); ok {
			if fld := m.FieldOf(sel); fld != nil && m.FieldKey(fld) == "storage.tables" {
				return m.ExprString(ix.Index)
			}
		}
	}
	return m.BaseString(t) + ".id"
}

// tableIDAlternatives returns all canonical id strings equivalent to the id of table expression t in f
// (the expression itself plus the index expressions of its definitions when t is a local).
func tableIDAlternatives(m *core.Model, f *core.Func, t ast.Expr) map[string]bool {
	out := map[string]bool{tableIDExpr(m, f, t): true}
	{
		// the id field read through the table expression itself (locals resolved, address-of dropped)
		b := ast.Unparen(m.Inline(ast.Unparen(t)))
		if u, ok := b.(*ast.UnaryExpr); ok && u.Op == token.AND {
			b = u.X
		}
		out[m.ExprString(b)+".id"] = true
	}
	if id, ok := ast.Unparen(t).(*ast.Ident); ok {
		if v, ok := m.Info.ObjectOf(id).(*types.Var); ok {
			for _, d := range localDefsOf(m, f, v) {
				s := tableIDExpr(m, f, d)
				if s != m.ExprString(d)+".id" {
					out[s] = true
				}
			}
			out[id.Name+".id"] = true
		}
	}
	return out
}
