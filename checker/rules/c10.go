package rules

import (
	"fmt"
	"go/ast"
	"go/types"
	"strings"

	"golang.org/x/tools/go/cfg"

	"arkverif/checker/core"
)

func init() {
	register(&Property{
		ID:    "C10",
		Level: "other",
		Explanation: "Structural necessary conditions of 'precondition violations are rejected, not absorbed', decided on every path of the current source: " +
			"(R1) for every exported operation with an entity-handle parameter, every use of that handle's id as an index into the entity index, the target flags or the pool, in the operation or in any callee that receives the handle, is dominated by a liveness test of that same handle (documented ...Unchecked accessors are listed as exemptions); " +
			"(R2) the lock test comes first (C07/R1); (R3) inside operations reachable from those entry points, and from the exported single-entity operations that take an entity from the pool, no path leads from a store into row/pool/entity-index/target-flag state to an explicit library panic, except the internal assertions listed with reasons; " +
			"(R4) the graph search tests a component's mask bit (panicking on duplicate/missing) before flipping it. " +
			"(R5 = C04/R6) a dead relation target is rejected: relation targets are compared as whole entities and the per-target table lookup returns a table only after it matched the requested relations, so that an unknown or recycled target falls through to the validating table creation. Not decided: full state equality after recover; batch operations.",
		TrustedBase: []string{"go/types, go/cfg", "anchor table (DESIGN.md §2.3)", "role derivation: alive-test = bool function comparing Entity.gen with pool memory without stores"},
		Rules: []Rule{
			{ID: "C10/R1", Run: c10r1, Min: 1},
			{ID: "C10/R3", Run: c10r3, Min: 1},
			{ID: "C10/R4", Run: c10r4, Min: 1},
			{ID: "C04/R6", Run: c04r6, Min: 1},
		},
	})
}

// entityIndexed reports index expressions X[e.id] where X is the entity index, the target flags or pool memory.
func entityIndexUse(m *core.Model, f *core.Func, n ast.Node, param *types.Var) (string, bool) {
	ix, ok := n.(*ast.IndexExpr)
	if !ok {
		return "", false
	}
	idx := m.StripConv(ix.Index)
	sel, ok := idx.(*ast.SelectorExpr)
	if !ok {
		return "", false
	}
	id, ok := ast.Unparen(sel.X).(*ast.Ident)
	if !ok || m.Info.ObjectOf(id) != param {
		return "", false
	}
	if fld := m.FieldOf(sel); fld == nil || m.FieldKey(fld) != "Entity.id" {
		return "", false
	}
	p := m.AccessPath(f, ix.X)
	for _, k := range []string{"storage.entities", "storage.isTarget", "entityPool.entities"} {
		if p.Has(k) {
			return k, true
		}
	}
	return "", false
}

type aliveSummary struct {
	must      bool
	unguarded []core.Witness
	done      bool
}

type aliveAnalysis struct {
	c    *core.Ctx
	a    *Anchors
	memo map[string]*aliveSummary
}

func (aa *aliveAnalysis) analyze(f *core.Func, pi int) *aliveSummary {
	key := fmt.Sprintf("%p/%d", f, pi)
	if s, ok := aa.memo[key]; ok {
		return s
	}
	sum := &aliveSummary{}
	aa.memo[key] = sum // pessimistic during recursion: must=false, no witnesses
	m := aa.c.M
	if f.Sig == nil || pi >= f.Sig.Params().Len() {
		sum.done = true
		return sum
	}
	param := f.Sig.Params().At(pi)
	if aa.a.AliveTest[f] {
		sum.must, sum.done = false, true
		return sum
	}
	isParam := func(e ast.Expr) bool {
		id, ok := ast.Unparen(e).(*ast.Ident)
		return ok && m.Info.ObjectOf(id) == param
	}
	var wit []core.Witness
	seen := map[string]bool{}
	transfer := func(s bool, n ast.Node, report bool) bool {
		core.WalkEval(n, func(x ast.Node, cond bool) {
			if !s && report {
				if what, ok := entityIndexUse(m, f, x, param); ok {
					k := fmt.Sprint(x.Pos())
					if !seen[k] {
						seen[k] = true
						wit = append(wit, core.Witness{What: "index of " + what + " by " + param.Name() + ".id", Node: x, Deep: x})
					}
				}
			}
			if call, ok := x.(*ast.CallExpr); ok {
				if k, cal, _ := m.Callee(call); (k == core.CallStatic) && cal != nil && !aa.a.AliveTest[cal] {
					for ai, arg := range call.Args {
						if !isParam(arg) {
							continue
						}
						if cal.Sig != nil && cal.Sig.Variadic() && ai >= cal.Sig.Params().Len()-1 {
							continue
						}
						cs := aa.analyze(cal, ai)
						if !s && report {
							for _, w := range cs.unguarded {
								k := fmt.Sprintf("%d/%d", call.Pos(), w.Deep.Pos())
								if !seen[k] {
									seen[k] = true
									wit = append(wit, core.Witness{What: w.What, Node: call, Deep: w.Deep, Chain: append([]string{cal.Name}, w.Chain...)})
								}
							}
						}
						if cs.must && !cond {
							s = true
						}
					}
				}
			}
		})
		return s
	}
	g := m.CFG(f)
	flow := core.Flow[bool]{
		Entry: false,
		Join:  func(a, b bool) bool { return a && b },
		Equal: func(a, b bool) bool { return a == b },
		Node:  func(s bool, _ *cfg.Block, n ast.Node) bool { return transfer(s, n, false) },
		Edge: func(s bool, b *cfg.Block, succ int) (bool, bool) {
			if s {
				return s, true
			}
			if c := core.BlockCond(b); c != nil {
				for _, at := range core.Assume(c, succ == 0) {
					if !at.Truth {
						continue
					}
					call, ok := ast.Unparen(at.Expr).(*ast.CallExpr)
					if !ok || len(call.Args) != 1 || !isParam(call.Args[0]) {
						continue
					}
					if k, cal, _ := m.Callee(call); k == core.CallStatic && aa.a.AliveTest[cal] {
						return true, true
					}
				}
			}
			return s, true
		},
	}
	fr := core.Forward(g, flow)
	must, anyExit := true, false
	for _, b := range g.Blocks {
		if !fr.Reached[b] {
			continue
		}
		s := fr.In[b]
		for _, n := range b.Nodes {
			s = transfer(s, n, true)
		}
		if m.IsReturnExit(b) {
			anyExit = true
			if !fr.Out[b] {
				must = false
			}
		}
	}
	if !anyExit {
		must = true
	}
	sum.must, sum.unguarded, sum.done = must, wit, true
	return sum
}

func c10r1(c *core.Ctx) {
	a := GetAnchors(c)
	if len(a.AliveTest) == 0 {
		c.Undecide("C10/R1", "role alive-test", "no function derived")
		return
	}
	aa := &aliveAnalysis{c: c, a: a, memo: map[string]*aliveSummary{}}
	for _, f := range c.M.Funcs {
		if !f.Exported() || f.Sig == nil {
			continue
		}
		for i := 0; i < f.Sig.Params().Len(); i++ {
			p := f.Sig.Params().At(i)
			if core.NamedName(p.Type()) != "Entity" {
				continue
			}
			if _, isPtr := p.Type().(*types.Pointer); isPtr {
				continue
			}
			if f.Sig.Variadic() && i == f.Sig.Params().Len()-1 {
				continue // relation targets: C04/R5
			}
			subject := fmt.Sprintf("%s(%s)", f.Name, p.Name())
			if strings.HasSuffix(f.Obj.Name(), "Unchecked") {
				c.Info("C10/R1", subject, c.At(f.Pos()), "exempt: documented contract of ...Unchecked accessors (no liveness check by design)")
				continue
			}
			if a.AliveTest[f] {
				continue
			}
			sum := aa.analyze(f, i)
			if len(sum.unguarded) == 0 {
				c.OK("C10/R1", subject, c.At(f.Pos()), "every index by the handle's id is dominated by a liveness test of that handle")
				continue
			}
			w := sum.unguarded[0]
			c.Violation("C10/R1", subject, c.At(w.Node.Pos()),
				fmt.Sprintf("%s: %s at %s is not dominated by a liveness test of %s (a removed or recycled handle is absorbed)", f.Name, w.What, c.At(w.Deep.Pos()), p.Name()),
				"via "+strings.Join(append([]string{f.Name}, w.Chain...), " -> "))
		}
	}
}

// assertionExempt classifies a panic that is reachable after an effect as an internal assertion (DESIGN.md §4):
// by the role of the function containing it or of a function on the path to it, never by name.
func assertionExempt(c *core.Ctx, a *Anchors, observer *core.Func, chain []string, deepFn *core.Func) string {
	m := c.M
	if deepFn != nil {
		if a.PoolRecycle[deepFn] {
			return "pool-recycle role: reserved entries carry generation MaxUint32, which no handle that passed the liveness test has"
		}
		if a.Release[deepFn] {
			return "release role: the token comes from the paired acquire (C07/R3)"
		}
		// functions reached from the acquire role (bit pool exhausted): a resource limit, not a precondition of the call
		for acq := range a.Acquire {
			if acq.Recv == "lock" && reaches(m, acq, deepFn, 3) {
				return "reached from the acquire role: 64 simultaneous locks exhausted is a resource limit, not a precondition"
			}
		}
	}
	cleanup := cleanupRole(c)
	through := cleanup[observer]
	for _, ch := range chain {
		for f := range cleanup {
			if f.Name == ch {
				through = true
			}
		}
	}
	if through {
		return "reached through the target cleanup: its relation lists are the freed table's own complete relations (rule C04/R8 keeps target validation out of it)"
	}
	return ""
}

func reaches(m *core.Model, from, to *core.Func, depth int) bool {
	if from == to {
		return true
	}
	if depth == 0 {
		return false
	}
	found := false
	core.InspectNoLits(from.Body, func(n ast.Node) bool {
		if call, ok := n.(*ast.CallExpr); ok && !found {
			if k, cal, _ := m.Callee(call); k == core.CallStatic && reaches(m, cal, to, depth-1) {
				found = true
			}
		}
		return !found
	})
	return found
}

func c10r3(c *core.Ctx) {
	a := GetAnchors(c)
	m := c.M
	// operations reachable from exported entry points that take an entity handle
	reach := map[*core.Func]bool{}
	var visit func(f *core.Func)
	visit = func(f *core.Func) {
		if reach[f] {
			return
		}
		reach[f] = true
		core.InspectNoLits(f.Body, func(n ast.Node) bool {
			if call, ok := n.(*ast.CallExpr); ok {
				if k, cal, _ := m.Callee(call); k == core.CallStatic {
					visit(cal)
				}
			}
			return true
		})
	}
	roots := 0
	for _, f := range m.Funcs {
		if !f.Exported() || f.Sig == nil {
			continue
		}
		for i := 0; i < f.Sig.Params().Len(); i++ {
			if core.NamedName(f.Sig.Params().At(i).Type()) == "Entity" && !(f.Sig.Variadic() && i == f.Sig.Params().Len()-1) && !hasBatchParam(f) {
				roots++
				visit(f)
				break
			}
		}
	}
	// ... and the exported single-entity operations that create an entity (they take one from the pool, directly or in
	// a callee): a creation that is rejected must not have consumed a pool entry either
	var takesFromPool func(f *core.Func, seen map[*core.Func]bool) bool
	takesFromPool = func(f *core.Func, seen map[*core.Func]bool) bool {
		if a.PoolGet[f] {
			return true
		}
		if seen[f] || f.Body == nil {
			return false
		}
		seen[f] = true
		found := false
		core.InspectNoLits(f.Body, func(n ast.Node) bool {
			if call, ok := n.(*ast.CallExpr); ok && !found {
				if k, cal, _ := m.Callee(call); k == core.CallStatic && takesFromPool(cal, seen) {
					found = true
				}
			}
			return !found
		})
		return found
	}
	for _, f := range m.Funcs {
		if !f.Exported() || f.Sig == nil || reach[f] || hasBatchParam(f) || f.Recv == "entityPool" {
			continue
		}
		if takesFromPool(f, map[*core.Func]bool{}) {
			roots++
			visit(f)
		}
	}
	spec := core.OrderSpec{
		IsA: func(f *core.Func, n ast.Node) string {
			switch n.(type) {
			case *ast.AssignStmt, *ast.IncDecStmt, *ast.CallExpr:
			default:
				return ""
			}
			for _, s := range m.DirectStores(f, n) {
				if cls, key := Classify(s.Path); cls == ClsRow || cls == ClsTarget {
					return "store to " + key
				}
			}
			return ""
		},
		IsB: func(f *core.Func, n ast.Node) string {
			call, ok := n.(*ast.CallExpr)
			if !ok || !m.IsBuiltin(call, "panic") {
				return ""
			}
			msg := "panic"
			if len(call.Args) == 1 {
				if s, ok := m.ConstString(call.Args[0]); ok {
					msg = "panic(" + fmt.Sprintf("%.40q", s) + ")"
				}
			}
			return msg
		},
	}
	res := m.NeverAfter(spec)
	bad := map[*core.Func]bool{}
	for _, v := range res.Violations {
		if !reach[v.Func] {
			continue
		}
		deep := v.Func.Name
		if len(v.B.Chain) > 0 {
			deep = v.B.Chain[len(v.B.Chain)-1]
		}
		key := v.Func.Name + " -> " + deep
		var deepFn *core.Func
		if n := m.EnclosingFunc(v.B.Deep.Pos()); n != nil {
			deepFn = n
			for deepFn.Lit != nil && deepFn.Parent != nil {
				deepFn = deepFn.Parent
			}
		}
		if why := assertionExempt(c, a, v.Func, v.B.Chain, deepFn); why != "" {
			c.Info("C10/R3", key, c.At(v.B.Node.Pos()), "assertion exemption: "+why)
			continue
		}
		bad[v.Func] = true
		c.Violation("C10/R3", key, c.At(v.B.Node.Pos()),
			fmt.Sprintf("%s: %s (at %s) is reachable after %s (at %s); a rejected call would leave a partial effect", v.Func.Name, v.B.What, c.At(v.B.Deep.Pos()), v.A.What, c.At(v.A.Deep.Pos())),
			"effect via "+strings.Join(append([]string{v.Func.Name}, v.A.Chain...), " -> "), "panic via "+strings.Join(append([]string{v.Func.Name}, v.B.Chain...), " -> "))
	}
	n := 0
	for f := range reach {
		if f.Lit != nil || bad[f] {
			continue
		}
		if res.MayA[f] != nil && res.MayB[f] != nil {
			n++
			c.OK("C10/R3", f.Name, c.At(f.Pos()), "no explicit panic is reachable after a store into row/pool/index/target-flag state")
		}
	}
	if roots == 0 {
		c.Undecide("C10/R3", "roots", "no exported operation with an entity parameter")
	}
}

// c10r4: the graph search tests the mask bit before flipping it.
func c10r4(c *core.Ctx) {
	m := c.M
	found := 0
	for _, f := range m.Funcs {
		if f.Recv != "graph" || f.Sig == nil {
			continue
		}
		// mask parameters of pointer-to-mask type that the function flips
		for i := 0; i < f.Sig.Params().Len(); i++ {
			pv := f.Sig.Params().At(i)
			if !isMaskPtr(pv.Type()) {
				continue
			}
			flips := 0
			core.InspectNoLits(f.Body, func(n ast.Node) bool {
				if call, ok := n.(*ast.CallExpr); ok {
					if isMaskOp(m, call, pv, "Set") || isMaskOp(m, call, pv, "Clear") {
						flips++
					}
				}
				return true
			})
			if flips == 0 {
				continue
			}
			found++
			for _, op := range []struct {
				name  string
				truth bool
			}{{"Set", false}, {"Clear", true}} {
				spec := core.GuardSpec{
					GuardAtom: func(ff *core.Func, at core.Atom) bool {
						call, ok := ast.Unparen(at.Expr).(*ast.CallExpr)
						return ok && at.Truth == op.truth && isMaskOp(m, call, pv, "Get")
					},
					Needs: func(ff *core.Func, x ast.Node) []core.Witness {
						if call, ok := x.(*ast.CallExpr); ok && ff == f && isMaskOp(m, call, pv, op.name) {
							return []core.Witness{{What: pv.Name() + "." + op.name}}
						}
						return nil
					},
					SkipCallee: func(*core.Func) bool { return true },
				}
				ws := guardLoopAware(m, f, spec)
				for _, w := range ws {
					c.Violation("C10/R4", f.Name+" "+op.name, c.At(w.Node.Pos()),
						fmt.Sprintf("%s flips a component bit with %s without first testing it (a duplicate / missing component would be absorbed instead of rejected)", f.Name, w.What))
				}
				if len(ws) == 0 {
					c.OK("C10/R4", f.Name+" "+op.name, c.At(f.Pos()), "every flip of a component bit is dominated by the opposite test of that bit with a panic on the other branch")
				}
			}
		}
	}
	if found == 0 {
		c.Undecide("C10/R4", "graph search", "no graph method flipping bits of a mask parameter found")
	}
}

// guardLoopAware: K1 in one function where the guard must be re-established after each need (per loop iteration).
func guardLoopAware(m *core.Model, f *core.Func, spec core.GuardSpec) []core.Witness {
	inner := spec.Needs
	// after a need is satisfied the guard is consumed: model by killing the guard at the need node
	var out []core.Witness
	g := m.CFG(f)
	transfer := func(s bool, n ast.Node, report bool) bool {
		core.WalkEval(n, func(x ast.Node, cond bool) {
			ws := inner(f, x)
			if len(ws) > 0 {
				if !s && report {
					for _, w := range ws {
						w.Node, w.Deep = x, x
						out = append(out, w)
					}
				}
				s = false
			}
		})
		return s
	}
	flow := core.Flow[bool]{
		Entry: false,
		Join:  func(a, b bool) bool { return a && b },
		Equal: func(a, b bool) bool { return a == b },
		Node:  func(s bool, _ *cfg.Block, n ast.Node) bool { return transfer(s, n, false) },
		Edge: func(s bool, b *cfg.Block, succ int) (bool, bool) {
			if c := core.BlockCond(b); c != nil {
				for _, at := range core.Assume(c, succ == 0) {
					if spec.GuardAtom(f, at) {
						return true, true
					}
				}
			}
			return s, true
		},
	}
	fr := core.Forward(g, flow)
	for _, b := range g.Blocks {
		if !fr.Reached[b] {
			continue
		}
		s := fr.In[b]
		for _, n := range b.Nodes {
			s = transfer(s, n, true)
		}
	}
	return out
}

func isMaskOp(m *core.Model, call *ast.CallExpr, recv *types.Var, method string) bool {
	sel, ok := ast.Unparen(call.Fun).(*ast.SelectorExpr)
	if !ok || sel.Sel.Name != method {
		return false
	}
	id, ok := ast.Unparen(sel.X).(*ast.Ident)
	if !ok || m.Info.ObjectOf(id) != recv {
		return false
	}
	k, cal, _ := m.Callee(call)
	return k == core.CallStatic && (cal.Recv == "bitMask256" || cal.Recv == "bitMask64")
}

// hasBatchParam reports whether f takes a Batch (batch operations are outside C10's quantifier).
func hasBatchParam(f *core.Func) bool {
	for i := 0; i < f.Sig.Params().Len(); i++ {
		if core.NamedName(f.Sig.Params().At(i).Type()) == "Batch" {
			return true
		}
	}
	return false
}
