package rules

import (
	"fmt"
	"go/ast"
	"go/constant"
	"go/token"
	"go/types"
	"sort"
	"strings"

	"arkverif/checker/core"
)

// C01/R9 (shared with C06): copy lengths agree. `copy` and `reflect.Copy` silently copy min(len(dst), len(src))
// elements. Where both operands are explicit windows (x[a:b], v.Slice(a, b), possibly through single-definition
// locals), the two window lengths b-a must be the same linear expression; otherwise some of the rows that a move is
// meant to carry are not copied (or the window is out of range for part of the inputs).

type linExpr struct {
	terms map[string]int64
	k     int64
}

func (l linExpr) String() string {
	var ks []string
	for t, c := range l.terms {
		if c != 0 {
			ks = append(ks, fmt.Sprintf("%+d*%s", c, t))
		}
	}
	sort.Strings(ks)
	return strings.Join(ks, " ") + fmt.Sprintf(" %+d", l.k)
}

func (l linExpr) equal(o linExpr) bool {
	if l.k != o.k {
		return false
	}
	for t, c := range l.terms {
		if o.terms[t] != c {
			return false
		}
	}
	for t, c := range o.terms {
		if l.terms[t] != c {
			return false
		}
	}
	return true
}

func linOf(m *core.Model, f *core.Func, e ast.Expr, sign int64, out *linExpr, depth int) {
	if e == nil {
		return
	}
	e = ast.Unparen(m.StripConv(e))
	if tv, ok := m.Info.Types[e]; ok && tv.Value != nil {
		if c, exact := constant.Int64Val(constant.ToInt(tv.Value)); exact {
			out.k += sign * c
			return
		}
	}
	switch x := e.(type) {
	case *ast.BinaryExpr:
		switch x.Op {
		case token.ADD:
			linOf(m, f, x.X, sign, out, depth)
			linOf(m, f, x.Y, sign, out, depth)
			return
		case token.SUB:
			linOf(m, f, x.X, sign, out, depth)
			linOf(m, f, x.Y, -sign, out, depth)
			return
		}
	case *ast.Ident:
		if v, ok := m.Info.ObjectOf(x).(*types.Var); ok && !v.IsField() && depth < 4 {
			if _, isP := paramIndexOf(f, v); !isP {
				if ds := localDefsOf(m, f, v); len(ds) == 1 {
					linOf(m, f, ds[0], sign, out, depth+1)
					return
				}
			}
		}
	}
	out.terms[m.ExprString(e)] += sign
}

// windowOf resolves e to an explicit window [lo, hi) of some base, or ok=false.
func windowOf(m *core.Model, f *core.Func, e ast.Expr) (lo, hi ast.Expr, ok bool) {
	for _, x := range exprChain(m, f, e, 0) {
		switch y := ast.Unparen(x).(type) {
		case *ast.SliceExpr:
			if y.High != nil {
				return y.Low, y.High, true
			}
		case *ast.CallExpr:
			// reflect.Value.Slice(i, j)
			if sel, isSel := ast.Unparen(y.Fun).(*ast.SelectorExpr); isSel && len(y.Args) == 2 {
				if fn, isFn := m.Info.ObjectOf(sel.Sel).(*types.Func); isFn && fn.Pkg() != nil && fn.Pkg().Path() == "reflect" && fn.Name() == "Slice" {
					return y.Args[0], y.Args[1], true
				}
			}
		}
	}
	return nil, nil, false
}

func c01r9(c *core.Ctx) {
	m := c.M
	n := 0
	for _, f := range m.AllFuncs() {
		core.InspectNoLits(f.Body, func(x ast.Node) bool {
			call, ok := x.(*ast.CallExpr)
			if !ok || len(call.Args) != 2 {
				return true
			}
			isCopy := m.IsBuiltin(call, "copy")
			if sel, isSel := ast.Unparen(call.Fun).(*ast.SelectorExpr); isSel {
				if fn, isFn := m.Info.ObjectOf(sel.Sel).(*types.Func); isFn && fn.Pkg() != nil && fn.Pkg().Path() == "reflect" && fn.Name() == "Copy" {
					isCopy = true
				}
			}
			if !isCopy {
				return true
			}
			dlo, dhi, dok := windowOf(m, f, call.Args[0])
			slo, shi, sok := windowOf(m, f, call.Args[1])
			if !dok || !sok {
				return true
			}
			n++
			dl := linExpr{terms: map[string]int64{}}
			sl := linExpr{terms: map[string]int64{}}
			linOf(m, f, dhi, 1, &dl, 0)
			linOf(m, f, dlo, -1, &dl, 0)
			linOf(m, f, shi, 1, &sl, 0)
			linOf(m, f, slo, -1, &sl, 0)
			subject := fmt.Sprintf("%s: %s", f.Name, m.ExprString(call))
			if dl.equal(sl) {
				c.OK("C01/R9", subject, c.At(call.Pos()), "destination and source windows have the same length ("+strings.TrimSpace(dl.String())+")")
			} else {
				c.Violation("C01/R9", subject, c.At(call.Pos()), fmt.Sprintf("%s copies between windows of different lengths: destination %s, source %s; the copy silently moves only the shorter one (or the window is out of range), so rows of a bulk move would keep stale or zero values", f.Name, strings.TrimSpace(dl.String()), strings.TrimSpace(sl.String())))
			}
			return true
		})
	}
	if n == 0 {
		c.OK("C01/R9", "windowed copies", "", "no copy between two explicit windows")
	}
}
