package rules

import (
	"fmt"
	"go/ast"
	"go/constant"
	"go/token"
	"go/types"
	"sort"
	"strings"

	"arkverif/checker/core"
)

func init() {
	register(&Property{
		ID:    "C08",
		Level: "other",
		Explanation: "Observer dispatch touches component masks only through Contains/ContainsAny/OrI/Not/Set, a finite vocabulary, so the firing predicates can be extracted from the source as literal sets and compared: " +
			"(R1) every early-out disjunct of a fire function is the sound aggregate lift (four-entry table, DESIGN.md §3/C08) of a per-observer requirement of the same function on the same mask parameter, for the same event index; " +
			"(R2) the per-observer skip conditions of each fire function equal the documented semantics of its event family (docs/content/events, Observer.For/With/Without/Exclusive); " +
			"(R3) observer registration sets each guard flag together with the mask bits, routes observed components of entity events into the with-mask, computes the exclusive mask after all with-bits and folds the observer's own masks into the aggregates; " +
			"(R4) removing an observer unconditionally recomputes all aggregates of its event from the remaining observers; (R5) no function callable from a callback stores into elements of a per-event observer slice in place; " +
			"(R6) all callers of an internal operation that leaves emission to its caller fire the same events under the same guards; (R7) the relation change-mask bit is set exactly on the path that records a changed target. " +
			"Not decided: exactly-once counts over batches; mask bit arithmetic.",
		TrustedBase: []string{"go/types", "frozen semantics table per event family (from the documentation)", "four-entry aggregate lifting table (two-line set arguments)"},
		Rules: []Rule{
			{ID: "C08/R1+R2", Run: c08r1r2, Min: 1},
			{ID: "C08/R3", Run: c08r3, Min: 1},
			{ID: "C08/R4", Run: c08r4, Min: 1},
			{ID: "C08/R5", Run: c08r5, Min: 1},
			{ID: "C08/R6", Run: c08r6, Min: 1},
			{ID: "C08/R7", Run: c08r7, Min: 1},
		},
	})
}

// lit is a literal of the dispatch vocabulary.
type lit struct {
	Neg bool
	Op  string // "Contains", "ContainsAny", "flag"
	A   string // receiver operand (or flag name)
	B   string // argument operand
	Evt string // event index of aggregate operands ("" if none)
}

func (l lit) String() string {
	n := ""
	if l.Neg {
		n = "!"
	}
	if l.Op == "flag" {
		return n + l.A
	}
	return fmt.Sprintf("%s%s.%s(%s)", n, l.A, l.Op, l.B)
}

func (l lit) neg() lit { l.Neg = !l.Neg; return l }

// dnf is a disjunction of conjunctions of literals.
type dnf [][]lit

func dnfAnd(a, b dnf) dnf {
	var out dnf
	for _, x := range a {
		for _, y := range b {
			out = append(out, append(append([]lit{}, x...), y...))
		}
	}
	return out
}

func conjKey(c []lit) string {
	var s []string
	for _, l := range c {
		s = append(s, l.String())
	}
	sort.Strings(s)
	return strings.Join(s, " && ")
}

// predCtx extracts literals of one fire function.
type predCtx struct {
	m        *core.Model
	f        *core.Func
	maskPars map[*types.Var]string // mask parameter -> "P0", "P1"
	obsVar   *types.Var            // loop variable over observers
	evtParam *types.Var
	fail     string
}

func (pc *predCtx) operand(e ast.Expr) (string, string) {
	m := pc.m
	e = ast.Unparen(e)
	if u, ok := e.(*ast.UnaryExpr); ok && u.Op == token.AND {
		e = ast.Unparen(u.X)
	}
	switch x := e.(type) {
	case *ast.Ident:
		if v, ok := m.Info.ObjectOf(x).(*types.Var); ok {
			if p, ok := pc.maskPars[v]; ok {
				return p, ""
			}
		}
	case *ast.SelectorExpr:
		if fld := m.FieldOf(x); fld != nil {
			key := m.FieldKey(fld)
			if id, ok := ast.Unparen(x.X).(*ast.Ident); ok && pc.obsVar != nil && m.Info.ObjectOf(id) == pc.obsVar {
				switch key {
				case "observerData.compsMask":
					return "o.comps", ""
				case "observerData.withMask":
					return "o.with", ""
				case "observerData.withoutMask":
					return "o.without", ""
				}
			}
		}
	case *ast.IndexExpr:
		if sel, ok := ast.Unparen(x.X).(*ast.SelectorExpr); ok {
			if fld := m.FieldOf(sel); fld != nil {
				evt := pc.eventIndex(x.Index)
				switch m.FieldKey(fld) {
				case "observerManager.allComps":
					return "agg.allComps", evt
				case "observerManager.allWith":
					return "agg.allWith", evt
				}
			}
		}
	}
	pc.fail = "operand outside the vocabulary: " + m.ExprString(e)
	return "?", ""
}

func (pc *predCtx) eventIndex(e ast.Expr) string {
	if c := eventConstName(pc.m, e); c != "" {
		return c
	}
	if id, ok := ast.Unparen(e).(*ast.Ident); ok && pc.evtParam != nil && pc.m.Info.ObjectOf(id) == pc.evtParam {
		return "evt"
	}
	return "?" + pc.m.ExprString(e)
}

// toDNF converts a boolean expression over the vocabulary into DNF.
func (pc *predCtx) toDNF(e ast.Expr, neg bool) dnf {
	m := pc.m
	e = ast.Unparen(e)
	switch x := e.(type) {
	case *ast.UnaryExpr:
		if x.Op == token.NOT {
			return pc.toDNF(x.X, !neg)
		}
	case *ast.BinaryExpr:
		if x.Op == token.LAND || x.Op == token.LOR {
			and := (x.Op == token.LAND) != neg
			l, r := pc.toDNF(x.X, neg), pc.toDNF(x.Y, neg)
			if and {
				return dnfAnd(l, r)
			}
			return append(l, r...)
		}
	case *ast.CallExpr:
		if sel, ok := ast.Unparen(x.Fun).(*ast.SelectorExpr); ok && len(x.Args) == 1 {
			if k, cal, _ := m.Callee(x); k == core.CallStatic && (cal.Recv == "bitMask256" || cal.Recv == "bitMask64") {
				op := cal.Obj.Name()
				if op == "Contains" || op == "ContainsAny" {
					a, ea := pc.operand(sel.X)
					b, eb := pc.operand(x.Args[0])
					evt := ea
					if evt == "" {
						evt = eb
					}
					return dnf{{lit{Neg: neg, Op: op, A: a, B: b, Evt: evt}}}
				}
			}
		}
	case *ast.Ident:
		if v, ok := m.Info.ObjectOf(x).(*types.Var); ok && isBool(v.Type()) {
			return dnf{{lit{Neg: neg, Op: "flag", A: x.Name}}}
		}
	case *ast.SelectorExpr:
		if fld := m.FieldOf(x); fld != nil {
			if id, ok := ast.Unparen(x.X).(*ast.Ident); ok && pc.obsVar != nil && m.Info.ObjectOf(id) == pc.obsVar {
				switch m.FieldKey(fld) {
				case "observerData.hasComps":
					return dnf{{lit{Neg: neg, Op: "flag", A: "o.hasComps"}}}
				case "observerData.hasWith":
					return dnf{{lit{Neg: neg, Op: "flag", A: "o.hasWith"}}}
				case "observerData.hasWithout":
					return dnf{{lit{Neg: neg, Op: "flag", A: "o.hasWithout"}}}
				}
			}
		}
	case *ast.IndexExpr:
		if sel, ok := ast.Unparen(x.X).(*ast.SelectorExpr); ok {
			if fld := m.FieldOf(sel); fld != nil {
				evt := pc.eventIndex(x.Index)
				switch m.FieldKey(fld) {
				case "observerManager.anyNoComps":
					return dnf{{lit{Neg: neg, Op: "flag", A: "agg.anyNoComps", Evt: evt}}}
				case "observerManager.anyNoWith":
					return dnf{{lit{Neg: neg, Op: "flag", A: "agg.anyNoWith", Evt: evt}}}
				}
			}
		}
	}
	pc.fail = "condition outside the vocabulary: " + m.ExprString(e)
	return dnf{{lit{Op: "flag", A: "?"}}}
}

func isBool(t types.Type) bool {
	b, ok := t.Underlying().(*types.Basic)
	return ok && b.Kind() == types.Bool
}

// firePred is the extracted predicate structure of a fire function.
type firePred struct {
	f        *core.Func
	masks    int
	evt      string // event index of the observers slice: constant name or "evt"
	earlyOut dnf    // disjunction of early-out conjunctions (the earlyOut flag literal removed)
	skips    dnf    // disjunction of per-observer skip conjunctions
	events   map[string]bool
	fail     string
}

func extractFire(c *core.Ctx, a *Anchors, f *core.Func) *firePred {
	m := c.M
	fp := &firePred{f: f, events: map[string]bool{}}
	pc := &predCtx{m: m, f: f, maskPars: map[*types.Var]string{}}
	for i := 0; i < f.Sig.Params().Len(); i++ {
		p := f.Sig.Params().At(i)
		if isMaskPtr(p.Type()) {
			pc.maskPars[p] = fmt.Sprintf("P%d", fp.masks)
			fp.masks++
		}
		if core.NamedName(p.Type()) == "EventType" {
			pc.evtParam = p
		}
	}
	// locate the loop over observers
	var loop *ast.RangeStmt
	for _, st := range f.Body.List {
		if rs, ok := st.(*ast.RangeStmt); ok {
			loop = rs
		}
	}
	if loop == nil {
		fp.fail = "no range loop over observers at top level"
		return fp
	}
	// the ranged expression: m.observers[E] or a local defined from it
	rangeX := ast.Unparen(loop.X)
	if id, ok := rangeX.(*ast.Ident); ok {
		if v, ok := m.Info.ObjectOf(id).(*types.Var); ok {
			ds := localDefsOf(m, f, v)
			if len(ds) == 1 {
				rangeX = ast.Unparen(ds[0])
			}
		}
	}
	if ix, ok := rangeX.(*ast.IndexExpr); ok {
		if sel, ok := ast.Unparen(ix.X).(*ast.SelectorExpr); ok {
			if fld := m.FieldOf(sel); fld != nil && m.FieldKey(fld) == "observerManager.observers" {
				fp.evt = pc.eventIndex(ix.Index)
			}
		}
	}
	if fp.evt == "" {
		fp.fail = "loop does not range over observerManager.observers[...]"
		return fp
	}
	if id, ok := loop.Value.(*ast.Ident); ok {
		pc.obsVar, _ = m.Info.ObjectOf(id).(*types.Var)
	}
	// early-outs: top-level ifs before the loop (possibly nested under `if earlyOut`)
	var collect func(list []ast.Stmt, guard dnf)
	collect = func(list []ast.Stmt, guard dnf) {
		for _, st := range list {
			if st.Pos() >= loop.Pos() {
				break
			}
			is, ok := st.(*ast.IfStmt)
			if !ok || is.Else != nil || is.Init != nil {
				continue
			}
			cond := pc.toDNF(is.Cond, false)
			if len(is.Body.List) == 1 {
				if _, isRet := is.Body.List[0].(*ast.ReturnStmt); isRet {
					fp.earlyOut = append(fp.earlyOut, dnfAnd(guard, cond)...)
					continue
				}
			}
			collect(is.Body.List, dnfAnd(guard, cond))
		}
	}
	collect(f.Body.List, dnf{{}})
	// strip the earlyOut flag literal (a caller-side optimisation switch)
	for i, conj := range fp.earlyOut {
		var out []lit
		for _, l := range conj {
			if l.Op == "flag" && !strings.Contains(l.A, ".") && !l.Neg {
				continue
			}
			out = append(out, l)
		}
		fp.earlyOut[i] = out
	}
	// per-observer skips
	sawCallback := false
	for _, st := range loop.Body.List {
		switch x := st.(type) {
		case *ast.IfStmt:
			if sawCallback {
				fp.fail = "condition after the callback"
			}
			if len(x.Body.List) == 1 {
				if br, ok := x.Body.List[0].(*ast.BranchStmt); ok && br.Tok == token.CONTINUE && x.Else == nil {
					fp.skips = append(fp.skips, pc.toDNF(x.Cond, false)...)
					continue
				}
			}
			fp.fail = "loop body contains an if that is not a skip (`continue`) condition"
		case *ast.ExprStmt:
			if call, ok := x.X.(*ast.CallExpr); ok {
				if sel, ok := ast.Unparen(call.Fun).(*ast.SelectorExpr); ok {
					if fld := m.FieldOf(sel); fld != nil && m.FieldKey(fld) == "observerData.callback" {
						sawCallback = true
						continue
					}
				}
			}
			fp.fail = "unexpected call in the dispatch loop"
		case *ast.AssignStmt:
			// found = true
		default:
			fp.fail = fmt.Sprintf("unexpected statement in the dispatch loop (%T)", st)
		}
	}
	if !sawCallback {
		fp.fail = "dispatch loop never invokes the callback"
	}
	if pc.fail != "" && fp.fail == "" {
		fp.fail = pc.fail
	}
	return fp
}

// familySpec: expected per-observer skip conjunctions per family.
func familySpec(family string) []string {
	s := func(ls ...lit) string { return conjKey(ls) }
	hasC, hasW, hasWo := lit{Op: "flag", A: "o.hasComps"}, lit{Op: "flag", A: "o.hasWith"}, lit{Op: "flag", A: "o.hasWithout"}
	con := func(a, b string, neg bool) lit { return lit{Neg: neg, Op: "Contains", A: a, B: b} }
	any := func(a, b string, neg bool) lit { return lit{Neg: neg, Op: "ContainsAny", A: a, B: b} }
	switch family {
	case "entity":
		return []string{s(hasW, con("P0", "o.with", true)), s(hasWo, any("P0", "o.without", false))}
	case "entityRel":
		return []string{s(hasC, con("P0", "o.comps", true)), s(hasW, con("P0", "o.with", true)), s(hasWo, any("P0", "o.without", false))}
	case "add":
		return []string{s(hasC, con("P1", "o.comps", true)), s(hasC, any("P0", "o.comps", false)), s(hasW, con("P0", "o.with", true)), s(hasWo, any("P0", "o.without", false))}
	case "remove":
		return []string{s(hasC, con("P0", "o.comps", true)), s(hasC, any("P1", "o.comps", false)), s(hasW, con("P0", "o.with", true)), s(hasWo, any("P0", "o.without", false))}
	case "changed": // set components, set relations, custom events: P0 = changed/event mask, P1 = entity mask
		return []string{s(hasC, con("P0", "o.comps", true)), s(hasW, con("P1", "o.with", true)), s(hasWo, any("P1", "o.without", false))}
	}
	return nil
}

func fireFamily(fp *firePred) string {
	has := func(e string) bool { return fp.events[e] }
	switch {
	case fp.masks == 1 && (has("OnCreateEntity") || has("OnRemoveEntity")):
		return "entity"
	case fp.masks == 1 && (has("OnAddRelations") || has("OnRemoveRelations")):
		return "entityRel"
	case fp.masks == 2 && has("OnAddComponents"):
		return "add"
	case fp.masks == 2 && has("OnRemoveComponents"):
		return "remove"
	case fp.masks == 2 && (has("OnSetComponents") || has("custom") || (has("OnAddRelations") && has("OnRemoveRelations"))):
		return "changed"
	}
	return ""
}

func c08r1r2(c *core.Ctx) {
	a := GetAnchors(c)
	m := c.M
	if len(a.Fire) == 0 {
		c.Undecide("C08/R2", "role fire", "no fire function derived")
		return
	}
	preds := map[*core.Func]*firePred{}
	for f := range a.Fire {
		preds[f] = extractFire(c, a, f)
		if ev := fireOwnEvent(m, f); ev != "" && eventParamIndex(f) < 0 {
			preds[f].events[ev] = true
		}
	}
	// events reaching each fire function through call sites (wrappers resolved by FireCallOf)
	for _, g := range m.AllFuncs() {
		core.InspectNoLits(g.Body, func(n ast.Node) bool {
			if call, ok := n.(*ast.CallExpr); ok {
				if fc := a.FireCallOf(g, call); fc != nil && fc.Event != "" && !fc.Forward {
					if eventParamIndex(fc.Callee) >= 0 {
						preds[fc.Fire].events[fc.Event] = true
					}
				}
			}
			return true
		})
	}
	var fs []*core.Func
	for f := range preds {
		fs = append(fs, f)
	}
	sort.Slice(fs, func(i, j int) bool { return fs[i].Pos() < fs[j].Pos() })
	for _, f := range fs {
		fp := preds[f]
		if fp.fail != "" {
			c.Undecide("C08/R2", f.Name, "predicate extraction failed: "+fp.fail)
			continue
		}
		fam := fireFamily(fp)
		var evs []string
		for e := range fp.events {
			evs = append(evs, e)
		}
		sort.Strings(evs)
		if fam == "" {
			c.Undecide("C08/R2", f.Name, fmt.Sprintf("cannot determine the event family (masks=%d events=%v)", fp.masks, evs))
			continue
		}
		// R2: skips equal the documented semantics
		got := map[string]bool{}
		for _, conj := range fp.skips {
			got[conjKey(conj)] = true
		}
		want := map[string]bool{}
		for _, k := range familySpec(fam) {
			want[k] = true
		}
		var missing, extra []string
		for k := range want {
			if !got[k] {
				missing = append(missing, k)
			}
		}
		for k := range got {
			if !want[k] {
				extra = append(extra, k)
			}
		}
		sort.Strings(missing)
		sort.Strings(extra)
		if len(missing) == 0 && len(extra) == 0 {
			c.OK("C08/R2", f.Name, c.At(f.Pos()), fmt.Sprintf("family %s (events %v): per-observer skip conditions equal the documented semantics (%d literals)", fam, evs, len(got)))
		} else {
			c.Violation("C08/R2", f.Name, c.At(f.Pos()), fmt.Sprintf("%s (family %s): per-observer predicate differs from the documented semantics; missing skip conditions: %v; unexpected: %v", f.Name, fam, missing, extra))
		}
		// R1: early-out soundness
		type req struct{ kind, mask, set string } // kind: "need" (X ⊇ s / X∩s≠∅) or "avoid" (Y∩s=∅ / ¬Y⊇s)
		var reqs []req
		for _, conj := range fp.skips {
			var flag string
			var l *lit
			for i := range conj {
				if conj[i].Op == "flag" {
					flag = conj[i].A
				} else {
					l = &conj[i]
				}
			}
			if l == nil || flag == "" {
				continue
			}
			set := strings.TrimPrefix(l.B, "o.")
			// skip if !X.Contains(s) => requirement X ⊇ s; skip if !X.ContainsAny(s) => X∩s≠∅ : both "need"
			// skip if Y.ContainsAny(s) => requirement Y∩s=∅; skip if Y.Contains(s) => ¬Y⊇s : both "avoid"
			if l.Neg {
				reqs = append(reqs, req{"need", l.A, set})
			} else {
				reqs = append(reqs, req{"avoid", l.A, set})
			}
		}
		okAll := true
		for _, conj := range fp.earlyOut {
			// expected shape: !agg.anyNoS && (!agg.allS.ContainsAny(X) | Y.Contains(agg.allS))
			var flagL, maskL *lit
			for i := range conj {
				if conj[i].Op == "flag" {
					flagL = &conj[i]
				} else {
					maskL = &conj[i]
				}
			}
			desc := conjKey(conj)
			if len(conj) != 2 || flagL == nil || maskL == nil || !flagL.Neg || !strings.HasPrefix(flagL.A, "agg.anyNo") {
				okAll = false
				c.Violation("C08/R1", f.Name+" early-out "+desc, c.At(f.Pos()), f.Name+": early-out `"+desc+"` is not of the form ¬anyNo<S> ∧ <aggregate test>; it cannot be justified by the lifting table")
				continue
			}
			set := strings.ToLower(strings.TrimPrefix(flagL.A, "agg.anyNo")) // comps / with
			agg := "agg.all" + strings.TrimPrefix(flagL.A, "agg.anyNo")
			justified := false
			var mask string
			switch {
			case maskL.Op == "ContainsAny" && maskL.Neg && (maskL.A == agg || maskL.B == agg):
				mask = maskL.B
				if maskL.B == agg {
					mask = maskL.A
				}
				for _, r := range reqs {
					if r.kind == "need" && r.mask == mask && r.set == set {
						justified = true
					}
				}
			case maskL.Op == "Contains" && !maskL.Neg && maskL.B == agg:
				mask = maskL.A
				for _, r := range reqs {
					if r.kind == "avoid" && r.mask == mask && r.set == set {
						justified = true
					}
				}
			}
			evtOK := flagL.Evt == fp.evt && maskL.Evt == fp.evt
			switch {
			case !justified:
				okAll = false
				c.Violation("C08/R1", f.Name+" early-out "+desc, c.At(f.Pos()), fmt.Sprintf("%s: early-out `%s` is not the aggregate lift of any per-observer requirement of this function on the same mask (requirements: %v); an observer's firing would depend on which other observers are registered", f.Name, desc, reqs))
			case !evtOK:
				okAll = false
				c.Violation("C08/R1", f.Name+" early-out "+desc, c.At(f.Pos()), fmt.Sprintf("%s: early-out `%s` reads the aggregates of event %s/%s but the loop dispatches observers[%s]", f.Name, desc, flagL.Evt, maskL.Evt, fp.evt))
			default:
				c.OK("C08/R1", f.Name+" early-out "+desc, c.At(f.Pos()), "sound aggregate lift of a per-observer requirement on the same mask and event")
			}
		}
		_ = okAll
	}
}

// c08r3: observer compilation in the registering function.
func c08r3(c *core.Ctx) {
	m := c.M
	// the registering function: appends to observerManager.observers
	var reg *core.Func
	for _, f := range m.Funcs {
		for _, s := range c.Eff.Stores(f) {
			if len(s.Via) == 0 && s.Path.Has("observerManager.observers") && s.Kind == core.StoreElem {
				if as, ok := s.Node.(*ast.AssignStmt); ok && len(as.Rhs) == 1 {
					if call, ok := ast.Unparen(as.Rhs[0]).(*ast.CallExpr); ok && m.IsBuiltin(call, "append") {
						reg = f
					}
				}
			}
		}
	}
	if reg == nil {
		c.Undecide("C08/R3", "register role", "no function appends to observerManager.observers")
		return
	}
	maskFlag := map[string]string{"observerData.compsMask": "observerData.hasComps", "observerData.withMask": "observerData.hasWith", "observerData.withoutMask": "observerData.hasWithout"}
	fieldOfSel := func(e ast.Expr) string {
		if sel, ok := ast.Unparen(e).(*ast.SelectorExpr); ok {
			if fld := m.FieldOf(sel); fld != nil {
				return m.FieldKey(fld)
			}
		}
		return ""
	}
	// (a) every mask.Set in a loop is paired with its flag in the same loop body; (b) routing per event family
	var lastWithSet, exclusiveNot token.Pos
	core.InspectNoLits(reg.Body, func(n ast.Node) bool {
		rs, ok := n.(*ast.RangeStmt)
		if !ok {
			return true
		}
		src := fieldOfSel(rs.X) // Observer.comps / with / without
		sets := map[string]bool{}
		flags := map[string]bool{}
		ast.Inspect(rs.Body, func(x ast.Node) bool {
			switch y := x.(type) {
			case *ast.CallExpr:
				if sel, ok := ast.Unparen(y.Fun).(*ast.SelectorExpr); ok && sel.Sel.Name == "Set" {
					if k := fieldOfSel(sel.X); maskFlag[k] != "" {
						sets[k] = true
						if k == "observerData.withMask" && y.Pos() > lastWithSet {
							lastWithSet = y.Pos()
						}
					}
				}
			case *ast.AssignStmt:
				for i, l := range y.Lhs {
					if k := fieldOfSel(l); strings.HasPrefix(k, "observerData.has") && i < len(y.Rhs) {
						if tv, ok := m.Info.Types[y.Rhs[i]]; ok && tv.Value != nil && tv.Value.String() == "true" {
							flags[k] = true
						}
					}
				}
			}
			return true
		})
		if len(sets) == 0 {
			return true
		}
		for mk := range sets {
			subject := fmt.Sprintf("%s: loop over %s sets %s", reg.Name, src, mk)
			if flags[maskFlag[mk]] {
				c.OK("C08/R3", subject, c.At(rs.Pos()), "guard flag set together with the mask bits")
			} else {
				c.Violation("C08/R3", subject, c.At(rs.Pos()), fmt.Sprintf("%s: bits are set in %s without setting %s in the same loop; dispatch would ignore the condition", reg.Name, mk, maskFlag[mk]))
			}
		}
		// routing: which source goes to which mask
		want := map[string]string{"Observer.with": "observerData.withMask", "Observer.without": "observerData.withoutMask"}
		if w, ok := want[src]; ok {
			subject := fmt.Sprintf("%s: %s routed", reg.Name, src)
			if len(sets) == 1 && sets[w] {
				c.OK("C08/R3", subject, c.At(rs.Pos()), src+" components go to "+w)
			} else {
				c.Violation("C08/R3", subject, c.At(rs.Pos()), fmt.Sprintf("%s: %s components are not routed (only) into %s", reg.Name, src, w))
			}
		}
		return true
	})
	// routing of observed components (Observer.comps) by event family: inside a switch over the event
	core.InspectNoLits(reg.Body, func(n ast.Node) bool {
		sw, ok := n.(*ast.SwitchStmt)
		if !ok {
			return true
		}
		for _, cc := range sw.Body.List {
			clause := cc.(*ast.CaseClause)
			var evs []string
			for _, e := range clause.List {
				evs = append(evs, eventConstName(m, e))
			}
			entity := false
			for _, e := range evs {
				if e == "OnCreateEntity" || e == "OnRemoveEntity" {
					entity = true
				}
			}
			target := ""
			for _, st := range clause.Body {
				ast.Inspect(st, func(x ast.Node) bool {
					if call, ok := x.(*ast.CallExpr); ok {
						if sel, ok := ast.Unparen(call.Fun).(*ast.SelectorExpr); ok && sel.Sel.Name == "Set" {
							if k := fieldOfSel(sel.X); maskFlag[k] != "" {
								target = k
							}
						}
					}
					return true
				})
			}
			name := strings.Join(evs, ",")
			if clause.List == nil {
				name = "default"
			}
			subject := fmt.Sprintf("%s: observed components for case %s", reg.Name, name)
			want := "observerData.compsMask"
			if entity {
				want = "observerData.withMask"
			}
			if target == want {
				c.OK("C08/R3", subject, c.At(clause.Pos()), "observed components routed into "+want)
			} else {
				c.Violation("C08/R3", subject, c.At(clause.Pos()), fmt.Sprintf("%s: for events %s the observed (For) components go to %s, documented semantics needs %s", reg.Name, name, target, want))
			}
		}
		return true
	})
	// (c) exclusive: withoutMask = withMask.Not() after the last with-bit
	core.InspectNoLits(reg.Body, func(n ast.Node) bool {
		as, ok := n.(*ast.AssignStmt)
		if !ok || len(as.Lhs) != 1 || len(as.Rhs) != 1 {
			return true
		}
		if fieldOfSel(as.Lhs[0]) != "observerData.withoutMask" {
			return true
		}
		if call, ok := ast.Unparen(as.Rhs[0]).(*ast.CallExpr); ok {
			if sel, ok := ast.Unparen(call.Fun).(*ast.SelectorExpr); ok && sel.Sel.Name == "Not" && fieldOfSel(sel.X) == "observerData.withMask" {
				exclusiveNot = as.Pos()
			}
		}
		return true
	})
	if exclusiveNot == token.NoPos {
		c.Violation("C08/R3", reg.Name+": exclusive", c.At(reg.Pos()), reg.Name+": exclusive observers do not get withoutMask = ¬withMask")
	} else if exclusiveNot < lastWithSet {
		c.Violation("C08/R3", reg.Name+": exclusive", c.At(exclusiveNot), reg.Name+": the exclusive mask is computed before all with-components were added to the with-mask")
	} else {
		c.OK("C08/R3", reg.Name+": exclusive", c.At(exclusiveNot), "exclusive mask computed from the complete with-mask")
	}
	// (d) aggregates folded from the observer's own masks: if o.hasX { allX[evt].OrI(&o.xMask) } else { anyNoX[evt] = true }
	for _, pair := range [][4]string{
		{"observerData.hasWith", "observerManager.allWith", "observerData.withMask", "observerManager.anyNoWith"},
		{"observerData.hasComps", "observerManager.allComps", "observerData.compsMask", "observerManager.anyNoComps"},
	} {
		found := false
		core.InspectNoLits(reg.Body, func(n ast.Node) bool {
			is, ok := n.(*ast.IfStmt)
			if !ok || fieldOfSel(is.Cond) != pair[0] || is.Else == nil {
				return true
			}
			thenOK, elseOK := false, false
			ast.Inspect(is.Body, func(x ast.Node) bool {
				if call, ok := x.(*ast.CallExpr); ok && len(call.Args) == 1 {
					if sel, ok := ast.Unparen(call.Fun).(*ast.SelectorExpr); ok && sel.Sel.Name == "OrI" {
						if ix, ok := ast.Unparen(sel.X).(*ast.IndexExpr); ok && fieldOfSel(ix.X) == pair[1] {
							arg := ast.Unparen(call.Args[0])
							if u, ok := arg.(*ast.UnaryExpr); ok {
								arg = u.X
							}
							if fieldOfSel(arg) == pair[2] {
								thenOK = true
							}
						}
					}
				}
				return true
			})
			ast.Inspect(is.Else, func(x ast.Node) bool {
				if as, ok := x.(*ast.AssignStmt); ok && len(as.Lhs) == 1 {
					if ix, ok := ast.Unparen(as.Lhs[0]).(*ast.IndexExpr); ok && fieldOfSel(ix.X) == pair[3] {
						elseOK = true
					}
				}
				return true
			})
			if thenOK && elseOK {
				found = true
			}
			return true
		})
		subject := reg.Name + ": aggregate " + pair[1]
		if found {
			c.OK("C08/R3", subject, c.At(reg.Pos()), "aggregate union folded from the observer's own mask, wildcard flag set otherwise")
		} else {
			c.Violation("C08/R3", subject, c.At(reg.Pos()), fmt.Sprintf("%s: registration does not fold %s into %s (or set %s for observers without it); early-outs would skip this observer", reg.Name, pair[2], pair[1], pair[3]))
		}
	}
}

// c08r4: aggregate recomputation when an observer is removed.
func c08r4(c *core.Ctx) {
	m := c.M
	var rem *core.Func
	for _, f := range m.Funcs {
		if f.Recv != "observerManager" {
			continue
		}
		core.InspectNoLits(f.Body, func(n ast.Node) bool {
			if call, ok := n.(*ast.CallExpr); ok && m.IsBuiltin(call, "delete") && len(call.Args) == 2 {
				if m.AccessPath(f, call.Args[0]).Last() == "observerManager.indices" && f.Sig.Params().Len() == 1 {
					rem = f
				}
			}
			return true
		})
	}
	if rem == nil {
		c.Undecide("C08/R4", "unregister role", "no observerManager method deleting from indices with one parameter")
		return
	}
	fieldOfSel := func(e ast.Expr) string {
		if sel, ok := ast.Unparen(e).(*ast.SelectorExpr); ok {
			if fld := m.FieldOf(sel); fld != nil {
				return m.FieldKey(fld)
			}
		}
		return ""
	}
	// statements in execution order; blocks guarded by a test of the observer's event family (the entity events carry no
	// observed-component aggregates) are transparent, whether written as an early return or as a guarded block
	isEventTest := func(e ast.Expr) bool {
		okAll, any := true, false
		var visit func(x ast.Expr)
		visit = func(x ast.Expr) {
			x = ast.Unparen(x)
			switch y := x.(type) {
			case *ast.BinaryExpr:
				switch y.Op.String() {
				case "&&", "||":
					visit(y.X)
					visit(y.Y)
					return
				case "==", "!=":
					if eventConstName(m, y.Y) != "" || eventConstName(m, y.X) != "" {
						any = true
						return
					}
				}
			case *ast.UnaryExpr:
				visit(y.X)
				return
			case *ast.Ident:
				if v, ok := m.Info.ObjectOf(y).(*types.Var); ok && !v.IsField() {
					if ds := localDefsOf(m, rem, v); len(ds) == 1 {
						visit(ds[0])
						return
					}
				}
			}
			okAll = false
		}
		visit(e)
		return okAll && any
	}
	var flat []ast.Stmt
	var flatten func(list []ast.Stmt)
	flatten = func(list []ast.Stmt) {
		for _, st := range list {
			if is, ok := st.(*ast.IfStmt); ok && is.Init == nil && isEventTest(is.Cond) {
				flatten(is.Body.List)
				if eb, ok := is.Else.(*ast.BlockStmt); ok {
					flatten(eb.List)
				}
				continue
			}
			flat = append(flat, st)
		}
	}
	flatten(rem.Body.List)
	// position of the store that shortens observers[evt]
	var shortened token.Pos
	for _, st := range flat {
		if as, ok := st.(*ast.AssignStmt); ok && len(as.Lhs) == 1 {
			if ix, ok := ast.Unparen(as.Lhs[0]).(*ast.IndexExpr); ok && fieldOfSel(ix.X) == "observerManager.observers" {
				shortened = as.Pos()
			}
		}
	}
	if shortened == token.NoPos {
		c.Violation("C08/R4", rem.Name+": slice update", c.At(rem.Pos()), rem.Name+": the per-event observer slice is not re-assigned at top level")
		return
	}
	for _, pair := range [][4]string{
		{"observerData.hasWith", "observerManager.allWith", "observerData.withMask", "observerManager.anyNoWith"},
		{"observerData.hasComps", "observerManager.allComps", "observerData.compsMask", "observerManager.anyNoComps"},
	} {
		subject := rem.Name + ": recompute " + pair[1]
		// top-level statements after the shortening: anyNoX[evt] = false; for range m.observers[evt] {...}; allX[evt] = acc
		var resetFlag, loopOK, assignAgg bool
		for _, st := range flat {
			if st.Pos() < shortened {
				continue
			}
			switch x := st.(type) {
			case *ast.AssignStmt:
				if len(x.Lhs) == 1 && len(x.Rhs) == 1 {
					if ix, ok := ast.Unparen(x.Lhs[0]).(*ast.IndexExpr); ok {
						switch fieldOfSel(ix.X) {
						case pair[3]:
							if tv, ok := m.Info.Types[x.Rhs[0]]; ok && tv.Value != nil && tv.Value.String() == "false" {
								resetFlag = true
							}
						case pair[1]:
							assignAgg = loopOK
						}
					}
				}
			case *ast.RangeStmt:
				ix, ok := ast.Unparen(x.X).(*ast.IndexExpr)
				if !ok || fieldOfSel(ix.X) != "observerManager.observers" {
					continue
				}
				// body: if !obs.hasX { anyNoX = true; break }; acc.OrI(&obs.xMask)
				sawWild, sawOr := false, false
				ast.Inspect(x.Body, func(y ast.Node) bool {
					switch z := y.(type) {
					case *ast.IfStmt:
						if u, ok := ast.Unparen(z.Cond).(*ast.UnaryExpr); ok && u.Op == token.NOT && fieldOfSel(u.X) == pair[0] {
							for _, s2 := range z.Body.List {
								if as, ok := s2.(*ast.AssignStmt); ok && len(as.Lhs) == 1 {
									if ix2, ok := ast.Unparen(as.Lhs[0]).(*ast.IndexExpr); ok && fieldOfSel(ix2.X) == pair[3] {
										sawWild = true
									}
								}
							}
						}
					case *ast.CallExpr:
						if sel, ok := ast.Unparen(z.Fun).(*ast.SelectorExpr); ok && sel.Sel.Name == "OrI" && len(z.Args) == 1 {
							arg := ast.Unparen(z.Args[0])
							if u, ok := arg.(*ast.UnaryExpr); ok {
								arg = u.X
							}
							if fieldOfSel(arg) == pair[2] {
								sawOr = true
							}
						}
					}
					return true
				})
				if sawWild && sawOr {
					loopOK = true
				}
			}
		}
		if resetFlag && loopOK && assignAgg {
			c.OK("C08/R4", subject, c.At(rem.Pos()), "wildcard flag cleared and union rebuilt unconditionally from the observers remaining after removal")
		} else {
			c.Violation("C08/R4", subject, c.At(rem.Pos()), fmt.Sprintf("%s: after removing an observer, %s / %s are not unconditionally recomputed from the remaining observers (flag reset: %v, rebuild loop over the shortened slice: %v, union stored: %v); early-outs would use stale aggregates", rem.Name, pair[1], pair[3], resetFlag, loopOK, assignAgg))
		}
	}
	// hasObservers updated
	okHas := false
	for _, st := range flat {
		if as, ok := st.(*ast.AssignStmt); ok && len(as.Lhs) == 1 {
			if ix, ok := ast.Unparen(as.Lhs[0]).(*ast.IndexExpr); ok && fieldOfSel(ix.X) == "observerManager.hasObservers" {
				okHas = true
			}
		}
	}
	if okHas {
		c.OK("C08/R4", rem.Name+": hasObservers", c.At(rem.Pos()), "presence flag of the event updated on removal")
	} else {
		c.Violation("C08/R4", rem.Name+": hasObservers", c.At(rem.Pos()), rem.Name+": presence flag of the event is not updated on removal")
	}
}

// c08r5: no in-place element store into a per-event observer slice outside lock-guarded operations.
func c08r5(c *core.Ctx) {
	m := c.M
	n := 0
	for _, f := range m.Funcs {
		if f.Recv != "observerManager" {
			continue
		}
		for _, s := range m.AllFuncs() {
			_ = s
			break
		}
		bad := false
		core.InspectNoLits(f.Body, func(x ast.Node) bool {
			as, ok := x.(*ast.AssignStmt)
			if !ok {
				return true
			}
			for _, st := range m.DirectStores(f, as) {
				if !st.Path.Has("observerManager.observers") || st.Kind != core.StoreElem {
					continue
				}
				// count element levels after the field
				lv := 0
				seen := false
				for _, k := range st.Path.Keys {
					if k == "observerManager.observers" {
						seen = true
						continue
					}
					if seen && k == "[]" {
						lv++
					}
				}
				if lv >= 2 {
					bad = true
					c.Violation("C08/R5", f.Name+" stores observer element in place", c.At(as.Pos()), fmt.Sprintf("%s: in-place store into an element of a per-event observer slice (%s); a dispatch loop ranging over that slice (the function is callable from a callback) would see a moved or nil entry", f.Name, m.ExprString(as.Lhs[0])))
				}
			}
			return true
		})
		mutates := false
		for _, s := range c.Eff.Stores(f) {
			if len(s.Via) == 0 && s.Path.Has("observerManager.observers") {
				mutates = true
			}
		}
		if mutates && !bad {
			n++
			c.OK("C08/R5", f.Name, c.At(f.Pos()), "per-event observer slices are only replaced as a whole (copy-on-write / append / truncate), never edited element-wise")
		}
	}
	if n == 0 {
		c.Undecide("C08/R5", "mutators", "no function updating observerManager.observers found")
	}
}

// internalOps derives the internal operations of the world: unexported methods of World that (transitively) mutate rows.
// Those that dispatch no post event themselves leave the emission to their callers.
func internalOps(c *core.Ctx, a *Anchors) (ops map[*core.Func]bool, emitByCaller map[*core.Func]bool) {
	m := c.M
	ops, emitByCaller = map[*core.Func]bool{}, map[*core.Func]bool{}
	for _, f := range m.Funcs {
		if f.Recv != "World" || f.Obj == nil || f.Obj.Exported() || f.Sig == nil {
			continue
		}
		mut := false
		for _, s := range c.Eff.Stores(f) {
			if s.Path.Last() == "table.len" {
				mut = true
			}
		}
		if !mut {
			continue
		}
		ops[f] = true
		firesPost := false
		var visit func(g *core.Func, depth int)
		seen := map[*core.Func]bool{}
		visit = func(g *core.Func, depth int) {
			if seen[g] || depth > 4 {
				return
			}
			seen[g] = true
			core.InspectNoLits(g.Body, func(n ast.Node) bool {
				if call, ok := n.(*ast.CallExpr); ok {
					if fc := a.FireCallOf(g, call); fc != nil && postEvents[fc.Event] {
						firesPost = true
					}
					if k, cal, _ := m.Callee(call); k == core.CallStatic && cal.Recv == "World" {
						visit(cal, depth+1)
					}
				}
				return true
			})
		}
		visit(f, 0)
		if !firesPost {
			// per-table helpers of batch operations are not called by API methods; keep only ops with an API-side caller
			emitByCaller[f] = true
		}
	}
	return
}

// c08r6: emission sites agree.
func c08r6(c *core.Ctx) {
	a := GetAnchors(c)
	m := c.M
	_, emitByCallerF := internalOps(c, a)
	emitByCaller := map[string]bool{}
	for f := range emitByCallerF {
		emitByCaller[f.Name] = true
	}
	type sig struct {
		f    *core.Func
		evts map[string]string // event -> guard category
		rel  bool              // has a relation-carrying parameter
	}
	groups := map[string][]sig{}
	relParam := func(f *core.Func) *types.Var {
		if f.Sig == nil {
			return nil
		}
		for i := 0; i < f.Sig.Params().Len(); i++ {
			p := f.Sig.Params().At(i)
			if sl, ok := p.Type().(*types.Slice); ok {
				n := core.NamedName(sl.Elem())
				if (n == "Relation" || n == "Entity") && f.Sig.Variadic() && i == f.Sig.Params().Len()-1 {
					return p
				}
			}
		}
		return nil
	}
	for _, f := range m.Funcs {
		var op string
		core.InspectNoLits(f.Body, func(n ast.Node) bool {
			if call, ok := n.(*ast.CallExpr); ok {
				if k, cal, _ := m.Callee(call); k == core.CallStatic && emitByCaller[cal.Name] {
					op = cal.Name
				}
			}
			return true
		})
		if op == "" || emitByCaller[f.Name] || (f.Recv == "World" && f.Obj != nil && !f.Obj.Exported()) {
			continue
		}
		s := sig{f: f, evts: map[string]string{}, rel: relParam(f) != nil}
		rp := relParam(f)
		inlineDepth := 0
		constBind := map[*types.Var]bool{}
		// fire calls with their guards
		var walk func(list []ast.Stmt, guard string)
		walk = func(list []ast.Stmt, guard string) {
			for _, st := range list {
				switch x := st.(type) {
				case *ast.IfStmt:
					// a condition that is a helper parameter bound to a constant at the inlined call: take that branch only
					if cid, isID := ast.Unparen(x.Cond).(*ast.Ident); isID {
						if cv, isVar := m.Info.ObjectOf(cid).(*types.Var); isVar {
							if val, bound := constBind[cv]; bound {
								if val {
									walk(x.Body.List, guard)
								} else if eb, ok := x.Else.(*ast.BlockStmt); ok {
									walk(eb.List, guard)
								}
								continue
							}
						}
					}
					g := guard
					cond := m.ExprString(x.Cond)
					cat := "cond:" + cond
					if rp != nil && (cond == "len("+rp.Name()+") > 0") {
						cat = "relations-nonempty"
					}
					if strings.HasPrefix(cond, "has") || strings.Contains(cond, "Obs") {
						// locals like hasCreateObs / hasRelObs: resolve their definition
						if id, ok := ast.Unparen(x.Cond).(*ast.Ident); ok {
							if v, ok := m.Info.ObjectOf(id).(*types.Var); ok {
								for _, d := range localDefsOf(m, f, v) {
									ds := m.ExprString(d)
									cat = "has-observers"
									if rp != nil && strings.Contains(ds, "len("+rp.Name()+") > 0") {
										cat = "relations-nonempty"
									}
								}
							}
						}
					}
					if cat == "has-observers" || strings.HasPrefix(cat, "cond:fn != nil") || cat == "cond:shouldLock" {
						cat = guard
					}
					if g != "" && cat != g && cat != "" {
						g = g + "&" + cat
					} else if cat != "" {
						g = cat
					}
					walk(x.Body.List, g)
					if x.Else != nil {
						if eb, ok := x.Else.(*ast.BlockStmt); ok {
							walk(eb.List, guard+"&else")
						}
					}
				case *ast.ForStmt:
					walk(x.Body.List, guard)
				case *ast.RangeStmt:
					walk(x.Body.List, guard)
				case *ast.BlockStmt:
					walk(x.List, guard)
				default:
					ast.Inspect(st, func(y ast.Node) bool {
						if _, ok := y.(*ast.FuncLit); ok {
							return false
						}
						if call, ok := y.(*ast.CallExpr); ok {
							if fc := a.FireCallOf(f, call); fc != nil && fc.Event != "" {
								gg := guard
								if gg == "" {
									gg = "always"
								}
								s.evts[fc.Event] = gg
							}
							// unexported helper method of the same type: its dispatches belong to this emission site
							if k, cal, _ := m.Callee(call); k == core.CallStatic && cal.Recv == f.Recv && cal.Recv != "" && cal.Obj != nil && !cal.Obj.Exported() && inlineDepth < 2 && !emitByCaller[cal.Name] {
								inlineDepth++
								saveRP := rp
								// the helper's own relation parameter, if the caller passes its relation parameter on
								if hp := relParamAny(cal); hp != nil {
									rp = hp
								}
								for ai, arg := range call.Args {
									if ai < cal.Sig.Params().Len() {
										if tv, ok := m.Info.Types[arg]; ok && tv.Value != nil && tv.Value.Kind() == constant.Bool {
											constBind[cal.Sig.Params().At(ai)] = constant.BoolVal(tv.Value)
										}
									}
								}
								walk(cal.Body.List, guard)
								// batch loops in the helper
								core.InspectNoLits(cal.Body, func(z ast.Node) bool {
									if is, ok := z.(*ast.IfStmt); ok {
										ast.Inspect(is.Cond, func(w ast.Node) bool {
											if c2, ok := w.(*ast.CallExpr); ok {
												if fc := a.FireCallOf(cal, c2); fc != nil && fc.Event != "" {
													if _, have := s.evts[fc.Event]; !have {
														s.evts[fc.Event] = guardOfNode(m, cal, is, rp)
													}
												}
											}
											return true
										})
									}
									return true
								})
								rp = saveRP
								inlineDepth--
							}
						}
						return true
					})
				}
			}
		}
		walk(f.Body.List, "")
		// fire calls that appear as if-conditions (batch loops: `if !Fire...(...) { break }`)
		core.InspectNoLits(f.Body, func(n ast.Node) bool {
			is, ok := n.(*ast.IfStmt)
			if !ok {
				return true
			}
			ast.Inspect(is.Cond, func(y ast.Node) bool {
				if call, ok := y.(*ast.CallExpr); ok {
					if fc := a.FireCallOf(f, call); fc != nil && fc.Event != "" {
						if _, have := s.evts[fc.Event]; !have {
							s.evts[fc.Event] = guardOfNode(m, f, is, rp)
						}
					}
				}
				return true
			})
			return true
		})
		groups[op] = append(groups[op], s)
	}
	render := func(s sig) string {
		var ks []string
		for e, g := range s.evts {
			ks = append(ks, e+"["+g+"]")
		}
		sort.Strings(ks)
		return strings.Join(ks, " ")
	}
	frozen := map[string]string{
		"Unsafe.Exchange": "guards add events by len(add) > 0 (exchange may add nothing)",
	}
	var ops []string
	for op := range groups {
		ops = append(ops, op)
	}
	sort.Strings(ops)
	for _, op := range ops {
		// majority signature among callers with a relation parameter, and among those without
		count := map[bool]map[string]int{true: {}, false: {}}
		for _, s := range groups[op] {
			count[s.rel][render(s)]++
		}
		major := map[bool]string{}
		for rel, mset := range count {
			best, bn := "", 0
			for k, n := range mset {
				if n > bn || (n == bn && k < best) {
					best, bn = k, n
				}
			}
			major[rel] = best
		}
		for _, s := range groups[op] {
			subject := fmt.Sprintf("%s (caller of %s)", s.f.Name, op)
			if why, ok := frozen[s.f.Name]; ok {
				c.Info("C08/R6", subject, c.At(s.f.Pos()), "frozen exception: "+why+"; emits "+render(s))
				continue
			}
			if render(s) == major[s.rel] {
				c.OK("C08/R6", subject, c.At(s.f.Pos()), "emits "+render(s))
			} else {
				c.Violation("C08/R6", subject, c.At(s.f.Pos()), fmt.Sprintf("%s emits {%s} after %s, the other %d callers of the same kind emit {%s}", s.f.Name, render(s), op, count[s.rel][major[s.rel]], major[s.rel]))
			}
		}
	}
}

// guardOfNode computes the guard category of a node from its enclosing if statements.
func guardOfNode(m *core.Model, f *core.Func, n ast.Node, rp *types.Var) string {
	guard := "always"
	core.InspectNoLits(f.Body, func(x ast.Node) bool {
		is, ok := x.(*ast.IfStmt)
		if !ok || is == n || !(is.Body.Pos() <= n.Pos() && n.End() <= is.Body.End()) {
			return true
		}
		if id, ok := ast.Unparen(is.Cond).(*ast.Ident); ok {
			if v, ok := m.Info.ObjectOf(id).(*types.Var); ok {
				for _, d := range localDefsOf(m, f, v) {
					if rp != nil && strings.Contains(m.ExprString(d), "len("+rp.Name()+") > 0") {
						guard = "relations-nonempty"
					}
				}
			}
		}
		return true
	})
	return guard
}

// c08r7: the relation change mask marks exactly the relations whose target changes.
func c08r7(c *core.Ctx) {
	m := c.M
	n := 0
	for _, f := range m.Funcs {
		if f.Sig == nil || f.Recv != "storage" {
			continue
		}
		// role: has a *bitMask parameter, returns a bool "changed" among its results, and sets bits of the mask parameter
		var maskPar *types.Var
		for i := 0; i < f.Sig.Params().Len(); i++ {
			if isMaskPtr(f.Sig.Params().At(i).Type()) {
				maskPar = f.Sig.Params().At(i)
			}
		}
		if maskPar == nil || f.Sig.Results().Len() == 0 || !isBool(f.Sig.Results().At(f.Sig.Results().Len()-1).Type()) {
			continue
		}
		var loops []*ast.RangeStmt
		core.InspectNoLits(f.Body, func(x ast.Node) bool {
			if rs, ok := x.(*ast.RangeStmt); ok {
				sets := false
				ast.Inspect(rs.Body, func(y ast.Node) bool {
					if call, ok := y.(*ast.CallExpr); ok && isMaskOp(m, call, maskPar, "Set") {
						sets = true
					}
					return true
				})
				if sets {
					loops = append(loops, rs)
				}
			}
			return true
		})
		for _, rs := range loops {
			n++
			// per-iteration paths: (mask.Set executed) must coincide with (changed = true executed), given mask != nil
			type st struct{ set, changed bool }
			paths := enumeratePaths(m, rs.Body.List, func(s ast.Stmt, cur st) st {
				ast.Inspect(s, func(y ast.Node) bool {
					switch z := y.(type) {
					case *ast.CallExpr:
						if isMaskOp(m, z, maskPar, "Set") {
							cur.set = true
						}
					case *ast.AssignStmt:
						for i, l := range z.Lhs {
							if id, ok := ast.Unparen(l).(*ast.Ident); ok && i < len(z.Rhs) {
								if v, ok := m.Info.ObjectOf(id).(*types.Var); ok && isBool(v.Type()) {
									if tv, ok := m.Info.Types[z.Rhs[i]]; ok && tv.Value != nil && tv.Value.String() == "true" {
										cur.changed = true
									}
								}
							}
						}
					}
					return true
				})
				return cur
			}, func(cond ast.Expr) (skipThen, skipElse bool) {
				// the mask-nil guard: treat `mask != nil` as true
				if be, ok := ast.Unparen(cond).(*ast.BinaryExpr); ok {
					if id, ok := ast.Unparen(be.X).(*ast.Ident); ok && m.Info.ObjectOf(id) == maskPar {
						if be.Op == token.NEQ {
							return false, true
						}
						if be.Op == token.EQL {
							return true, false
						}
					}
				}
				return false, false
			})
			bad := ""
			for _, p := range paths {
				if p.set != p.changed {
					bad = fmt.Sprintf("a path through the loop body has change-bit set=%v but changed=%v", p.set, p.changed)
				}
			}
			subject := f.Name + ": change mask"
			if bad == "" {
				c.OK("C08/R7", subject, c.At(rs.Pos()), fmt.Sprintf("on all %d paths of the loop body the change-mask bit is set iff the relation is recorded as changed", len(paths)))
			} else {
				c.Violation("C08/R7", subject, c.At(rs.Pos()), f.Name+": "+bad+"; relation observers would fire for relations whose target did not change (or miss changed ones)")
			}
		}
	}
	if n == 0 {
		c.Undecide("C08/R7", "change-mask role", "no function computing a relation change mask found")
	}
}

// enumeratePaths enumerates the paths through a statement list (if/else, continue/break/return end a path;
// nested loops are treated as one step), folding a state over the simple statements.
func enumeratePaths[S any](m *core.Model, list []ast.Stmt, step func(ast.Stmt, S) S, assume func(ast.Expr) (bool, bool)) []S {
	var out []S
	var rec func(list []ast.Stmt, cur S, cont func(S))
	rec = func(list []ast.Stmt, cur S, cont func(S)) {
		if len(list) == 0 {
			cont(cur)
			return
		}
		s, rest := list[0], list[1:]
		switch x := s.(type) {
		case *ast.IfStmt:
			if x.Init != nil {
				cur = step(x.Init, cur)
			}
			skipThen, skipElse := assume(x.Cond)
			if !skipThen {
				rec(x.Body.List, cur, func(s2 S) { rec(rest, s2, cont) })
			}
			if !skipElse {
				switch e := x.Else.(type) {
				case nil:
					rec(rest, cur, cont)
				case *ast.BlockStmt:
					rec(e.List, cur, func(s2 S) { rec(rest, s2, cont) })
				case *ast.IfStmt:
					rec([]ast.Stmt{e}, cur, func(s2 S) { rec(rest, s2, cont) })
				}
			}
		case *ast.BranchStmt, *ast.ReturnStmt:
			out = append(out, cur)
		case *ast.BlockStmt:
			rec(x.List, cur, func(s2 S) { rec(rest, s2, cont) })
		default:
			if es, ok := s.(*ast.ExprStmt); ok {
				if call, ok := es.X.(*ast.CallExpr); ok && m.IsBuiltin(call, "panic") {
					return // path ends in panic: not a normal path
				}
			}
			rec(rest, step(s, cur), cont)
		}
	}
	var zero S
	rec(list, zero, func(s S) { out = append(out, s) })
	return out
}

// relParamAny: a parameter of f that carries relations (variadic or slice of Relation / Entity).
func relParamAny(f *core.Func) *types.Var {
	if f.Sig == nil {
		return nil
	}
	for i := 0; i < f.Sig.Params().Len(); i++ {
		p := f.Sig.Params().At(i)
		if sl, ok := p.Type().(*types.Slice); ok {
			if n := core.NamedName(sl.Elem()); n == "Relation" || n == "Entity" {
				return p
			}
		}
	}
	return nil
}
