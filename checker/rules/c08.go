package rules

import (
	"fmt"
	"go/ast"
	"go/constant"
	"go/token"
	"go/types"
	"sort"
	"strings"

	"arkverif/checker/core"
)

func init() {
	register(&Property{
		ID:    "C08",
		Level: "other",
		Explanation: "Observer dispatch touches component masks only through Contains/ContainsAny/OrI/Not/Set, a finite vocabulary, so the firing predicates can be extracted from the source as literal sets and compared: " +
			"(R1) every early-out disjunct of a fire function is the sound aggregate lift (four-entry table, DESIGN.md §3/C08) of a per-observer requirement of the same function on the same mask parameter, for the same event index; " +
			"(R2) the per-observer skip conditions of each fire function equal the documented semantics of its event family (docs/content/events, Observer.For/With/Without/Exclusive); " +
			"(R3) observer registration sets each guard flag together with the mask bits, routes observed components of entity events into the with-mask, computes the exclusive mask after all with-bits and folds the observer's own masks into the aggregates; " +
			"(R4) removing an observer unconditionally recomputes all aggregates of its event from the remaining observers; (R5) no function callable from a callback stores into elements of a per-event observer slice in place, neither directly nor through a local that on some path is (a re-slice of) such a slice; " +
			"(R6) all callers of an internal operation that leaves emission to its caller fire the same events under the same guards; (R7) the relation change-mask bit is set exactly on the path that records a changed target. " +
			"(R8 = C04/R11) a change mask that is filled and recorded per table is fresh for every table; (R9 = C06/R10) what a loop over a batch's per-table plan records hands to the observers is the table's own (a record field or a value of that iteration), never a variable that the planning loop overwrote or accumulated for every table. Not decided: exactly-once counts over batches; mask bit arithmetic.",
		TrustedBase: []string{"go/types", "frozen semantics table per event family (from the documentation)", "four-entry aggregate lifting table (two-line set arguments)"},
		Rules: []Rule{
			{ID: "C08/R1+R2", Run: c08r1r2, Min: 1},
			{ID: "C08/R3", Run: c08r3, Min: 1},
			{ID: "C08/R4", Run: c08r4, Min: 1},
			{ID: "C08/R5", Run: c08r5, Min: 1},
			{ID: "C08/R6", Run: c08r6, Min: 1},
			{ID: "C08/R7", Run: c08r7, Min: 1},
			{ID: "C04/R11", Run: c04r11, Min: 1},
			{ID: "C06/R10", Run: c06r10, Min: 8},
		},
	})
}

// lit is a literal of the dispatch vocabulary.
type lit struct {
	Neg bool
	Op  string // "Contains", "ContainsAny", "flag"
	A   string // receiver operand (or flag name)
	B   string // argument operand
	Evt string // event index of aggregate operands ("" if none)
}

func (l lit) String() string {
	n := ""
	if l.Neg {
		n = "!"
	}
	if l.Op == "flag" {
		return n + l.A
	}
	return fmt.Sprintf("%s%s.%s(%s)", n, l.A, l.Op, l.B)
}

func (l lit) neg() lit { l.Neg = !l.Neg; return l }

// dnf is a disjunction of conjunctions of literals.
type dnf [][]lit

func dnfAnd(a, b dnf) dnf {
	var out dnf
	for _, x := range a {
		for _, y := range b {
			out = append(out, append(append([]lit{}, x...), y...))
		}
	}
	return out
}

func conjKey(c []lit) string {
	var s []string
	for _, l := range c {
		s = append(s, l.String())
	}
	sort.Strings(s)
	return strings.Join(s, " && ")
}

// predCtx extracts literals of one fire function.
type predCtx struct {
	m        *core.Model
	f        *core.Func
	maskPars map[*types.Var]string // mask parameter -> "P0", "P1"
	// maskFields: struct parameter -> its mask field -> "P0", "P1"
	maskFields map[*types.Var]map[*types.Var]string
	obsVar     *types.Var // loop variable over observers
	evtParam   *types.Var
	fail       string
	eff        *core.Effects
	// frames: parameter/receiver bindings of the boolean helpers currently being inlined (innermost last)
	frames []map[types.Object]ast.Expr
}

func (pc *predCtx) pure(f *core.Func) bool {
	return pc.eff == nil || len(pc.eff.Stores(f)) == 0
}

// resolve follows identifiers bound by inlined helpers to the caller's expression. It returns the expression and
// the number of frames that remain valid for interpreting it.
func (pc *predCtx) resolve(e ast.Expr) (ast.Expr, int) {
	level := len(pc.frames)
	for level > 0 {
		x := ast.Unparen(e)
		if u, ok := x.(*ast.UnaryExpr); ok && u.Op == token.AND {
			// &param: keep the address-of, resolve below it
			inner, l2 := pc.resolveAt(u.X, level)
			if l2 == level {
				break
			}
			return inner, l2
		}
		id, ok := x.(*ast.Ident)
		if !ok {
			break
		}
		mapped, ok := pc.frames[level-1][pc.m.Info.ObjectOf(id)]
		if !ok {
			break
		}
		e = mapped
		level--
	}
	return e, level
}

func (pc *predCtx) resolveAt(e ast.Expr, level int) (ast.Expr, int) {
	saved := pc.frames
	pc.frames = pc.frames[:level]
	r, l := pc.resolve(e)
	pc.frames = saved
	return r, l
}

// in runs fn with only the first `level` frames visible.
func (pc *predCtx) in(level int, fn func()) {
	saved := pc.frames
	pc.frames = pc.frames[:level]
	fn()
	pc.frames = saved
}

// isObs reports whether e denotes the loop variable over observers (possibly through helper receivers/parameters).
func (pc *predCtx) isObs(e ast.Expr) bool {
	r, _ := pc.resolve(e)
	id, ok := ast.Unparen(r).(*ast.Ident)
	return ok && pc.obsVar != nil && pc.m.Info.ObjectOf(id) == pc.obsVar
}

func (pc *predCtx) operand(e ast.Expr) (string, string) {
	m := pc.m
	e = ast.Unparen(e)
	if u, ok := e.(*ast.UnaryExpr); ok && u.Op == token.AND {
		e = ast.Unparen(u.X)
	}
	if r, level := pc.resolve(e); level != len(pc.frames) {
		var a, b string
		pc.in(level, func() { a, b = pc.operand(r) })
		return a, b
	}
	switch x := e.(type) {
	case *ast.Ident:
		if v, ok := m.Info.ObjectOf(x).(*types.Var); ok {
			if p, ok := pc.maskPars[v]; ok {
				return p, ""
			}
			// a local that stands for one expression (allComps := &m.allComps[evt])
			if fn := m.EnclosingFunc(v.Pos()); fn != nil && !v.IsField() {
				if defs := localDefsOf(m, fn, v); len(defs) == 1 {
					return pc.operand(defs[0])
				}
			}
		}
	case *ast.SelectorExpr:
		if fld := m.FieldOf(x); fld != nil {
			if id := identOf(x.X); id != nil {
				if pv, ok := m.Info.ObjectOf(id).(*types.Var); ok {
					if name, ok := pc.maskFields[pv][fld]; ok {
						return name, ""
					}
				}
			}
			key := m.FieldKey(fld)
			if pc.isObs(x.X) {
				switch key {
				case "observerData.compsMask":
					return "o.comps", ""
				case "observerData.withMask":
					return "o.with", ""
				case "observerData.withoutMask":
					return "o.without", ""
				}
			}
		}
	case *ast.IndexExpr:
		if sel, ok := ast.Unparen(x.X).(*ast.SelectorExpr); ok {
			if fld := m.FieldOf(sel); fld != nil {
				evt := pc.eventIndex(x.Index)
				switch m.FieldKey(fld) {
				case "observerManager.allComps":
					return "agg.allComps", evt
				case "observerManager.allWith":
					return "agg.allWith", evt
				}
			}
		}
	}
	pc.fail = "operand outside the vocabulary: " + m.ExprString(e)
	return "?", ""
}

func (pc *predCtx) eventIndex(e ast.Expr) string {
	if r, level := pc.resolve(e); level != len(pc.frames) {
		out := ""
		pc.in(level, func() { out = pc.eventIndex(r) })
		return out
	}
	if c := eventConstName(pc.m, e); c != "" {
		return c
	}
	if id, ok := ast.Unparen(e).(*ast.Ident); ok && pc.evtParam != nil && pc.m.Info.ObjectOf(id) == pc.evtParam {
		return "evt"
	}
	// the expression that a local standing for the event type names (evt := event.eventType; ... observers[event.eventType])
	if pc.evtParam != nil && pc.f != nil {
		if ds := localDefsOf(pc.m, pc.f, pc.evtParam); len(ds) == 1 && pc.m.ExprString(ds[0]) == pc.m.ExprString(e) {
			return "evt"
		}
	}
	return "?" + pc.m.ExprString(e)
}

// toDNF converts a boolean expression over the vocabulary into DNF.
func (pc *predCtx) toDNF(e ast.Expr, neg bool) dnf {
	m := pc.m
	e = ast.Unparen(e)
	if r, level := pc.resolve(e); level != len(pc.frames) {
		var out dnf
		pc.in(level, func() { out = pc.toDNF(r, neg) })
		return out
	}
	if tv, ok := m.Info.Types[e]; ok && tv.Value != nil && tv.Value.Kind() == constant.Bool {
		if constant.BoolVal(tv.Value) != neg {
			return dnf{{}} // true
		}
		return dnf{} // false
	}
	switch x := e.(type) {
	case *ast.UnaryExpr:
		if x.Op == token.NOT {
			return pc.toDNF(x.X, !neg)
		}
	case *ast.BinaryExpr:
		if x.Op == token.LAND || x.Op == token.LOR {
			and := (x.Op == token.LAND) != neg
			l, r := pc.toDNF(x.X, neg), pc.toDNF(x.Y, neg)
			if and {
				return dnfAnd(l, r)
			}
			return append(l, r...)
		}
	case *ast.CallExpr:
		if sel, ok := ast.Unparen(x.Fun).(*ast.SelectorExpr); ok && len(x.Args) == 1 {
			if k, cal, _ := m.Callee(x); k == core.CallStatic && (cal.Recv == "bitMask256" || cal.Recv == "bitMask64") {
				op := cal.Obj.Name()
				if op == "Contains" || op == "ContainsAny" {
					a, ea := pc.operand(sel.X)
					b, eb := pc.operand(x.Args[0])
					evt := ea
					if evt == "" {
						evt = eb
					}
					return dnf{{lit{Neg: neg, Op: op, A: a, B: b, Evt: evt}}}
				}
			}
		}
		// a pure boolean helper: inline its body (if-chains of returns and a final return)
		if k, cal, _ := m.Callee(x); k == core.CallStatic && cal.Body != nil && returnsBool(cal) && len(pc.frames) < 4 && pc.pure(cal) {
			frame := map[types.Object]ast.Expr{}
			if cal.Sig.Recv() != nil {
				if sel, ok := ast.Unparen(x.Fun).(*ast.SelectorExpr); ok {
					frame[cal.Sig.Recv()] = sel.X
				}
			}
			for i := 0; i < cal.Sig.Params().Len() && i < len(x.Args); i++ {
				frame[cal.Sig.Params().At(i)] = x.Args[i]
			}
			pc.frames = append(pc.frames, frame)
			out, ok := pc.bodyDNF(cal.Body.List, neg)
			pc.frames = pc.frames[:len(pc.frames)-1]
			if ok {
				return out
			}
		}
	case *ast.Ident:
		if v, ok := m.Info.ObjectOf(x).(*types.Var); ok && isBool(v.Type()) {
			return dnf{{lit{Neg: neg, Op: "flag", A: x.Name}}}
		}
	case *ast.SelectorExpr:
		if fld := m.FieldOf(x); fld != nil {
			if pc.isObs(x.X) {
				switch m.FieldKey(fld) {
				case "observerData.hasComps":
					return dnf{{lit{Neg: neg, Op: "flag", A: "o.hasComps"}}}
				case "observerData.hasWith":
					return dnf{{lit{Neg: neg, Op: "flag", A: "o.hasWith"}}}
				case "observerData.hasWithout":
					return dnf{{lit{Neg: neg, Op: "flag", A: "o.hasWithout"}}}
				}
			}
		}
	case *ast.IndexExpr:
		if sel, ok := ast.Unparen(x.X).(*ast.SelectorExpr); ok {
			if fld := m.FieldOf(sel); fld != nil {
				evt := pc.eventIndex(x.Index)
				switch m.FieldKey(fld) {
				case "observerManager.anyNoComps":
					return dnf{{lit{Neg: neg, Op: "flag", A: "agg.anyNoComps", Evt: evt}}}
				case "observerManager.anyNoWith":
					return dnf{{lit{Neg: neg, Op: "flag", A: "agg.anyNoWith", Evt: evt}}}
				}
			}
		}
	}
	pc.fail = "condition outside the vocabulary: " + m.ExprString(e)
	return dnf{{lit{Op: "flag", A: "?"}}}
}

// bodyDNF converts the body of a pure boolean helper (a chain of `if c { return e }` statements ending in
// `return e`) into the DNF of its result (negated if neg).
func (pc *predCtx) bodyDNF(list []ast.Stmt, neg bool) (dnf, bool) {
	if len(list) == 0 {
		return nil, false
	}
	switch x := list[0].(type) {
	case *ast.ReturnStmt:
		if len(x.Results) != 1 {
			return nil, false
		}
		return pc.toDNF(x.Results[0], neg), true
	case *ast.IfStmt:
		if x.Init != nil {
			return nil, false
		}
		thenD, ok := pc.bodyDNF(x.Body.List, neg)
		if !ok {
			return nil, false
		}
		var rest []ast.Stmt
		if x.Else != nil {
			switch el := x.Else.(type) {
			case *ast.BlockStmt:
				rest = el.List
			default:
				rest = []ast.Stmt{el}
			}
		} else {
			rest = list[1:]
		}
		elseD, ok := pc.bodyDNF(rest, neg)
		if !ok {
			return nil, false
		}
		// result = (c && then) || (!c && else)
		return append(dnfAnd(pc.toDNF(x.Cond, false), thenD), dnfAnd(pc.toDNF(x.Cond, true), elseD)...), true
	}
	return nil, false
}

func isBool(t types.Type) bool {
	b, ok := t.Underlying().(*types.Basic)
	return ok && b.Kind() == types.Bool
}

// firePred is the extracted predicate structure of a fire function.
type firePred struct {
	f        *core.Func
	masks    int
	evt      string // event index of the observers slice: constant name or "evt"
	earlyOut dnf    // disjunction of early-out conjunctions (the earlyOut flag literal removed)
	skips    dnf    // disjunction of per-observer skip conjunctions
	events   map[string]bool
	fail     string
}

func extractFire(c *core.Ctx, a *Anchors, f *core.Func) *firePred {
	m := c.M
	fp := &firePred{f: f, events: map[string]bool{}}
	pc := &predCtx{m: m, f: f, maskPars: map[*types.Var]string{}, eff: c.Eff}
	for i := 0; i < f.Sig.Params().Len(); i++ {
		p := f.Sig.Params().At(i)
		if isMaskPtr(p.Type()) {
			pc.maskPars[p] = fmt.Sprintf("P%d", fp.masks)
			fp.masks++
		}
		// mask parameters bundled in a small struct: its mask fields take the parameter positions, in field order
		if st, ok := p.Type().Underlying().(*types.Struct); ok && core.NamedName(p.Type()) != "Event" {
			for j := 0; j < st.NumFields(); j++ {
				if isMaskPtr(st.Field(j).Type()) {
					if pc.maskFields == nil {
						pc.maskFields = map[*types.Var]map[*types.Var]string{}
					}
					if pc.maskFields[p] == nil {
						pc.maskFields[p] = map[*types.Var]string{}
					}
					pc.maskFields[p][st.Field(j).Origin()] = fmt.Sprintf("P%d", fp.masks)
					fp.masks++
				}
			}
		}
		if core.NamedName(p.Type()) == "EventType" {
			pc.evtParam = p
		}
		// a parameter that carries the event (its type and its mask) as fields: locals defined from those fields stand
		// for the mask / event-type parameters, in the position of the carrying parameter
		if core.NamedName(p.Type()) == "Event" {
			core.InspectNoLits(f.Body, func(n ast.Node) bool {
				as, ok := n.(*ast.AssignStmt)
				if !ok || len(as.Lhs) != len(as.Rhs) {
					return true
				}
				for j, l := range as.Lhs {
					id, ok := l.(*ast.Ident)
					if !ok {
						continue
					}
					lv, ok := m.Info.ObjectOf(id).(*types.Var)
					if !ok || len(localDefsOf(m, f, lv)) != 1 {
						continue
					}
					r := ast.Unparen(as.Rhs[j])
					if u, ok := r.(*ast.UnaryExpr); ok && u.Op == token.AND {
						r = ast.Unparen(u.X)
					}
					sel, ok := r.(*ast.SelectorExpr)
					if !ok || !isIdentOf(m, sel.X, p) {
						continue
					}
					switch {
					case isMaskPtr(lv.Type()):
						pc.maskPars[lv] = fmt.Sprintf("P%d", fp.masks)
						fp.masks++
					case core.NamedName(lv.Type()) == "EventType":
						pc.evtParam = lv
						fp.events["custom"] = true // the event type of an Event value is a user-defined one
					}
				}
				return true
			})
		}
	}
	// locate the loop over observers (anywhere in the body): it ranges over m.observers[E] or a local defined from it
	var loop ast.Stmt
	var loopBody *ast.BlockStmt
	loops := 0
	core.InspectNoLits(f.Body, func(n ast.Node) bool {
		src, body, ok := elementLoop(m, n)
		if !ok {
			return true
		}
		if ix, ok := ast.Unparen(src).(*ast.IndexExpr); ok {
			if sel, ok := ast.Unparen(ix.X).(*ast.SelectorExpr); ok {
				if fld := m.FieldOf(sel); fld != nil && m.FieldKey(fld) == "observerManager.observers" {
					loop, loopBody = n.(ast.Stmt), body
					loops++
					fp.evt = pc.eventIndex(ix.Index)
				}
			}
		}
		return true
	})
	if loop == nil || loops != 1 {
		fp.fail = fmt.Sprintf("%d loops over observerManager.observers[...] (want exactly one)", loops)
		return fp
	}
	// the observer of the iteration: the range value, or the local that the body defines from the element
	if rs, ok := loop.(*ast.RangeStmt); ok {
		if id, ok := rs.Value.(*ast.Ident); ok {
			pc.obsVar, _ = m.Info.ObjectOf(id).(*types.Var)
		}
	}
	if pc.obsVar == nil {
		for _, st := range loopBody.List {
			as, ok := st.(*ast.AssignStmt)
			if !ok || as.Tok != token.DEFINE || len(as.Lhs) != 1 || len(as.Rhs) != 1 {
				continue
			}
			if _, isIx := ast.Unparen(as.Rhs[0]).(*ast.IndexExpr); isIx && core.NamedName(m.Info.TypeOf(as.Rhs[0])) == "observerData" {
				if id := identOf(as.Lhs[0]); id != nil {
					pc.obsVar, _ = m.Info.ObjectOf(id).(*types.Var)
				}
			}
		}
	}
	// Early-outs: the conditions under which the loop is not reached. Computed from the paths to the loop statement,
	// so `if c { return }` chains, nesting under `if earlyOut`, merged or split conditions and a loop wrapped in a
	// positive `if` all give the same result.
	isReturn := func(st ast.Stmt) bool { _, ok := st.(*ast.ReturnStmt); return ok }
	found, positives, exits, why := reachConds(f.Body.List, loop, isReturn)
	if !found {
		fp.fail = "cannot determine the paths to the dispatch loop: " + why
		return fp
	}
	fp.earlyOut = pc.negReach(positives, exits)
	// strip the earlyOut flag literal (a caller-side optimisation switch)
	for i, conj := range fp.earlyOut {
		var out []lit
		for _, l := range conj {
			if l.Op == "flag" && !strings.Contains(l.A, ".") && !l.Neg {
				continue
			}
			out = append(out, l)
		}
		fp.earlyOut[i] = out
	}
	// Per-observer skips: the conditions under which the callback is not reached inside one iteration.
	var cbStmt ast.Stmt
	cbs := 0
	ast.Inspect(loopBody, func(n ast.Node) bool {
		if es, ok := n.(*ast.ExprStmt); ok {
			if call, ok := es.X.(*ast.CallExpr); ok {
				if sel, ok := ast.Unparen(call.Fun).(*ast.SelectorExpr); ok {
					if fld := m.FieldOf(sel); fld != nil && m.FieldKey(fld) == "observerData.callback" {
						cbStmt = es
						cbs++
					}
				}
			}
		}
		return true
	})
	if cbs != 1 {
		fp.fail = fmt.Sprintf("dispatch loop invokes the callback at %d places (want exactly one)", cbs)
		return fp
	}
	isSkip := func(st ast.Stmt) bool {
		br, ok := st.(*ast.BranchStmt)
		return ok && br.Tok == token.CONTINUE
	}
	found, positives, exits, why = reachConds(loopBody.List, cbStmt, isSkip)
	if !found {
		fp.fail = "cannot determine the paths to the callback: " + why
		return fp
	}
	fp.skips = pc.negReach(positives, exits)
	if pc.fail != "" && fp.fail == "" {
		fp.fail = pc.fail
	}
	return fp
}

// breakTruth is truthAt for a branch statement (which is an edge, not a node, of the control-flow graph): what is
// known at the statement in front of it, or - when it is the first statement of an if branch - what that branch
// assumes on top of what is known at the if.
func breakTruth(m *core.Model, f *core.Func, br *ast.BranchStmt, isAtom func(ast.Expr) bool) int {
	list, idx := enclosingStmtList(f, br)
	if idx > 0 {
		return truthAt(m, f, list[idx-1], isAtom)
	}
	res := 0
	core.InspectNoLits(f.Body, func(n ast.Node) bool {
		is, ok := n.(*ast.IfStmt)
		if !ok {
			return true
		}
		inThen := len(is.Body.List) > 0 && is.Body.List[0] == ast.Stmt(br)
		inElse := false
		if eb, ok := is.Else.(*ast.BlockStmt); ok && len(eb.List) > 0 && eb.List[0] == ast.Stmt(br) {
			inElse = true
		}
		if !inThen && !inElse {
			return true
		}
		res = truthAt(m, f, is.Cond, isAtom)
		for _, a := range core.Assume(is.Cond, inThen) {
			if isAtom(a.Expr) {
				if a.Truth {
					res = 1
				} else {
					res = -1
				}
			}
		}
		return true
	})
	return res
}

// condTerm is a condition that must have the given truth value.
type condTerm struct {
	e    ast.Expr
	want bool
}

// reachConds determines how the statement target inside list is reached: positives are the conditions of the
// enclosing ifs (with the branch taken), exits the path conditions under which an exit statement (as classified by
// isExit) is executed before the target. Statements without control flow are ignored.
func reachConds(list []ast.Stmt, target ast.Node, isExit func(ast.Stmt) bool) (found bool, positives []condTerm, exits [][]condTerm, why string) {
	contains := func(n ast.Node) bool {
		if n == nil {
			return false
		}
		f := false
		ast.Inspect(n, func(x ast.Node) bool {
			if x == target {
				f = true
			}
			return !f
		})
		return f
	}
	terminates := func(l []ast.Stmt) bool { return len(l) > 0 && isExit(l[len(l)-1]) }
	var collect func(st ast.Stmt, cur []condTerm)
	collectList := func(l []ast.Stmt, cur []condTerm) {
		if terminates(l) {
			exits = append(exits, append([]condTerm{}, cur...))
			return
		}
		for _, s := range l {
			collect(s, cur)
		}
	}
	collect = func(st ast.Stmt, cur []condTerm) {
		switch x := st.(type) {
		case *ast.IfStmt:
			if x.Init != nil {
				why = "if statement with an init clause before the target"
			}
			collectList(x.Body.List, append(append([]condTerm{}, cur...), condTerm{x.Cond, true}))
			if x.Else != nil {
				ec := append(append([]condTerm{}, cur...), condTerm{x.Cond, false})
				switch el := x.Else.(type) {
				case *ast.BlockStmt:
					collectList(el.List, ec)
				default:
					collect(el, ec)
				}
			}
		case *ast.BlockStmt:
			collectList(x.List, cur)
		case *ast.ForStmt, *ast.RangeStmt, *ast.SwitchStmt, *ast.TypeSwitchStmt, *ast.SelectStmt:
			exitInside := false
			ast.Inspect(x, func(n ast.Node) bool {
				if s, ok := n.(ast.Stmt); ok && isExit(s) {
					if _, isRet := s.(*ast.ReturnStmt); isRet {
						exitInside = true
					}
				}
				return true
			})
			if exitInside {
				why = "an exit inside a loop or switch before the target"
			}
		default:
			if isExit(st) && len(cur) == 0 {
				why = "unconditional exit before the target"
			}
		}
	}
	var walk func(l []ast.Stmt, pos []condTerm) bool
	walk = func(l []ast.Stmt, pos []condTerm) bool {
		for _, st := range l {
			if !contains(st) {
				collect(st, nil)
				continue
			}
			switch x := st.(type) {
			case *ast.IfStmt:
				if contains(x.Body) {
					return walk(x.Body.List, append(pos, condTerm{x.Cond, true}))
				}
				if x.Else != nil && contains(x.Else) {
					np := append(pos, condTerm{x.Cond, false})
					switch el := x.Else.(type) {
					case *ast.BlockStmt:
						return walk(el.List, np)
					default:
						return walk([]ast.Stmt{el}, np)
					}
				}
				why = "target inside the condition or init of an if statement"
				return false
			case *ast.BlockStmt:
				return walk(x.List, pos)
			case *ast.ForStmt:
				if ast.Node(st) != target && contains(x.Body) {
					return walk(x.Body.List, pos)
				}
				if ast.Node(st) == target {
					positives = pos
					return true
				}
				why = "target in the header of a loop"
				return false
			case *ast.RangeStmt:
				if ast.Node(st) != target && contains(x.Body) {
					return walk(x.Body.List, pos)
				}
				if ast.Node(st) == target {
					positives = pos
					return true
				}
				why = "target in the header of a loop"
				return false
			default:
				if ast.Node(st) == target {
					positives = pos
					return true
				}
				why = fmt.Sprintf("target nested in a %T", st)
				return false
			}
		}
		return false
	}
	found = walk(list, nil)
	if why != "" {
		found = false
	}
	return
}

// negReach returns the DNF of "the target is not reached": some enclosing condition has the other truth value, or
// one of the exit paths is taken.
func (pc *predCtx) negReach(positives []condTerm, exits [][]condTerm) dnf {
	var out dnf
	for _, p := range positives {
		out = append(out, pc.toDNF(p.e, p.want)...) // negation of "e has value want"
	}
	for _, ex := range exits {
		d := dnf{{}}
		for _, t := range ex {
			d = dnfAnd(d, pc.toDNF(t.e, !t.want))
		}
		out = append(out, d...)
	}
	return canonDNF(out)
}

// canonDNF returns the Blake canonical form of d (the set of all prime implicants), computed by iterated consensus
// and absorption. Logically equivalent formulas over the same literals get the same canonical form, so the comparison
// with the documented predicate does not depend on how the conditions are written (helpers with early returns,
// merged or split conditions, De Morgan forms).
func canonDNF(d dnf) dnf {
	type term map[string]lit // atom key (positive form) -> literal
	atomKey := func(l lit) string { l.Neg = false; return l.String() + "@" + l.Evt }
	var terms []term
	add := func(t term) bool {
		// absorbed by an existing term?
		for _, u := range terms {
			sub := true
			for k, lu := range u {
				if lt, ok := t[k]; !ok || lt.Neg != lu.Neg {
					sub = false
					break
				}
			}
			if sub {
				return false
			}
		}
		// remove terms absorbed by t
		var kept []term
		for _, u := range terms {
			sub := true
			for k, lt := range t {
				if lu, ok := u[k]; !ok || lu.Neg != lt.Neg {
					sub = false
					break
				}
			}
			if !sub {
				kept = append(kept, u)
			}
		}
		terms = append(kept, t)
		return true
	}
	for _, conj := range d {
		t := term{}
		ok := true
		for _, l := range conj {
			k := atomKey(l)
			if prev, dup := t[k]; dup && prev.Neg != l.Neg {
				ok = false // contradictory conjunction
				break
			}
			t[k] = l
		}
		if ok {
			add(t)
		}
	}
	for changed, rounds := true, 0; changed && rounds < 64; rounds++ {
		changed = false
		n := len(terms)
		for i := 0; i < n && !changed; i++ {
			for j := i + 1; j < n && !changed; j++ {
				a, b := terms[i], terms[j]
				opposed := ""
				cnt := 0
				for k, la := range a {
					if lb, ok := b[k]; ok && lb.Neg != la.Neg {
						opposed = k
						cnt++
					}
				}
				if cnt != 1 {
					continue
				}
				cons := term{}
				for k, l := range a {
					if k != opposed {
						cons[k] = l
					}
				}
				for k, l := range b {
					if k != opposed {
						cons[k] = l
					}
				}
				if add(cons) {
					changed = true
				}
			}
		}
	}
	var out dnf
	for _, t := range terms {
		var conj []lit
		for _, l := range t {
			conj = append(conj, l)
		}
		sort.Slice(conj, func(i, j int) bool { return conj[i].String() < conj[j].String() })
		out = append(out, conj)
	}
	sort.Slice(out, func(i, j int) bool { return conjKey(out[i]) < conjKey(out[j]) })
	return out
}

// familySpec: expected per-observer skip conjunctions per family.
func familySpec(family string) []string {
	s := func(ls ...lit) string { return conjKey(ls) }
	hasC, hasW, hasWo := lit{Op: "flag", A: "o.hasComps"}, lit{Op: "flag", A: "o.hasWith"}, lit{Op: "flag", A: "o.hasWithout"}
	con := func(a, b string, neg bool) lit { return lit{Neg: neg, Op: "Contains", A: a, B: b} }
	any := func(a, b string, neg bool) lit { return lit{Neg: neg, Op: "ContainsAny", A: a, B: b} }
	switch family {
	case "entity":
		return []string{s(hasW, con("P0", "o.with", true)), s(hasWo, any("P0", "o.without", false))}
	case "entityRel":
		return []string{s(hasC, con("P0", "o.comps", true)), s(hasW, con("P0", "o.with", true)), s(hasWo, any("P0", "o.without", false))}
	case "add":
		return []string{s(hasC, con("P1", "o.comps", true)), s(hasC, any("P0", "o.comps", false)), s(hasW, con("P0", "o.with", true)), s(hasWo, any("P0", "o.without", false))}
	case "remove":
		return []string{s(hasC, con("P0", "o.comps", true)), s(hasC, any("P1", "o.comps", false)), s(hasW, con("P0", "o.with", true)), s(hasWo, any("P0", "o.without", false))}
	case "changed": // set components, set relations, custom events: P0 = changed/event mask, P1 = entity mask
		return []string{s(hasC, con("P0", "o.comps", true)), s(hasW, con("P1", "o.with", true)), s(hasWo, any("P1", "o.without", false))}
	}
	return nil
}

func fireFamily(fp *firePred) string {
	has := func(e string) bool { return fp.events[e] }
	switch {
	case fp.masks == 1 && (has("OnCreateEntity") || has("OnRemoveEntity")):
		return "entity"
	case fp.masks == 1 && (has("OnAddRelations") || has("OnRemoveRelations")):
		return "entityRel"
	case fp.masks == 2 && has("OnAddComponents"):
		return "add"
	case fp.masks == 2 && has("OnRemoveComponents"):
		return "remove"
	case fp.masks == 2 && (has("OnSetComponents") || has("custom") || (has("OnAddRelations") && has("OnRemoveRelations"))):
		return "changed"
	}
	return ""
}

func c08r1r2(c *core.Ctx) {
	a := GetAnchors(c)
	m := c.M
	if len(a.Fire) == 0 {
		c.Undecide("C08/R2", "role fire", "no fire function derived")
		return
	}
	preds := map[*core.Func]*firePred{}
	for f := range a.Fire {
		preds[f] = extractFire(c, a, f)
		if ev := fireOwnEvent(m, f); ev != "" && eventParamIndex(f) < 0 {
			preds[f].events[ev] = true
		}
	}
	// events reaching each fire function through call sites (wrappers resolved by FireCallOf)
	for _, g := range m.AllFuncs() {
		core.InspectNoLits(g.Body, func(n ast.Node) bool {
			if call, ok := n.(*ast.CallExpr); ok {
				if fc := a.FireCallOf(g, call); fc != nil && fc.Event != "" && !fc.Forward {
					if eventParamIndex(fc.Callee) >= 0 {
						preds[fc.Fire].events[fc.Event] = true
					}
				}
				// the event type is a parameter of the enclosing helper: take it from the helper's call sites
				if fc := a.FireCallOf(g, call); fc != nil && fc.Forward {
					if pi := eventParamIndex(fc.Callee); pi >= 0 && pi < len(call.Args) && !a.Fire[g] {
						if _, isWrapper := a.fireWrappers()[g]; !isWrapper {
							if id, ok := ast.Unparen(call.Args[pi]).(*ast.Ident); ok {
								if v, ok := m.Info.ObjectOf(id).(*types.Var); ok {
									if gi, isP := paramIndexOf(g, v); isP {
										for _, cs := range m.CallSites() {
											if cs.Callee == g && gi < len(cs.Call.Args) {
												if ev := eventConstName(m, cs.Call.Args[gi]); ev != "" {
													if preEvents[ev] || postEvents[ev] {
														preds[fc.Fire].events[ev] = true
													} else {
														preds[fc.Fire].events["custom"] = true
													}
												} else {
													preds[fc.Fire].events["custom"] = true
												}
											}
										}
									}
								}
							}
						}
					}
				}
			}
			return true
		})
	}
	var fs []*core.Func
	for f := range preds {
		fs = append(fs, f)
	}
	sort.Slice(fs, func(i, j int) bool { return fs[i].Pos() < fs[j].Pos() })
	for _, f := range fs {
		fp := preds[f]
		if fp.fail != "" {
			c.Undecide("C08/R2", f.Name, "predicate extraction failed: "+fp.fail)
			continue
		}
		fam := fireFamily(fp)
		var evs []string
		for e := range fp.events {
			evs = append(evs, e)
		}
		sort.Strings(evs)
		if fam == "" {
			c.Undecide("C08/R2", f.Name, fmt.Sprintf("cannot determine the event family (masks=%d events=%v)", fp.masks, evs))
			continue
		}
		// R2: skips equal the documented semantics
		got := map[string]bool{}
		for _, conj := range fp.skips {
			got[conjKey(conj)] = true
		}
		want := map[string]bool{}
		for _, k := range familySpec(fam) {
			want[k] = true
		}
		var missing, extra []string
		for k := range want {
			if !got[k] {
				missing = append(missing, k)
			}
		}
		for k := range got {
			if !want[k] {
				extra = append(extra, k)
			}
		}
		sort.Strings(missing)
		sort.Strings(extra)
		if len(missing) == 0 && len(extra) == 0 {
			c.OK("C08/R2", f.Name, c.At(f.Pos()), fmt.Sprintf("family %s (events %v): per-observer skip conditions equal the documented semantics (%d literals)", fam, evs, len(got)))
		} else {
			c.Violation("C08/R2", f.Name, c.At(f.Pos()), fmt.Sprintf("%s (family %s): per-observer predicate differs from the documented semantics; missing skip conditions: %v; unexpected: %v", f.Name, fam, missing, extra))
		}
		// R1: early-out soundness
		type req struct{ kind, mask, set string } // kind: "need" (X ⊇ s / X∩s≠∅) or "avoid" (Y∩s=∅ / ¬Y⊇s)
		var reqs []req
		for _, conj := range fp.skips {
			var flag string
			var l *lit
			for i := range conj {
				if conj[i].Op == "flag" {
					flag = conj[i].A
				} else {
					l = &conj[i]
				}
			}
			if l == nil || flag == "" {
				continue
			}
			set := strings.TrimPrefix(l.B, "o.")
			// skip if !X.Contains(s) => requirement X ⊇ s; skip if !X.ContainsAny(s) => X∩s≠∅ : both "need"
			// skip if Y.ContainsAny(s) => requirement Y∩s=∅; skip if Y.Contains(s) => ¬Y⊇s : both "avoid"
			if l.Neg {
				reqs = append(reqs, req{"need", l.A, set})
			} else {
				reqs = append(reqs, req{"avoid", l.A, set})
			}
		}
		okAll := true
		for _, conj := range fp.earlyOut {
			// expected shape: !agg.anyNoS && (!agg.allS.ContainsAny(X) | Y.Contains(agg.allS))
			var flagL, maskL *lit
			for i := range conj {
				if conj[i].Op == "flag" {
					flagL = &conj[i]
				} else {
					maskL = &conj[i]
				}
			}
			desc := conjKey(conj)
			if len(conj) != 2 || flagL == nil || maskL == nil || !flagL.Neg || !strings.HasPrefix(flagL.A, "agg.anyNo") {
				okAll = false
				c.Violation("C08/R1", f.Name+" early-out "+desc, c.At(f.Pos()), f.Name+": early-out `"+desc+"` is not of the form ¬anyNo<S> ∧ <aggregate test>; it cannot be justified by the lifting table")
				continue
			}
			set := strings.ToLower(strings.TrimPrefix(flagL.A, "agg.anyNo")) // comps / with
			agg := "agg.all" + strings.TrimPrefix(flagL.A, "agg.anyNo")
			justified := false
			var mask string
			switch {
			case maskL.Op == "ContainsAny" && maskL.Neg && (maskL.A == agg || maskL.B == agg):
				mask = maskL.B
				if maskL.B == agg {
					mask = maskL.A
				}
				for _, r := range reqs {
					if r.kind == "need" && r.mask == mask && r.set == set {
						justified = true
					}
				}
			case maskL.Op == "Contains" && !maskL.Neg && maskL.B == agg:
				mask = maskL.A
				for _, r := range reqs {
					if r.kind == "avoid" && r.mask == mask && r.set == set {
						justified = true
					}
				}
			}
			evtOK := flagL.Evt == fp.evt && maskL.Evt == fp.evt
			switch {
			case !justified:
				okAll = false
				c.Violation("C08/R1", f.Name+" early-out "+desc, c.At(f.Pos()), fmt.Sprintf("%s: early-out `%s` is not the aggregate lift of any per-observer requirement of this function on the same mask (requirements: %v); an observer's firing would depend on which other observers are registered", f.Name, desc, reqs))
			case !evtOK:
				okAll = false
				c.Violation("C08/R1", f.Name+" early-out "+desc, c.At(f.Pos()), fmt.Sprintf("%s: early-out `%s` reads the aggregates of event %s/%s but the loop dispatches observers[%s]", f.Name, desc, flagL.Evt, maskL.Evt, fp.evt))
			default:
				c.OK("C08/R1", f.Name+" early-out "+desc, c.At(f.Pos()), "sound aggregate lift of a per-observer requirement on the same mask and event")
			}
		}
		_ = okAll
	}
}

// c08r3: observer compilation in the registering function.
func c08r3(c *core.Ctx) {
	m := c.M
	// the registering function: appends to observerManager.observers
	var reg *core.Func
	for _, f := range m.Funcs {
		for _, s := range c.Eff.Stores(f) {
			if len(s.Via) == 0 && s.Path.Has("observerManager.observers") && s.Kind == core.StoreElem {
				if as, ok := s.Node.(*ast.AssignStmt); ok && len(as.Rhs) == 1 {
					// (the append may be written as a method of the list type: list.add(o) for append(list, o))
					if appendOf(m, as.Rhs[0]) != nil {
						reg = f
					}
				}
			}
		}
	}
	// (or through a method of the list type with a pointer receiver: m.observers[evt].add(o))
	if reg == nil {
		for _, f := range m.Funcs {
			core.InspectNoLits(f.Body, func(n ast.Node) bool {
				if x := appendThroughPointer(m, n); x != nil {
					if ix, ok := ast.Unparen(x).(*ast.IndexExpr); ok && fieldKeyOf(m, ix.X) == "observerManager.observers" {
						reg = f
					}
				}
				return true
			})
		}
	}
	if reg == nil {
		c.Undecide("C08/R3", "register role", "no function appends to observerManager.observers")
		return
	}
	maskFlag := map[string]string{"observerData.compsMask": "observerData.hasComps", "observerData.withMask": "observerData.hasWith", "observerData.withoutMask": "observerData.hasWithout"}
	fieldOfSel := func(e ast.Expr) string {
		if sel, ok := ast.Unparen(e).(*ast.SelectorExpr); ok {
			if fld := m.FieldOf(sel); fld != nil {
				return m.FieldKey(fld)
			}
		}
		return ""
	}
	// Route facts: which source list (Observer.comps / with / without) is folded into which mask, together with which
	// guard flag. A fact comes from a loop over the source in the registering function, or from a call of a helper that
	// loops over its list parameter, sets the bits in its mask parameter and the flag through its flag parameter.
	type routeFact struct {
		src, mask, flag string
		node            ast.Node
	}
	var facts []routeFact
	isSetOn := func(call *ast.CallExpr) ast.Expr {
		// the mask method that sets one bit: one argument, stores into the receiver
		sel, ok := ast.Unparen(call.Fun).(*ast.SelectorExpr)
		if !ok || len(call.Args) != 1 {
			return nil
		}
		k, cal, _ := m.Callee(call)
		if k != core.CallStatic || (cal.Recv != "bitMask256" && cal.Recv != "bitMask64") || cal.Sig.Results().Len() != 0 || len(c.Eff.Stores(cal)) == 0 {
			return nil
		}
		if isMaskPtr(cal.Sig.Params().At(0).Type()) {
			return nil // OrI and friends take a mask
		}
		return sel.X
	}
	unref := func(e ast.Expr) ast.Expr {
		e = ast.Unparen(e)
		if u, ok := e.(*ast.UnaryExpr); ok && u.Op == token.AND {
			return ast.Unparen(u.X)
		}
		if st, ok := e.(*ast.StarExpr); ok {
			return ast.Unparen(st.X)
		}
		return e
	}
	// helper summaries: (list param, mask param, flag param)
	type routeSum struct{ list, mask, flag int }
	sums := map[*core.Func]*routeSum{}
	for _, h := range m.Funcs {
		if h == reg || h.Sig == nil || h.Body == nil {
			continue
		}
		var rs *routeSum
		core.InspectNoLits(h.Body, func(n ast.Node) bool {
			loop, ok := n.(*ast.RangeStmt)
			if !ok {
				return true
			}
			lv, _ := m.Info.ObjectOf(identOf(loop.X)).(*types.Var)
			li, isP := -2, false
			if lv != nil {
				li, isP = paramIndexOf(h, lv)
			}
			if !isP {
				return true
			}
			mi, fi := -1, -1
			ast.Inspect(loop.Body, func(x ast.Node) bool {
				switch y := x.(type) {
				case *ast.CallExpr:
					if recv := isSetOn(y); recv != nil {
						if pv, _ := m.Info.ObjectOf(identOf(recv)).(*types.Var); pv != nil {
							if i, ok := paramIndexOf(h, pv); ok {
								mi = i
							}
						}
					}
				case *ast.AssignStmt:
					for i, l := range y.Lhs {
						if i < len(y.Rhs) {
							if tv, ok := m.Info.Types[y.Rhs[i]]; ok && tv.Value != nil && tv.Value.String() == "true" {
								if pv, _ := m.Info.ObjectOf(identOf(unref(l))).(*types.Var); pv != nil {
									if j, ok := paramIndexOf(h, pv); ok {
										fi = j
									}
								}
							}
						}
					}
				}
				return true
			})
			if mi >= 0 {
				rs = &routeSum{li, mi, fi}
			}
			return true
		})
		if rs != nil {
			sums[h] = rs
		}
	}
	core.InspectNoLits(reg.Body, func(n ast.Node) bool {
		if lsrc, lbody, isLoop := elementLoop(m, n); isLoop && lbody != nil {
			x := n
			src := fieldOfSel(lsrc)
			if src == "" {
				return true
			}
			sets := map[string][]ast.Node{}
			flags := map[string]bool{}
			ast.Inspect(lbody, func(y ast.Node) bool {
				switch z := y.(type) {
				case *ast.CallExpr:
					if recv := isSetOn(z); recv != nil {
						if k := fieldOfSel(recv); maskFlag[k] != "" {
							sets[k] = append(sets[k], z)
						}
					}
				case *ast.AssignStmt:
					for i, l := range z.Lhs {
						if k := fieldOfSel(l); k != "" && i < len(z.Rhs) {
							if tv, ok := m.Info.Types[z.Rhs[i]]; ok && tv.Value != nil && tv.Value.String() == "true" {
								flags[k] = true
							}
						}
					}
				}
				return true
			})
			// one fact per mask and place: the loop itself when it folds into one mask, the single Set calls when the
			// loop body routes by event (a switch inside the loop instead of a loop inside each case)
			for mk, calls := range sets {
				fl := ""
				if flags[maskFlag[mk]] {
					fl = maskFlag[mk]
				}
				if len(sets) == 1 {
					facts = append(facts, routeFact{src, mk, fl, x})
					continue
				}
				for _, call := range calls {
					facts = append(facts, routeFact{src, mk, fl, call})
				}
			}
			return true
		}
		switch x := n.(type) {
		case *ast.CallExpr:
			if k, cal, _ := m.Callee(x); k == core.CallStatic && sums[cal] != nil {
				rs := sums[cal]
				if rs.list < len(x.Args) && rs.mask < len(x.Args) {
					src := fieldOfSel(x.Args[rs.list])
					mk := fieldOfSel(unref(x.Args[rs.mask]))
					fl := ""
					if rs.flag >= 0 && rs.flag < len(x.Args) {
						fl = fieldOfSel(unref(x.Args[rs.flag]))
					}
					if src != "" && maskFlag[mk] != "" {
						facts = append(facts, routeFact{src, mk, fl, x})
					}
				}
			}
		}
		return true
	})
	var lastWithSet, exclusiveNot token.Pos
	for _, ft := range facts {
		if ft.mask == "observerData.withMask" && ft.node.Pos() > lastWithSet {
			lastWithSet = ft.node.Pos()
		}
		subject := fmt.Sprintf("%s: %s folded into %s", reg.Name, ft.src, ft.mask)
		if ft.flag == maskFlag[ft.mask] {
			c.OK("C08/R3", subject, c.At(ft.node.Pos()), "guard flag set together with the mask bits")
		} else {
			c.Violation("C08/R3", subject, c.At(ft.node.Pos()), fmt.Sprintf("%s: bits are set in %s without setting %s along with them; dispatch would ignore the condition", reg.Name, ft.mask, maskFlag[ft.mask]))
		}
	}
	// routing: which source goes to which mask
	for src, w := range map[string]string{"Observer.with": "observerData.withMask", "Observer.without": "observerData.withoutMask"} {
		var got []string
		var at ast.Node
		for _, ft := range facts {
			if ft.src == src {
				got = append(got, ft.mask)
				at = ft.node
			}
		}
		if at == nil {
			continue
		}
		subject := fmt.Sprintf("%s: %s routed", reg.Name, src)
		okRoute := true
		for _, g := range got {
			if g != w {
				okRoute = false
			}
		}
		if okRoute {
			c.OK("C08/R3", subject, c.At(at.Pos()), src+" components go to "+w)
		} else {
			c.Violation("C08/R3", subject, c.At(at.Pos()), fmt.Sprintf("%s: %s components are not routed (only) into %s (found %v)", reg.Name, src, w, got))
		}
	}
	// routing of observed components (Observer.comps) by event family: inside a switch over the event
	core.InspectNoLits(reg.Body, func(n ast.Node) bool {
		sw, ok := n.(*ast.SwitchStmt)
		if !ok {
			return true
		}
		for _, cc := range sw.Body.List {
			clause := cc.(*ast.CaseClause)
			var evs []string
			for _, e := range clause.List {
				evs = append(evs, eventConstName(m, e))
			}
			entity := false
			for _, e := range evs {
				if e == "OnCreateEntity" || e == "OnRemoveEntity" {
					entity = true
				}
			}
			target := ""
			for _, ft := range facts {
				if ft.src == "Observer.comps" && clause.Pos() <= ft.node.Pos() && ft.node.End() <= clause.End() {
					target = ft.mask
				}
			}
			name := strings.Join(evs, ",")
			if clause.List == nil {
				name = "default"
			}
			subject := fmt.Sprintf("%s: observed components for case %s", reg.Name, name)
			want := "observerData.compsMask"
			if entity {
				want = "observerData.withMask"
			}
			if target == want {
				c.OK("C08/R3", subject, c.At(clause.Pos()), "observed components routed into "+want)
			} else {
				c.Violation("C08/R3", subject, c.At(clause.Pos()), fmt.Sprintf("%s: for events %s the observed (For) components go to %s, documented semantics needs %s", reg.Name, name, target, want))
			}
		}
		return true
	})
	// (c) exclusive: withoutMask = withMask.Not() after the last with-bit
	core.InspectNoLits(reg.Body, func(n ast.Node) bool {
		as, ok := n.(*ast.AssignStmt)
		if !ok || len(as.Lhs) != 1 || len(as.Rhs) != 1 {
			return true
		}
		if fieldOfSel(as.Lhs[0]) != "observerData.withoutMask" {
			return true
		}
		if call, ok := ast.Unparen(as.Rhs[0]).(*ast.CallExpr); ok {
			if sel, ok := ast.Unparen(call.Fun).(*ast.SelectorExpr); ok && sel.Sel.Name == "Not" && fieldOfSel(sel.X) == "observerData.withMask" {
				exclusiveNot = as.Pos()
			}
		}
		return true
	})
	if exclusiveNot == token.NoPos {
		c.Violation("C08/R3", reg.Name+": exclusive", c.At(reg.Pos()), reg.Name+": exclusive observers do not get withoutMask = ¬withMask")
	} else if exclusiveNot < lastWithSet {
		c.Violation("C08/R3", reg.Name+": exclusive", c.At(exclusiveNot), reg.Name+": the exclusive mask is computed before all with-components were added to the with-mask")
	} else {
		c.OK("C08/R3", reg.Name+": exclusive", c.At(exclusiveNot), "exclusive mask computed from the complete with-mask")
	}
	// (d) aggregates folded from the observer's own masks: if o.hasX { allX[evt].OrI(&o.xMask) } else { anyNoX[evt] = true }
	for _, pair := range [][4]string{
		{"observerData.hasWith", "observerManager.allWith", "observerData.withMask", "observerManager.anyNoWith"},
		{"observerData.hasComps", "observerManager.allComps", "observerData.compsMask", "observerManager.anyNoComps"},
	} {
		// Formulated on paths: the fold is reached only when the observer has the mask, the wildcard flag is set only
		// when it has not, and every normal path passes one of the two unless it leaves under a test of the event family.
		var folds, flags []ast.Node
		core.InspectNoLits(reg.Body, func(n ast.Node) bool {
			switch x := n.(type) {
			case *ast.CallExpr:
				if len(x.Args) != 1 {
					return true
				}
				sel, ok := ast.Unparen(x.Fun).(*ast.SelectorExpr)
				if !ok {
					return true
				}
				k, cal, _ := m.Callee(x)
				if k != core.CallStatic || cal == nil || !strings.HasPrefix(cal.Recv, "bitMask") || !strings.HasSuffix(cal.Name, ".OrI") {
					return true
				}
				if ix, ok := ast.Unparen(sel.X).(*ast.IndexExpr); ok && fieldOfSel(ix.X) == pair[1] {
					arg := ast.Unparen(x.Args[0])
					if u, ok := arg.(*ast.UnaryExpr); ok {
						arg = u.X
					}
					if fieldOfSel(arg) == pair[2] {
						folds = append(folds, x)
					}
				}
			case *ast.AssignStmt:
				if len(x.Lhs) == 1 && len(x.Rhs) == 1 {
					if ix, ok := ast.Unparen(x.Lhs[0]).(*ast.IndexExpr); ok && fieldOfSel(ix.X) == pair[3] {
						if tv, ok := m.Info.Types[x.Rhs[0]]; ok && tv.Value != nil && tv.Value.String() == "true" {
							flags = append(flags, x)
						}
					}
				}
			}
			return true
		})
		hasAtom := func(truth bool) func(*core.Func, core.Atom) bool {
			return func(_ *core.Func, at core.Atom) bool {
				return fieldOfSel(at.Expr) == pair[0] && at.Truth == truth
			}
		}
		underAtom := func(nodes []ast.Node, truth bool) bool {
			in := map[ast.Node]bool{}
			for _, n := range nodes {
				in[n] = true
			}
			spec := core.GuardSpec{
				Only:      reg,
				GuardAtom: hasAtom(truth),
				Needs: func(_ *core.Func, x ast.Node) []core.Witness {
					if in[x] {
						return []core.Witness{{What: "aggregate"}}
					}
					return nil
				},
				SkipCallee: func(*core.Func) bool { return true },
			}
			return len(m.MustPrecede(spec).Unguarded[reg]) == 0
		}
		found := len(folds) > 0 && len(flags) > 0 && underAtom(folds, true) && underAtom(flags, false)
		if found {
			isOne := map[ast.Node]bool{}
			for _, n := range append(append([]ast.Node{}, folds...), flags...) {
				isOne[n] = true
			}
			var evTest func(e ast.Expr) bool
			evTest = func(e ast.Expr) bool {
				switch x := ast.Unparen(m.Inline(ast.Unparen(e))).(type) {
				case *ast.UnaryExpr:
					return x.Op == token.NOT && evTest(x.X)
				case *ast.BinaryExpr:
					switch x.Op {
					case token.LAND, token.LOR:
						return evTest(x.X) && evTest(x.Y)
					case token.EQL, token.NEQ:
						isEv := func(y ast.Expr) bool {
							for _, z := range exprChain(m, reg, y, 0) {
								if tv, ok := m.Info.Types[z]; ok && fieldOfSel(z) != "" && core.NamedName(tv.Type) == "EventType" {
									return true
								}
							}
							return false
						}
						return isEv(x.X) || isEv(x.Y)
					}
				}
				return false
			}
			eventExits := guardedExits(m, reg, func(at core.Atom) bool { return evTest(at.Expr) })
			found = passedOnAllPathsExcept(m, reg, func(n ast.Node) bool { return isOne[n] }, eventExits)
		}
		subject := reg.Name + ": aggregate " + pair[1]
		if found {
			c.OK("C08/R3", subject, c.At(reg.Pos()), "aggregate union folded from the observer's own mask, wildcard flag set otherwise")
		} else {
			c.Violation("C08/R3", subject, c.At(reg.Pos()), fmt.Sprintf("%s: registration does not fold %s into %s (or set %s for observers without it); early-outs would skip this observer", reg.Name, pair[2], pair[1], pair[3]))
		}
	}
}

// identOf returns the identifier that e is after removing parentheses, or nil.
func identOf(e ast.Expr) *ast.Ident {
	if e == nil {
		return nil
	}
	id, _ := ast.Unparen(e).(*ast.Ident)
	return id
}

// c08r4: aggregate recomputation when an observer is removed.
func c08r4(c *core.Ctx) {
	m := c.M
	var rem *core.Func
	for _, f := range m.Funcs {
		if f.Recv != "observerManager" {
			continue
		}
		core.InspectNoLits(f.Body, func(n ast.Node) bool {
			if call, ok := n.(*ast.CallExpr); ok && m.IsBuiltin(call, "delete") && len(call.Args) == 2 {
				if m.AccessPath(f, call.Args[0]).Last() == "observerManager.indices" && f.Sig.Params().Len() >= 1 && isPtrTo(f.Sig.Params().At(0).Type(), "Observer") {
					rem = f
				}
			}
			return true
		})
	}
	if rem == nil {
		c.Undecide("C08/R4", "unregister role", "no observerManager method that takes the observer and deletes it from indices")
		return
	}
	fieldOfSel := func(e ast.Expr) string {
		if sel, ok := ast.Unparen(e).(*ast.SelectorExpr); ok {
			if fld := m.FieldOf(sel); fld != nil {
				return m.FieldKey(fld)
			}
		}
		return ""
	}
	// statements in execution order; blocks guarded by a test of the observer's event family (the entity events carry no
	// observed-component aggregates) are transparent, whether written as an early return or as a guarded block
	isEventTest := func(e ast.Expr) bool {
		okAll, any := true, false
		var visit func(x ast.Expr)
		visit = func(x ast.Expr) {
			x = ast.Unparen(x)
			switch y := x.(type) {
			case *ast.BinaryExpr:
				switch y.Op.String() {
				case "&&", "||":
					visit(y.X)
					visit(y.Y)
					return
				case "==", "!=":
					if eventConstName(m, y.Y) != "" || eventConstName(m, y.X) != "" {
						any = true
						return
					}
				}
			case *ast.UnaryExpr:
				visit(y.X)
				return
			case *ast.Ident:
				if v, ok := m.Info.ObjectOf(y).(*types.Var); ok && !v.IsField() {
					if ds := localDefsOf(m, rem, v); len(ds) == 1 {
						visit(ds[0])
						return
					}
				}
			}
			okAll = false
		}
		visit(e)
		return okAll && any
	}
	var flat []ast.Stmt
	var flatten func(list []ast.Stmt, depth int)
	flatten = func(list []ast.Stmt, depth int) {
		for _, st := range list {
			if is, ok := st.(*ast.IfStmt); ok && is.Init == nil && isEventTest(is.Cond) {
				flatten(is.Body.List, depth)
				if eb, ok := is.Else.(*ast.BlockStmt); ok {
					flatten(eb.List, depth)
				}
				continue
			}
			// a helper of the manager called as a statement: its statements take the place of the call
			if es, ok := st.(*ast.ExprStmt); ok && depth < 3 {
				if call, ok := es.X.(*ast.CallExpr); ok {
					if k, cal, _ := m.Callee(call); k == core.CallStatic && cal.Recv == rem.Recv && cal != rem && cal.Body != nil && cal.Sig.Results().Len() == 0 {
						flatten(cal.Body.List, depth+1)
						continue
					}
				}
			}
			flat = append(flat, st)
		}
	}
	flatten(rem.Body.List, 0)
	// the store that shortens observers[evt] (statements are considered in execution order, not by position)
	shortIdx := -1
	for i, st := range flat {
		if as, ok := st.(*ast.AssignStmt); ok && len(as.Lhs) == 1 {
			if ix, ok := ast.Unparen(as.Lhs[0]).(*ast.IndexExpr); ok && fieldOfSel(ix.X) == "observerManager.observers" {
				shortIdx = i
			}
		}
	}
	if shortIdx < 0 {
		c.Violation("C08/R4", rem.Name+": slice update", c.At(rem.Pos()), rem.Name+": the per-event observer slice is not re-assigned at top level")
		return
	}
	for _, pair := range [][4]string{
		{"observerData.hasWith", "observerManager.allWith", "observerData.withMask", "observerManager.anyNoWith"},
		{"observerData.hasComps", "observerManager.allComps", "observerData.compsMask", "observerManager.anyNoComps"},
	} {
		subject := rem.Name + ": recompute " + pair[1]
		// top-level statements after the shortening: anyNoX[evt] = false; for range m.observers[evt] {...}; allX[evt] = acc
		var resetFlag, loopOK, assignAgg bool
		for i, st := range flat {
			if i < shortIdx {
				continue
			}
			switch x := st.(type) {
			case *ast.AssignStmt:
				if len(x.Lhs) == 1 && len(x.Rhs) == 1 {
					if ix, ok := ast.Unparen(x.Lhs[0]).(*ast.IndexExpr); ok {
						switch fieldOfSel(ix.X) {
						case pair[3]:
							if tv, ok := m.Info.Types[x.Rhs[0]]; ok && tv.Value != nil && tv.Value.String() == "false" {
								resetFlag = true
							}
						case pair[1]:
							assignAgg = loopOK
						}
					}
				}
			case *ast.RangeStmt, *ast.ForStmt:
				var loopX ast.Expr
				var xBody *ast.BlockStmt
				if rs, isR := st.(*ast.RangeStmt); isR {
					loopX, xBody = rs.X, rs.Body
				} else if bound, body, isC := countLoop(m, st); isC {
					if call, isL := ast.Unparen(m.StripConv(bound)).(*ast.CallExpr); isL && m.IsBuiltin(call, "len") && len(call.Args) == 1 {
						loopX, xBody = call.Args[0], body
					}
				}
				if loopX == nil {
					continue
				}
				// a local that every definition takes from the per-event slices
				if id := identOf(loopX); id != nil {
					if v, isV := m.Info.ObjectOf(id).(*types.Var); isV && !v.IsField() {
						if ds := localDefsOf(m, rem, v); len(ds) > 0 {
							all := true
							for _, d := range ds {
								if ix, ok := ast.Unparen(d).(*ast.IndexExpr); !ok || fieldOfSel(ix.X) != "observerManager.observers" {
									all = false
								}
							}
							if all {
								loopX = ds[0]
							}
						}
					}
				}
				if ix, ok := ast.Unparen(loopX).(*ast.IndexExpr); !ok || fieldOfSel(ix.X) != "observerManager.observers" {
					// or the very slice that the shortening store has just put there
					id := identOf(loopX)
					sid := identOf(flat[shortIdx].(*ast.AssignStmt).Rhs[0])
					if id == nil || sid == nil || m.Info.ObjectOf(id) != m.Info.ObjectOf(sid) || len(flat[shortIdx].(*ast.AssignStmt).Rhs) != 1 {
						continue
					}
				}
				// body: if !obs.hasX { anyNoX = true; break }; acc.OrI(&obs.xMask)
				// (decided on paths: the flag store is reached exactly where the observer has no X-condition, the union
				// where it has one, whatever the if/else/continue form)
				sawWild, sawOr := false, false
				hasX := func(e ast.Expr) bool { return fieldOfSel(e) == pair[0] }
				owner := rem
				for _, g := range withCallees(m, rem, 3) {
					if g.Body != nil && g.Body.Pos() <= xBody.Pos() && xBody.End() <= g.Body.End() {
						owner = g
					}
				}
				ast.Inspect(xBody, func(y ast.Node) bool {
					switch z := y.(type) {
					case *ast.AssignStmt:
						if len(z.Lhs) == 1 && len(z.Rhs) == 1 {
							if ix2, ok := ast.Unparen(z.Lhs[0]).(*ast.IndexExpr); ok && fieldOfSel(ix2.X) == pair[3] {
								if tv, ok := m.Info.Types[z.Rhs[0]]; ok && tv.Value != nil && tv.Value.String() == "true" && truthAt(m, owner, z, hasX) == -1 {
									sawWild = true
								}
							}
						}
					case *ast.CallExpr:
						if sel, ok := ast.Unparen(z.Fun).(*ast.SelectorExpr); ok && sel.Sel.Name == "OrI" && len(z.Args) == 1 {
							arg := ast.Unparen(z.Args[0])
							if u, ok := arg.(*ast.UnaryExpr); ok {
								arg = u.X
							}
							if fieldOfSel(arg) == pair[2] && truthAt(m, owner, z, hasX) == 1 {
								sawOr = true
							}
						}
					}
					return true
				})
				// the rebuild may stop early only because this aggregate has become a wildcard: a break reached with
				// the observer known to have an X-condition (or with nothing known about it - a break that belongs to
				// the other aggregate of a fused loop) cuts the union short
				earlyStop := false
				ast.Inspect(xBody, func(y ast.Node) bool {
					switch z := y.(type) {
					case *ast.FuncLit, *ast.ForStmt, *ast.RangeStmt:
						return y == ast.Node(xBody)
					case *ast.BranchStmt:
						if z.Tok == token.BREAK && breakTruth(m, owner, z, hasX) != -1 {
							earlyStop = true
						}
					}
					return true
				})
				if sawWild && sawOr && !earlyStop {
					loopOK = true
				}
			}
		}
		if resetFlag && loopOK && assignAgg {
			c.OK("C08/R4", subject, c.At(rem.Pos()), "wildcard flag cleared and union rebuilt unconditionally from the observers remaining after removal")
		} else {
			c.Violation("C08/R4", subject, c.At(rem.Pos()), fmt.Sprintf("%s: after removing an observer, %s / %s are not unconditionally recomputed from the remaining observers (flag reset: %v, rebuild loop over the shortened slice: %v, union stored: %v); early-outs would use stale aggregates", rem.Name, pair[1], pair[3], resetFlag, loopOK, assignAgg))
		}
	}
	// hasObservers updated
	okHas := false
	for _, st := range flat {
		if as, ok := st.(*ast.AssignStmt); ok && len(as.Lhs) == 1 {
			if ix, ok := ast.Unparen(as.Lhs[0]).(*ast.IndexExpr); ok && fieldOfSel(ix.X) == "observerManager.hasObservers" {
				okHas = true
			}
		}
	}
	if okHas {
		c.OK("C08/R4", rem.Name+": hasObservers", c.At(rem.Pos()), "presence flag of the event updated on removal")
	} else {
		c.Violation("C08/R4", rem.Name+": hasObservers", c.At(rem.Pos()), rem.Name+": presence flag of the event is not updated on removal")
	}
}

// c08r5: no in-place element store into a per-event observer slice outside lock-guarded operations.
func c08r5(c *core.Ctx) {
	m := c.M
	n := 0
	for _, f := range m.Funcs {
		if f.Recv != "observerManager" {
			continue
		}
		for _, s := range m.AllFuncs() {
			_ = s
			break
		}
		bad := false
		core.InspectNoLits(f.Body, func(x ast.Node) bool {
			as, ok := x.(*ast.AssignStmt)
			if !ok {
				return true
			}
			for _, st := range m.DirectStores(f, as) {
				if !st.Path.Has("observerManager.observers") || st.Kind != core.StoreElem {
					continue
				}
				// count element levels after the field
				lv := 0
				seen := false
				for _, k := range st.Path.Keys {
					if k == "observerManager.observers" {
						seen = true
						continue
					}
					if seen && k == "[]" {
						lv++
					}
				}
				if lv >= 2 {
					bad = true
					c.Violation("C08/R5", f.Name+" stores observer element in place", c.At(as.Pos()), fmt.Sprintf("%s: in-place store into an element of a per-event observer slice (%s); a dispatch loop ranging over that slice (the function is callable from a callback) would see a moved or nil entry", f.Name, m.ExprString(as.Lhs[0])))
				}
			}
			return true
		})
		// the same through a local that may stand for (a reslice of) a per-event slice on some path
		core.InspectNoLits(f.Body, func(x ast.Node) bool {
			as, ok := x.(*ast.AssignStmt)
			if !ok {
				return true
			}
			for _, l := range as.Lhs {
				ix, ok := ast.Unparen(l).(*ast.IndexExpr)
				if !ok {
					continue
				}
				id := identOf(ix.X)
				if id == nil {
					continue
				}
				v, ok := m.Info.ObjectOf(id).(*types.Var)
				if !ok || v.IsField() {
					continue
				}
				if _, isP := paramIndexOf(f, v); isP {
					continue
				}
				for _, d := range localDefsOf(m, f, v) {
					for _, e := range exprChain(m, f, d, 0) {
						p := m.AccessPath(f, e)
						lv, seen := 0, false
						for _, k := range p.Keys {
							if k == "observerManager.observers" {
								seen = true
								continue
							}
							if seen && k == "[]" {
								lv++
							}
						}
						if seen && lv == 1 && !bad {
							bad = true
							c.Violation("C08/R5", f.Name+" stores observer element in place", c.At(as.Pos()), fmt.Sprintf("%s: %s may be (a reslice of) a per-event observer slice here (%s), so the element store edits the slice a dispatch loop may be ranging over; the function is callable from a callback", f.Name, id.Name, m.ExprString(d)))
						}
					}
				}
			}
			return true
		})
		mutates := false
		for _, s := range c.Eff.Stores(f) {
			if len(s.Via) == 0 && s.Path.Has("observerManager.observers") {
				mutates = true
			}
		}
		if mutates && !bad {
			n++
			c.OK("C08/R5", f.Name, c.At(f.Pos()), "per-event observer slices are only replaced as a whole (copy-on-write / append / truncate), never edited element-wise")
		}
	}
	if n == 0 {
		c.Undecide("C08/R5", "mutators", "no function updating observerManager.observers found")
	}
}

// internalOps derives the internal operations of the world: unexported methods of World that (transitively) mutate rows.
// Those that dispatch no post event themselves leave the emission to their callers.
func internalOps(c *core.Ctx, a *Anchors) (ops map[*core.Func]bool, emitByCaller map[*core.Func]bool) {
	m := c.M
	ops, emitByCaller = map[*core.Func]bool{}, map[*core.Func]bool{}
	for _, f := range m.Funcs {
		if f.Recv != "World" || f.Obj == nil || f.Obj.Exported() || f.Sig == nil {
			continue
		}
		mut := false
		for _, s := range c.Eff.Stores(f) {
			if s.Path.Last() == "table.len" {
				mut = true
			}
		}
		if !mut {
			continue
		}
		ops[f] = true
		firesPost := false
		var visit func(g *core.Func, depth int)
		seen := map[*core.Func]bool{}
		visit = func(g *core.Func, depth int) {
			if seen[g] || depth > 4 {
				return
			}
			seen[g] = true
			core.InspectNoLits(g.Body, func(n ast.Node) bool {
				if call, ok := n.(*ast.CallExpr); ok {
					if fc := a.FireCallOf(g, call); fc != nil && postEvents[fc.Event] {
						firesPost = true
					}
					if k, cal, _ := m.Callee(call); k == core.CallStatic && cal.Recv == "World" {
						visit(cal, depth+1)
					}
				}
				return true
			})
		}
		visit(f, 0)
		if !firesPost {
			// per-table helpers of batch operations are not called by API methods; keep only ops with an API-side caller
			emitByCaller[f] = true
		}
	}
	return
}

// c08r6: emission sites agree.
func c08r6(c *core.Ctx) {
	a := GetAnchors(c)
	m := c.M
	_, emitByCallerF := internalOps(c, a)
	emitByCaller := map[string]bool{}
	for f := range emitByCallerF {
		emitByCaller[f.Name] = true
	}
	type sig struct {
		f    *core.Func
		evts map[string]string // event -> guard category
		rel  bool              // has a relation-carrying parameter
	}
	groups := map[string][]sig{}
	relParam := func(f *core.Func) *types.Var {
		if f.Sig == nil {
			return nil
		}
		for i := 0; i < f.Sig.Params().Len(); i++ {
			p := f.Sig.Params().At(i)
			if sl, ok := p.Type().(*types.Slice); ok {
				n := core.NamedName(sl.Elem())
				if (n == "Relation" || n == "Entity") && f.Sig.Variadic() && i == f.Sig.Params().Len()-1 {
					return p
				}
			}
		}
		return nil
	}
	for _, f := range m.Funcs {
		var op string
		core.InspectNoLits(f.Body, func(n ast.Node) bool {
			if call, ok := n.(*ast.CallExpr); ok {
				if k, cal, _ := m.Callee(call); k == core.CallStatic && emitByCaller[cal.Name] {
					op = cal.Name
				}
			}
			return true
		})
		if op == "" || emitByCaller[f.Name] || (f.Recv == "World" && f.Obj != nil && !f.Obj.Exported()) {
			continue
		}
		s := sig{f: f, evts: map[string]string{}, rel: relParam(f) != nil}
		rp := relParam(f)
		inlineDepth := 0
		var inlineF *core.Func
		constBind := map[*types.Var]bool{}
		// fire calls with their guards
		var walk func(list []ast.Stmt, guard string)
		walk = func(list []ast.Stmt, guard string) {
			for _, st := range list {
				switch x := st.(type) {
				case *ast.IfStmt:
					// a condition that is a helper parameter bound to a constant at the inlined call: take that branch only
					if cid, isID := ast.Unparen(x.Cond).(*ast.Ident); isID {
						if cv, isVar := m.Info.ObjectOf(cid).(*types.Var); isVar {
							if val, bound := constBind[cv]; bound {
								if val {
									walk(x.Body.List, guard)
								} else if eb, ok := x.Else.(*ast.BlockStmt); ok {
									walk(eb.List, guard)
								}
								continue
							}
						}
					}
					// only conditions on the operation's own inputs (is a slice parameter empty?) distinguish emission
					// sites; observer-presence tests, lock flags and callback nil-tests are optimisations
					curF := f
					if inlineF != nil {
						curF = inlineF
					}
					posCat := inputGuard(m, curF, x.Cond, true, rp)
					negCat := inputGuard(m, curF, x.Cond, false, rp)
					walk(x.Body.List, combineGuards(guard, posCat))
					if x.Else != nil {
						switch eb := x.Else.(type) {
						case *ast.BlockStmt:
							walk(eb.List, combineGuards(guard, negCat))
						default:
							walk([]ast.Stmt{eb}, combineGuards(guard, negCat))
						}
					} else if len(x.Body.List) > 0 {
						// an early exit: what follows runs under the negated condition
						if _, isRet := x.Body.List[len(x.Body.List)-1].(*ast.ReturnStmt); isRet {
							guard = combineGuards(guard, negCat)
						}
					}
				case *ast.ForStmt:
					walk(x.Body.List, guard)
				case *ast.RangeStmt:
					walk(x.Body.List, guard)
				case *ast.BlockStmt:
					walk(x.List, guard)
				default:
					ast.Inspect(st, func(y ast.Node) bool {
						if _, ok := y.(*ast.FuncLit); ok {
							return false
						}
						if call, ok := y.(*ast.CallExpr); ok {
							if fc := a.FireCallOf(f, call); fc != nil && fc.Event != "" {
								gg := guard
								if gg == "" {
									gg = "always"
								}
								s.evts[fc.Event] = gg
							}
							// unexported helper method of the same type: its dispatches belong to this emission site
							if k, cal, _ := m.Callee(call); k == core.CallStatic && cal.Recv == f.Recv && cal.Recv != "" && cal.Obj != nil && !cal.Obj.Exported() && inlineDepth < 2 && !emitByCaller[cal.Name] {
								inlineDepth++
								saveRP := rp
								// the helper's own relation parameter, if the caller passes its relation parameter on
								if hp := relParamAny(cal); hp != nil {
									rp = hp
								}
								callerF := f
								if inlineF != nil {
									callerF = inlineF
								}
								for ai, arg := range call.Args {
									if ai < cal.Sig.Params().Len() {
										if tv, ok := m.Info.Types[arg]; ok && tv.Value != nil && tv.Value.Kind() == constant.Bool {
											constBind[cal.Sig.Params().At(ai)] = constant.BoolVal(tv.Value)
										} else if isBool(cal.Sig.Params().At(ai).Type()) {
											r6ArgBind[cal.Sig.Params().At(ai)] = struct {
												e ast.Expr
												f *core.Func
											}{arg, callerF}
										}
									}
								}
								saveF := inlineF
								inlineF = cal
								walk(cal.Body.List, guard)
								inlineF = saveF
								// batch loops in the helper
								core.InspectNoLits(cal.Body, func(z ast.Node) bool {
									if is, ok := z.(*ast.IfStmt); ok {
										ast.Inspect(is.Cond, func(w ast.Node) bool {
											if c2, ok := w.(*ast.CallExpr); ok {
												if fc := a.FireCallOf(cal, c2); fc != nil && fc.Event != "" {
													if _, have := s.evts[fc.Event]; !have {
														s.evts[fc.Event] = guardOfNode(m, cal, is, rp)
													}
												}
											}
											return true
										})
									}
									return true
								})
								rp = saveRP
								inlineDepth--
							}
						}
						return true
					})
				}
			}
		}
		walk(f.Body.List, "")
		// fire calls that appear as if-conditions (batch loops: `if !Fire...(...) { break }`)
		core.InspectNoLits(f.Body, func(n ast.Node) bool {
			is, ok := n.(*ast.IfStmt)
			if !ok {
				return true
			}
			ast.Inspect(is.Cond, func(y ast.Node) bool {
				if call, ok := y.(*ast.CallExpr); ok {
					if fc := a.FireCallOf(f, call); fc != nil && fc.Event != "" {
						if _, have := s.evts[fc.Event]; !have {
							s.evts[fc.Event] = guardOfNode(m, f, is, rp)
						}
					}
				}
				return true
			})
			return true
		})
		groups[op] = append(groups[op], s)
	}
	render := func(s sig) string {
		var ks []string
		for e, g := range s.evts {
			ks = append(ks, e+"["+g+"]")
		}
		sort.Strings(ks)
		return strings.Join(ks, " ")
	}
	frozen := map[string]string{
		"Unsafe.Exchange": "guards add events by len(add) > 0 (exchange may add nothing)",
	}
	var ops []string
	for op := range groups {
		ops = append(ops, op)
	}
	sort.Strings(ops)
	for _, op := range ops {
		// majority signature among callers with a relation parameter, and among those without
		count := map[bool]map[string]int{true: {}, false: {}}
		for _, s := range groups[op] {
			count[s.rel][render(s)]++
		}
		major := map[bool]string{}
		for rel, mset := range count {
			best, bn := "", 0
			for k, n := range mset {
				if n > bn || (n == bn && k < best) {
					best, bn = k, n
				}
			}
			major[rel] = best
		}
		for _, s := range groups[op] {
			subject := fmt.Sprintf("%s (caller of %s)", s.f.Name, op)
			if why, ok := frozen[s.f.Name]; ok {
				c.Info("C08/R6", subject, c.At(s.f.Pos()), "frozen exception: "+why+"; emits "+render(s))
				continue
			}
			if render(s) == major[s.rel] {
				c.OK("C08/R6", subject, c.At(s.f.Pos()), "emits "+render(s))
			} else {
				c.Violation("C08/R6", subject, c.At(s.f.Pos()), fmt.Sprintf("%s emits {%s} after %s, the other %d callers of the same kind emit {%s}", s.f.Name, render(s), op, count[s.rel][major[s.rel]], major[s.rel]))
			}
		}
	}
}

// guardOfNode computes the guard category of a node from its enclosing if statements.
func guardOfNode(m *core.Model, f *core.Func, n ast.Node, rp *types.Var) string {
	guard := ""
	isReturn := func(st ast.Stmt) bool { _, ok := st.(*ast.ReturnStmt); return ok }
	found, positives, exits, _ := reachConds(f.Body.List, n, isReturn)
	if found {
		for _, p := range positives {
			guard = combineGuards(guard, inputGuard(m, f, p.e, p.want, rp))
		}
		for _, ex := range exits {
			if len(ex) == 1 {
				guard = combineGuards(guard, inputGuard(m, f, ex[0].e, !ex[0].want, rp))
			}
		}
	} else {
		core.InspectNoLits(f.Body, func(x ast.Node) bool {
			is, ok := x.(*ast.IfStmt)
			if !ok || is == n || !(is.Body.Pos() <= n.Pos() && n.End() <= is.Body.End()) {
				return true
			}
			guard = combineGuards(guard, inputGuard(m, f, is.Cond, true, rp))
			return true
		})
	}
	if guard == "" {
		return "always"
	}
	return guard
}

// combineGuards joins two guard categories ("" = no constraint).
func combineGuards(a, b string) string {
	if b == "" || a == b {
		return a
	}
	if a == "" {
		return b
	}
	parts := map[string]bool{}
	for _, p := range strings.Split(a+"&"+b, "&") {
		parts[p] = true
	}
	var ks []string
	for p := range parts {
		ks = append(ks, p)
	}
	sort.Strings(ks)
	return strings.Join(ks, "&")
}

// inputGuard extracts from a condition (required to have the given truth value) the constraints on the operation's own
// inputs: emptiness tests of slice parameters of f. The relation-carrying parameter gives "relations-nonempty" /
// "relations-empty"; other parameters "nonempty:#i" / "empty:#i". Boolean locals are resolved through their single
// definition; everything else (observer presence, lock flags, nil tests of callbacks) contributes nothing.
func inputGuard(m *core.Model, f *core.Func, cond ast.Expr, want bool, rp *types.Var) string {
	out := ""
	var visit func(e ast.Expr, want bool, depth int)
	visit = func(e ast.Expr, want bool, depth int) {
		e = ast.Unparen(e)
		if depth > 4 {
			return
		}
		switch x := e.(type) {
		case *ast.UnaryExpr:
			if x.Op == token.NOT {
				visit(x.X, !want, depth)
			}
		case *ast.BinaryExpr:
			switch x.Op {
			case token.LAND:
				if want {
					visit(x.X, true, depth)
					visit(x.Y, true, depth)
				}
			case token.LOR:
				if !want {
					visit(x.X, false, depth)
					visit(x.Y, false, depth)
				}
			case token.GTR, token.NEQ, token.EQL, token.LEQ, token.LSS, token.GEQ:
				call, ok := ast.Unparen(x.X).(*ast.CallExpr)
				if !ok || !m.IsBuiltin(call, "len") || len(call.Args) != 1 {
					return
				}
				tv, ok := m.Info.Types[x.Y]
				if !ok || tv.Value == nil {
					return
				}
				id, ok := ast.Unparen(call.Args[0]).(*ast.Ident)
				if !ok {
					return
				}
				v, ok := m.Info.ObjectOf(id).(*types.Var)
				if !ok {
					return
				}
				pi, isP := paramIndexOf(f, v)
				if !isP {
					return
				}
				nonEmpty := false
				switch {
				case (x.Op == token.GTR || x.Op == token.NEQ) && tv.Value.String() == "0":
					nonEmpty = want
				case (x.Op == token.EQL || x.Op == token.LEQ) && tv.Value.String() == "0":
					nonEmpty = !want
				case x.Op == token.GEQ && tv.Value.String() == "1":
					nonEmpty = want
				case x.Op == token.LSS && tv.Value.String() == "1":
					nonEmpty = !want
				default:
					return
				}
				role := fmt.Sprintf("#%d", pi)
				if rp != nil && v == rp {
					role = "relations"
				}
				cat := "empty:" + role
				if nonEmpty {
					cat = "nonempty:" + role
				}
				if role == "relations" {
					cat = "relations-empty"
					if nonEmpty {
						cat = "relations-nonempty"
					}
				}
				out = combineGuards(out, cat)
			}
		case *ast.Ident:
			if v, ok := m.Info.ObjectOf(x).(*types.Var); ok && !v.IsField() {
				// a parameter of an inlined emission helper: the condition is the argument, in the caller's terms
				if b, bound := r6ArgBind[v]; bound {
					saved := f
					f = b.f
					visit(b.e, want, depth+1)
					f = saved
					return
				}
				if ds := localDefsOf(m, f, v); len(ds) == 1 {
					visit(ds[0], want, depth+1)
				}
			}
		}
	}
	visit(cond, want, 0)
	return out
}

// r6ArgBind binds the parameters of emission helpers that C08/R6 is currently inlining to the argument expressions
// (and the function they are written in).
var r6ArgBind = map[*types.Var]struct {
	e ast.Expr
	f *core.Func
}{}

// c08r7: the relation change mask marks exactly the relations whose target changes.
func c08r7(c *core.Ctx) {
	m := c.M
	n := 0
	for _, f := range m.Funcs {
		if f.Sig == nil || f.Recv != "storage" {
			continue
		}
		// role: has a *bitMask parameter, returns a bool "changed" among its results, and sets bits of the mask parameter
		var maskPar *types.Var
		for i := 0; i < f.Sig.Params().Len(); i++ {
			if isMaskPtr(f.Sig.Params().At(i).Type()) {
				maskPar = f.Sig.Params().At(i)
			}
		}
		// (the "changed" result may be at any position)
		hasBoolResult := false
		for i := 0; i < f.Sig.Results().Len(); i++ {
			if isBool(f.Sig.Results().At(i).Type()) {
				hasBoolResult = true
			}
		}
		if maskPar == nil || !hasBoolResult {
			continue
		}
		var loops []*ast.RangeStmt
		core.InspectNoLits(f.Body, func(x ast.Node) bool {
			if rs, ok := x.(*ast.RangeStmt); ok {
				sets := false
				ast.Inspect(rs.Body, func(y ast.Node) bool {
					if call, ok := y.(*ast.CallExpr); ok && isMaskOp(m, call, maskPar, "Set") {
						sets = true
					}
					return true
				})
				if sets {
					loops = append(loops, rs)
				}
			}
			return true
		})
		for _, rs := range loops {
			n++
			// per-iteration paths: (mask.Set executed) must coincide with (changed = true executed), given mask != nil
			type st struct{ set, changed bool }
			paths := enumeratePaths(m, rs.Body.List, func(s ast.Stmt, cur st) st {
				ast.Inspect(s, func(y ast.Node) bool {
					switch z := y.(type) {
					case *ast.CallExpr:
						if isMaskOp(m, z, maskPar, "Set") {
							cur.set = true
						}
					case *ast.AssignStmt:
						for i, l := range z.Lhs {
							if id, ok := ast.Unparen(l).(*ast.Ident); ok && i < len(z.Rhs) {
								if v, ok := m.Info.ObjectOf(id).(*types.Var); ok && isBool(v.Type()) {
									if tv, ok := m.Info.Types[z.Rhs[i]]; ok && tv.Value != nil && tv.Value.String() == "true" {
										cur.changed = true
									}
								}
							}
						}
					}
					return true
				})
				return cur
			}, func(cond ast.Expr) (skipThen, skipElse bool) {
				// the mask-nil guard: treat `mask != nil` as true
				if be, ok := ast.Unparen(cond).(*ast.BinaryExpr); ok {
					if id, ok := ast.Unparen(be.X).(*ast.Ident); ok && m.Info.ObjectOf(id) == maskPar {
						if be.Op == token.NEQ {
							return false, true
						}
						if be.Op == token.EQL {
							return true, false
						}
					}
				}
				return false, false
			})
			bad := ""
			for _, p := range paths {
				if p.set != p.changed {
					bad = fmt.Sprintf("a path through the loop body has change-bit set=%v but changed=%v", p.set, p.changed)
				}
			}
			subject := f.Name + ": change mask"
			if bad == "" {
				c.OK("C08/R7", subject, c.At(rs.Pos()), fmt.Sprintf("on all %d paths of the loop body the change-mask bit is set iff the relation is recorded as changed", len(paths)))
			} else {
				c.Violation("C08/R7", subject, c.At(rs.Pos()), f.Name+": "+bad+"; relation observers would fire for relations whose target did not change (or miss changed ones)")
			}
		}
	}
	if n == 0 {
		c.Undecide("C08/R7", "change-mask role", "no function computing a relation change mask found")
	}
}

// enumeratePaths enumerates the paths through a statement list (if/else, continue/break/return end a path;
// nested loops are treated as one step), folding a state over the simple statements.
func enumeratePaths[S any](m *core.Model, list []ast.Stmt, step func(ast.Stmt, S) S, assume func(ast.Expr) (bool, bool)) []S {
	var out []S
	var rec func(list []ast.Stmt, cur S, cont func(S))
	rec = func(list []ast.Stmt, cur S, cont func(S)) {
		if len(list) == 0 {
			cont(cur)
			return
		}
		s, rest := list[0], list[1:]
		switch x := s.(type) {
		case *ast.IfStmt:
			if x.Init != nil {
				cur = step(x.Init, cur)
			}
			skipThen, skipElse := assume(x.Cond)
			if !skipThen {
				rec(x.Body.List, cur, func(s2 S) { rec(rest, s2, cont) })
			}
			if !skipElse {
				switch e := x.Else.(type) {
				case nil:
					rec(rest, cur, cont)
				case *ast.BlockStmt:
					rec(e.List, cur, func(s2 S) { rec(rest, s2, cont) })
				case *ast.IfStmt:
					rec([]ast.Stmt{e}, cur, func(s2 S) { rec(rest, s2, cont) })
				}
			}
		case *ast.BranchStmt, *ast.ReturnStmt:
			out = append(out, cur)
		case *ast.BlockStmt:
			rec(x.List, cur, func(s2 S) { rec(rest, s2, cont) })
		default:
			if es, ok := s.(*ast.ExprStmt); ok {
				if call, ok := es.X.(*ast.CallExpr); ok && m.IsBuiltin(call, "panic") {
					return // path ends in panic: not a normal path
				}
			}
			rec(rest, step(s, cur), cont)
		}
	}
	var zero S
	rec(list, zero, func(s S) { out = append(out, s) })
	return out
}

// relParamAny: a parameter of f that carries relations (variadic or slice of Relation / Entity).
func relParamAny(f *core.Func) *types.Var {
	if f.Sig == nil {
		return nil
	}
	for i := 0; i < f.Sig.Params().Len(); i++ {
		p := f.Sig.Params().At(i)
		if sl, ok := p.Type().(*types.Slice); ok {
			if n := core.NamedName(sl.Elem()); n == "Relation" || n == "Entity" {
				return p
			}
		}
	}
	return nil
}
