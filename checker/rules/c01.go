package rules

import (
	"fmt"
	"go/ast"
	"go/token"
	"go/types"
	"strings"

	"golang.org/x/tools/go/cfg"

	"arkverif/checker/core"
)

func init() {
	register(&Property{
		ID:    "C01",
		Level: "other",
		Explanation: "The row-move protocol that every component-store operation must follow, decided at every site of the current source: " +
			"(R1) every swap-remove of a row is followed, under its 'swapped' result, by the rewrite of the moved entity's row index with the same table and row; (R2) every row added to a table is followed on all paths by the entity-index write with that table's id and that row; " +
			"(R3) column copies of a single-entity move use the row returned by the add on the destination and the row passed to the remove on the source; (R4) every bulk move rewrites the index of the moved rows for the destination table and resets the source afterwards; " +
			"(R5) no *table/*archetype obtained from the tables/archetypes slices is written through after a call that may grow that slice unless re-derived; (R6) every reallocation of a buffer is followed by the refresh of the raw pointer derived from it; " +
			"(R7) archetypes are created only when the graph node has none, and graph nodes are looked up by mask before being created; (R8) no value derived from a scratch buffer of the storage (a local taken from it, a re-slice, an append to it, a helper result) is stored into a persistent field or passed to a parameter that a callee retains — tables keep the relation list they are created with, so it must be a fresh copy (path-sensitive taint analysis); (R9) in every `copy`/`reflect.Copy` between two explicit windows the window lengths are the same linear expression (the copy is otherwise silently shorter than the block a bulk move carries); (R10) every edge recorded in the archetype graph has its reverse edge with the same component key recorded in the same block. (R11) the relation list a table keeps is owned memory: at every call site of a function that hands a slice parameter on into table.relationIDs the argument is freshly allocated, another table's list, scratch (R8 decides), the result of a function returning such, or the caller's own parameter (then the caller's call sites are examined in turn) - never a reused buffer of an API object. (R12 = C19/R5) the archetype graph searches all existing nodes before creating one. Not decided: that sequences of correct moves yield the right component sets and values for every history (graph lookup, growth and copy-range arithmetic).",
		TrustedBase: []string{"go/types, go/cfg", "table method roles derived from signatures and field effects", "value identity by canonical expression (conversions stripped; single-assignment locals)"},
		Rules: []Rule{
			{ID: "C01/R1", Run: c01r1, Min: 1},
			{ID: "C01/R2", Run: c01r2, Min: 1},
			{ID: "C01/R3", Run: c01r3, Min: 1},
			{ID: "C01/R4", Run: c01r4, Min: 1},
			{ID: "C01/R5", Run: c01r5, Min: 1},
			{ID: "C01/R6", Run: c01r6, Min: 1},
			{ID: "C01/R7", Run: c01r7, Min: 1},
			{ID: "C01/R8", Run: c01r8, Min: 1},
			{ID: "C01/R9", Run: c01r9, Min: 1},
			{ID: "C01/R10", Run: c01r10, Min: 1},
			{ID: "C01/R11", Run: c01r11, Min: 1},
			{ID: "C19/R5", Run: c19r5, Min: 1},
		},
	})
}

// enclosingStmtList finds the statement list and index of the statement of f's body that contains node n.
func enclosingStmtList(f *core.Func, n ast.Node) ([]ast.Stmt, int) {
	var best []ast.Stmt
	bi := -1
	var visit func(list []ast.Stmt)
	visit = func(list []ast.Stmt) {
		for i, s := range list {
			if s.Pos() <= n.Pos() && n.End() <= s.End() {
				best, bi = list, i
				ast.Inspect(s, func(x ast.Node) bool {
					switch b := x.(type) {
					case *ast.FuncLit:
						return false
					case *ast.BlockStmt:
						if b.Pos() <= n.Pos() && n.End() <= b.End() {
							visit(b.List)
						}
						return false
					case *ast.CaseClause:
						if b.Pos() <= n.Pos() && n.End() <= b.End() {
							visit(b.Body)
						}
						return false
					}
					return true
				})
			}
		}
	}
	visit(f.Body.List)
	return best, bi
}

func c01r1(c *core.Ctx) {
	m := c.M
	tr := GetTableRoles(c)
	for _, miss := range tr.missing() {
		c.Undecide("C01/R1", "role", miss+" not derivable")
	}
	if tr.Remove == nil || tr.GetEntity == nil {
		return
	}
	for _, f := range m.AllFuncs() {
		if f.Recv == "table" {
			continue
		}
		core.InspectNoLits(f.Body, func(n ast.Node) bool {
			call, ok := n.(*ast.CallExpr)
			if !ok {
				return true
			}
			recv, ok := callTo(m, call, tr.Remove)
			if !ok || recv == nil {
				return true
			}
			T := m.ExprString(recv)
			row := m.ExprString(call.Args[0])
			subject := fmt.Sprintf("%s: %s.%s(%s)", f.Name, T, tr.Remove.Obj.Name(), row)
			list, idx := enclosingStmtList(f, call)
			if list == nil {
				c.Violation("C01/R1", subject, c.At(call.Pos()), "cannot locate the statement of the swap-remove")
				return true
			}
			// result variable
			var resVar string
			var ifStmt *ast.IfStmt
			switch s := list[idx].(type) {
			case *ast.AssignStmt:
				if len(s.Lhs) == 1 {
					if id, ok := s.Lhs[0].(*ast.Ident); ok {
						resVar = id.Name
					}
				}
			case *ast.IfStmt:
				if ast.Unparen(s.Cond) == call {
					ifStmt = s
				}
			}
			if resVar == "" && ifStmt == nil {
				c.Violation("C01/R1", subject, c.At(call.Pos()), fmt.Sprintf("%s: the 'swapped' result of the swap-remove is discarded; the entity moved into row %s keeps a stale row index", f.Name, row))
				return true
			}
			if ifStmt == nil {
				for _, s := range list[idx+1:] {
					// another row mutation of the same table before the fix-up breaks the pairing
					mut := false
					ast.Inspect(s, func(x ast.Node) bool {
						if cl, ok := x.(*ast.CallExpr); ok {
							if k, cal, _ := m.Callee(cl); k == core.CallStatic && tr.LenMutators[cal] {
								if sel, ok := ast.Unparen(cl.Fun).(*ast.SelectorExpr); ok && m.ExprString(sel.X) == T {
									mut = true
								}
							}
						}
						return true
					})
					if is, ok := s.(*ast.IfStmt); ok {
						if id, ok := ast.Unparen(is.Cond).(*ast.Ident); ok && id.Name == resVar {
							ifStmt = is
							break
						}
					}
					if mut {
						break
					}
				}
			}
			if ifStmt == nil {
				c.Violation("C01/R1", subject, c.At(call.Pos()), fmt.Sprintf("%s: no `if %s { ... }` fix-up follows the swap-remove before the next row mutation of %s", f.Name, resVar, T))
				return true
			}
			// the row expression must still denote the removed row when the fix-up uses it: if it reads the entity index
			// through a pointer, no store into the entity index may lie between the swap-remove and the fix-up
			if rp := m.AccessPath(f, call.Args[0]); rp.Deref && rp.Has("storage.entities") {
				clobbered := false
				for _, s := range list[idx+1:] {
					if s == ast.Stmt(ifStmt) || list[idx] == ast.Stmt(ifStmt) {
						break // (the swap-remove may itself be the condition of the fix-up: nothing lies between)
					}
					ast.Inspect(s, func(x ast.Node) bool {
						switch x.(type) {
						case *ast.AssignStmt, *ast.IncDecStmt:
							for _, st := range m.DirectStores(f, x) {
								if st.Path.Has("storage.entities") {
									clobbered = true
								}
							}
						}
						return true
					})
				}
				if clobbered {
					c.Violation("C01/R1", subject, c.At(ifStmt.Pos()), fmt.Sprintf("%s: the row expression %s reads the entity index through a pointer and the entity index is written between the swap-remove and its fix-up; the fix-up would use the new row and repair the wrong entity", f.Name, row))
					return true
				}
			}
			// inside the then-branch: E := T.GetEntity(row); entities[E.id].row = row
			okFix, why := false, "no store of the row index of the swapped entity"
			entVars := map[string]bool{}
			ast.Inspect(ifStmt.Body, func(x ast.Node) bool {
				as, ok := x.(*ast.AssignStmt)
				if !ok {
					return true
				}
				for i, r := range as.Rhs {
					if cl, ok := ast.Unparen(r).(*ast.CallExpr); ok {
						if rv, ok := callTo(m, cl, tr.GetEntity); ok && rv != nil && i < len(as.Lhs) {
							if m.ExprString(rv) == T && m.ExprString(cl.Args[0]) == row {
								if id, ok := as.Lhs[i].(*ast.Ident); ok {
									entVars[m.ExprString(id)] = true
								}
							} else {
								why = fmt.Sprintf("the swapped entity is read from %s at row %s, expected %s at row %s", m.ExprString(rv), m.ExprString(cl.Args[0]), T, row)
							}
						}
					}
				}
				for i, l := range as.Lhs {
					sel, ok := ast.Unparen(l).(*ast.SelectorExpr)
					if !ok {
						continue
					}
					fld := m.FieldOf(sel)
					if fld == nil || m.FieldKey(fld) != "entityIndex.row" {
						continue
					}
					ix, ok := ast.Unparen(sel.X).(*ast.IndexExpr)
					if !ok || !m.AccessPath(f, ix.X).Has("storage.entities") {
						continue
					}
					idxSel, ok := m.StripConv(ix.Index).(*ast.SelectorExpr)
					if !ok {
						continue
					}
					ent := m.ExprString(idxSel.X)
					if i >= len(as.Rhs) {
						continue
					}
					if !entVars[ent] {
						// direct form entities[T.GetEntity(row).id]
						if cl, ok := ast.Unparen(idxSel.X).(*ast.CallExpr); ok {
							if rv, ok := callTo(m, cl, tr.GetEntity); ok && rv != nil && m.ExprString(rv) == T && m.ExprString(cl.Args[0]) == row {
								entVars[ent] = true
							}
						}
					}
					if !entVars[ent] {
						why = fmt.Sprintf("row index written for %s, which is not the entity read from %s at row %s", ent, T, row)
						continue
					}
					if m.ExprString(as.Rhs[i]) != row {
						why = fmt.Sprintf("row index of the swapped entity set to %s, expected %s", m.ExprString(as.Rhs[i]), row)
						continue
					}
					okFix = true
				}
				return true
			})
			if ifStmt.Else != nil {
				okFix, why = false, "fix-up has an else branch (unexpected shape)"
			}
			if okFix {
				c.OK("C01/R1", subject, c.At(call.Pos()), "swapped entity's row index rewritten with the same table and row under the swap result")
			} else {
				c.Violation("C01/R1", subject, c.At(ifStmt.Pos()), fmt.Sprintf("%s: swap-remove fix-up is wrong: %s", f.Name, why))
			}
			return true
		})
	}
}

// c01r2: every row creation is followed on all normal paths by the matching entity-index write.
func c01r2(c *core.Ctx) {
	m := c.M
	tr := GetTableRoles(c)
	if tr.Add == nil || tr.SetEntity == nil {
		c.Undecide("C01/R2", "role", "row-add / set-entity not derivable")
		return
	}
	for _, f := range m.AllFuncs() {
		if f.Recv == "table" {
			continue
		}
		type creation struct {
			call   *ast.CallExpr
			T      ast.Expr
			rowVar string
			entity string
		}
		var creations []creation
		core.InspectNoLits(f.Body, func(n ast.Node) bool {
			switch x := n.(type) {
			case *ast.AssignStmt:
				for i, r := range x.Rhs {
					if cl, ok := m.StripConv(r).(*ast.CallExpr); ok {
						if rv, ok := callTo(m, cl, tr.Add); ok && rv != nil && i < len(x.Lhs) {
							creations = append(creations, creation{cl, rv, m.ExprString(x.Lhs[i]), m.ExprString(cl.Args[0])})
						}
					}
				}
			case *ast.ExprStmt:
				if cl, ok := ast.Unparen(x.X).(*ast.CallExpr); ok {
					if rv, ok := callTo(m, cl, tr.SetEntity); ok && rv != nil {
						creations = append(creations, creation{cl, rv, m.ExprString(roleArg(m, tr.SetEntity, cl, "row")), m.ExprString(roleArg(m, tr.SetEntity, cl, "entity"))})
					} else if rv, ok := callTo(m, cl, tr.Add); ok && rv != nil {
						creations = append(creations, creation{cl, rv, "", m.ExprString(cl.Args[0])})
					}
				}
			}
			return true
		})
		for _, cr := range creations {
			subject := fmt.Sprintf("%s: row of %s in %s", f.Name, cr.entity, m.ExprString(cr.T))
			if cr.rowVar == "" || cr.rowVar == "_" {
				c.Violation("C01/R2", subject, c.At(cr.call.Pos()), f.Name+": the row index returned by the row-add is discarded; the entity index cannot be written correctly")
				continue
			}
			ids := tableIDAlternatives(m, f, cr.T)
			matches := func(n ast.Node) (bool, string) {
				// the write may be delegated to a helper that performs it for its parameters on every path
				if call, isCall := n.(*ast.CallExpr); isCall {
					if k, cal, _ := m.Callee(call); k == core.CallStatic {
						if ms := moveSummaryOf(c, cal); ms != nil && ms.index != nil {
							iw := ms.index
							if iw.e < len(call.Args) && iw.t < len(call.Args) && iw.r < len(call.Args) && m.ExprString(ast.Unparen(call.Args[iw.e])) == cr.entity {
								row := m.ExprString(ast.Unparen(call.Args[iw.r]))
								tab := m.ExprString(ast.Unparen(call.Args[iw.t]))
								if iw.t == iw.r {
									// the entry is passed as one value: its table and row fields at this call site
									fs := valueFields(m, f, call.Args[iw.t])
									if fs == nil || fs["entityIndex.row"] == nil || fs["entityIndex.table"] == nil {
										return false, ""
									}
									row, tab = m.ExprString(ast.Unparen(fs["entityIndex.row"])), m.ExprString(ast.Unparen(fs["entityIndex.table"]))
								}
								if iw.viaID {
									tab = tableIDExpr(m, f, call.Args[iw.t])
									if !ids[tab] {
										for k2 := range tableIDAlternatives(m, f, call.Args[iw.t]) {
											if ids[k2] {
												tab = k2
											}
										}
									}
								}
								if row != cr.rowVar {
									return false, fmt.Sprintf("index written (by %s) with row %s, expected %s", cal.Name, row, cr.rowVar)
								}
								if !ids[tab] {
									return false, fmt.Sprintf("index written (by %s) with table %s, expected the id of %s", cal.Name, tab, m.ExprString(cr.T))
								}
								return true, ""
							}
						}
					}
					return false, ""
				}
				as, ok := n.(*ast.AssignStmt)
				if !ok {
					return false, ""
				}
				// the index entry may also be written field by field (`e := &entities[x.id]; e.table = ..; e.row = ..`,
				// or directly on the element): the assignment of the row field completes the write when the same
				// statement list assigns the table field of the same entry
				if len(as.Lhs) == 1 && len(as.Rhs) == 1 && fieldKeyOf(m, as.Lhs[0]) == "entityIndex.row" {
					if ok2, why2, done := indexFieldWrite(m, f, as, cr.entity, cr.rowVar, ids, m.ExprString(cr.T)); done {
						return ok2, why2
					}
				}
				for i, l := range as.Lhs {
					if i >= len(as.Rhs) {
						continue
					}
					p := m.AccessPath(f, l)
					if !p.Has("storage.entities") || p.Last() != "storage.entities" {
						continue
					}
					var fields map[string]ast.Expr
					appendForm := false
					switch r := ast.Unparen(as.Rhs[i]).(type) {
					case *ast.CallExpr:
						if m.IsBuiltin(r, "append") && len(r.Args) == 2 {
							fields = valueFields(m, f, r.Args[1])
							appendForm = true
						}
					default:
						fields = valueFields(m, f, r)
					}
					if fields == nil {
						continue
					}
					var tab, row string
					var tabExpr ast.Expr
					if v, ok := fields["entityIndex.table"]; ok {
						tab = m.ExprString(v)
						tabExpr = v
					}
					if v, ok := fields["entityIndex.row"]; ok {
						row = m.ExprString(v)
					}
					if !appendForm {
						ix, ok := ast.Unparen(l).(*ast.IndexExpr)
						if !ok {
							continue
						}
						sel, ok := m.StripConv(ix.Index).(*ast.SelectorExpr)
						if !ok || m.ExprString(sel.X) != cr.entity {
							continue
						}
					}
					if row != cr.rowVar {
						return false, fmt.Sprintf("index written with row %s, expected %s", row, cr.rowVar)
					}
					if !ids[tab] && !(tabExpr != nil && chainIn(m, f, tabExpr, ids)) {
						return false, fmt.Sprintf("index written with table %s, expected the id of %s", tab, m.ExprString(cr.T))
					}
					return true, ""
				}
				return false, ""
			}
			// K2: pending after the creation until a matching store
			g := m.CFG(f)
			why := ""
			transfer := func(s bool, n ast.Node) bool {
				core.WalkEval(n, func(x ast.Node, cond bool) {
					if x == cr.call {
						s = true
					}
					if ok, w := matches(x); ok {
						s = false
					} else if w != "" {
						why = w
					}
				})
				return s
			}
			fr := core.Forward(g, core.Flow[bool]{
				Entry: false,
				Join:  func(a, b bool) bool { return a || b },
				Equal: func(a, b bool) bool { return a == b },
				Node:  func(s bool, _ *cfg.Block, n ast.Node) bool { return transfer(s, n) },
			})
			pending := false
			for _, b := range g.Blocks {
				if fr.Reached[b] && m.IsReturnExit(b) && fr.Out[b] {
					pending = true
				}
			}
			// loops: the creation in a loop body must be matched before the back edge
			if !pending {
				for _, b := range g.Blocks {
					if !fr.Reached[b] {
						continue
					}
					for _, n := range b.Nodes {
						hit := false
						core.WalkEval(n, func(x ast.Node, _ bool) {
							if x == cr.call {
								hit = true
							}
						})
						if hit && fr.In[b] {
							pending = true // reached again with a previous row still unindexed
						}
					}
				}
			}
			if pending {
				if why == "" {
					why = "no entity-index write for this row on some path"
				}
				c.Violation("C01/R2", subject, c.At(cr.call.Pos()), fmt.Sprintf("%s: row created by %s is not followed on every path by the entity-index write {table: id of %s, row: %s}: %s", f.Name, m.ExprString(cr.call), m.ExprString(cr.T), cr.rowVar, why))
			} else {
				c.OK("C01/R2", subject, c.At(cr.call.Pos()), "entity index written with the destination table id and the returned row on every path")
			}
		}
	}
}

// moveSummary describes the steps of the row-move protocol that a helper performs for its parameters, so that the
// rules see through helpers (the same obligations, instantiated with the arguments at each call site).
type moveSummary struct {
	index *struct {
		e, t, r int
		viaID   bool
	} // entities[P_e.id] = {table: P_t(.id), row: P_r} on every normal path
	copy      *struct{ dst, dstRow, src, srcRow int }
	copyCalls map[*ast.CallExpr]bool
	remove    *struct{ t, row int } // P_t.Remove(P_row) on every normal path
}

var moveSummaryCache = map[*core.Func]*moveSummary{}

func moveSummaryOf(c *core.Ctx, g *core.Func) *moveSummary {
	if ms, ok := moveSummaryCache[g]; ok {
		return ms
	}
	moveSummaryCache[g] = nil
	m := c.M
	tr := GetTableRoles(c)
	if g == nil || g.Body == nil || g.Sig == nil || g.Recv == "table" || g.Recv == "column" {
		return nil
	}
	par := func(e ast.Expr) int {
		if e == nil {
			return -1
		}
		id, ok := ast.Unparen(m.StripConv(m.Inline(m.StripConv(e)))).(*ast.Ident)
		if !ok {
			return -1
		}
		if v, ok := m.Info.ObjectOf(id).(*types.Var); ok {
			if i, isP := paramIndexOf(g, v); isP {
				return i
			}
		}
		return -1
	}
	ms := &moveSummary{copyCalls: map[*ast.CallExpr]bool{}}
	// index write
	type iwT struct {
		e, t, r int
		viaID   bool
	}
	var iw *iwT
	var iwNodes []ast.Node
	consistent := true
	core.InspectNoLits(g.Body, func(n ast.Node) bool {
		as, ok := n.(*ast.AssignStmt)
		if !ok {
			return true
		}
		for i, l := range as.Lhs {
			if i >= len(as.Rhs) {
				continue
			}
			p := m.AccessPath(g, l)
			if p.Last() != "storage.entities" {
				continue
			}
			var fields map[string]ast.Expr
			var entExpr ast.Expr
			if r, ok := ast.Unparen(as.Rhs[i]).(*ast.CallExpr); ok && m.IsBuiltin(r, "append") && len(r.Args) == 2 {
				fields = valueFields(m, g, r.Args[1])
			} else {
				fields = valueFields(m, g, as.Rhs[i])
				if ix, ok := ast.Unparen(l).(*ast.IndexExpr); ok {
					if sel, ok := m.StripConv(ix.Index).(*ast.SelectorExpr); ok {
						entExpr = sel.X
					}
				}
			}
			cur := iwT{e: -1, t: -1, r: -1}
			if fields == nil {
				// the whole entry handed in as one parameter (placeEntity(e, at entityIndex)): t == r names it
				val := as.Rhs[i]
				if r, ok := ast.Unparen(as.Rhs[i]).(*ast.CallExpr); ok && m.IsBuiltin(r, "append") && len(r.Args) == 2 {
					val = r.Args[1]
				}
				if pi := par(val); pi >= 0 && core.NamedName(m.Info.TypeOf(val)) == "entityIndex" {
					fields = map[string]ast.Expr{}
					cur.t, cur.r = pi, pi
				} else {
					continue
				}
			}
			if v, ok := fields["entityIndex.table"]; ok {
				if pi := par(v); pi >= 0 {
					cur.t = pi
				} else if sel, ok := ast.Unparen(m.Inline(v)).(*ast.SelectorExpr); ok && fieldKeyOf(m, sel) == "table.id" {
					cur.t, cur.viaID = par(sel.X), true
				}
			}
			if v, ok := fields["entityIndex.row"]; ok {
				cur.r = par(v)
			}
			if entExpr != nil {
				cur.e = par(entExpr)
			}
			if cur.t < 0 || cur.r < 0 {
				continue
			}
			if iw == nil {
				iw = &cur
			} else {
				if cur.e >= 0 && iw.e < 0 {
					iw.e = cur.e
				}
				if cur.t != iw.t || cur.r != iw.r || cur.viaID != iw.viaID || (cur.e >= 0 && cur.e != iw.e) {
					consistent = false
				}
			}
			iwNodes = append(iwNodes, as)
		}
		return true
	})
	if iw != nil && consistent && iw.e >= 0 {
		set := map[ast.Node]bool{}
		for _, n := range iwNodes {
			set[n] = true
		}
		if passedOnAllPaths(m, g, func(n ast.Node) bool { return set[n] }) {
			ms.index = &struct {
				e, t, r int
				viaID   bool
			}{iw.e, iw.t, iw.r, iw.viaID}
		}
	}
	// copies between parameter tables at parameter rows; removal of a parameter row
	core.InspectNoLits(g.Body, func(n ast.Node) bool {
		cl, ok := n.(*ast.CallExpr)
		if !ok {
			return true
		}
		var dst, src, dstRow, srcRow ast.Expr
		if rv, ok := callTo(m, cl, tr.Set); ok && rv != nil {
			dst, dstRow, srcRow = rv, roleArg(m, tr.Set, cl, "dstRow"), roleArg(m, tr.Set, cl, "srcRow")
			if cc, ok := ast.Unparen(roleArg(m, tr.Set, cl, "srcCol")).(*ast.CallExpr); ok {
				if sel, ok := ast.Unparen(cc.Fun).(*ast.SelectorExpr); ok {
					src = sel.X
				}
			}
		} else if rv, ok := callTo(m, cl, tr.CopyAll); ok && rv != nil {
			dst, src, dstRow, srcRow = rv, roleArg(m, tr.CopyAll, cl, "src"), roleArg(m, tr.CopyAll, cl, "dstRow"), roleArg(m, tr.CopyAll, cl, "srcRow")
		}
		if dst != nil {
			a, b, x, y := par(dst), par(dstRow), par(src), par(srcRow)
			if a >= 0 && b >= 0 && x >= 0 && y >= 0 {
				if ms.copy == nil || (ms.copy.dst == a && ms.copy.dstRow == b && ms.copy.src == x && ms.copy.srcRow == y) {
					ms.copy = &struct{ dst, dstRow, src, srcRow int }{a, b, x, y}
					ms.copyCalls[cl] = true
				}
			}
		}
		if rv, ok := callTo(m, cl, tr.Remove); ok && rv != nil && len(cl.Args) == 1 {
			if a, b := par(rv), par(cl.Args[0]); a >= 0 && b >= 0 {
				call := cl
				if passedOnAllPaths(m, g, func(n ast.Node) bool { return n == ast.Node(call) }) {
					ms.remove = &struct{ t, row int }{a, b}
				}
			}
		}
		return true
	})
	// delegation: the index write and the swap-remove may be handed on to another such helper with this helper's own
	// parameters (moveRow -> removeRow)
	if ms.index == nil || ms.remove == nil {
		core.InspectNoLits(g.Body, func(n ast.Node) bool {
			cl, ok := n.(*ast.CallExpr)
			if !ok {
				return true
			}
			k, cal, _ := m.Callee(cl)
			if k != core.CallStatic || cal == nil || cal == g {
				return true
			}
			hs := moveSummaryOf(c, cal)
			if hs == nil {
				return true
			}
			call := cl
			onAll := func() bool {
				return passedOnAllPaths(m, g, func(n ast.Node) bool { return n == ast.Node(call) })
			}
			arg := func(i int) int {
				if i < 0 || i >= len(cl.Args) {
					return -1
				}
				return par(cl.Args[i])
			}
			if ms.index == nil && hs.index != nil {
				if e, t, r := arg(hs.index.e), arg(hs.index.t), arg(hs.index.r); e >= 0 && t >= 0 && r >= 0 && onAll() {
					ms.index = &struct {
						e, t, r int
						viaID   bool
					}{e, t, r, hs.index.viaID}
				}
			}
			if ms.remove == nil && hs.remove != nil {
				if t, r := arg(hs.remove.t), arg(hs.remove.row); t >= 0 && r >= 0 && onAll() {
					ms.remove = &struct{ t, row int }{t, r}
				}
			}
			return true
		})
	}
	if ms.index == nil && ms.copy == nil && ms.remove == nil {
		return nil
	}
	moveSummaryCache[g] = ms
	return ms
}

// indexFieldWrite recognises the field-by-field form of the entity-index write ending in the statement rowAs
// (`X.row = r`), where X is the index entry of `entity` (directly `entities[entity.id]`, or a local pointer to it) and a
// sibling statement assigns `X.table`. done is false when rowAs is not such a write for this entity.
func indexFieldWrite(m *core.Model, f *core.Func, rowAs *ast.AssignStmt, entity, wantRow string, ids map[string]bool, tname string) (ok bool, why string, done bool) {
	sel, isSel := ast.Unparen(rowAs.Lhs[0]).(*ast.SelectorExpr)
	if !isSel {
		return false, "", false
	}
	base := m.ExprString(ast.Unparen(sel.X))
	// the entry: entities[E.id], possibly through a local pointer
	entryOf := ""
	for _, e := range exprChain(m, f, sel.X, 0) {
		x := ast.Unparen(e)
		if u, isU := x.(*ast.UnaryExpr); isU {
			x = ast.Unparen(u.X)
		}
		if ix, isIx := x.(*ast.IndexExpr); isIx && fieldKeyOf(m, ix.X) == "storage.entities" {
			if isel, isS := m.StripConv(ix.Index).(*ast.SelectorExpr); isS {
				entryOf = m.ExprString(isel.X)
			}
		}
	}
	if entryOf != entity {
		return false, "", false
	}
	list, _ := enclosingStmtList(f, rowAs)
	tab := ""
	for _, st := range list {
		if as2, isAs := st.(*ast.AssignStmt); isAs && len(as2.Lhs) == 1 && len(as2.Rhs) == 1 && fieldKeyOf(m, as2.Lhs[0]) == "entityIndex.table" {
			if s2, isS := ast.Unparen(as2.Lhs[0]).(*ast.SelectorExpr); isS && m.ExprString(ast.Unparen(s2.X)) == base {
				tab = m.ExprString(as2.Rhs[0])
			}
		}
	}
	if tab == "" {
		return false, "", false
	}
	row := m.ExprString(rowAs.Rhs[0])
	if row != wantRow {
		return false, fmt.Sprintf("index written with row %s, expected %s", row, wantRow), true
	}
	if !ids[tab] {
		return false, fmt.Sprintf("index written with table %s, expected the id of %s", tab, tname), true
	}
	return true, "", true
}

// chainIn reports whether e, or a single-definition local it stands for, renders as one of the strings in set.
func chainIn(m *core.Model, f *core.Func, e ast.Expr, set map[string]bool) bool {
	for _, v := range valueChain(m, f, e, 0) {
		if set[v] {
			return true
		}
	}
	return false
}

// c01r3: rows used by column copies.
func c01r3(c *core.Ctx) {
	m := c.M
	tr := GetTableRoles(c)
	if tr.Set == nil || tr.CopyAll == nil || tr.Add == nil || tr.Remove == nil {
		c.Undecide("C01/R3", "role", "column-set / copy-all not derivable")
		return
	}
	for _, f := range m.AllFuncs() {
		if f.Recv == "table" || f.Recv == "column" {
			continue
		}
		// rows returned by adds: table expr -> row var; rows removed: table expr -> row expr
		added := map[string]string{}
		removed := map[string]string{}
		core.InspectNoLits(f.Body, func(n ast.Node) bool {
			if as, ok := n.(*ast.AssignStmt); ok {
				for i, r := range as.Rhs {
					if cl, ok := m.StripConv(r).(*ast.CallExpr); ok && i < len(as.Lhs) {
						if rv, ok := callTo(m, cl, tr.Add); ok && rv != nil {
							added[m.ExprString(rv)] = m.ExprString(as.Lhs[i])
						}
					}
				}
			}
			if cl, ok := n.(*ast.CallExpr); ok {
				if rv, ok := callTo(m, cl, tr.Remove); ok && rv != nil {
					removed[m.ExprString(rv)] = m.ExprString(cl.Args[0])
				}
				// removal delegated to a helper that removes the row of its table parameter
				if k, cal, _ := m.Callee(cl); k == core.CallStatic {
					if ms := moveSummaryOf(c, cal); ms != nil && ms.remove != nil && ms.remove.t < len(cl.Args) && ms.remove.row < len(cl.Args) {
						removed[m.ExprString(ast.Unparen(cl.Args[ms.remove.t]))] = m.ExprString(ast.Unparen(cl.Args[ms.remove.row]))
					}
				}
			}
			return true
		})
		ownSummary := moveSummaryOf(c, f)
		core.InspectNoLits(f.Body, func(n ast.Node) bool {
			cl, ok := n.(*ast.CallExpr)
			if !ok {
				return true
			}
			var dst, src ast.Expr
			var dstRow, srcRow ast.Expr
			var compArg, colComp string
			if rv, ok := callTo(m, cl, tr.Set); ok && rv != nil {
				dst, dstRow, srcRow = rv, roleArg(m, tr.Set, cl, "dstRow"), roleArg(m, tr.Set, cl, "srcRow")
				compArg = m.ExprString(roleArg(m, tr.Set, cl, "comp"))
				// source column: S.Column(id)
				if cc, ok := ast.Unparen(roleArg(m, tr.Set, cl, "srcCol")).(*ast.CallExpr); ok {
					if sel, ok := ast.Unparen(cc.Fun).(*ast.SelectorExpr); ok && len(cc.Args) == 1 {
						src = sel.X
						colComp = m.ExprString(cc.Args[0])
					}
				}
			} else if rv, ok := callTo(m, cl, tr.CopyAll); ok && rv != nil {
				dst, src, dstRow, srcRow = rv, roleArg(m, tr.CopyAll, cl, "src"), roleArg(m, tr.CopyAll, cl, "dstRow"), roleArg(m, tr.CopyAll, cl, "srcRow")
			} else if k, cal, _ := m.Callee(cl); k == core.CallStatic && moveSummaryOf(c, cal) != nil && moveSummaryOf(c, cal).copy != nil {
				// a helper that copies between the rows and tables it receives as parameters: the call is the copy
				cp := moveSummaryOf(c, cal).copy
				if cp.dst >= len(cl.Args) || cp.src >= len(cl.Args) || cp.dstRow >= len(cl.Args) || cp.srcRow >= len(cl.Args) {
					return true
				}
				dst, src, dstRow, srcRow = cl.Args[cp.dst], cl.Args[cp.src], cl.Args[cp.dstRow], cl.Args[cp.srcRow]
			} else {
				return true
			}
			if ownSummary != nil && ownSummary.copy != nil && ownSummary.copyCalls[cl] {
				// this function is itself such a helper: tables and rows are its parameters, the obligations are
				// checked where it is called
				c.Info("C01/R3", fmt.Sprintf("%s: %s", f.Name, m.ExprString(cl)), c.At(cl.Pos()), "copy between parameter tables/rows; checked at the call sites of "+f.Name)
				return true
			}
			subject := fmt.Sprintf("%s: %s", f.Name, m.ExprString(cl))
			D := m.ExprString(dst)
			var problems []string
			if want, ok := added[D]; !ok {
				problems = append(problems, "destination table "+D+" has no row-add in this function")
			} else if m.ExprString(dstRow) != want {
				problems = append(problems, fmt.Sprintf("destination row is %s, expected the row %s returned by the add on %s", m.ExprString(dstRow), want, D))
			}
			if src == nil {
				problems = append(problems, "source column is not taken from a table by component id")
			} else {
				S := m.ExprString(src)
				if want, ok := removed[S]; ok {
					if m.ExprString(srcRow) != want {
						problems = append(problems, fmt.Sprintf("source row is %s, expected the row %s that is removed from %s", m.ExprString(srcRow), want, S))
					}
				} else {
					// copy without removal: the source row must be the row of an entity index
					okRow := false
					if sel, ok := m.StripConv(srcRow).(*ast.SelectorExpr); ok {
						if fld := m.FieldOf(sel); fld != nil && m.FieldKey(fld) == "entityIndex.row" {
							okRow = true
						}
					}
					if !okRow {
						problems = append(problems, "source row "+m.ExprString(srcRow)+" is not the row of an entity index")
					}
				}
				if m.ExprString(srcRow) == m.ExprString(dstRow) {
					problems = append(problems, "source and destination row are the same expression")
				}
			}
			if compArg != "" && colComp != "" && compArg != colComp {
				problems = append(problems, fmt.Sprintf("destination component %s but source column of %s", compArg, colComp))
			}
			if len(problems) == 0 {
				c.OK("C01/R3", subject, c.At(cl.Pos()), "destination row = row returned by the add; source row = row removed from the source")
			} else {
				c.Violation("C01/R3", subject, c.At(cl.Pos()), f.Name+": "+strings.Join(problems, "; "))
			}
			return true
		})
	}
}

// c01r4: bulk moves.
func c01r4(c *core.Ctx) {
	m := c.M
	tr := GetTableRoles(c)
	if len(tr.AddAll) == 0 || tr.Reset == nil || tr.GetEntity == nil {
		c.Undecide("C01/R4", "role", "bulk-add / reset not derivable")
		return
	}
	for _, f := range m.AllFuncs() {
		if f.Recv == "table" {
			continue
		}
		core.InspectNoLits(f.Body, func(n ast.Node) bool {
			cl, ok := n.(*ast.CallExpr)
			if !ok {
				return true
			}
			var dst ast.Expr
			var role *core.Func
			for _, r := range tr.AddAll {
				if rv, ok := callTo(m, cl, r); ok && rv != nil {
					dst, role = rv, r
				}
			}
			if dst == nil {
				return true
			}
			src := roleArg(m, role, cl, "src")
			D, S := m.ExprString(dst), m.ExprString(src)
			subject := fmt.Sprintf("%s: %s.%s(%s)", f.Name, D, role.Obj.Name(), S)
			var problems []string
			// (b) source reset after the add and after the last read of the source
			resetPos := token.NoPos
			lastSrcRead := token.NoPos
			core.InspectNoLits(f.Body, func(x ast.Node) bool {
				if c2, ok := x.(*ast.CallExpr); ok {
					if rv, ok := callTo(m, c2, tr.Reset); ok && rv != nil && m.ExprString(rv) == S {
						resetPos = c2.Pos()
					}
					if k, cal, _ := m.Callee(c2); k == core.CallStatic && isRowReader(cal) {
						if sel, ok := ast.Unparen(c2.Fun).(*ast.SelectorExpr); ok && m.ExprString(sel.X) == S {
							lastSrcRead = c2.Pos()
						}
					}
				}
				return true
			})
			if resetPos == token.NoPos {
				problems = append(problems, "source table "+S+" is not reset after the bulk move (its rows would exist twice)")
			} else if resetPos < cl.Pos() {
				problems = append(problems, "source table is reset before the bulk add")
			} else if lastSrcRead > resetPos {
				problems = append(problems, "source table rows are read after the reset")
			}
			// (a) index rewrite loop
			ids := tableIDAlternatives(m, f, dst)
			foundLoop := false
			core.InspectNoLits(f.Body, func(x ast.Node) bool {
				var body *ast.BlockStmt
				switch l := x.(type) {
				case *ast.ForStmt:
					body = l.Body
				case *ast.RangeStmt:
					body = l.Body
				default:
					return true
				}
				// entity read in the loop
				var from string
				tableOK, rowWritten := false, false
				ast.Inspect(body, func(y ast.Node) bool {
					switch z := y.(type) {
					case *ast.CallExpr:
						if rv, ok := callTo(m, z, tr.GetEntity); ok && rv != nil {
							from = m.ExprString(rv)
						}
					case *ast.AssignStmt:
						for i, l := range z.Lhs {
							if i >= len(z.Rhs) {
								continue
							}
							p := m.AccessPath(f, l)
							if !p.Has("storage.entities") {
								continue
							}
							switch p.Last() {
							case "storage.entities":
								if fields := valueFields(m, f, z.Rhs[i]); fields != nil {
									if v, ok := fields["entityIndex.table"]; ok && chainIn(m, f, v, ids) {
										tableOK = true
									}
									if _, ok := fields["entityIndex.row"]; ok {
										rowWritten = true
									}
								}
							case "entityIndex.table":
								if chainIn(m, f, z.Rhs[i], ids) {
									tableOK = true
								}
							case "entityIndex.row":
								rowWritten = true
							}
						}
					}
					return true
				})
				if from == "" || !rowWritten {
					return true
				}
				pos := x.Pos()
				switch {
				case from == D && pos > cl.Pos() && tableOK:
					foundLoop = true
				case from == S && pos < cl.Pos() && tableOK:
					foundLoop = true
				case from == D && pos < cl.Pos():
					problems = append(problems, "index rewrite loop reads the destination rows before they were added")
				case from == S && pos > cl.Pos() && resetPos != token.NoPos && pos > resetPos:
					problems = append(problems, "index rewrite loop reads the source rows after the reset")
				case !tableOK:
					problems = append(problems, "index rewrite loop does not write the destination table's id")
				}
				return true
			})
			if !foundLoop && len(problems) == 0 {
				problems = append(problems, "no loop rewrites the entity index of the moved rows")
			}
			if len(problems) == 0 {
				c.OK("C01/R4", subject, c.At(cl.Pos()), "moved rows are re-indexed for the destination table; source reset after its last read")
			} else {
				c.Violation("C01/R4", subject, c.At(cl.Pos()), f.Name+": "+strings.Join(problems, "; "))
			}
			return true
		})
	}
}

// c01r5: stale interior pointers.
func c01r5(c *core.Ctx) {
	m := c.M
	// growers: functions that (transitively) append to storage.tables / storage.archetypes
	grows := func(key string) map[*core.Func]bool {
		out := map[*core.Func]bool{}
		for _, f := range m.AllFuncs() {
			for _, s := range c.Eff.Stores(f) {
				if s.Path.Last() == key && s.Kind == core.StoreAssign {
					out[f] = true
				}
			}
		}
		return out
	}
	growT, growA := grows("storage.tables"), grows("storage.archetypes")
	mutatesThrough := func(f *core.Func, n ast.Node, v *types.Var) bool {
		check := func(e ast.Expr) bool {
			for {
				e = ast.Unparen(e)
				switch x := e.(type) {
				case *ast.SelectorExpr:
					e = x.X
					continue
				case *ast.IndexExpr:
					e = x.X
					continue
				case *ast.StarExpr:
					e = x.X
					continue
				case *ast.Ident:
					return m.Info.ObjectOf(x) == v
				}
				return false
			}
		}
		switch x := n.(type) {
		case *ast.AssignStmt:
			for _, l := range x.Lhs {
				if _, isID := ast.Unparen(l).(*ast.Ident); !isID && check(l) {
					return true
				}
			}
		case *ast.IncDecStmt:
			if _, isID := ast.Unparen(x.X).(*ast.Ident); !isID && check(x.X) {
				return true
			}
		case *ast.CallExpr:
			if k, cal, _ := m.Callee(x); k == core.CallStatic {
				if sel, ok := ast.Unparen(x.Fun).(*ast.SelectorExpr); ok {
					if id, ok := ast.Unparen(sel.X).(*ast.Ident); ok && m.Info.ObjectOf(id) == v {
						for _, s := range c.Eff.Stores(cal) {
							if s.Path.Kind == core.RootParam && s.Path.Index == -1 {
								return true
							}
						}
					}
				}
				for ai, arg := range x.Args {
					if id, ok := ast.Unparen(arg).(*ast.Ident); ok && m.Info.ObjectOf(id) == v {
						for _, s := range c.Eff.Stores(cal) {
							if s.Path.Kind == core.RootParam && s.Path.Index == ai {
								return true
							}
						}
					}
				}
			}
		}
		return false
	}
	for _, f := range m.AllFuncs() {
		// pointer locals/params of type *table / *archetype
		vars := map[*types.Var]string{}
		ast.Inspect(f.Body, func(n ast.Node) bool {
			if _, ok := n.(*ast.FuncLit); ok {
				return false
			}
			if id, ok := n.(*ast.Ident); ok {
				if v, ok := m.Info.ObjectOf(id).(*types.Var); ok && !v.IsField() {
					if isPtrTo(v.Type(), "table") {
						vars[v] = "table"
					} else if isPtrTo(v.Type(), "archetype") {
						vars[v] = "archetype"
					}
				}
			}
			return true
		})
		for v, kind := range vars {
			grow := growT
			if kind == "archetype" {
				grow = growA
			}
			vv := v
			spec := core.OrderSpec{
				IsA: func(ff *core.Func, n ast.Node) string {
					if ff != f {
						return ""
					}
					if call, ok := n.(*ast.CallExpr); ok {
						if k, cal, _ := m.Callee(call); k == core.CallStatic && grow[cal] {
							return "call of " + cal.Name + " (may grow the " + kind + " slice)"
						}
					}
					return ""
				},
				IsB: func(ff *core.Func, n ast.Node) string {
					if ff == f && mutatesThrough(f, n, vv) {
						return "write through " + vv.Name()
					}
					return ""
				},
				Reset: func(ff *core.Func, n ast.Node) bool {
					if ff != f {
						return false
					}
					if as, ok := n.(*ast.AssignStmt); ok {
						for _, l := range as.Lhs {
							if id, ok := ast.Unparen(l).(*ast.Ident); ok && m.Info.ObjectOf(id) == vv {
								return true
							}
						}
					}
					return false
				},
				SkipCallee: func(*core.Func) bool { return true },
			}
			res := singleFuncOrder(m, f, spec)
			mayGrow := false
			core.InspectNoLits(f.Body, func(n ast.Node) bool {
				if spec.IsA(f, n) != "" {
					mayGrow = true
				}
				return true
			})
			if !mayGrow {
				continue
			}
			subject := fmt.Sprintf("%s: *%s %s", f.Name, kind, v.Name())
			if len(res) == 0 {
				c.OK("C01/R5", subject, c.At(f.Pos()), "never written through after a call that may grow the backing slice without being re-derived")
			} else {
				r := res[0]
				c.Violation("C01/R5", subject, c.At(r.B.Node.Pos()), fmt.Sprintf("%s: %s at %s after %s at %s without re-deriving the pointer; if the slice reallocates the write goes to the stale copy", f.Name, r.B.What, c.At(r.B.Node.Pos()), r.A.What, c.At(r.A.Node.Pos())))
			}
		}
	}
}

// bufferPairs: struct type -> (buffer field, pointer field).
var bufferPairs = map[string][2]string{
	"column":       {"data", "pointer"},
	"entityColumn": {"data", "pointer"},
	"entityPool":   {"entities", "pointer"},
}

// litFieldKey returns the canonical key of the field named by the key of a composite-literal element
// (renamed fields resolve to their pinned key).
func litFieldKey(m *core.Model, kv *ast.KeyValueExpr) string {
	id, ok := kv.Key.(*ast.Ident)
	if !ok {
		return ""
	}
	if v, ok := m.Info.ObjectOf(id).(*types.Var); ok && v.IsField() {
		return m.FieldKey(v.Origin())
	}
	return ""
}

// actualFieldName returns the name the field with the canonical key has in the analysed source.
func actualFieldName(m *core.Model, key string) string {
	if v := m.FieldByKey(key); v != nil {
		return v.Name()
	}
	if i := strings.LastIndexByte(key, '.'); i >= 0 {
		return key[i+1:]
	}
	return key
}

// c01r6: derived raw pointers are refreshed after the buffer may have been reallocated.
func c01r6(c *core.Ctx) {
	m := c.M
	for owner, bp := range bufferPairs {
		if m.FieldByKey(owner+"."+bp[0]) == nil || m.FieldByKey(owner+"."+bp[1]) == nil {
			c.Undecide("C01/R6", owner, "buffer/pointer field pair not found")
		}
	}
	reallocating := func(e ast.Expr) bool {
		e = ast.Unparen(e)
		switch x := e.(type) {
		case *ast.CompositeLit:
			return true
		case *ast.SliceExpr:
			return false
		case *ast.CallExpr:
			if m.IsBuiltin(x, "append") || m.IsBuiltin(x, "make") {
				return true
			}
			// reflect.New(...).Elem(), reflect.MakeSlice...
			found := false
			ast.Inspect(x, func(n ast.Node) bool {
				if sel, ok := n.(*ast.SelectorExpr); ok {
					if id, ok := sel.X.(*ast.Ident); ok {
						if pn, ok := m.Info.ObjectOf(id).(*types.PkgName); ok && pn.Imported().Path() == "reflect" && strings.HasPrefix(sel.Sel.Name, "New") {
							found = true
						}
					}
				}
				return true
			})
			return found
		case *ast.Ident:
			// a local holding a fresh buffer (e.g. entities := make(...))
			return true
		}
		return false
	}
	for _, f := range m.AllFuncs() {
		// values built field by field in a fresh local (var c T; c.pointer = p; c.data = d) are constructions: the
		// order of the field stores does not matter, the pairing of pointer and buffer does
		freshLocal := map[types.Object]bool{}
		for _, cn := range constructionsOf(m, f) {
			id, isLocal := cn.node.(*ast.Ident)
			if !isLocal {
				continue
			}
			bp, ok := bufferPairs[cn.typ]
			if !ok {
				continue
			}
			freshLocal[m.Info.ObjectOf(id)] = true
			bufV, ptrV := cn.fields[cn.typ+"."+bp[0]], cn.fields[cn.typ+"."+bp[1]]
			if bufV == nil {
				continue
			}
			subject := fmt.Sprintf("%s: %s{...}", f.Name, cn.typ)
			if ptrV != nil && (pairedBuffer(m, f, bufV, ptrV) || derivedFrom(m, f, ptrV, id.Name+"."+actualFieldName(m, cn.typ+"."+bp[0]), 0)) {
				c.OK("C01/R6", subject, c.At(id.Pos()), "constructor derives the raw pointer from the buffer it stores")
			} else {
				c.Violation("C01/R6", subject, c.At(id.Pos()), fmt.Sprintf("%s: %s is constructed with a buffer but its raw pointer is not derived from that buffer", f.Name, cn.typ))
			}
		}
		core.InspectNoLits(f.Body, func(n ast.Node) bool {
			switch x := n.(type) {
			case *ast.AssignStmt:
				for i, l := range x.Lhs {
					sel, ok := ast.Unparen(l).(*ast.SelectorExpr)
					if !ok || i >= len(x.Rhs) {
						continue
					}
					fld := m.FieldOf(sel)
					if fld == nil {
						continue
					}
					if id := identOf(sel.X); id != nil && freshLocal[m.Info.ObjectOf(id)] {
						continue
					}
					key := m.FieldKey(fld)
					owner := ownerOf(key)
					bp, ok := bufferPairs[owner]
					if !ok || key != owner+"."+bp[0] {
						continue
					}
					if !reallocating(x.Rhs[i]) {
						continue
					}
					base := m.BaseString(sel.X)
					subject := fmt.Sprintf("%s: %s.%s", f.Name, base, bp[0])
					// K2: a later store to base.pointer derived from base.buffer on all paths
					ptrKey := owner + "." + bp[1]
					refresh := func(y ast.Node) bool {
						as, ok := y.(*ast.AssignStmt)
						if !ok {
							return false
						}
						for j, l2 := range as.Lhs {
							s2, ok := ast.Unparen(l2).(*ast.SelectorExpr)
							if !ok || j >= len(as.Rhs) {
								continue
							}
							if f2 := m.FieldOf(s2); f2 == nil || m.FieldKey(f2) != ptrKey || m.BaseString(s2.X) != base {
								continue
							}
							if derivedFrom(m, f, as.Rhs[j], base+"."+actualFieldName(m, owner+"."+bp[0]), 0) {
								return true
							}
							return pairedBuffer(m, f, l, as.Rhs[j])
						}
						return false
					}
					if followedOnAllPaths(m, f, x, refresh) {
						c.OK("C01/R6", subject, c.At(x.Pos()), "buffer (re)allocation is followed on every path by the refresh of the raw pointer derived from it")
					} else {
						c.Violation("C01/R6", subject, c.At(x.Pos()), fmt.Sprintf("%s: %s.%s may be reallocated here but %s.%s is not refreshed from the new buffer on every path (reads through the stale pointer see old memory)", f.Name, base, bp[0], base, bp[1]))
					}
				}
			case *ast.CompositeLit:
				owner := core.NamedName(m.Info.TypeOf(x))
				bp, ok := bufferPairs[owner]
				if !ok {
					return true
				}
				var bufV, ptrV ast.Expr
				for _, e := range x.Elts {
					if kv, ok := e.(*ast.KeyValueExpr); ok {
						switch litFieldKey(m, kv) {
						case owner + "." + bp[0]:
							bufV = kv.Value
						case owner + "." + bp[1]:
							ptrV = kv.Value
						}
					}
				}
				if bufV == nil {
					return true
				}
				subject := fmt.Sprintf("%s: %s{...}", f.Name, owner)
				if ptrV != nil && pairedBuffer(m, f, bufV, ptrV) {
					c.OK("C01/R6", subject, c.At(x.Pos()), "constructor derives the raw pointer from the buffer it stores")
					return true
				}
				// pointer assigned right after the literal is stored
				list, idx := enclosingStmtList(f, x)
				okAfter := false
				if list != nil {
					for _, s := range list[idx+1:] {
						if as, ok := s.(*ast.AssignStmt); ok {
							for j, l2 := range as.Lhs {
								if s2, ok := ast.Unparen(l2).(*ast.SelectorExpr); ok && j < len(as.Rhs) {
									if f2 := m.FieldOf(s2); f2 != nil && m.FieldKey(f2) == owner+"."+bp[1] {
										if derivedFrom(m, f, as.Rhs[j], m.BaseString(s2.X)+"."+actualFieldName(m, owner+"."+bp[0]), 0) {
											okAfter = true
										}
									}
								}
							}
						}
					}
				}
				if okAfter {
					c.OK("C01/R6", subject, c.At(x.Pos()), "raw pointer assigned from the stored buffer right after construction")
				} else {
					c.Violation("C01/R6", subject, c.At(x.Pos()), fmt.Sprintf("%s: %s is constructed with a buffer but its raw pointer is not derived from that buffer", f.Name, owner))
				}
			}
			return true
		})
	}
}

// derivedFrom reports whether expression e mentions buf (canonical string) directly or through single-definition locals.
func derivedFrom(m *core.Model, f *core.Func, e ast.Expr, buf string, depth int) bool {
	if depth > 3 {
		return false
	}
	found := false
	ast.Inspect(e, func(n ast.Node) bool {
		if ex, ok := n.(ast.Expr); ok {
			if m.ExprString(ex) == buf {
				found = true
				return false
			}
		}
		if id, ok := n.(*ast.Ident); ok {
			if v, ok := m.Info.ObjectOf(id).(*types.Var); ok && !v.IsField() {
				for _, d := range localDefsOf(m, f, v) {
					if d != e && derivedFrom(m, f, d, buf, depth+1) {
						found = true
					}
				}
			}
		}
		return !found
	})
	return found
}

// followedOnAllPaths: after node `from` every normal path to return passes a node satisfying pred.
func followedOnAllPaths(m *core.Model, f *core.Func, from ast.Node, pred func(ast.Node) bool) bool {
	g := m.CFG(f)
	transfer := func(s bool, n ast.Node) bool {
		core.WalkEval(n, func(x ast.Node, cond bool) {
			if x == from {
				s = true
			} else if s && !cond && pred(x) {
				s = false
			}
		})
		return s
	}
	fr := core.Forward(g, core.Flow[bool]{
		Entry: false,
		Join:  func(a, b bool) bool { return a || b },
		Equal: func(a, b bool) bool { return a == b },
		Node:  func(s bool, _ *cfg.Block, n ast.Node) bool { return transfer(s, n) },
	})
	for _, b := range g.Blocks {
		if fr.Reached[b] && m.IsReturnExit(b) && fr.Out[b] {
			return false
		}
	}
	return true
}

// passedOnAllPaths: every normal path from the entry of f to a return passes a node satisfying pred.
func passedOnAllPaths(m *core.Model, f *core.Func, pred func(ast.Node) bool) bool {
	g := m.CFG(f)
	if g == nil || len(g.Blocks) == 0 {
		return false
	}
	fr := core.Forward(g, core.Flow[bool]{
		Entry: true, // true: pred not yet passed
		Join:  func(a, b bool) bool { return a || b },
		Equal: func(a, b bool) bool { return a == b },
		Node: func(s bool, _ *cfg.Block, n ast.Node) bool {
			core.WalkEval(n, func(x ast.Node, cond bool) {
				if s && !cond && pred(x) {
					s = false
				}
			})
			return s
		},
	})
	for _, b := range g.Blocks {
		if fr.Reached[b] && m.IsReturnExit(b) && fr.Out[b] {
			return false
		}
	}
	return true
}

// passedOnAllPathsExcept is passedOnAllPaths with a set of return statements that are allowed to be reached without pred.
func passedOnAllPathsExcept(m *core.Model, f *core.Func, pred func(ast.Node) bool, exempt map[*cfg.Block]bool) bool {
	g := m.CFG(f)
	if g == nil || len(g.Blocks) == 0 {
		return false
	}
	fr := core.Forward(g, core.Flow[bool]{
		Entry: true,
		Join:  func(a, b bool) bool { return a || b },
		Equal: func(a, b bool) bool { return a == b },
		Node: func(s bool, _ *cfg.Block, n ast.Node) bool {
			core.WalkEval(n, func(x ast.Node, cond bool) {
				if s && !cond && pred(x) {
					s = false
				}
			})
			return s
		},
	})
	for _, b := range g.Blocks {
		if fr.Reached[b] && m.IsReturnExit(b) && fr.Out[b] {
			if exempt[b] {
				continue
			}
			return false
		}
	}
	return true
}

// passedOrGuardedOnAllPaths: every normal path from the entry of f to an exit (explicit return or the implicit end)
// passes a node accepted by pred or takes a branch on which an atom accepted by guard holds.
func passedOrGuardedOnAllPaths(m *core.Model, f *core.Func, pred func(ast.Node) bool, guard func(core.Atom) bool) bool {
	g := m.CFG(f)
	if g == nil || len(g.Blocks) == 0 {
		return false
	}
	fr := core.Forward(g, core.Flow[bool]{
		Entry: true, // obligation still open
		Join:  func(a, b bool) bool { return a || b },
		Equal: func(a, b bool) bool { return a == b },
		Node: func(s bool, _ *cfg.Block, n ast.Node) bool {
			core.WalkEval(n, func(x ast.Node, cond bool) {
				if s && !cond && pred(x) {
					s = false
				}
			})
			return s
		},
		Edge: func(s bool, b *cfg.Block, succ int) (bool, bool) {
			if !s || guard == nil {
				return s, true
			}
			if c := core.BlockCond(b); c != nil {
				if guard(core.Atom{Expr: c, Truth: succ == 0}) {
					return false, true
				}
				for _, a := range core.Assume(c, succ == 0) {
					if guard(a) {
						return false, true
					}
				}
			}
			return s, true
		},
	})
	for _, b := range g.Blocks {
		if fr.Reached[b] && m.IsReturnExit(b) && fr.Out[b] {
			return false
		}
	}
	return true
}

// guardedExits returns the exit blocks of f (explicit returns and the implicit end alike) that are reached only
// under an atom accepted by guard: every path to them takes a branch on which such an atom holds.
func guardedExits(m *core.Model, f *core.Func, guard func(core.Atom) bool) map[*cfg.Block]bool {
	out := map[*cfg.Block]bool{}
	g := m.CFG(f)
	if g == nil || len(g.Blocks) == 0 {
		return out
	}
	fr := core.Forward(g, core.Flow[bool]{
		Entry: false,
		Join:  func(a, b bool) bool { return a && b },
		Equal: func(a, b bool) bool { return a == b },
		Node:  func(s bool, _ *cfg.Block, _ ast.Node) bool { return s },
		Edge: func(s bool, b *cfg.Block, succ int) (bool, bool) {
			if s {
				return s, true
			}
			if c := core.BlockCond(b); c != nil {
				// the whole condition first (a disjunction that holds yields no atoms), then its atoms
				if guard(core.Atom{Expr: c, Truth: succ == 0}) {
					return true, true
				}
				for _, a := range core.Assume(c, succ == 0) {
					if guard(a) {
						return true, true
					}
				}
			}
			return s, true
		},
	})
	for _, b := range g.Blocks {
		if fr.Reached[b] && m.IsReturnExit(b) && fr.Out[b] {
			out[b] = true
		}
	}
	return out
}

// c01r7: archetype uniqueness site.
func c01r7(c *core.Ctx) {
	m := c.M
	// creator: function that appends to storage.archetypes directly
	var creators []*core.Func
	for _, f := range m.Funcs {
		core.InspectNoLits(f.Body, func(n ast.Node) bool {
			if as, ok := n.(*ast.AssignStmt); ok {
				for _, s := range m.DirectStores(f, as) {
					if s.Path.Last() == "storage.archetypes" && s.Kind == core.StoreAssign {
						creators = append(creators, f)
					}
				}
			}
			return true
		})
	}
	if len(creators) == 0 {
		c.Undecide("C01/R7", "role", "no function appends to storage.archetypes")
		return
	}
	isCreator := map[*core.Func]bool{}
	for _, f := range creators {
		isCreator[f] = true
	}
	for _, f := range m.AllFuncs() {
		core.InspectNoLits(f.Body, func(n ast.Node) bool {
			call, ok := n.(*ast.CallExpr)
			if !ok {
				return true
			}
			k, cal, _ := m.Callee(call)
			if k != core.CallStatic || !isCreator[cal] || len(call.Args) != 1 {
				return true
			}
			node := m.ExprString(call.Args[0])
			subject := fmt.Sprintf("%s: %s(%s)", f.Name, cal.Name, node)
			// must be dominated by the negative outcome of `id, ok := node.GetArchetype()` for the same node
			okShape := false
			okVar := ""
			core.InspectNoLits(f.Body, func(x ast.Node) bool {
				as, ok := x.(*ast.AssignStmt)
				if !ok || len(as.Lhs) != 2 || len(as.Rhs) != 1 {
					return true
				}
				ic, ok := ast.Unparen(as.Rhs[0]).(*ast.CallExpr)
				if !ok {
					return true
				}
				sel, ok := ast.Unparen(ic.Fun).(*ast.SelectorExpr)
				if !ok || m.ExprString(sel.X) != node {
					return true
				}
				if k2, gcal, _ := m.Callee(ic); k2 != core.CallStatic || gcal.Recv != "node" || gcal.Sig.Results().Len() != 2 {
					return true
				}
				okVar = m.ExprString(as.Lhs[1])
				return true
			})
			if okVar != "" {
				type unit struct{}
				dominated := true
				seen := false
				ps := &core.PS[unit]{M: m, F: f,
					Node: func(s unit, n ast.Node, cond bool, facts core.Facts) unit {
						if n == ast.Node(call) {
							seen = true
							if v, known := facts["var:"+okVar]; !known || v {
								dominated = false
							}
						}
						return s
					}}
				ps.Solve()
				okShape = seen && dominated
			}
			if okShape {
				c.OK("C01/R7", subject, c.At(call.Pos()), "archetype created only on the branch where the graph node reports none")
			} else {
				c.Violation("C01/R7", subject, c.At(call.Pos()), f.Name+": archetype created for a graph node without testing that the node has none (two archetypes could share one component set)")
			}
			return true
		})
	}
	// graph nodes: append to graph.nodes only after a mask-equality search that returns
	for _, f := range m.Funcs {
		appends := false
		core.InspectNoLits(f.Body, func(n ast.Node) bool {
			if as, ok := n.(*ast.AssignStmt); ok {
				for _, s := range m.DirectStores(f, as) {
					if s.Path.Last() == "graph.nodes" && s.Kind == core.StoreAssign {
						appends = true
					}
				}
			}
			return true
		})
		if !appends {
			continue
		}
		searched := false
		core.InspectNoLits(f.Body, func(n ast.Node) bool {
			// the search written with the standard helper: slices.IndexFunc(g.nodes, func(n node) bool { return n.mask.Equals(mask) })
			if call, ok := n.(*ast.CallExpr); ok && stdSearchOver(m, call, "graph.nodes") {
				ast.Inspect(call.Args[1], func(y ast.Node) bool {
					if c2, ok := y.(*ast.CallExpr); ok {
						if k, cal, _ := m.Callee(c2); k == core.CallStatic && cal != nil && returnsBool(cal) && (cal.Recv == "bitMask256" || cal.Recv == "bitMask64") {
							searched = true
						}
					}
					return true
				})
			}
			is, ok := n.(*ast.IfStmt)
			if !ok {
				return true
			}
			if call, ok := ast.Unparen(is.Cond).(*ast.CallExpr); ok {
				if k, cal, _ := m.Callee(call); k == core.CallStatic && returnsBool(cal) && (cal.Recv == "bitMask256" || cal.Recv == "bitMask64") && len(call.Args) == 1 {
					for _, s := range is.Body.List {
						if _, ok := s.(*ast.ReturnStmt); ok {
							searched = true
						}
					}
				}
			}
			return true
		})
		if searched {
			c.OK("C01/R7", f.Name, c.At(f.Pos()), "graph node appended only after a search by mask equality that returns the existing node")
		} else {
			c.Violation("C01/R7", f.Name, c.At(f.Pos()), f.Name+": appends a graph node without first searching the existing nodes by mask equality")
		}
	}
}
