package rules

import (
	"fmt"
	"go/ast"
	"go/token"
	"go/types"
	"sort"
	"strings"

	"golang.org/x/tools/go/cfg"

	"arkverif/checker/core"
)

func init() {
	register(&Property{
		ID:    "C04",
		Level: "other",
		Explanation: "Protocols that keep relation targets consistent, decided at every site: " +
			"(R1) every function that places rows into a table chosen with user-supplied relation targets registers those targets; (R2) every caller of pool-recycle tests the target flag of the recycled entity and, when set, runs the cleanup and clears the flag; " +
			"(R3) free protocol: at every site that frees a table (sets its free flag) the operation removes the table from all four lookup containers — the archetype's active list, the per-column target index, the per-target table index (for every target of the table) and every cached filter; tables put on a free list are marked free, tables taken from it are recycled; " +
			"(R4) every path that activates a table registers it with the archetype and the filter cache; (R5) relation component/target validity checks precede taking or creating the table; (R6) exact table lookup compares whole entities (id and generation); " +
			"(R7) the per-column target index is indexed by column index only; (R8) the target-validity check is unreachable from the target cleanup: after a batch removal the remaining targets of a table may be entities of the same batch that are still to be cleaned up, so validating them can only fail a valid call; (R9) the lookup containers are sets: a table id is appended to a table-id container outside loops, or to a container selected by the loop variable itself, or under a negative membership test; (R10 = C01/R8) the relation list a table is created or recycled with is never derived from a scratch buffer; (R11) a local slice or mask that is filled and consumed inside a loop but declared outside it (and not read after it) is emptied inside that loop, so that the relations collected for one table are not applied to the next; (R12) the per-target table index drops a target's entry only in the function that removes the target from every relation column, or under a test that the entry's own list is empty; (R13) a list that several objects may share is never overwritten in place: bulk in-place writes (append to a re-slice, copy into, or an append to a field that another function cuts back) into a slice field of a persistent object are admitted only when no list read from that field (of any object) can reach a store into a persistent field (path-sensitive taint analysis, through locals, parameters, helper results and retaining callees; the views that query objects hold while the world is locked are not owners); the per-column purge of the free protocol (R3) must run for every relation column: inside the loop over the columns it may depend only on the column being a relation column and on its own lookup. (R14) a slice field that a function both walks and empties is walked before it is emptied: the walk is not reached, on every path, with the list just emptied and not refilled (free flags set over an already cleared list). (R15) a table-id list is not walked forwards while the loop body can remove tables from such lists (swap-remove): such a walk goes backwards by index. Not decided: multi-step target-death histories; that the protocols compose.",
		TrustedBase: []string{"go/types, go/cfg", "container purge summaries derived from loops over the lookup containers", "single-relation idiom: a table of an archetype with one relation has exactly one target"},
		Rules: []Rule{
			{ID: "C04/R1", Run: c04r1, Min: 1},
			{ID: "C04/R2", Run: c04r2, Min: 1},
			{ID: "C04/R3", Run: c04r3, Min: 1},
			{ID: "C04/R4", Run: c04r4, Min: 1},
			{ID: "C04/R5", Run: c04r5, Min: 1},
			{ID: "C04/R6", Run: c04r6, Min: 1},
			{ID: "C04/R7", Run: c04r7, Min: 1},
			{ID: "C04/R8", Run: c04r8, Min: 1},
			{ID: "C04/R9", Run: c04r9, Min: 1},
			{ID: "C01/R8", Run: c01r8, Min: 1},
			{ID: "C04/R11", Run: c04r11, Min: 1},
			{ID: "C04/R12", Run: c04r12, Min: 1},
			{ID: "C04/R14", Run: c04r14, Min: 1},
			{ID: "C04/R13", Run: c04r13, Min: 1},
			{ID: "C04/R15", Run: c04r15, Min: 1},
		},
	})
}

// argIsVar reports whether some argument of the call is the variable v itself.
func argIsVar(m *core.Model, call *ast.CallExpr, v types.Object) bool {
	for _, a := range call.Args {
		if id, ok := ast.Unparen(a).(*ast.Ident); ok && v != nil && m.Info.ObjectOf(id) == v {
			return true
		}
	}
	return false
}

func fieldKeyOf(m *core.Model, e ast.Expr) string {
	if e == nil {
		return ""
	}
	if sel, ok := ast.Unparen(e).(*ast.SelectorExpr); ok {
		if fld := m.FieldOf(sel); fld != nil {
			return m.FieldKey(fld)
		}
	}
	// a local that names a field read (rows := t.len)
	if id, ok := ast.Unparen(e).(*ast.Ident); ok && m.Info.Defs[id] == nil {
		if sel, ok := ast.Unparen(m.Inline(id)).(*ast.SelectorExpr); ok {
			if fld := m.FieldOf(sel); fld != nil {
				return m.FieldKey(fld)
			}
		}
	}
	return ""
}

// relationParam returns the parameter of f of type []relationID, if any.
func relationIDsParam(f *core.Func) *types.Var {
	if f.Sig == nil {
		return nil
	}
	for i := 0; i < f.Sig.Params().Len(); i++ {
		p := f.Sig.Params().At(i)
		if sl, ok := p.Type().(*types.Slice); ok && core.NamedName(sl.Elem()) == "relationID" {
			return p
		}
	}
	return nil
}

// c04r1: target registration.
func c04r1(c *core.Ctx) {
	m := c.M
	// registrar: function that stores true into storage.isTarget for each relation of a []relationID parameter
	var registrar *core.Func
	for _, f := range m.Funcs {
		if relationIDsParam(f) == nil {
			continue
		}
		core.InspectNoLits(f.Body, func(n ast.Node) bool {
			if as, ok := n.(*ast.AssignStmt); ok && len(as.Lhs) == 1 && len(as.Rhs) == 1 {
				if ix, ok := ast.Unparen(as.Lhs[0]).(*ast.IndexExpr); ok && fieldKeyOf(m, ix.X) == "storage.isTarget" {
					if tv, ok := m.Info.Types[as.Rhs[0]]; ok && tv.Value != nil && tv.Value.String() == "true" {
						registrar = f
					}
				}
			}
			return true
		})
	}
	if registrar == nil {
		c.Undecide("C04/R1", "registrar role", "no function setting storage.isTarget from a relation list")
		return
	}
	// the registrar must mark every relation of its parameter: a range over the parameter indexing isTarget by rel.target.id
	{
		rp := relationIDsParam(registrar)
		ok := false
		core.InspectNoLits(registrar.Body, func(n ast.Node) bool {
			src, body, isL := elementLoop(m, n)
			if !isL || body == nil {
				return true
			}
			if id, isID := ast.Unparen(src).(*ast.Ident); isID && m.Info.ObjectOf(id) == rp {
				hasBranch := false
				ast.Inspect(body, func(x ast.Node) bool {
					switch x.(type) {
					case *ast.IfStmt, *ast.BranchStmt, *ast.ReturnStmt:
						hasBranch = true
					}
					return true
				})
				ok = !hasBranch
			}
			return true
		})
		if ok {
			c.OK("C04/R1", registrar.Name, c.At(registrar.Pos()), "marks the target of every relation of its argument unconditionally")
		} else {
			c.Violation("C04/R1", registrar.Name, c.At(registrar.Pos()), registrar.Name+": does not unconditionally mark the target of every relation of its argument")
		}
	}
	// table choosers: functions taking []relationID that (transitively) reach the table activation site
	reaches := func(f *core.Func) bool {
		for _, s := range c.Eff.Stores(f) {
			if s.Path.Last() == "storage.tables" && s.Kind == core.StoreAssign {
				return true
			}
		}
		return false
	}
	tr := GetTableRoles(c)
	// functions that call the registrar with their own relation parameter on every normal path
	// (to a fixpoint: handing the parameter to a function that itself registers on every path counts)
	mustRegister := map[*core.Func]bool{}
	for changed := true; changed; {
		changed = false
		for _, f := range m.Funcs {
			rp := relationIDsParam(f)
			if rp == nil || f == registrar || mustRegister[f] {
				continue
			}
			var entry ast.Node
			if len(f.Body.List) > 0 {
				entry = f.Body.List[0]
			}
			if entry == nil {
				continue
			}
			pending := true
			g := m.CFG(f)
			fr := core.Forward(g, core.Flow[bool]{
				Entry: true,
				Join:  func(a, b bool) bool { return a || b },
				Equal: func(a, b bool) bool { return a == b },
				Node: func(s bool, _ *cfg.Block, n ast.Node) bool {
					core.WalkEval(n, func(x ast.Node, cond bool) {
						if call, ok := x.(*ast.CallExpr); ok && !cond {
							if k, cal, _ := m.Callee(call); k == core.CallStatic && (cal == registrar || mustRegister[cal]) && argIsVar(m, call, rp) {
								s = false
							}
						}
					})
					return s
				},
			})
			pending = false
			for _, b := range g.Blocks {
				if fr.Reached[b] && m.IsReturnExit(b) && fr.Out[b] {
					pending = true
				}
			}
			if !pending {
				mustRegister[f] = true
				changed = true
			}
		}
	}
	// k2ok: functions (of any type) that themselves place rows and register their relation parameter after the first
	// row mutation on every path; a World method that only delegates to such a function is covered by it
	k2ok := map[*core.Func]bool{}
	k2 := func(f *core.Func, rp *types.Var) bool {
		mut := false
		for _, s := range c.Eff.Stores(f) {
			if s.Path.Last() == "table.len" {
				mut = true
			}
		}
		if !mut {
			return false
		}
		calls := func(n ast.Node) bool {
			call, ok := n.(*ast.CallExpr)
			if !ok {
				return false
			}
			k, cal, _ := m.Callee(call)
			if k != core.CallStatic {
				return false
			}
			for _, arg := range call.Args {
				if id, ok := ast.Unparen(arg).(*ast.Ident); ok && m.Info.ObjectOf(id) == types.Object(rp) {
					if cal == registrar || mustRegister[cal] || k2ok[cal] {
						return true
					}
				}
			}
			return false
		}
		var firstMut ast.Node
		core.InspectNoLits(f.Body, func(n ast.Node) bool {
			if firstMut != nil {
				return false
			}
			if call, ok := n.(*ast.CallExpr); ok {
				if k, cal, _ := m.Callee(call); k == core.CallStatic {
					for _, s := range c.Eff.Stores(cal) {
						if s.Path.Last() == "table.len" {
							firstMut = call
							return false
						}
					}
				}
			}
			return true
		})
		return firstMut != nil && (calls(firstMut) || followedOnAllPaths(m, f, firstMut, calls))
	}
	for changed := true; changed; {
		changed = false
		for _, f := range m.Funcs {
			rp := relationIDsParam(f)
			if rp == nil || f == registrar || k2ok[f] || f.Recv == "World" {
				continue
			}
			if k2(f, rp) {
				k2ok[f] = true
				changed = true
			}
		}
	}
	for _, f := range m.Funcs {
		rp := relationIDsParam(f)
		if rp == nil || f == registrar || f.Recv != "World" {
			continue
		}
		if !reaches(f) {
			continue
		}
		// does f itself put rows into a table (row-add or bulk move) or is it a pure chooser?
		mutatesRows := false
		for _, s := range c.Eff.Stores(f) {
			if s.Path.Last() == "table.len" {
				mutatesRows = true
			}
		}
		_ = tr
		if !mutatesRows {
			continue
		}
		// K2: on every normal path that passes a row mutation, registrar(rp) is called — unless f hands the same
		// slice on to a callee that does (per-table helpers of batch operations are covered by their caller).
		calls := func(n ast.Node) bool {
			call, ok := n.(*ast.CallExpr)
			if !ok {
				return false
			}
			k, cal, _ := m.Callee(call)
			if k != core.CallStatic {
				return false
			}
			for _, arg := range call.Args {
				if id, ok := ast.Unparen(arg).(*ast.Ident); ok && m.Info.ObjectOf(id) == rp {
					if cal == registrar || mustRegister[cal] || k2ok[cal] {
						return true
					}
				}
			}
			return false
		}
		// first row mutation nodes
		okAll := true
		var firstMut ast.Node
		core.InspectNoLits(f.Body, func(n ast.Node) bool {
			if firstMut != nil {
				return false
			}
			if call, ok := n.(*ast.CallExpr); ok {
				if k, cal, _ := m.Callee(call); k == core.CallStatic {
					for _, s := range c.Eff.Stores(cal) {
						if s.Path.Last() == "table.len" {
							firstMut = call
							return false
						}
					}
				}
			}
			return true
		})
		if firstMut == nil {
			continue
		}
		if !calls(firstMut) && !followedOnAllPaths(m, f, firstMut, calls) {
			okAll = false
		}
		subject := f.Name + "(" + rp.Name() + ")"
		if okAll {
			c.OK("C04/R1", subject, c.At(f.Pos()), "targets of the supplied relations are registered on every path that places rows")
			continue
		}
		// per-table helper: all callers register the same argument afterwards
		covered := true
		ncall := 0
		for _, cs := range m.CallSites() {
			if cs.Callee != f {
				continue
			}
			ncall++
			crp := relationIDsParam(cs.Caller)
			if crp == nil {
				covered = false
				continue
			}
			if !followedOnAllPaths(m, cs.Caller, cs.Call, func(n ast.Node) bool {
				call, ok := n.(*ast.CallExpr)
				if !ok {
					return false
				}
				if k, cal, _ := m.Callee(call); k == core.CallStatic && cal == registrar && argIsVar(m, call, crp) {
					return true
				}
				return false
			}) {
				covered = false
			}
		}
		if covered && ncall > 0 {
			c.OK("C04/R1", subject, c.At(f.Pos()), "helper: every caller registers the targets after the call")
		} else {
			c.Violation("C04/R1", subject, c.At(f.Pos()), fmt.Sprintf("%s places rows into a table chosen with the relation targets %s but does not register those targets on every path; a later removal of the target would not detach its children", f.Name, rp.Name()))
		}
	}
}

// c04r2: cleanup on recycle.
func c04r2(c *core.Ctx) {
	a := GetAnchors(c)
	m := c.M
	// cleanup role: the function called under a test of storage.isTarget
	for _, f := range m.AllFuncs() {
		if f.Recv == "entityPool" {
			continue
		}
		var recycles []*ast.CallExpr
		core.InspectNoLits(f.Body, func(n ast.Node) bool {
			if call, ok := n.(*ast.CallExpr); ok {
				if k, cal, _ := m.Callee(call); k == core.CallStatic && a.PoolRecycle[cal] {
					recycles = append(recycles, call)
				}
			}
			return true
		})
		for _, rc := range recycles {
			ent := m.ExprString(rc.Args[0])
			subject := fmt.Sprintf("%s: recycle of %s", f.Name, ent)
			// Stated on paths: somewhere the target flag of this entity is tested; under its true outcome (in any form:
			// guarded block, early return on the negation) the cleanup role is called for the entity and the flag is
			// cleared — or the entity is appended to a list that a later loop cleans element by element.
			tested, cleaned, cleared, deferredList := false, false, false, ""
			var cleanupAfter token.Pos
			roles := cleanupRole(c)
			aboutEnt := func(e ast.Expr, name string) bool {
				e = ast.Unparen(m.StripConv(e))
				if m.ExprString(e) == name {
					return true
				}
				if sel, ok := e.(*ast.SelectorExpr); ok && fieldKeyOf(m, sel) == "Entity.id" && m.ExprString(ast.Unparen(sel.X)) == name {
					return true
				}
				return false
			}
			flagAtom := func(at core.Atom, name string) bool {
				// (the test may be written through an accessor of a wrapper type: flags.isSet(id) for flags[id])
				ix, ok := ast.Unparen(m.Inline(at.Expr)).(*ast.IndexExpr)
				return ok && at.Truth && fieldKeyOf(m, ix.X) == "storage.isTarget" && aboutEnt(ix.Index, name)
			}
			underFlag := func(n ast.Node, name string) bool {
				spec := core.GuardSpec{
					Only:      f,
					GuardAtom: func(ff *core.Func, at core.Atom) bool { return flagAtom(at, name) },
					Needs: func(ff *core.Func, x ast.Node) []core.Witness {
						if x == n {
							return []core.Witness{{What: "node"}}
						}
						return nil
					},
					SkipCallee: func(*core.Func) bool { return true },
				}
				return len(m.MustPrecede(spec).Unguarded[f]) == 0
			}
			core.InspectNoLits(f.Body, func(n ast.Node) bool {
				if ix, ok := n.(*ast.IndexExpr); ok && fieldKeyOf(m, ix.X) == "storage.isTarget" && aboutEnt(ix.Index, ent) {
					tested = true
				}
				if call, ok := n.(*ast.CallExpr); ok {
					if ix, ok := ast.Unparen(m.Inline(call)).(*ast.IndexExpr); ok && fieldKeyOf(m, ix.X) == "storage.isTarget" && aboutEnt(ix.Index, ent) {
						tested = true
					}
				}
				switch x := n.(type) {
				case *ast.ExprStmt:
					if call, ok := x.X.(*ast.CallExpr); ok && len(call.Args) == 1 && aboutEnt(call.Args[0], ent) {
						if k, cal, _ := m.Callee(call); k == core.CallStatic && roles[cal] && underFlag(call, ent) {
							cleaned = true
							cleanupAfter = call.Pos()
						}
					}
				case *ast.AssignStmt:
					if len(x.Lhs) == 1 && len(x.Rhs) == 1 {
						if ix2, ok := ast.Unparen(x.Lhs[0]).(*ast.IndexExpr); ok && fieldKeyOf(m, ix2.X) == "storage.isTarget" && aboutEnt(ix2.Index, ent) {
							if tv, ok := m.Info.Types[x.Rhs[0]]; ok && tv.Value != nil && tv.Value.String() == "false" && underFlag(x, ent) {
								cleared = true
							}
						}
						if call, ok := ast.Unparen(x.Rhs[0]).(*ast.CallExpr); ok && m.IsBuiltin(call, "append") && len(call.Args) == 2 && aboutEnt(call.Args[1], ent) && underFlag(x, ent) {
							deferredList = m.ExprString(x.Lhs[0])
						}
					}
				}
				return true
			})
			// the deferred loop over a list in function fn: cleans every element of the list and clears its flag
			deferredLoop := func(fn *core.Func, list string) (cl, clr bool, pos token.Pos) {
				core.InspectNoLits(fn.Body, func(n ast.Node) bool {
					// for _, e := range list {..}, or an index loop whose body reads list[i]
					var v string
					var lbody *ast.BlockStmt
					if rs, ok := n.(*ast.RangeStmt); ok && m.ExprString(rs.X) == list && rs.Value != nil {
						v, lbody = m.ExprString(rs.Value), rs.Body
					} else if iv, over, body, ok := indexLoop(m, n); ok && m.ExprString(over) == list {
						v, lbody = list+"["+iv.Name()+"]", body
					}
					if lbody == nil {
						return true
					}
					ast.Inspect(lbody, func(y ast.Node) bool {
						switch x := y.(type) {
						case *ast.CallExpr:
							if len(x.Args) == 1 && aboutEnt(x.Args[0], v) {
								if k, cal, _ := m.Callee(x); k == core.CallStatic && cal.Sig != nil && cal.Sig.Results().Len() == 0 && len(c.Eff.Stores(cal)) > 0 {
									cl = true
									pos = x.Pos()
								}
							}
						case *ast.AssignStmt:
							if len(x.Lhs) == 1 {
								if ix2, ok := ast.Unparen(x.Lhs[0]).(*ast.IndexExpr); ok && fieldKeyOf(m, ix2.X) == "storage.isTarget" && aboutEnt(ix2.Index, v) {
									clr = true
								}
							}
						}
						return true
					})
					return true
				})
				return
			}
			if deferredList != "" {
				if cl, clr, pos := deferredLoop(f, deferredList); cl {
					cleaned, cleanupAfter = true, pos
					cleared = cleared || clr
				}
				// the list may be a parameter that the function hands back: then every caller owes the deferred loop over
				// the variable that receives it
				if !cleaned && f.Sig != nil {
					pidx := -1
					for i := 0; i < f.Sig.Params().Len(); i++ {
						if f.Sig.Params().At(i).Name() == deferredList {
							pidx = i
						}
					}
					returned := false
					core.InspectNoLits(f.Body, func(n ast.Node) bool {
						if rs, ok := n.(*ast.ReturnStmt); ok {
							for _, r := range rs.Results {
								if m.RawString(r) == deferredList {
									returned = true
								}
							}
						}
						return true
					})
					if pidx >= 0 && returned {
						sites, all := 0, true
						for _, cs := range m.CallSites() {
							if cs.Callee != f {
								continue
							}
							sites++
							recv := ""
							core.InspectNoLits(cs.Caller.Body, func(n ast.Node) bool {
								if as, ok := n.(*ast.AssignStmt); ok && len(as.Rhs) == 1 && ast.Unparen(as.Rhs[0]) == ast.Expr(cs.Call) && len(as.Lhs) >= 1 {
									recv = m.ExprString(as.Lhs[0])
								}
								return true
							})
							cl, clr, _ := false, false, token.NoPos
							if recv != "" {
								cl, clr, _ = deferredLoop(cs.Caller, recv)
							}
							if !cl || !clr {
								all = false
							}
						}
						if sites > 0 && all {
							cleaned, cleared, cleanupAfter = true, true, rc.End()
						}
					}
				}
			}
			switch {
			case !tested:
				c.Violation("C04/R2", subject, c.At(rc.Pos()), fmt.Sprintf("%s recycles %s without testing whether it is a relation target; its children would keep a dead target", f.Name, ent))
			case !cleaned:
				c.Violation("C04/R2", subject, c.At(rc.Pos()), fmt.Sprintf("%s tests the target flag of %s but never runs the target cleanup for it", f.Name, ent))
			case !cleared:
				c.Violation("C04/R2", subject, c.At(rc.Pos()), fmt.Sprintf("%s cleans up target %s but does not clear its target flag (a recycled id would be cleaned again)", f.Name, ent))
			case cleanupAfter < rc.Pos():
				c.Violation("C04/R2", subject, c.At(rc.Pos()), fmt.Sprintf("%s runs the target cleanup before the entity is recycled (the cleanup must see the row gone)", f.Name))
			default:
				c.OK("C04/R2", subject, c.At(rc.Pos()), "target flag tested; cleanup run and flag cleared after the row is gone")
			}
		}
	}
}

// purge summaries of one function with respect to the per-target containers.
type purgeSummary struct {
	all      map[string]bool   // container purged for every entry (loop over the container removing the table id)
	allCond  map[string]string // container -> guard text under which the all-purge runs ("" = unconditional)
	cols     map[string]bool   // container purged for every relation column of the table (indexed by column index / its target)
	target   map[string]bool   // container entry of one target entity deleted
	active   bool              // removes the table from the archetype's active list
	cache    bool              // removes the table from every cache entry
	setsFree bool
	clearAll map[string]bool // container replaced by an empty one
}

func newPurge() *purgeSummary {
	return &purgeSummary{all: map[string]bool{}, allCond: map[string]string{}, cols: map[string]bool{}, target: map[string]bool{}, clearAll: map[string]bool{}}
}

var perTarget = []string{"archetype.relationTables", "archetypeData.targetTables"}

// summarizePurge derives the purge summary of f from its own body (callees are combined by the caller).
func summarizePurge(c *core.Ctx, f *core.Func) *purgeSummary {
	m := c.M
	ps := newPurge()
	// early `if a.numRelations <= 1 { return }` splits the body: statements after it run only for numRelations > 1
	guardPos := token.NoPos
	guardText := ""
	for _, st := range f.Body.List {
		if is, ok := st.(*ast.IfStmt); ok && len(is.Body.List) == 1 {
			if _, isRet := is.Body.List[0].(*ast.ReturnStmt); isRet {
				mentionsCount := false
				ast.Inspect(is.Cond, func(y ast.Node) bool {
					if sel, ok := y.(*ast.SelectorExpr); ok && fieldKeyOf(m, sel) == "archetype.numRelations" {
						mentionsCount = true
					}
					return true
				})
				if mentionsCount {
					guardPos = is.End()
					guardText = "not (" + m.ExprString(is.Cond) + ")"
				}
			}
		}
	}
	// helpers that are handed a container (a map, or a table-id list): their bodies are read as if written at the call
	// site, with the parameters standing for the caller's actuals (core.Model.WithCall)
	containerHelper := func(cal *core.Func) bool {
		if cal == nil || cal.Body == nil || cal.Sig == nil || cal == f {
			return false
		}
		for i := 0; i < cal.Sig.Params().Len(); i++ {
			t := cal.Sig.Params().At(i).Type()
			if p, ok := t.(*types.Pointer); ok {
				t = p.Elem()
			}
			if _, isMap := t.Underlying().(*types.Map); isMap || core.NamedName(t) == "tableIDs" {
				return true
			}
		}
		return false
	}
	cur := f // the function whose body is being read (f itself, or a container helper under WithCall)
	isRemoveOfTable := func(call *ast.CallExpr) (recv ast.Expr, ok bool) {
		k, cal, _ := m.Callee(call)
		if k != core.CallStatic || cal.Recv != "tableIDs" || len(call.Args) != 1 || !returnsBool(cal) {
			return nil, false
		}
		if fieldKeyDeep(m, cur, call.Args[0], 0) != "table.id" && fieldKeyOf(m, call.Args[0]) != "table.id" {
			return nil, false
		}
		if sel, ok := ast.Unparen(call.Fun).(*ast.SelectorExpr); ok {
			return sel.X, true
		}
		return nil, false
	}
	// callsIn visits the calls in root and, through container helpers, the calls in their bodies; site is the call in
	// root that led there (the call itself at the top level), g the function that contains the call.
	var callsIn func(g *core.Func, root ast.Node, site *ast.CallExpr, visit func(g *core.Func, call, site *ast.CallExpr))
	callsIn = func(g *core.Func, root ast.Node, site *ast.CallExpr, visit func(g *core.Func, call, site *ast.CallExpr)) {
		ast.Inspect(root, func(y ast.Node) bool {
			if _, isLit := y.(*ast.FuncLit); isLit {
				return false
			}
			call, ok := y.(*ast.CallExpr)
			if !ok {
				return true
			}
			st := site
			if st == nil {
				st = call
			}
			saved := cur
			cur = g
			visit(g, call, st)
			cur = saved
			if _, cal, _ := m.Callee(call); containerHelper(cal) {
				m.WithCall(cal, call, func() { callsIn(cal, cal.Body, st, visit) })
			}
			return true
		})
	}
	sitePos := token.NoPos // position in f of the helper call under which the current body is read
	var walk func(g *core.Func, root ast.Node)
	walk = func(g *core.Func, root ast.Node) {
		core.InspectNoLits(root, func(n ast.Node) bool {
			cur = g
			// loops over all entries of a per-target container (range or index form) removing the table from every value
			for _, ct := range perTarget {
				body, isAll := loopOverAll(m, n, ct)
				if !isAll || body == nil {
					continue
				}
				// inner: for _, v := range m { v.Remove(table.id) } (relationTables: two levels) or v.Remove directly (targetTables)
				removed, broken := false, false
				callsIn(g, body, nil, func(_ *core.Func, z, _ *ast.CallExpr) {
					if _, ok := isRemoveOfTable(z); ok {
						removed = true
					}
				})
				ast.Inspect(body, func(y ast.Node) bool {
					switch z := y.(type) {
					case *ast.BranchStmt:
						if z.Tok == token.BREAK || z.Tok == token.GOTO {
							broken = true
						}
					case *ast.ReturnStmt:
						broken = true
					}
					return true
				})
				if removed && !broken {
					ps.all[ct] = true
					at := n.Pos()
					if sitePos != token.NoPos {
						at = sitePos
					}
					if guardPos != token.NoPos && at > guardPos {
						ps.allCond[ct] = guardText
					}
				}
			}
			switch x := n.(type) {
			case *ast.AssignStmt:
				for i, l := range x.Lhs {
					if fieldKeyOf(m, l) == "table.isFree" && i < len(x.Rhs) {
						if tv, ok := m.Info.Types[x.Rhs[i]]; ok && tv.Value != nil && tv.Value.String() == "true" {
							ps.setsFree = true
						}
					}
					// container replaced by an empty map
					for _, ct := range perTarget {
						k := fieldKeyOf(m, l)
						if ix, ok := ast.Unparen(l).(*ast.IndexExpr); ok {
							k = fieldKeyOf(m, ix.X)
						}
						if k == ct && i < len(x.Rhs) {
							if cl, ok := ast.Unparen(x.Rhs[i]).(*ast.CompositeLit); ok && len(cl.Elts) == 0 {
								ps.clearAll[ct] = true
							}
						}
					}
				}
			case *ast.CallExpr:
				if _, cal, _ := m.Callee(x); containerHelper(cal) {
					savedSite := sitePos
					if sitePos == token.NoPos {
						sitePos = x.Pos()
					}
					m.WithCall(cal, x, func() { walk(cal, cal.Body) })
					sitePos = savedSite
					cur = g
				}
				if recv, ok := isRemoveOfTable(x); ok {
					switch fieldKeyOf(m, recv) {
					case "archetype.tables":
						ps.active = true
					case "cacheEntry.tables":
						ps.cache = true
					}
				}
				if m.IsBuiltin(x, "delete") && len(x.Args) == 2 {
					k := fieldKeyOf(m, x.Args[0])
					if ix, ok := ast.Unparen(x.Args[0]).(*ast.IndexExpr); ok {
						k = fieldKeyOf(m, ix.X)
					}
					for _, ct := range perTarget {
						// keyed by the target's id: `e.id` of an entity, or a value of the entity-id type
						if k == ct && (fieldKeyOf(m, x.Args[1]) == "Entity.id" || core.NamedName(m.Info.TypeOf(x.Args[1])) == "entityID") {
							ps.target[ct] = true
						}
					}
				}
			case *ast.RangeStmt:
				// loops over the table's columns purging by column target
				if fieldKeyOf(m, x.X) == "table.columns" || fieldKeyOf(m, x.X) == "table.ids" {
					loopVar := ""
					if id, ok := x.Key.(*ast.Ident); ok {
						loopVar = id.Name
					}
					callsIn(g, x.Body, nil, func(g2 *core.Func, call, site *ast.CallExpr) {
						recv, ok := isRemoveOfTable(call)
						if !ok {
							return
						}
						// "for every relation column": inside the loop the purge may depend only on the column being a
						// relation column and on its own lookup succeeding; any other condition (a skipped target, a
						// skipped column) leaves entries behind
						{
							// conditions the call depends on inside the loop body: those of the enclosing ifs and those of
							// earlier ifs whose branch leaves the iteration
							var conds []ast.Expr
							leaves := func(l []ast.Stmt) bool {
								if len(l) == 0 {
									return false
								}
								switch b := l[len(l)-1].(type) {
								case *ast.BranchStmt:
									return b.Tok == token.CONTINUE || b.Tok == token.BREAK
								case *ast.ReturnStmt:
									return true
								}
								return false
							}
							at := site // in the loop body the position that counts is that of the (helper) call
							inside := func(n ast.Node) bool { return n != nil && n.Pos() <= at.Pos() && at.End() <= n.End() }
							var walkList func(l []ast.Stmt)
							walkList = func(l []ast.Stmt) {
								for _, st := range l {
									is, isIf := st.(*ast.IfStmt)
									if !inside(st) {
										if isIf && (leaves(is.Body.List) || (is.Else != nil && func() bool { eb, ok := is.Else.(*ast.BlockStmt); return ok && leaves(eb.List) }())) {
											conds = append(conds, is.Cond)
										}
										continue
									}
									switch y := st.(type) {
									case *ast.IfStmt:
										conds = append(conds, y.Cond)
										if inside(y.Body) {
											walkList(y.Body.List)
										} else if eb, ok := y.Else.(*ast.BlockStmt); ok && inside(eb) {
											walkList(eb.List)
										} else if ei, ok := y.Else.(*ast.IfStmt); ok && inside(ei) {
											walkList([]ast.Stmt{ei})
										}
									case *ast.BlockStmt:
										walkList(y.List)
									case *ast.ForStmt:
										if y.Cond != nil {
											conds = append(conds, y.Cond)
										}
										walkList(y.Body.List)
									case *ast.RangeStmt:
										walkList(y.Body.List)
									case *ast.SwitchStmt:
										if y.Tag != nil {
											conds = append(conds, y.Tag)
										}
										for _, cc := range y.Body.List {
											if cl, ok := cc.(*ast.CaseClause); ok && inside(cl) {
												conds = append(conds, cl.List...)
												walkList(cl.Body)
											}
										}
									}
									return
								}
							}
							walkList(x.Body.List)
							if g2 != g && g2.Body != nil {
								// and inside the helper, the conditions around the removal itself
								at = call
								walkList(g2.Body.List)
							}
							fine := func(e ast.Expr) bool {
								all := true
								ast.Inspect(e, func(z ast.Node) bool {
									switch w := z.(type) {
									case *ast.Ident:
										if w.Name == "ok" || w.Name == "found" || w.Name == "nil" {
											return true
										}
										if tv, isV := m.Info.ObjectOf(w).(*types.Var); isV && !tv.IsField() {
											// the column variable itself, the lookup result compared with nil
											return true
										}
									case *ast.SelectorExpr:
										if k := fieldKeyOf(m, w); k == "column.isRelation" || k == "archetype.isRelation" {
											return false
										}
										all = false
										return false
									case *ast.CallExpr:
										all = false
										return false
									}
									return true
								})
								return all
							}
							extra := ""
							for _, e := range conds {
								if !fine(e) {
									extra = m.ExprString(e)
								}
							}
							if extra != "" {
								return
							}
						}
						// recv is a local defined from `a.<container>[...][column.target.id]` lookups
						src := recv
						if id, ok := ast.Unparen(recv).(*ast.Ident); ok {
							if v, ok := m.Info.ObjectOf(id).(*types.Var); ok {
								for _, d := range localDefsOf(m, g2, v) {
									src = d
								}
							}
						}
						ix, ok := ast.Unparen(src).(*ast.IndexExpr)
						if !ok {
							return
						}
						// indexed by the id of a column's / relation's target
						byTarget := false
						if isel, ok := ast.Unparen(m.StripConv(m.Inline(m.StripConv(ix.Index)))).(*ast.SelectorExpr); ok && fieldKeyOf(m, isel) == "Entity.id" {
							for _, e := range exprChain(m, f, isel.X, 0) {
								switch fieldKeyOf(m, e) {
								case "column.target", "relationID.target":
									byTarget = true
								}
							}
						}
						switch inner := ast.Unparen(m.Inline(ix.X)).(type) {
						case *ast.IndexExpr:
							// a.relationTables[i][target.id]: i must be the loop index over the columns
							if fieldKeyOf(m, inner.X) == "archetype.relationTables" && byTarget && m.ExprString(inner.Index) == loopVar && loopVar != "" {
								ps.cols["archetype.relationTables"] = true
							}
						default:
							if fieldKeyOf(m, ix.X) == "archetypeData.targetTables" && byTarget {
								ps.cols["archetypeData.targetTables"] = true
							}
						}
					})
				}
			}
			return true
		})
	}
	walk(f, f.Body)
	return ps
}

// c04r3: free protocol.
func c04r3(c *core.Ctx) {
	m := c.M
	sums := map[*core.Func]*purgeSummary{}
	for _, f := range m.Funcs {
		sums[f] = summarizePurge(c, f)
	}
	// freeing functions: set isFree = true
	var freers []*core.Func
	for _, f := range m.Funcs {
		if sums[f].setsFree {
			freers = append(freers, f)
		}
	}
	if len(freers) == 0 {
		c.Undecide("C04/R3", "freeing role", "no function sets table.isFree = true")
		return
	}
	// pairing: every function that appends to archetypeData.freeTables sets isFree = true, and vice versa
	for _, f := range m.Funcs {
		appends := false
		core.InspectNoLits(f.Body, func(n ast.Node) bool {
			if as, ok := n.(*ast.AssignStmt); ok {
				for i, l := range as.Lhs {
					if fieldKeyOf(m, l) == "archetypeData.freeTables" && i < len(as.Rhs) {
						if call, ok := ast.Unparen(as.Rhs[i]).(*ast.CallExpr); ok && m.IsBuiltin(call, "append") {
							appends = true
						}
					}
				}
			}
			return true
		})
		if appends || sums[f].setsFree {
			subject := f.Name + ": free list / free flag"
			if appends && sums[f].setsFree {
				c.OK("C04/R3", subject, c.At(f.Pos()), "tables put on the free list are marked free in the same function")
			} else if appends {
				c.Violation("C04/R3", subject, c.At(f.Pos()), f.Name+": puts tables on the free list without marking them free; a later Shrink would free them a second time")
			} else {
				c.Violation("C04/R3", subject, c.At(f.Pos()), f.Name+": marks a table free without putting it on the free list")
			}
		}
	}
	// sites: calls of freers
	for _, fr := range freers {
		for _, cs := range m.CallSites() {
			if cs.Callee != fr {
				continue
			}
			g := cs.Caller
			subject := fmt.Sprintf("%s frees via %s", g.Name, fr.Name)
			// combine: summary of the freer + summaries of callees invoked in g (same function, any position after/before: order-insensitive)
			comb := newPurge()
			merge := func(s *purgeSummary) {
				comb.active = comb.active || s.active
				comb.cache = comb.cache || s.cache
				for k, v := range s.all {
					if v {
						comb.all[k] = true
						comb.allCond[k] = s.allCond[k]
					}
				}
				for k, v := range s.cols {
					comb.cols[k] = comb.cols[k] || v
				}
				for k, v := range s.target {
					comb.target[k] = comb.target[k] || v
				}
				for k, v := range s.clearAll {
					comb.clearAll[k] = comb.clearAll[k] || v
				}
			}
			merge(sums[fr])
			mergeWithCallees := func(h *core.Func) {
				merge(sums[h])
				core.InspectNoLits(h.Body, func(n ast.Node) bool {
					if call, ok := n.(*ast.CallExpr); ok {
						if k, cal, _ := m.Callee(call); k == core.CallStatic && cal != fr && sums[cal] != nil {
							merge(sums[cal])
							// one level deeper for cache.Reset-like helpers is not needed: storage.Reset is handled below
						}
					}
					return true
				})
			}
			mergeWithCallees(g)
			// a private helper that is only a step of its callers' operation: what every caller does around the call
			// belongs to the operation too (the target's entries may be dropped by the caller after the helper returns)
			if g.Obj != nil && !g.Obj.Exported() && g.Recv == "storage" {
				var callers []*core.Func
				for _, cs2 := range m.CallSites() {
					if cs2.Callee == g && cs2.Caller != g {
						callers = append(callers, cs2.Caller)
					}
				}
				if len(callers) == 1 && callers[0].Obj != nil && !callers[0].Obj.Exported() {
					mergeWithCallees(callers[0])
				}
			}
			var problems []string
			if !comb.active && !comb.clearAll["archetype.tables"] {
				// FreeAllTables clears the active list as a whole
				clears := false
				core.InspectNoLits(fr.Body, func(n ast.Node) bool {
					if call, ok := n.(*ast.CallExpr); ok {
						if sel, ok := ast.Unparen(call.Fun).(*ast.SelectorExpr); ok && fieldKeyOf(m, sel.X) == "archetype.tables" {
							if k, cal, _ := m.Callee(call); k == core.CallStatic && cal.Recv == "tableIDs" && cal.Sig.Params().Len() == 0 {
								clears = true
							}
						}
					}
					return true
				})
				if !clears {
					problems = append(problems, "the freed table stays in the archetype's active table list")
				}
			}
			for _, ct := range perTarget {
				switch {
				case comb.clearAll[ct]:
				case comb.all[ct] && comb.allCond[ct] == "":
				case comb.cols[ct]:
				case comb.all[ct] && comb.target[ct]:
					// all-purge for multi-relation archetypes, single target dropped otherwise (single-relation idiom)
				default:
					what := "never removed from " + ct
					if comb.all[ct] {
						what = "removed from " + ct + " only when " + comb.allCond[ct] + "; for the other case no entry is dropped here"
					} else if comb.target[ct] {
						what = "only the entry of one target is dropped from " + ct + "; a table with several relation targets stays listed under the others"
					}
					problems = append(problems, what)
				}
			}
			// cache: removeTable in g, or whole cache reset by every caller of g (storage.Reset path)
			if !comb.cache {
				resetByCallers := true
				n := 0
				for _, cs2 := range m.CallSites() {
					if cs2.Callee != g {
						continue
					}
					n++
					resets := false
					core.InspectNoLits(cs2.Caller.Body, func(x ast.Node) bool {
						if call, ok := x.(*ast.CallExpr); ok {
							if k, cal, _ := m.Callee(call); k == core.CallStatic && cal.Recv == "cache" {
								for _, s := range c.Eff.Stores(cal) {
									if s.Path.Last() == "cache.filters" && s.Kind == core.StoreAssign {
										resets = true
									}
								}
							}
						}
						return true
					})
					if !resets {
						resetByCallers = false
					}
				}
				if !(resetByCallers && n > 0) {
					problems = append(problems, "the freed table stays in the cached filters' table lists")
				}
			}
			if len(problems) == 0 {
				c.OK("C04/R3", subject, c.At(cs.Call.Pos()), "freed table leaves the active list, both per-target indices and every cached filter")
			} else {
				c.Violation("C04/R3", subject, c.At(cs.Call.Pos()), fmt.Sprintf("%s frees a table through %s but %s", g.Name, fr.Name, strings.Join(problems, "; ")))
			}
		}
	}
}

// c04r4: activation protocol.
func c04r4(c *core.Ctx) {
	m := c.M
	// activation sites: functions that append to storage.tables or call the recycling role (sets isFree = false)
	var recycle *core.Func
	for _, f := range m.Funcs {
		if f.Recv != "table" {
			continue
		}
		core.InspectNoLits(f.Body, func(n ast.Node) bool {
			if as, ok := n.(*ast.AssignStmt); ok {
				for i, l := range as.Lhs {
					if fieldKeyOf(m, l) == "table.isFree" && i < len(as.Rhs) {
						if tv, ok := m.Info.Types[as.Rhs[i]]; ok && tv.Value != nil && tv.Value.String() == "false" {
							recycle = f
						}
					}
				}
			}
			return true
		})
	}
	if recycle == nil {
		c.Undecide("C04/R4", "recycle role", "no table method clears isFree")
		return
	}
	n := 0
	lifted := map[*core.Func]bool{}
	pending := map[*core.Func][]ast.Node{} // call sites of slot-taking helpers, to be treated as activation sites
	funcs := append([]*core.Func{}, m.Funcs...)
	// helpers first, so that their call sites are known when the callers are visited
	sort.SliceStable(funcs, func(i, j int) bool {
		ei := funcs[i].Obj != nil && funcs[i].Obj.Exported()
		ej := funcs[j].Obj != nil && funcs[j].Obj.Exported()
		return !ei && ej
	})
	for pass := 0; pass < 2; pass++ {
		for _, f := range funcs {
			var acts []ast.Node
			if pass == 1 {
				acts = pending[f]
				if len(acts) == 0 {
					continue
				}
			}
			if pass == 0 {
				core.InspectNoLits(f.Body, func(x ast.Node) bool {
					switch y := x.(type) {
					case *ast.AssignStmt:
						for _, s := range m.DirectStores(f, y) {
							if s.Path.Last() == "storage.tables" && s.Kind == core.StoreAssign && s.Path.Kind != core.RootFresh {
								acts = append(acts, y)
							}
						}
					case *ast.CallExpr:
						if k, cal, _ := m.Callee(y); k == core.CallStatic && cal == recycle {
							acts = append(acts, y)
						}
					}
					return true
				})
			}
			// a private helper that only takes the slot (recycle or append) and leaves the registration to its callers:
			// its call sites are the activation sites
			if pass == 0 && len(acts) > 0 && f.Obj != nil && !f.Obj.Exported() && !lifted[f] {
				registers := false
				for _, s := range c.Eff.Stores(f) {
					if s.Path.Has("cacheEntry.tables") || (s.Path.Has("archetype.tables") && s.Path.Kind == core.RootParam) {
						registers = true
					}
				}
				if !registers {
					var sites []core.CallSite
					for _, cs := range m.CallSites() {
						if cs.Callee == f {
							sites = append(sites, cs)
						}
					}
					if len(sites) > 0 {
						lifted[f] = true
						for _, cs := range sites {
							pending[cs.Caller] = append(pending[cs.Caller], cs.Call)
						}
						continue
					}
				}
			}
			for _, act := range acts {
				n++
				subject := fmt.Sprintf("%s activates a table (%s)", f.Name, c.At(act.Pos()))
				addTable := func(x ast.Node) bool {
					call, ok := x.(*ast.CallExpr)
					if !ok {
						return false
					}
					k, cal, _ := m.Callee(call)
					if k != core.CallStatic || cal.Recv != "archetype" {
						return false
					}
					for _, s := range c.Eff.Stores(cal) {
						if s.Path.Has("archetype.tables") && s.Path.Kind == core.RootParam {
							return cal.Sig.Params().Len() == 1
						}
					}
					return false
				}
				cacheAdd := func(x ast.Node) bool {
					call, ok := x.(*ast.CallExpr)
					if !ok {
						return false
					}
					k, cal, _ := m.Callee(call)
					if k != core.CallStatic || cal.Recv != "cache" {
						return false
					}
					for _, s := range c.Eff.Stores(cal) {
						if s.Path.Has("cacheEntry.tables") {
							return true
						}
					}
					return false
				}
				okA := followedOnAllPaths(m, f, act, addTable)
				okC := followedOnAllPaths(m, f, act, cacheAdd)
				if okA && okC {
					c.OK("C04/R4", subject, c.At(act.Pos()), "activated table is registered with the archetype (active list and per-target indices) and offered to the filter cache on every path")
				} else {
					c.Violation("C04/R4", subject, c.At(act.Pos()), fmt.Sprintf("%s activates a table but does not on every path register it with the archetype (%v) and the filter cache (%v)", f.Name, okA, okC))
				}
			}
		}
	}
	// K5: the recycle role and the table constructor are called only from activation functions
	for _, cs := range m.CallSites() {
		if cs.Callee == recycle {
			reg := false
			for _, s := range c.Eff.Stores(cs.Caller) {
				if s.Path.Has("cacheEntry.tables") {
					reg = true
				}
			}
			if !reg && cs.Caller.Obj != nil && !cs.Caller.Obj.Exported() {
				// a private helper that only takes the slot: every caller of it must be an activation function
				callers, all := 0, true
				for _, cs2 := range m.CallSites() {
					if cs2.Callee != cs.Caller {
						continue
					}
					callers++
					r2 := false
					for _, s := range c.Eff.Stores(cs2.Caller) {
						if s.Path.Has("cacheEntry.tables") {
							r2 = true
						}
					}
					if !r2 {
						all = false
					}
				}
				reg = callers > 0 && all
			}
			if !reg {
				c.Violation("C04/R4", cs.Caller.Name+" recycles a table", c.At(cs.Call.Pos()), cs.Caller.Name+": recycles a free table outside the activation protocol")
			}
		}
	}
	if n == 0 {
		c.Undecide("C04/R4", "activation sites", "none found")
	}
}

// c04r5: validity checks precede taking a free table or appending a new one.
func c04r5(c *core.Ctx) {
	a := GetAnchors(c)
	m := c.M
	// target check role: function with one Entity parameter that panics unless alive or zero
	isTargetCheck := func(f *core.Func) bool {
		if f.Sig == nil || f.Sig.Params().Len() != 1 || core.NamedName(f.Sig.Params().At(0).Type()) != "Entity" || f.Sig.Results().Len() != 0 || len(f.Body.List) != 1 {
			return false
		}
		alive, panics := false, false
		core.InspectNoLits(f.Body, func(n ast.Node) bool {
			if call, ok := n.(*ast.CallExpr); ok {
				if k, cal, _ := m.Callee(call); k == core.CallStatic && a.AliveTest[cal] {
					alive = true
				}
				if m.IsBuiltin(call, "panic") {
					panics = true
				}
			}
			return true
		})
		return alive && panics
	}
	isCompCheck := func(f *core.Func) bool {
		if f.Sig == nil || f.Sig.Params().Len() != 1 || core.NamedName(f.Sig.Params().At(0).Type()) != "ID" || f.Sig.Results().Len() != 0 || len(f.Body.List) != 1 {
			return false
		}
		rel, panics := false, false
		core.InspectNoLits(f.Body, func(n ast.Node) bool {
			if sel, ok := n.(*ast.SelectorExpr); ok && fieldKeyOf(m, sel) == "componentRegistry.IsRelation" {
				rel = true
			}
			if call, ok := n.(*ast.CallExpr); ok && m.IsBuiltin(call, "panic") {
				panics = true
			}
			return true
		})
		return rel && panics
	}
	var tcheck, ccheck *core.Func
	for _, f := range m.Funcs {
		if isTargetCheck(f) {
			tcheck = f
		}
		if isCompCheck(f) {
			ccheck = f
		}
	}
	if tcheck == nil || ccheck == nil {
		c.Undecide("C04/R5", "check roles", "relation target / relation component check not derivable")
		return
	}
	// activation function: appends to storage.tables with a []relationID parameter
	checkLoop := func(f *core.Func, rp *types.Var) (bool, token.Pos) {
		var loopEnd token.Pos
		both := false
		core.InspectNoLits(f.Body, func(x ast.Node) bool {
			l, ok := x.(*ast.RangeStmt)
			if !ok {
				return true
			}
			if id, ok := ast.Unparen(l.X).(*ast.Ident); !ok || m.Info.ObjectOf(id) != rp {
				return true
			}
			t, cc, cond := false, false, false
			ast.Inspect(l.Body, func(y ast.Node) bool {
				switch z := y.(type) {
				case *ast.CallExpr:
					if k, cal, _ := m.Callee(z); k == core.CallStatic {
						if cal == tcheck {
							t = true
						}
						if cal == ccheck {
							cc = true
						}
					}
				case *ast.IfStmt, *ast.BranchStmt:
					cond = true
				}
				return true
			})
			if t && cc && !cond {
				both = true
				loopEnd = x.End()
			}
			return true
		})
		return both, loopEnd
	}
	cleanup := cleanupRole(c)
	for _, f := range m.Funcs {
		rp := relationIDsParam(f)
		if rp == nil {
			continue
		}
		appends := false
		core.InspectNoLits(f.Body, func(x ast.Node) bool {
			if as, ok := x.(*ast.AssignStmt); ok {
				for _, s := range m.DirectStores(f, as) {
					if s.Path.Last() == "storage.tables" && s.Kind == core.StoreAssign {
						appends = true
					}
				}
			}
			return true
		})
		if !appends {
			continue
		}
		subject := f.Name + ": relation validity"
		both, loopEnd := checkLoop(f, rp)
		if !both {
			// an unchecked activation function: every caller must be the checking wrapper (check loop over the slice it passes,
			// before the call) or the target cleanup
			okAll, n := true, 0
			var badCaller string
			var viaCallers func(g *core.Func, depth int)
			viaCallers = func(g *core.Func, depth int) {
				for _, cs := range m.CallSites() {
					if cs.Callee != g {
						continue
					}
					n++
					if cleanup[cs.Caller] {
						c.OK("C04/R5", cs.Caller.Name+" -> "+g.Name, c.At(cs.Call.Pos()), "target cleanup: relations are the table's own targets (rule R8)")
						continue
					}
					crp := relationIDsParam(cs.Caller)
					passes := false
					for _, a := range cs.Call.Args {
						if id, ok := ast.Unparen(a).(*ast.Ident); ok && crp != nil && m.Info.ObjectOf(id) == crp {
							passes = true
						}
					}
					cb, cEnd := false, token.NoPos
					if crp != nil {
						cb, cEnd = checkLoop(cs.Caller, crp)
					}
					switch {
					case passes && cb && cEnd < cs.Call.Pos():
						c.OK("C04/R5", cs.Caller.Name+" -> "+g.Name, c.At(cs.Call.Pos()), "component and target of every relation are checked before the table is taken or created")
					case passes && !cb && depth < 3 && cs.Caller.Obj != nil && !cs.Caller.Obj.Exported():
						// an unchecked helper in between: its own callers decide
						viaCallers(cs.Caller, depth+1)
					default:
						okAll, badCaller = false, cs.Caller.Name
					}
				}
			}
			viaCallers(f, 0)
			if !okAll || n == 0 {
				c.Violation("C04/R5", subject, c.At(f.Pos()), fmt.Sprintf("%s creates tables without checking relation component and target of every supplied relation, and its caller %s does not do so either", f.Name, badCaller))
			}
			continue
		}
		// first effect: take from free list / append / recycle must come after the loop
		firstEffect := token.NoPos
		core.InspectNoLits(f.Body, func(x ast.Node) bool {
			pos := token.NoPos
			switch y := x.(type) {
			case *ast.AssignStmt:
				for _, s := range m.DirectStores(f, y) {
					if cls, _ := Classify(s.Path); cls == ClsTableSet {
						pos = y.Pos()
					}
				}
			case *ast.CallExpr:
				if k, cal, _ := m.Callee(y); k == core.CallStatic {
					for _, s := range c.Eff.Stores(cal) {
						if s.Path.Last() == "archetypeData.freeTables" || s.Path.Last() == "table.isFree" {
							pos = y.Pos()
						}
					}
				}
			}
			if pos != token.NoPos && (firstEffect == token.NoPos || pos < firstEffect) {
				firstEffect = pos
			}
			return true
		})
		if firstEffect != token.NoPos && firstEffect < loopEnd {
			c.Violation("C04/R5", subject, c.At(firstEffect), f.Name+": a free table is taken or a table is stored before the relation checks; a rejected call would leave the table set changed")
		} else {
			c.OK("C04/R5", subject, c.At(f.Pos()), "component and target of every relation are checked before a free table is taken or a new one appended")
		}
	}
}

// cleanupRole: the functions invoked for an entity under a test of its target flag (and what only they reach is not needed here).
func cleanupRole(c *core.Ctx) map[*core.Func]bool {
	m := c.M
	out := map[*core.Func]bool{}
	for _, f := range m.AllFuncs() {
		// candidate calls: result-less calls made as statements with one argument that is an entity or an entity id
		var cands []*ast.CallExpr
		mentions := false
		core.InspectNoLits(f.Body, func(n ast.Node) bool {
			switch x := n.(type) {
			case *ast.IndexExpr:
				if fieldKeyOf(m, x.X) == "storage.isTarget" {
					mentions = true
				}
			case *ast.CallExpr:
				if ix, ok := ast.Unparen(m.Inline(x)).(*ast.IndexExpr); ok && fieldKeyOf(m, ix.X) == "storage.isTarget" {
					mentions = true
				}
			case *ast.ExprStmt:
				if call, ok := x.X.(*ast.CallExpr); ok && len(call.Args) == 1 {
					if k, cal, _ := m.Callee(call); k == core.CallStatic && cal.Sig != nil && cal.Sig.Results().Len() == 0 {
						switch core.NamedName(m.Info.TypeOf(call.Args[0])) {
						case "Entity", "entityID":
							cands = append(cands, call)
						}
					}
				}
			}
			return true
		})
		if !mentions {
			continue
		}
		// the cleanup is what runs only when the target flag of the entity was found set: dominated by the true outcome
		// of a test of storage.isTarget[...], in whatever form (guarded block or early return)
		for _, call := range cands {
			call := call
			spec := core.GuardSpec{
				Only: f,
				GuardAtom: func(ff *core.Func, at core.Atom) bool {
					ix, ok := ast.Unparen(m.Inline(at.Expr)).(*ast.IndexExpr)
					return ok && at.Truth && fieldKeyOf(m, ix.X) == "storage.isTarget"
				},
				Needs: func(ff *core.Func, n ast.Node) []core.Witness {
					if n == ast.Node(call) {
						return []core.Witness{{What: "call"}}
					}
					return nil
				},
				SkipCallee: func(*core.Func) bool { return true },
			}
			if len(m.MustPrecede(spec).Unguarded[f]) == 0 {
				if _, cal, _ := m.Callee(call); cal != nil {
					out[cal] = true
				}
			}
		}
	}
	// the role may be split into helpers: an unexported function all of whose call sites lie inside the role belongs to it
	sites := m.CallSites()
	for changed := true; changed; {
		changed = false
		for _, f := range m.Funcs {
			if out[f] || f.Obj == nil || f.Obj.Exported() || f.Recv != "storage" {
				continue
			}
			n, all := 0, true
			for _, cs := range sites {
				if cs.Callee == f {
					n++
					if !out[cs.Caller] {
						all = false
					}
				}
			}
			if n > 0 && all {
				out[f] = true
				changed = true
			}
		}
	}
	return out
}

// c04r8: the relation-target validity check is unreachable from the target cleanup.
func c04r8(c *core.Ctx) {
	a := GetAnchors(c)
	m := c.M
	cleanup := cleanupRole(c)
	if len(cleanup) == 0 {
		c.Undecide("C04/R8", "cleanup role", "no function is called under a test of the target flag")
		return
	}
	isCheck := func(f *core.Func) bool {
		if f.Sig == nil || f.Sig.Params().Len() != 1 || core.NamedName(f.Sig.Params().At(0).Type()) != "Entity" || f.Sig.Results().Len() != 0 || len(f.Body.List) != 1 {
			return false
		}
		alive, panics := false, false
		core.InspectNoLits(f.Body, func(n ast.Node) bool {
			if call, ok := n.(*ast.CallExpr); ok {
				if k, cal, _ := m.Callee(call); k == core.CallStatic && a.AliveTest[cal] {
					alive = true
				}
				if m.IsBuiltin(call, "panic") {
					panics = true
				}
			}
			return true
		})
		return alive && panics
	}
	for f := range cleanup {
		var path []string
		seen := map[*core.Func]bool{}
		var visit func(g *core.Func, chain []string) bool
		visit = func(g *core.Func, chain []string) bool {
			if seen[g] {
				return false
			}
			seen[g] = true
			found := false
			core.InspectNoLits(g.Body, func(n ast.Node) bool {
				if found {
					return false
				}
				if call, ok := n.(*ast.CallExpr); ok {
					if k, cal, _ := m.Callee(call); k == core.CallStatic {
						if isCheck(cal) {
							path = append(append([]string{}, chain...), g.Name, cal.Name)
							found = true
							return false
						}
						if visit(cal, append(chain, g.Name)) {
							found = true
							return false
						}
					}
				}
				return true
			})
			return found
		}
		if visit(f, nil) {
			c.Violation("C04/R8", f.Name, c.At(f.Pos()), fmt.Sprintf("the target cleanup %s reaches the relation-target validity check (%s); when several targets of one table are removed in the same batch, the not-yet-cleaned ones are dead and the valid removal panics", f.Name, strings.Join(path, " -> ")), "via "+strings.Join(path, " -> "))
		} else {
			c.OK("C04/R8", f.Name, c.At(f.Pos()), fmt.Sprintf("no target-validity check is reachable from the target cleanup (%d functions searched)", len(seen)))
		}
	}
}

// c04r6: exact lookup compares whole entities.
func c04r6(c *core.Ctx) {
	m := c.M
	n := 0
	for _, f := range m.Funcs {
		if f.Recv != "table" || !returnsBool(f) || relationIDsParam(f) == nil {
			continue
		}
		// (function literals included: the loop may be a slices.ContainsFunc with the comparison in its predicate)
		ast.Inspect(f.Body, func(x ast.Node) bool {
			be, ok := x.(*ast.BinaryExpr)
			if !ok || (be.Op != token.NEQ && be.Op != token.EQL) {
				return true
			}
			lk, rk := fieldKeyOf(m, be.X), fieldKeyOf(m, be.Y)
			// a comparison of relation targets: an operand reads the target field of a relation or of a column
			involvesTarget := false
			for _, side := range []ast.Expr{be.X, be.Y} {
				ast.Inspect(side, func(y ast.Node) bool {
					if sel, ok := y.(*ast.SelectorExpr); ok {
						switch fieldKeyOf(m, sel) {
						case "relationID.target", "column.target":
							involvesTarget = true
						}
					}
					return true
				})
			}
			if !involvesTarget {
				return true
			}
			n++
			lt, rt := core.NamedName(m.Info.TypeOf(be.X)), core.NamedName(m.Info.TypeOf(be.Y))
			subject := fmt.Sprintf("%s: %s", f.Name, m.ExprString(be))
			if lt == "Entity" && rt == "Entity" {
				c.OK("C04/R6", subject, c.At(be.Pos()), "relation targets are compared as whole entities (id and generation)")
			} else {
				c.Violation("C04/R6", subject, c.At(be.Pos()), fmt.Sprintf("%s compares relation targets as %s/%s (%s vs %s) instead of whole entities; a recycled id with a newer generation would match a dead target's table", f.Name, lt, rt, lk, rk))
			}
			return true
		})
	}
	if n == 0 {
		c.Undecide("C04/R6", "target comparisons", "none found in table match functions")
	}
	// the per-target lookup hands out a table only under the match test: the per-column index is keyed by the target's
	// id alone, so without the test a recycled id finds the table of the dead target it replaced
	for _, f := range m.Funcs {
		if f.Sig == nil || f.Sig.Results().Len() != 2 || !isPtrTo(f.Sig.Results().At(0).Type(), "table") || !returnsBoolAt(f, 1) {
			continue
		}
		reads := false
		core.InspectNoLits(f.Body, func(x ast.Node) bool {
			if sel, ok := x.(*ast.SelectorExpr); ok {
				switch fieldKeyOf(m, sel) {
				case "archetype.relationTables", "archetypeData.targetTables":
					reads = true
				}
			}
			return true
		})
		if !reads {
			continue
		}
		core.InspectNoLits(f.Body, func(x ast.Node) bool {
			rs, ok := x.(*ast.ReturnStmt)
			if !ok || len(rs.Results) != 2 {
				return true
			}
			tv, ok := m.Info.Types[rs.Results[1]]
			if !ok || tv.Value == nil || tv.Value.String() != "true" {
				return true
			}
			ts := m.ExprString(ast.Unparen(rs.Results[0]))
			subject := fmt.Sprintf("%s: return %s, true", f.Name, ts)
			spec := core.GuardSpec{
				Only: f,
				GuardAtom: func(ff *core.Func, at core.Atom) bool {
					call, ok := ast.Unparen(at.Expr).(*ast.CallExpr)
					if !ok || !at.Truth {
						return false
					}
					k, cal, _ := m.Callee(call)
					if k != core.CallStatic || cal.Recv != "table" || !returnsBool(cal) || relationIDsParam(cal) == nil {
						return false
					}
					sel, ok := ast.Unparen(call.Fun).(*ast.SelectorExpr)
					return ok && m.ExprString(ast.Unparen(sel.X)) == ts
				},
				Needs: func(ff *core.Func, y ast.Node) []core.Witness {
					if y == ast.Node(rs) {
						return []core.Witness{{What: "return of a table"}}
					}
					return nil
				},
				SkipCallee: func(*core.Func) bool { return true },
			}
			if len(m.MustPrecede(spec).Unguarded[f]) == 0 {
				c.OK("C04/R6", subject, c.At(rs.Pos()), "the table found through the per-target index is returned only after it matched the requested relations")
			} else {
				c.Violation("C04/R6", subject, c.At(rs.Pos()), fmt.Sprintf("%s returns a table found through the per-target index (keyed by target id only) without having matched it against the requested relations; a dead target whose id was recycled would resolve to the table of the newer entity instead of being rejected", f.Name))
			}
			return true
		})
	}
}

func returnsBoolAt(f *core.Func, i int) bool {
	if f.Sig == nil || f.Sig.Results().Len() <= i {
		return false
	}
	b, ok := f.Sig.Results().At(i).Type().Underlying().(*types.Basic)
	return ok && b.Kind() == types.Bool
}

// c04r7: archetype.relationTables is indexed by column index only.
func c04r7(c *core.Ctx) {
	m := c.M
	n := 0
	for _, f := range m.AllFuncs() {
		core.InspectNoLits(f.Body, func(x ast.Node) bool {
			ix, ok := x.(*ast.IndexExpr)
			if !ok || fieldKeyOf(m, ix.X) != "archetype.relationTables" {
				return true
			}
			n++
			subject := fmt.Sprintf("%s: %s", f.Name, m.ExprString(ix))
			if why := columnIndexProvenance(m, f, ix.Index); why != "" {
				c.OK("C04/R7", subject, c.At(ix.Pos()), "index is a column index: "+why)
			} else {
				c.Violation("C04/R7", subject, c.At(ix.Pos()), fmt.Sprintf("%s indexes the per-column target index with %s, which is not derived from a column index (column loop variable, componentsMap[...] or column.index)", f.Name, m.ExprString(ix.Index)))
			}
			return true
		})
	}
	if n == 0 {
		c.Undecide("C04/R7", "index sites", "archetype.relationTables is never indexed")
	}
}

// columnIndexProvenance explains why e is a column index, or returns "".
func columnIndexProvenance(m *core.Model, f *core.Func, e ast.Expr) string {
	e = m.StripConv(e)
	// an accessor that merely names the lookup (a.columnOf(id) = a.componentsMap[id.id])
	if call, ok := e.(*ast.CallExpr); ok {
		if x := m.StripConv(m.Inline(call)); x != ast.Expr(call) {
			e = x
		}
	}
	switch x := e.(type) {
	case *ast.Ident:
		v, ok := m.Info.ObjectOf(x).(*types.Var)
		if !ok {
			return ""
		}
		// loop variable over a per-column slice
		why := ""
		core.InspectNoLits(f.Body, func(n ast.Node) bool {
			iv, over, _, ok := indexLoop(m, n)
			if !ok {
				return true
			}
			if iv == v {
				switch fieldKeyOf(m, over) {
				case "table.columns", "table.ids", "archetype.relationTables", "archetypeData.components", "archetypeData.isRelation", "archetypeData.itemSizes":
					why = "loop index over " + fieldKeyOf(m, over)
				}
				if id2, ok := ast.Unparen(over).(*ast.Ident); ok {
					// range over a parameter/local holding the component list (newArchetype: components)
					if v2, ok := m.Info.ObjectOf(id2).(*types.Var); ok {
						if sl, ok := v2.Type().(*types.Slice); ok && core.NamedName(sl.Elem()) == "ID" {
							why = "loop index over the archetype's component list"
						}
					}
				}
			}
			return true
		})
		if why != "" {
			return why
		}
		for _, d := range localDefsOf(m, f, v) {
			if w := columnIndexProvenance(m, f, d); w != "" {
				return w
			}
		}
	case *ast.IndexExpr:
		if fieldKeyOf(m, x.X) == "archetype.componentsMap" {
			return "componentsMap lookup"
		}
	case *ast.SelectorExpr:
		if fieldKeyOf(m, x) == "column.index" {
			return "column.index"
		}
	}
	return ""
}
