package rules

import (
	"go/ast"
	"go/constant"
	"go/token"
	"go/types"

	"arkverif/checker/core"
)

// Pre-event types: documented as "emitted before" the operation (ecs/events.go constant docs; docs/content/events).
var preEvents = map[string]bool{"OnRemoveEntity": true, "OnRemoveComponents": true, "OnRemoveRelations": true}

// Post-event types.
var postEvents = map[string]bool{"OnCreateEntity": true, "OnAddComponents": true, "OnSetComponents": true, "OnAddRelations": true}

// FireCall describes a call that dispatches an event to observers.
type FireCall struct {
	Call    *ast.CallExpr
	Callee  *core.Func // the fire function or wrapper called
	Fire    *core.Func // the fire function finally reached
	Event   string     // constant name of the event type, "" if forwarded/unknown, "custom" for non-predefined
	Forward bool       // the event type is a parameter of the enclosing function
	Entity  ast.Expr   // entity argument
	Masks   []ast.Expr // mask arguments in order
	Wrapper bool
}

// Pre reports whether the call dispatches a removal (pre-operation) event.
func (fc *FireCall) Pre() bool { return preEvents[fc.Event] }

// eventConstName returns the name of the EventType constant denoted by e, or "".
func eventConstName(m *core.Model, e ast.Expr) string {
	e = ast.Unparen(e)
	switch x := e.(type) {
	case *ast.Ident:
		if c, ok := m.Info.ObjectOf(x).(*types.Const); ok && core.NamedName(c.Type()) == "EventType" {
			return c.Name()
		}
	case *ast.SelectorExpr:
		if c, ok := m.Info.ObjectOf(x.Sel).(*types.Const); ok && core.NamedName(c.Type()) == "EventType" {
			return c.Name()
		}
	}
	if tv, ok := m.Info.Types[e]; ok && tv.Value != nil && core.NamedName(tv.Type) == "EventType" {
		// a constant expression: map the value back to a declared constant
		sc := m.Prog.Ecs.Types.Scope()
		for _, n := range sc.Names() {
			if c, ok := sc.Lookup(n).(*types.Const); ok && core.NamedName(c.Type()) == "EventType" && constant.Compare(c.Val(), token.EQL, tv.Value) {
				return c.Name()
			}
		}
	}
	return ""
}

// fireOwnEvent returns the constant event a fire function dispatches when it has no event parameter:
// the constant index of observerManager.observers in its body.
func fireOwnEvent(m *core.Model, f *core.Func) string {
	ev := ""
	core.InspectNoLits(f.Body, func(n ast.Node) bool {
		ix, ok := n.(*ast.IndexExpr)
		if !ok {
			return true
		}
		if sel, ok := ast.Unparen(ix.X).(*ast.SelectorExpr); ok {
			if fld := m.FieldOf(sel); fld != nil && m.FieldKey(fld) == "observerManager.observers" {
				if c := eventConstName(m, ix.Index); c != "" {
					ev = c
				}
			}
		}
		return true
	})
	return ev
}

func eventParamIndex(f *core.Func) int {
	if f.Sig == nil {
		return -1
	}
	for i := 0; i < f.Sig.Params().Len(); i++ {
		if core.NamedName(f.Sig.Params().At(i).Type()) == "EventType" {
			return i
		}
	}
	return -1
}

// fireWrappers derives functions that only forward to a fire function (…IfHas helpers).
func (a *Anchors) fireWrappers() map[*core.Func]*core.Func {
	if a.wrappers != nil {
		return a.wrappers
	}
	a.wrappers = map[*core.Func]*core.Func{}
	for _, f := range a.M.Funcs {
		if a.Fire[f] || f.Recv != "observerManager" {
			continue
		}
		var target *core.Func
		n := 0
		core.InspectNoLits(f.Body, func(x ast.Node) bool {
			if call, ok := x.(*ast.CallExpr); ok {
				if k, cal, _ := a.M.Callee(call); k == core.CallStatic && a.Fire[cal] {
					target = cal
					n++
				}
			}
			return true
		})
		if n == 1 {
			a.wrappers[f] = target
		}
	}
	return a.wrappers
}

// FireCallOf classifies call as an event dispatch, or returns nil.
func (a *Anchors) FireCallOf(encl *core.Func, call *ast.CallExpr) *FireCall {
	m := a.M
	k, callee, _ := m.Callee(call)
	if k != core.CallStatic {
		return nil
	}
	fc := &FireCall{Call: call, Callee: callee}
	if a.Fire[callee] {
		fc.Fire = callee
	} else if t, ok := a.fireWrappers()[callee]; ok {
		fc.Fire = t
		fc.Wrapper = true
	} else {
		return nil
	}
	if i := eventParamIndex(callee); i >= 0 && i < len(call.Args) {
		arg := call.Args[i]
		if c := eventConstName(m, arg); c != "" {
			fc.Event = c
		} else if id, ok := ast.Unparen(arg).(*ast.Ident); ok {
			if v, ok := m.Info.ObjectOf(id).(*types.Var); ok && encl.Sig != nil {
				for j := 0; j < encl.Sig.Params().Len(); j++ {
					if encl.Sig.Params().At(j) == v {
						fc.Forward = true
					}
				}
			}
			if !fc.Forward {
				fc.Event = "custom" // a run-time event type (custom events)
			}
		} else {
			fc.Event = "custom"
		}
	} else {
		fc.Event = fireOwnEvent(m, fc.Fire)
	}
	if fc.Event != "" && !preEvents[fc.Event] && !postEvents[fc.Event] {
		fc.Event = "custom"
	}
	for i, arg := range call.Args {
		if callee.Sig == nil || i >= callee.Sig.Params().Len() {
			break
		}
		pt := callee.Sig.Params().At(i).Type()
		switch {
		case core.NamedName(pt) == "Entity":
			fc.Entity = arg
		case isMaskPtr(pt):
			fc.Masks = append(fc.Masks, arg)
		}
	}
	return fc
}

func isMaskPtr(t types.Type) bool {
	pt, ok := t.Underlying().(*types.Pointer)
	if !ok {
		return false
	}
	n := core.NamedName(pt.Elem())
	return n == "bitMask256" || n == "bitMask64"
}
