package rules

import (
	"fmt"
	"go/ast"
	"go/types"
	"strings"

	"arkverif/checker/core"
)

// C06/R9: what is put back into a scratch slot is scratch memory.
//
// The storage's reusable slices (fields of its `slices` struct) are taken out, filled and put back truncated
// (`s.slices.tables = tables[:0]`). Whatever is put back becomes the buffer that the next user overwrites, so no value
// that reaches such a store may be foreign memory - a list that belongs to somebody else (a cache entry's table list, a
// table's relation list): it would be overwritten by the next batch. "Foreign" is tracked path-sensitively (the idiom
// `list = other; release = false ... if release { slot = list[:0] }` is understood) through re-slices, appends, locals,
// helper results (all return statements) and parameters (all call sites).
type foreignCtx struct {
	c       *core.Ctx
	m       *core.Model
	returns map[*core.Func]map[int]bool // result k may be foreign memory
	busy    map[*core.Func]bool
	n       int
}

func c06r9(c *core.Ctx) {
	fc := &foreignCtx{c: c, m: c.M, returns: map[*core.Func]map[int]bool{}, busy: map[*core.Func]bool{}}
	for _, f := range c.M.AllFuncs() {
		stores := false
		core.InspectNoLits(f.Body, func(x ast.Node) bool {
			if as, ok := x.(*ast.AssignStmt); ok {
				for _, l := range as.Lhs {
					if isScratchField(fc.m, l) && isSliceType(fc.m.Info.TypeOf(l)) {
						stores = true
					}
				}
			}
			return true
		})
		if stores {
			fc.analyse(f, true)
		}
	}
	if fc.n == 0 {
		c.Undecide("C06/R9", "scratch slots", "no store into a field of the scratch-slice struct found")
	}
}

// foreign: e may denote memory that is neither the scratch slot's own buffer nor freshly allocated.
func (fc *foreignCtx) foreign(f *core.Func, S string, e ast.Expr) bool {
	m := fc.m
	if e == nil {
		return false
	}
	e = ast.Unparen(e)
	if !isSliceType(m.Info.TypeOf(e)) {
		if id, ok := e.(*ast.Ident); !ok || id.Name != "nil" {
			return false
		}
	}
	switch x := e.(type) {
	case *ast.SliceExpr:
		return fc.foreign(f, S, x.X)
	case *ast.CompositeLit:
		return false
	case *ast.SelectorExpr:
		return !isScratchField(m, x)
	case *ast.Ident:
		if x.Name == "nil" {
			return false
		}
		if v, ok := m.Info.ObjectOf(x).(*types.Var); ok && !v.IsField() {
			return strings.Contains(S, ","+x.Name+",")
		}
		return true
	case *ast.CallExpr:
		if m.IsBuiltin(x, "append") && len(x.Args) >= 1 {
			return fc.foreign(f, S, x.Args[0])
		}
		if m.IsBuiltin(x, "make") {
			return false
		}
		if tv, ok := m.Info.Types[ast.Unparen(x.Fun)]; ok && tv.IsType() && len(x.Args) == 1 {
			return fc.foreign(f, S, x.Args[0])
		}
		if k, cal, _ := m.Callee(x); k == core.CallStatic && cal != nil && cal.Body != nil && tupleArity(m, x) == 1 {
			return fc.returnsForeign(cal)[0]
		}
		return true
	}
	return true
}

func (fc *foreignCtx) returnsForeign(g *core.Func) map[int]bool {
	if r, ok := fc.returns[g]; ok {
		return r
	}
	if fc.busy[g] {
		return map[int]bool{}
	}
	fc.busy[g] = true
	r := fc.analyse(g, false)
	delete(fc.busy, g)
	fc.returns[g] = r
	return r
}

// analyse runs the path-sensitive analysis on f; with report it checks the stores into scratch slots.
func (fc *foreignCtx) analyse(f *core.Func, report bool) map[int]bool {
	m := fc.m
	res := map[int]bool{}
	if f.Body == nil {
		return res
	}
	// slice parameters are foreign unless every call site hands in clean memory (judged flow-insensitively there)
	entry := ""
	if f.Sig != nil {
		for i := 0; i < f.Sig.Params().Len(); i++ {
			p := f.Sig.Params().At(i)
			if !isSliceType(p.Type()) {
				continue
			}
			clean := false
			if acts := actualsOf(m, f, p); len(acts) > 0 {
				clean = true
				for _, a := range acts {
					if fc.foreign(a.caller, "", a.expr) {
						// a local of the caller is not known here: only fields and calls decide
						if _, isID := ast.Unparen(a.expr).(*ast.Ident); !isID {
							clean = false
						}
					}
				}
			}
			if !clean {
				entry = setAdd(entry, p.Name())
			}
		}
	}
	reported := map[ast.Node]bool{}
	ps := &core.PS[string]{M: m, F: f, Entry: entry}
	ps.Node = func(S string, n ast.Node, cond bool, facts core.Facts) string {
		switch x := n.(type) {
		case *ast.AssignStmt:
			if len(x.Lhs) == len(x.Rhs) {
				for i, l := range x.Lhs {
					fo := fc.foreign(f, S, x.Rhs[i])
					switch lv := ast.Unparen(l).(type) {
					case *ast.Ident:
						if !isSliceType(m.Info.TypeOf(lv)) {
							continue
						}
						if fo {
							S = setAdd(S, lv.Name)
						} else {
							S = setDel(S, lv.Name)
						}
					case *ast.SelectorExpr:
						if report && isScratchField(m, lv) && isSliceType(m.Info.TypeOf(lv)) && !reported[x] {
							subject := fmt.Sprintf("%s: %s = %s", f.Name, m.RawString(lv), m.RawString(x.Rhs[i]))
							if fo {
								reported[x] = true
								fc.c.Violation("C06/R9", subject, fc.c.At(x.Pos()), fmt.Sprintf("%s puts %s back into the scratch slot %s, but on some path that value is memory that belongs to somebody else (a field, a parameter or a helper result that is not the slot's own buffer); the next user of the slot would overwrite it", f.Name, m.RawString(x.Rhs[i]), fieldKeyOf(m, lv)))
							}
						}
					}
				}
			} else if len(x.Rhs) == 1 {
				if call, ok := ast.Unparen(x.Rhs[0]).(*ast.CallExpr); ok {
					var rs map[int]bool
					known := false
					if k, cal, _ := m.Callee(call); k == core.CallStatic && cal != nil && cal.Body != nil {
						rs, known = fc.returnsForeign(cal), true
					}
					for i, l := range x.Lhs {
						if id, ok := ast.Unparen(l).(*ast.Ident); ok && isSliceType(m.Info.TypeOf(id)) {
							if !known || rs[i] {
								S = setAdd(S, id.Name)
							} else {
								S = setDel(S, id.Name)
							}
						}
					}
				} else if id, ok := ast.Unparen(x.Lhs[0]).(*ast.Ident); ok && isSliceType(m.Info.TypeOf(id)) {
					// comma-ok forms: the value operand
					if fc.foreign(f, S, x.Rhs[0]) {
						S = setAdd(S, id.Name)
					} else {
						S = setDel(S, id.Name)
					}
				}
			}
		case *ast.ValueSpec:
			for i, id := range x.Names {
				if !isSliceType(m.Info.TypeOf(id)) {
					continue
				}
				if i < len(x.Values) && fc.foreign(f, S, x.Values[i]) {
					S = setAdd(S, id.Name)
				} else {
					S = setDel(S, id.Name)
				}
			}
		case *ast.RangeStmt:
			for _, rv := range []ast.Expr{x.Key, x.Value} {
				if id := identOf(rv); id != nil && isSliceType(m.Info.TypeOf(id)) {
					S = setAdd(S, id.Name)
				}
			}
		case *ast.ReturnStmt:
			for i, r := range x.Results {
				if fc.foreign(f, S, r) {
					res[i] = true
				}
			}
		}
		return S
	}
	ps.Solve()
	if report {
		core.InspectNoLits(f.Body, func(x ast.Node) bool {
			if as, ok := x.(*ast.AssignStmt); ok && len(as.Lhs) == len(as.Rhs) {
				for i, l := range as.Lhs {
					if isScratchField(m, l) && isSliceType(m.Info.TypeOf(l)) {
						fc.n++
						if !reported[as] {
							fc.c.OK("C06/R9", fmt.Sprintf("%s: %s = %s", f.Name, m.RawString(l), m.RawString(as.Rhs[i])), fc.c.At(as.Pos()), "on every path the value put back originates from the slot itself or is freshly allocated")
						}
					}
				}
			}
			return true
		})
	}
	return res
}
