package rules

import (
	"fmt"
	"go/ast"
	"go/token"
	"go/types"

	"arkverif/checker/core"
)

// C06/R10 (= C08/R6): a batch plan describes each table by itself.
//
// Batch operations first plan (one record per selected table: source table, destination table, count, ...) in a loop
// over the selected tables and then execute and notify in loops over the records. What is recorded for a table, and
// what a later loop over the records hands to callbacks and observers, must be that table's own: a value computed in
// the table's own iteration, a field of its record, or something the planning loop never writes. A variable that is
// declared outside the planning loop and written inside it carries the value of an *earlier* table into a later
// iteration (a memoised destination table) or the accumulation over *all* tables into the per-table notifications (one
// changed-relations mask for the whole batch).
//
// Clause (a): no field of a plan record appended inside a loop depends on a variable declared outside that loop and
// written inside it, unless the variable is assigned in the same iteration before the record is built (a top-level
// statement of the loop body preceding it).
// Clause (b): in a later loop over the plan records of the same function, no such carried variable is used, except
// flags (variables only ever assigned constants inside the planning loop), counters (only incremented / added to) and
// the record list itself.

// planRecordType reports whether t is a per-table plan record: a named struct with at least two table-id fields.
func planRecordType(t types.Type) bool {
	if t == nil {
		return false
	}
	if p, ok := t.(*types.Pointer); ok {
		t = p.Elem()
	}
	if _, named := t.(*types.Named); !named {
		return false
	}
	st, ok := t.Underlying().(*types.Struct)
	if !ok {
		return false
	}
	n := 0
	for i := 0; i < st.NumFields(); i++ {
		if core.NamedName(st.Field(i).Type()) == "tableID" {
			n++
		}
	}
	return n >= 2
}

type carriedKind int

const (
	notCarried carriedKind = iota
	carriedFlag
	carriedCounter
	carriedValue
)

// planListType reports whether t is a list of plan records: a slice of them, or a struct (or a pointer to one) that
// wraps such a slice.
func planListType(t types.Type) bool {
	if p, ok := t.Underlying().(*types.Pointer); ok {
		t = p.Elem()
	}
	switch u := t.Underlying().(type) {
	case *types.Slice:
		return planRecordType(u.Elem())
	case *types.Struct:
		for i := 0; i < u.NumFields(); i++ {
			if sl, ok := u.Field(i).Type().Underlying().(*types.Slice); ok && planRecordType(sl.Elem()) {
				return true
			}
		}
	}
	return false
}

// carriedIn classifies how the local v (declared outside loop) is written inside loop.
func carriedIn(m *core.Model, f *core.Func, loop ast.Stmt, v *types.Var) (carriedKind, token.Pos) {
	if v.Pos() >= loop.Pos() && v.Pos() < loop.End() {
		return notCarried, token.NoPos
	}
	kind, at := notCarried, token.NoPos
	up := func(k carriedKind, p token.Pos) {
		if k > kind {
			kind, at = k, p
		}
	}
	isV := func(e ast.Expr) bool {
		id, ok := ast.Unparen(e).(*ast.Ident)
		return ok && m.Info.ObjectOf(id) == types.Object(v)
	}
	ast.Inspect(loop, func(n ast.Node) bool {
		switch x := n.(type) {
		case *ast.FuncLit:
			return false
		case *ast.IncDecStmt:
			if isV(x.X) {
				up(carriedCounter, x.Pos())
			}
		case *ast.AssignStmt:
			for i, l := range x.Lhs {
				if !isV(l) {
					continue
				}
				switch {
				case x.Tok == token.ADD_ASSIGN || x.Tok == token.SUB_ASSIGN:
					up(carriedCounter, x.Pos())
				case x.Tok != token.ASSIGN:
					up(carriedValue, x.Pos())
				case len(x.Rhs) == len(x.Lhs):
					r := ast.Unparen(x.Rhs[i])
					if tv, ok := m.Info.Types[r]; ok && tv.Value != nil {
						up(carriedFlag, x.Pos())
					} else if be, ok := r.(*ast.BinaryExpr); ok && (be.Op == token.LOR || be.Op == token.LAND) && (isV(be.X) || isV(be.Y)) {
						// flag = flag || cond
						up(carriedFlag, x.Pos())
					} else if call, ok := r.(*ast.CallExpr); ok && m.IsBuiltin(call, "append") && len(call.Args) > 0 && isV(call.Args[0]) {
						// the list that the loop builds
						up(carriedCounter, x.Pos())
					} else if be, ok := r.(*ast.BinaryExpr); ok && (be.Op == token.ADD || be.Op == token.SUB) && (isV(be.X) || isV(be.Y)) {
						up(carriedCounter, x.Pos())
					} else {
						up(carriedValue, x.Pos())
					}
				default:
					up(carriedValue, x.Pos())
				}
			}
		}
		return true
	})
	// writes through the variable itself (value-typed variables only: a write through a pointer variable changes what
	// it points to, not the variable): v.f = x, v.M() with a storing pointer-receiver method, &v (or a pointer local
	// that was set to &v) handed to a callee that stores through that parameter
	switch v.Type().Underlying().(type) {
	case *types.Pointer, *types.Slice, *types.Map, *types.Chan, *types.Signature, *types.Interface:
		return kind, at
	}
	aliases := map[types.Object]bool{}
	if f != nil {
		core.InspectNoLits(f.Body, func(n ast.Node) bool {
			as, ok := n.(*ast.AssignStmt)
			if !ok || len(as.Lhs) != len(as.Rhs) {
				return true
			}
			for i, r := range as.Rhs {
				if u, ok := ast.Unparen(r).(*ast.UnaryExpr); ok && u.Op == token.AND && isV(u.X) {
					if id, ok := ast.Unparen(as.Lhs[i]).(*ast.Ident); ok {
						if o := m.Info.ObjectOf(id); o != nil {
							aliases[o] = true
						}
					}
				}
			}
			return true
		})
	}
	pointsToV := func(e ast.Expr) bool {
		e = ast.Unparen(e)
		if u, ok := e.(*ast.UnaryExpr); ok && u.Op == token.AND {
			return isV(rootExpr(u.X))
		}
		if id, ok := e.(*ast.Ident); ok {
			return aliases[m.Info.ObjectOf(id)]
		}
		return false
	}
	ast.Inspect(loop, func(n ast.Node) bool {
		switch x := n.(type) {
		case *ast.FuncLit:
			return false
		case *ast.AssignStmt:
			for _, l := range x.Lhs {
				if l = ast.Unparen(l); !isV(l) && isV(rootExpr(l)) {
					up(carriedValue, x.Pos())
				}
			}
		case *ast.CallExpr:
			_, cal, _ := m.Callee(x)
			if cal == nil {
				return true
			}
			if sel, ok := ast.Unparen(x.Fun).(*ast.SelectorExpr); ok && cal.Sig != nil && cal.Sig.Recv() != nil {
				if _, ptr := cal.Sig.Recv().Type().(*types.Pointer); ptr && (isV(rootExpr(sel.X)) || pointsToV(sel.X)) && paramWritten(m, cal, -1, 0) {
					up(carriedValue, x.Pos())
				}
			}
			for i, a := range x.Args {
				if pointsToV(a) && paramWritten(m, cal, i, 0) {
					up(carriedValue, x.Pos())
				}
			}
		}
		return true
	})
	return kind, at
}

// rootExpr strips selectors, indexing, dereferences and parentheses.
func rootExpr(e ast.Expr) ast.Expr {
	for {
		switch x := ast.Unparen(e).(type) {
		case *ast.SelectorExpr:
			e = x.X
		case *ast.IndexExpr:
			e = x.X
		case *ast.StarExpr:
			e = x.X
		default:
			return ast.Unparen(e)
		}
	}
}

// paramWritten: g stores through its pointer parameter i (-1: the receiver), directly or through callees.
func paramWritten(m *core.Model, g *core.Func, i, depth int) bool {
	if g == nil || g.Body == nil || g.Sig == nil || depth > 4 {
		return false
	}
	var p *types.Var
	if i < 0 {
		p = g.Sig.Recv()
	} else if i < g.Sig.Params().Len() {
		p = g.Sig.Params().At(i)
	}
	if p == nil {
		return false
	}
	isP := func(e ast.Expr) bool {
		id, ok := ast.Unparen(e).(*ast.Ident)
		return ok && m.Info.ObjectOf(id) == types.Object(p)
	}
	written := false
	core.InspectNoLits(g.Body, func(n ast.Node) bool {
		if written {
			return false
		}
		switch x := n.(type) {
		case *ast.AssignStmt:
			for _, l := range x.Lhs {
				if l = ast.Unparen(l); !isP(l) && isP(rootExpr(l)) {
					written = true
				}
			}
		case *ast.IncDecStmt:
			if l := ast.Unparen(x.X); !isP(l) && isP(rootExpr(l)) {
				written = true
			}
		case *ast.CallExpr:
			_, cal, _ := m.Callee(x)
			if cal == nil {
				return true
			}
			if sel, ok := ast.Unparen(x.Fun).(*ast.SelectorExpr); ok && cal.Sig != nil && cal.Sig.Recv() != nil {
				if _, ptr := cal.Sig.Recv().Type().(*types.Pointer); ptr && isP(rootExpr(sel.X)) && paramWritten(m, cal, -1, depth+1) {
					written = true
				}
			}
			for j, a := range x.Args {
				a = ast.Unparen(a)
				if u, ok := a.(*ast.UnaryExpr); ok && u.Op == token.AND {
					a = rootExpr(u.X)
				}
				if isP(a) && paramWritten(m, cal, j, depth+1) {
					written = true
				}
			}
		}
		return true
	})
	return written
}

// localVarsOf lists the local variables (not fields, not package-level) that e mentions, following the definitions of
// locals declared inside `within` (so that `nt := last; rec{new: nt}` depends on last).
func localVarsOf(m *core.Model, f *core.Func, e ast.Expr, within ast.Stmt, seen map[*types.Var]bool, depth int) {
	if e == nil || depth > 6 {
		return
	}
	ast.Inspect(e, func(n ast.Node) bool {
		if _, ok := n.(*ast.FuncLit); ok {
			return false
		}
		if sel, ok := n.(*ast.SelectorExpr); ok {
			// only the base of a selector can be a local
			localVarsOf(m, f, sel.X, within, seen, depth)
			return false
		}
		id, ok := n.(*ast.Ident)
		if !ok {
			return true
		}
		v, ok := m.Info.ObjectOf(id).(*types.Var)
		if !ok || v.IsField() || v.Parent() == nil || v.Parent() == v.Pkg().Scope() || seen[v] {
			return true
		}
		seen[v] = true
		if within != nil && v.Pos() >= within.Pos() && v.Pos() < within.End() {
			for _, d := range localDefsOf(m, f, v) {
				localVarsOf(m, f, d, within, seen, depth+1)
			}
		}
		return true
	})
}

func c06r10(c *core.Ctx) {
	m := c.M
	n := 0
	for _, f := range m.AllFuncs() {
		if f.Body == nil {
			continue
		}
		var planLoops []ast.Stmt
		seenLoop := map[ast.Stmt]bool{}
		for _, cn := range constructionsOf(m, f) {
			if !planRecordType(m.Info.TypeOf(nodeExpr(cn.node))) {
				continue
			}
			loop := outermostLoopOf(f, cn.node)
			if loop == nil {
				continue
			}
			if !seenLoop[loop] {
				seenLoop[loop] = true
				planLoops = append(planLoops, loop)
			}
			// clause (a)
			body := loopBody(loop)
			list, idx := topLevelIndex(body, cn.node)
			for key, val := range cn.fields {
				vars := map[*types.Var]bool{}
				localVarsOf(m, f, val, loop, vars, 0)
				subject := fmt.Sprintf("%s: plan record field %s = %s", f.Name, key, m.RawString(val))
				bad := false
				for v := range vars {
					kind, at := carriedIn(m, f, loop, v)
					if kind != carriedValue {
						continue
					}
					if assignedBefore(m, list, idx, v) {
						continue
					}
					bad = true
					c.Violation("C06/R10", subject, c.At(val.Pos()), fmt.Sprintf("%s records %s = %s for a table, but %s is declared outside the loop over the selected tables and written inside it (%s) without being assigned earlier in the same iteration: the record of one table depends on what an earlier table left behind", f.Name, key, m.RawString(val), v.Name(), c.At(at)))
				}
				if !bad {
					n++
					c.OK("C06/R10", subject, c.At(val.Pos()), "depends only on values of the table's own iteration and on variables the planning loop does not write")
				}
			}
		}
		// clause (b): later loops over the records
		if len(planLoops) == 0 {
			continue
		}
		recNo := 0
		core.InspectNoLits(f.Body, func(x ast.Node) bool {
			src, body, ok := elementLoop(m, x)
			if !ok || body == nil {
				return true
			}
			t := m.Info.TypeOf(src)
			if t == nil {
				return true
			}
			sl, isSl := t.Underlying().(*types.Slice)
			if !isSl || !planRecordType(sl.Elem()) {
				return true
			}
			recLoop := x.(ast.Stmt)
			recNo++
			for _, pl := range planLoops {
				if recLoop.Pos() < pl.End() {
					continue // not after the planning loop
				}
				vars := map[*types.Var]bool{}
				ast.Inspect(body, func(y ast.Node) bool {
					if e, ok := y.(ast.Expr); ok {
						if id, ok := e.(*ast.Ident); ok {
							if v, ok := m.Info.Uses[id].(*types.Var); ok && !v.IsField() && v.Parent() != nil && v.Parent() != v.Pkg().Scope() {
								vars[v] = true
							}
						}
					}
					return true
				})
				subject := fmt.Sprintf("%s: loop #%d over the plan records", f.Name, recNo)
				bad := false
				for v := range vars {
					if v.Pos() >= recLoop.Pos() && v.Pos() < recLoop.End() {
						continue
					}
					if planListType(v.Type()) {
						continue
					}
					kind, at := carriedIn(m, f, pl, v)
					if kind != carriedValue {
						continue
					}
					bad = true
					c.Violation("C06/R10", subject+" uses "+v.Name(), c.At(recLoop.Pos()), fmt.Sprintf("%s: the loop over the per-table plan records uses %s, which the planning loop writes in every iteration (%s) and which is declared outside it: every table is then handled with what the last table (or all tables together) left in %s, not with its own value - keep the value in the table's record", f.Name, v.Name(), c.At(at), v.Name()))
				}
				if !bad {
					n++
					c.OK("C06/R10", subject, c.At(recLoop.Pos()), "uses only the records, values of its own iteration, and variables the planning loop does not overwrite per table")
				}
			}
			return true
		})
	}
	if n == 0 {
		c.Undecide("C06/R10", "batch plans", "no plan record (struct with two table ids) built inside a loop was found")
	}
}

func loopBody(l ast.Stmt) *ast.BlockStmt {
	switch x := l.(type) {
	case *ast.ForStmt:
		return x.Body
	case *ast.RangeStmt:
		return x.Body
	}
	return nil
}

// outermostLoopOf returns the outermost loop of f (function literals are boundaries) whose body contains n.
func outermostLoopOf(f *core.Func, n ast.Node) ast.Stmt {
	var best ast.Stmt
	core.InspectNoLits(f.Body, func(x ast.Node) bool {
		if best != nil {
			return false
		}
		if l, ok := x.(ast.Stmt); ok {
			if b := loopBody(l); b != nil && b.Pos() <= n.Pos() && n.End() <= b.End() {
				best = l
				return false
			}
		}
		return true
	})
	return best
}

// topLevelIndex returns the statement list of body and the index of the statement that contains n.
func topLevelIndex(body *ast.BlockStmt, n ast.Node) ([]ast.Stmt, int) {
	if body == nil {
		return nil, -1
	}
	for i, s := range body.List {
		if s.Pos() <= n.Pos() && n.End() <= s.End() {
			return body.List, i
		}
	}
	return body.List, -1
}

// assignedBefore: v is assigned by a top-level statement of list before index idx (so: in the same iteration, on every
// path that reaches statement idx).
func assignedBefore(m *core.Model, list []ast.Stmt, idx int, v *types.Var) bool {
	for i := 0; i < idx && i < len(list); i++ {
		if as, ok := list[i].(*ast.AssignStmt); ok && (as.Tok == token.ASSIGN || as.Tok == token.DEFINE) {
			for _, l := range as.Lhs {
				if id, ok := ast.Unparen(l).(*ast.Ident); ok && m.Info.ObjectOf(id) == types.Object(v) {
					return true
				}
			}
		}
	}
	return false
}
