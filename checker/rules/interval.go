package rules

import (
	"go/ast"
	"go/constant"
	"go/token"
	"go/types"
	"math"

	"arkverif/checker/core"
)

// iv is an interval of integer values (as float64; exact below 2^53, saturating above).
type iv struct {
	lo, hi float64
	wrap   bool // some intermediate result left the range of its type (the value wraps around)
}

// ivEval evaluates integer expressions of one function to intervals.
type ivEval struct {
	c     *core.Ctx
	f     *core.Func
	depth int
	at    token.Pos // position of the use being evaluated (for guard refinement)
	// lenAtLeastOne: the function runs only after a successful registration (un-register role; call sites checked by C18/R2)
	lenAtLeastOne bool
}

func (e *ivEval) typeIv(t types.Type) iv {
	lo, hi, ok := typeRange(t)
	if !ok {
		return iv{lo: math.Inf(-1), hi: math.Inf(1)}
	}
	return iv{lo: lo, hi: hi}
}

func join(a, b iv) iv {
	return iv{lo: math.Min(a.lo, b.lo), hi: math.Max(a.hi, b.hi), wrap: a.wrap || b.wrap}
}

// clamp marks wrap-around when v leaves the range of type t.
func (e *ivEval) clamp(v iv, t types.Type) iv {
	lo, hi, ok := typeRange(t)
	if !ok {
		return v
	}
	if v.lo < lo || v.hi > hi {
		return iv{lo: lo, hi: hi, wrap: true}
	}
	return v
}

func (e *ivEval) eval(x ast.Expr) iv {
	m := e.c.M
	if e.at == token.NoPos {
		e.at = x.Pos()
	}
	e.depth++
	defer func() { e.depth-- }()
	x = ast.Unparen(x)
	tv, hasType := m.Info.Types[x]
	if hasType && tv.Value != nil && tv.Value.Kind() == constant.Int {
		f, _ := constant.Float64Val(tv.Value)
		return iv{lo: f, hi: f}
	}
	if e.depth > 40 {
		if hasType {
			return e.typeIv(tv.Type)
		}
		return iv{lo: math.Inf(-1), hi: math.Inf(1)}
	}
	switch y := x.(type) {
	case *ast.Ident:
		v, ok := m.Info.ObjectOf(y).(*types.Var)
		if !ok {
			break
		}
		res := e.identIv(v, y)
		res.wrap = false // a wrap is a fact about the expression where it happens, not about values stored in variables
		return e.refine(v, res)
	case *ast.BinaryExpr:
		a, b := e.eval(y.X), e.eval(y.Y)
		var r iv
		r.wrap = a.wrap || b.wrap
		switch y.Op {
		case token.ADD:
			r.lo, r.hi = a.lo+b.lo, a.hi+b.hi
		case token.SUB:
			r.lo, r.hi = a.lo-b.hi, a.hi-b.lo
		case token.MUL:
			ps := []float64{a.lo * b.lo, a.lo * b.hi, a.hi * b.lo, a.hi * b.hi}
			r.lo, r.hi = ps[0], ps[0]
			for _, p := range ps {
				r.lo, r.hi = math.Min(r.lo, p), math.Max(r.hi, p)
			}
		case token.QUO:
			if b.lo > 0 && a.lo >= 0 {
				r.lo, r.hi = math.Floor(a.lo/b.hi), math.Floor(a.hi/b.lo)
			} else if hasType {
				return e.typeIv(tv.Type)
			}
		case token.REM:
			if b.lo > 0 && a.lo >= 0 {
				r.lo, r.hi = 0, math.Min(a.hi, b.hi-1)
			} else if hasType {
				return e.typeIv(tv.Type)
			}
		case token.SHR:
			if b.lo == b.hi && a.lo >= 0 {
				d := math.Pow(2, b.lo)
				r.lo, r.hi = math.Floor(a.lo/d), math.Floor(a.hi/d)
			} else if hasType {
				return e.typeIv(tv.Type)
			}
		case token.SHL:
			if b.lo == b.hi && a.lo >= 0 {
				d := math.Pow(2, b.lo)
				r.lo, r.hi = a.lo*d, a.hi*d
			} else if hasType {
				return e.typeIv(tv.Type)
			}
		case token.AND:
			if b.lo == b.hi && b.lo >= 0 {
				r.lo, r.hi = 0, b.hi
			} else if a.lo == a.hi && a.lo >= 0 {
				r.lo, r.hi = 0, a.hi
			} else if hasType {
				return e.typeIv(tv.Type)
			}
		default:
			if hasType {
				return e.typeIv(tv.Type)
			}
		}
		if hasType {
			return e.clamp(r, tv.Type)
		}
		return r
	case *ast.CallExpr:
		k, cal, obj := m.Callee(y)
		switch k {
		case core.CallConversion:
			if len(y.Args) == 1 {
				a := e.eval(y.Args[0])
				if hasType {
					return e.clamp(a, tv.Type)
				}
				return a
			}
		case core.CallBuiltin:
			switch obj.Name() {
			case "len", "cap":
				if len(y.Args) == 1 && fieldKeyOf(m, y.Args[0]) == "registry.Components" {
					// C18/R1: registration is limited by the mask size; un-registration runs right after a registration
					if hi, ok := maskTotalBits(m); ok {
						lo := 0.0
						if e.lenAtLeastOne {
							lo = 1
						}
						return iv{lo: lo, hi: hi}
					}
				}
				return iv{lo: 0, hi: math.MaxInt64}
			case "min":
				r := e.eval(y.Args[0])
				for _, a := range y.Args[1:] {
					b := e.eval(a)
					r = iv{lo: math.Min(r.lo, b.lo), hi: math.Min(r.hi, b.hi), wrap: r.wrap || b.wrap}
				}
				return r
			case "max":
				r := e.eval(y.Args[0])
				for _, a := range y.Args[1:] {
					b := e.eval(a)
					r = iv{lo: math.Max(r.lo, b.lo), hi: math.Max(r.hi, b.hi), wrap: r.wrap || b.wrap}
				}
				return r
			}
		case core.CallStatic:
			if isRegistryCount(m, cal) {
				if hi, ok := maskTotalBits(m); ok {
					return iv{lo: 0, hi: hi}
				}
			}
			if cal.Recv == "bitMask256" || cal.Recv == "bitMask64" {
				// population counts
				if cal.Sig.Results().Len() == 1 && isInt(cal.Sig.Results().At(0).Type()) && cal.Sig.Params().Len() == 0 {
					if hi, ok := maskTotalBits(m); ok {
						return iv{lo: 0, hi: math.Max(hi, 64)}
					}
				}
			}
		}
	case *ast.UnaryExpr:
		if y.Op == token.SUB {
			a := e.eval(y.X)
			return iv{lo: -a.hi, hi: -a.lo, wrap: a.wrap}
		}
	}
	if hasType {
		return e.typeIv(tv.Type)
	}
	return iv{lo: math.Inf(-1), hi: math.Inf(1)}
}

// identIv: interval of a variable from its definitions (locals), its loop (loop variables) or its type (parameters).
func (e *ivEval) identIv(v *types.Var, use *ast.Ident) iv {
	m := e.c.M
	// loop variable?
	var found *iv
	core.InspectNoLits(e.f.Body, func(n ast.Node) bool {
		switch l := n.(type) {
		case *ast.RangeStmt:
			if id, ok := l.Key.(*ast.Ident); ok && m.Info.ObjectOf(id) == v {
				if tv, ok := m.Info.Types[l.X]; ok {
					if _, _, isInt := typeRange(tv.Type); isInt {
						b := e.eval(l.X)
						r := iv{lo: 0, hi: math.Max(b.hi-1, 0), wrap: b.wrap}
						found = &r
					} else {
						r := iv{lo: 0, hi: math.MaxInt64}
						found = &r
					}
				}
			}
		case *ast.ForStmt:
			if as, ok := l.Init.(*ast.AssignStmt); ok && len(as.Lhs) == 1 && len(as.Rhs) == 1 {
				if id, ok := as.Lhs[0].(*ast.Ident); ok && m.Info.ObjectOf(id) == v {
					if be, ok := ast.Unparen(l.Cond).(*ast.BinaryExpr); ok {
						if lid, ok := ast.Unparen(be.X).(*ast.Ident); ok && m.Info.ObjectOf(lid) == v {
							init := e.eval(as.Rhs[0])
							b := e.eval(be.Y)
							hi := b.hi
							if be.Op == token.LSS {
								hi = b.hi - 1
							}
							r := iv{lo: init.lo, hi: math.Max(hi, init.lo), wrap: b.wrap || init.wrap}
							found = &r
						}
					}
				}
			}
		}
		return true
	})
	if found != nil {
		return *found
	}
	defs := localDefsOf(m, e.f, v)
	// var declarations without value and := definitions
	if len(defs) > 0 {
		var r *iv
		for _, d := range defs {
			// skip self-referential updates (x = x + 1): fall back to the type
			self := false
			ast.Inspect(d, func(n ast.Node) bool {
				if id, ok := n.(*ast.Ident); ok && m.Info.ObjectOf(id) == v {
					self = true
				}
				return true
			})
			var di iv
			if self {
				di = e.typeIv(v.Type())
			} else if call, isCall := ast.Unparen(d).(*ast.CallExpr); isCall && tupleArity(m, call) > 1 && e.depth < 30 {
				// one result of a helper with several results: the join of that result over the helper's returns
				di = e.typeIv(v.Type())
				if _, k := tupleSource(m, e.f, use); k >= 0 {
					if kind, cal, _ := m.Callee(call); kind == core.CallStatic && cal.Body != nil {
						var r2 *iv
						sub := &ivEval{c: e.c, f: cal, depth: e.depth + 5}
						core.InspectNoLits(cal.Body, func(n ast.Node) bool {
							if rs, ok := n.(*ast.ReturnStmt); ok && k < len(rs.Results) {
								sub.at = rs.Pos()
								x := sub.eval(rs.Results[k])
								if r2 == nil {
									r2 = &x
								} else {
									j := join(*r2, x)
									r2 = &j
								}
							}
							return true
						})
						if r2 != nil {
							di = *r2
						}
					}
				}
			} else {
				di = e.eval(d)
			}
			if r == nil {
				r = &di
			} else {
				j := join(*r, di)
				r = &j
			}
		}
		return *r
	}
	// parameter of an unexported function: join over the arguments at its static call sites
	if idx, isP := paramIndexOf(e.f, v); isP && e.f.Obj != nil && !e.f.Exported() && e.depth < 30 {
		var r *iv
		for _, cs := range m.CallSites() {
			if cs.Callee != e.f || idx >= len(cs.Call.Args) {
				continue
			}
			sub := &ivEval{c: e.c, f: cs.Caller, depth: e.depth + 5, at: cs.Call.Pos()}
			ai := sub.eval(cs.Call.Args[idx])
			if r == nil {
				r = &ai
			} else {
				j := join(*r, ai)
				r = &j
			}
		}
		if r != nil {
			t := e.typeIv(v.Type())
			return iv{lo: math.Max(r.lo, t.lo), hi: math.Min(r.hi, t.hi), wrap: r.wrap}
		}
	}
	return e.typeIv(v.Type())
}

// refine narrows the interval of v by guards `if v >= E { panic/return }` at the top level of the function before the use.
func (e *ivEval) refine(v *types.Var, r iv) iv {
	m := e.c.M
	for _, st := range e.f.Body.List {
		if st.End() > e.at {
			break
		}
		is, ok := st.(*ast.IfStmt)
		if !ok || len(is.Body.List) == 0 || is.Else != nil {
			continue
		}
		last := is.Body.List[len(is.Body.List)-1]
		exits := false
		switch l := last.(type) {
		case *ast.ReturnStmt:
			exits = true
		case *ast.ExprStmt:
			if call, ok := l.X.(*ast.CallExpr); ok && m.IsBuiltin(call, "panic") {
				exits = true
			}
		}
		if !exits {
			continue
		}
		be, ok := ast.Unparen(is.Cond).(*ast.BinaryExpr)
		if !ok {
			continue
		}
		id, ok := ast.Unparen(be.X).(*ast.Ident)
		if !ok || m.Info.ObjectOf(id) != v {
			continue
		}
		save := e.at
		b := e.eval(be.Y)
		e.at = save
		switch be.Op {
		case token.GEQ:
			r.hi = math.Min(r.hi, b.hi-1)
		case token.GTR:
			r.hi = math.Min(r.hi, b.hi)
		case token.LSS:
			r.lo = math.Max(r.lo, b.lo)
		case token.LEQ:
			r.lo = math.Max(r.lo, b.lo+1)
		}
	}
	return r
}

// isRegistryCount: parameterless int method of the registry returning len(Components).
func isRegistryCount(m *core.Model, f *core.Func) bool {
	if f == nil || f.Recv != "registry" || f.Sig == nil || f.Sig.Params().Len() != 0 || f.Sig.Results().Len() != 1 || len(f.Body.List) != 1 {
		return false
	}
	rs, ok := f.Body.List[0].(*ast.ReturnStmt)
	if !ok || len(rs.Results) != 1 {
		return false
	}
	call, ok := ast.Unparen(rs.Results[0]).(*ast.CallExpr)
	return ok && m.IsBuiltin(call, "len") && fieldKeyOf(m, call.Args[0]) == "registry.Components"
}

// maskTotalBits returns the configuration's component limit.
func maskTotalBits(m *core.Model) (float64, bool) {
	if c, ok := m.Prog.Ecs.Types.Scope().Lookup("maskTotalBits").(*types.Const); ok {
		f, _ := constant.Float64Val(c.Val())
		return f, true
	}
	return 0, false
}
