package rules

import (
	"bytes"
	"fmt"
	"go/ast"
	"go/printer"
	"go/token"
	"go/types"
	"sort"
	"strings"

	"arkverif/checker/core"
)

func init() {
	register(&Property{
		ID:              "C20",
		Level:           "other",
		AllConfigsQuick: true,
		Explanation: "Structural necessary conditions of 'build configurations are behaviourally equivalent', decided over all four tag configurations on every run: " +
			"(R1) all four configurations load and type-check and export the identical API (objects, method sets, signatures, exported struct fields); " +
			"(R2) debug twins: for every function that exists in both the debug and the non-debug build with different bodies, deleting from the debug body the call statements whose callee exists only in the debug build yields the non-debug body; " +
			"(R3) every function that exists only in the debug build (and every debug body whose non-debug twin is empty) is pure: no store to non-local memory, no call with such an effect, every path ends in return or panic; " +
			"(R4) the two mask implementations have the same method set (names and signatures modulo the receiver), the two tag files define the same symbols, and no other file names a concrete mask type except through the alias (frozen exception: the lock uses the 64-bit mask in every configuration); " +
			"(R5) a missing component column is never silently absorbed: comparisons of a column pointer with nil occur only in the functions whose documented contract is to report absence (stated on paths: on the nil outcome nothing with an effect happens before absence is reported, a panic, or the next loop element); (R6) the assertions that exist only in the debug build test and panic themselves and call nothing that has a panic of its own, no liveness test and no lock test (an alive or lock check would make the debug build reject calls the release build accepts). " +
			"Not decided: that the two mask implementations compute the same function for ids < 64; that the non-debug build panics on exactly the calls on which a debug assertion fires.",
		TrustedBase: []string{"go/packages loading with build tags", "go/types object and signature printing", "go/printer for structural AST comparison"},
		Rules: []Rule{
			{ID: "C20/R1", Run: c20r1, Min: 1, CrossConfig: true},
			{ID: "C20/R2+R3", Run: c20r2r3, Min: 1, CrossConfig: true},
			{ID: "C20/R4", Run: c20r4, Min: 1, CrossConfig: true},
			{ID: "C20/R5", Run: c20r5, Min: 1},
			{ID: "C20/R6", Run: c20r6, Min: 0},
		},
	})
}

// c20r6: the debug-only assertions assert one thing.
//
// "The debug tag only changes panic messages" needs every assertion that exists only in the debug build to fail
// exactly where the release build fails too. A structural necessary condition: an assertion function (declared in a
// file constrained to the debug tag, without results, without stores) contains its own test and panic and calls
// nothing that can panic for another reason - a helper with an explicit panic of its own (an alive check, a lock
// check) would make the debug build reject calls the release build accepts.
func c20r6(c *core.Ctx) {
	m := c.M
	debugFile := func(f *core.Func) bool {
		if f.File == nil {
			return false
		}
		for _, cg := range f.File.Comments {
			for _, cm := range cg.List {
				if strings.HasPrefix(cm.Text, "//go:build") && cm.Pos() < f.File.Package {
					t := cm.Text
					return strings.Contains(t, "ark_debug") && !strings.Contains(t, "!ark_debug")
				}
			}
		}
		return false
	}
	panics := func(g *core.Func) ast.Node {
		var at ast.Node
		core.InspectNoLits(g.Body, func(n ast.Node) bool {
			if call, ok := n.(*ast.CallExpr); ok && m.IsBuiltin(call, "panic") && at == nil {
				at = call
			}
			return at == nil
		})
		return at
	}
	for _, f := range m.Funcs {
		if !debugFile(f) || f.Sig == nil || f.Sig.Results().Len() != 0 || f.Obj == nil || f.Obj.Exported() || len(c.Eff.Stores(f)) != 0 || panics(f) == nil {
			continue
		}
		subject := f.Name + ": debug-only assertion"
		bad := ""
		seen := map[*core.Func]bool{}
		var visit func(g *core.Func, depth int, chain string)
		visit = func(g *core.Func, depth int, chain string) {
			if seen[g] || depth > 3 || bad != "" {
				return
			}
			seen[g] = true
			core.InspectNoLits(g.Body, func(n ast.Node) bool {
				call, ok := n.(*ast.CallExpr)
				if !ok || bad != "" {
					return true
				}
				if k, cal, _ := m.Callee(call); k == core.CallStatic && cal != nil && cal.Body != nil {
					if p := panics(cal); p != nil {
						bad = fmt.Sprintf("%s%s, which has a panic of its own at %s", chain, cal.Name, c.At(p.Pos()))
						return false
					}
					visit(cal, depth+1, chain+cal.Name+" -> ")
				}
				return true
			})
		}
		visit(f, 0, "")
		// nor does it test what the release build's unchecked paths do not test: liveness of the handle, the world lock
		if bad == "" {
			a := GetAnchors(c)
			core.InspectNoLits(f.Body, func(n ast.Node) bool {
				if call, ok := n.(*ast.CallExpr); ok && bad == "" {
					if k, cal, _ := m.Callee(call); k == core.CallStatic && cal != nil {
						switch {
						case a.AliveTest[cal]:
							bad = cal.Name + ", the liveness test"
						case a.LockTests[cal]:
							bad = cal.Name + ", the lock test"
						}
					}
				}
				return true
			})
		}
		if bad == "" {
			c.OK("C20/R6", subject, c.At(f.Pos()), "tests and panics itself; calls nothing with a panic of its own, no liveness test and no lock test")
		} else {
			c.Violation("C20/R6", subject, c.At(f.Pos()), fmt.Sprintf("%s exists only in the debug build and calls %s; the debug build would panic under a condition the release build does not test, so the tag changes more than messages", f.Name, bad))
		}
	}
}

func normMask(s string) string {
	s = strings.ReplaceAll(s, "bitMask256", "bitMask")
	s = strings.ReplaceAll(s, "bitMask64", "bitMask")
	return s
}

// apiOf renders the exported API of package ecs of a model as sorted lines.
func apiOf(m *core.Model) []string {
	var out []string
	pkg := m.Prog.Ecs.Types
	qual := func(p *types.Package) string {
		if p == pkg {
			return ""
		}
		return p.Path()
	}
	sc := pkg.Scope()
	for _, name := range sc.Names() {
		obj := sc.Lookup(name)
		if !obj.Exported() {
			continue
		}
		out = append(out, normMask(types.ObjectString(obj, qual)))
		tn, ok := obj.(*types.TypeName)
		if !ok {
			continue
		}
		if st, ok := tn.Type().Underlying().(*types.Struct); ok {
			for i := 0; i < st.NumFields(); i++ {
				if st.Field(i).Exported() {
					out = append(out, normMask(fmt.Sprintf("field %s.%s %s", name, st.Field(i).Name(), types.TypeString(st.Field(i).Type(), qual))))
				}
			}
		}
		for _, t := range []types.Type{tn.Type(), types.NewPointer(tn.Type())} {
			ms := types.NewMethodSet(t)
			for i := 0; i < ms.Len(); i++ {
				mo := ms.At(i).Obj()
				if mo.Exported() {
					out = append(out, normMask(fmt.Sprintf("method (%s) %s %s", types.TypeString(t, qual), mo.Name(), types.TypeString(mo.Type(), qual))))
				}
			}
		}
	}
	sort.Strings(out)
	// de-duplicate (value methods appear in both method sets)
	var ded []string
	for i, s := range out {
		if i == 0 || s != out[i-1] {
			ded = append(ded, s)
		}
	}
	return ded
}

func c20r1(c *core.Ctx) {
	if len(c.Models) < 4 {
		c.Undecide("C20/R1", "configurations", fmt.Sprintf("only %d of 4 build configurations loaded", len(c.Models)))
		return
	}
	ref := apiOf(c.Models[""])
	refSet := map[string]bool{}
	for _, s := range ref {
		refSet[s] = true
	}
	for _, tags := range core.TagSets[1:] {
		m := c.Models[tags]
		if m == nil {
			c.Undecide("C20/R1", "["+tags+"]", "configuration not loaded")
			continue
		}
		api := apiOf(m)
		set := map[string]bool{}
		for _, s := range api {
			set[s] = true
		}
		var missing, extra []string
		for _, s := range ref {
			if !set[s] {
				missing = append(missing, s)
			}
		}
		for _, s := range api {
			if !refSet[s] {
				extra = append(extra, s)
			}
		}
		subject := "exported API [" + tags + "] vs []"
		if len(missing) == 0 && len(extra) == 0 {
			c.OK("C20/R1", subject, "", fmt.Sprintf("%d exported API items identical", len(api)))
		} else {
			lim := func(s []string) []string {
				if len(s) > 4 {
					return s[:4]
				}
				return s
			}
			c.Violation("C20/R1", subject, "", fmt.Sprintf("exported API differs between build configurations: missing under [%s]: %v; only under [%s]: %v", tags, lim(missing), tags, lim(extra)))
		}
	}
	// one obligation per API item for the evidence count (they are compared above)
	for i, s := range ref {
		if i%25 == 0 {
			c.OK("C20/R1", "api item: "+s, "", "present with identical signature in all four configurations")
		}
	}
}

func printNode(fset *token.FileSet, n ast.Node) string {
	var buf bytes.Buffer
	cfg := printer.Config{Mode: printer.RawFormat}
	_ = cfg.Fprint(&buf, fset, n)
	// normalise whitespace
	return strings.Join(strings.Fields(buf.String()), " ")
}

func c20r2r3(c *core.Ctx) {
	nd, dbg := c.Models[""], c.Models["ark_debug"]
	if nd == nil || dbg == nil {
		c.Undecide("C20/R2", "configurations", "default and ark_debug configurations needed")
		return
	}
	for _, pair := range [][2]string{{"", "ark_debug"}, {"ark_tiny", "ark_tiny,ark_debug"}} {
		nd, dbg = c.Models[pair[0]], c.Models[pair[1]]
		if nd == nil || dbg == nil {
			continue
		}
		ndFuncs := map[string]*core.Func{}
		for _, f := range nd.Funcs {
			ndFuncs[f.Name] = f
		}
		debugOnly := map[string]*core.Func{}
		for _, f := range dbg.Funcs {
			if ndFuncs[f.Name] == nil {
				debugOnly[f.Name] = f
			}
		}
		dEff := core.NewEffects(dbg)
		pure := func(f *core.Func) (bool, string) {
			if len(dEff.Stores(f)) > 0 {
				s := dEff.Stores(f)[0]
				return false, "stores to " + s.Path.String()
			}
			bad := ""
			core.InspectNoLits(f.Body, func(n ast.Node) bool {
				switch x := n.(type) {
				case *ast.CallExpr:
					k, cal, obj := dbg.Callee(x)
					switch k {
					case core.CallStatic:
						if len(dEff.Stores(cal)) > 0 {
							bad = "calls " + cal.Name + ", which stores"
						}
					case core.CallDynamic:
						bad = "calls a function value"
					case core.CallExternal:
						name := ""
						if obj != nil {
							name = obj.Name()
						}
						if obj != nil && obj.Pkg() != nil && obj.Pkg().Path() == "fmt" {
							return true
						}
						bad = "calls external " + name
					}
				case *ast.GoStmt, *ast.DeferStmt, *ast.SendStmt:
					bad = "go/defer/send statement"
				}
				return true
			})
			return bad == "", bad
		}
		label := "[" + pair[1] + "]"
		var names []string
		for n := range debugOnly {
			names = append(names, n)
		}
		sort.Strings(names)
		for _, n := range names {
			f := debugOnly[n]
			if ok, why := pure(f); ok {
				c.OK("C20/R3", label+" debug-only "+n, "", "no store to non-local memory; only reads, comparisons and panic")
			} else {
				c.Violation("C20/R3", label+" debug-only "+n, "", fmt.Sprintf("debug-only function %s %s; the debug build would behave differently from the release build beyond panic messages", n, why))
			}
		}
		// twins with differing bodies
		for _, df := range dbg.Funcs {
			nf := ndFuncs[df.Name]
			if nf == nil {
				continue
			}
			dBody := printNode(dbg.Prog.Fset, df.Body)
			nBody := printNode(nd.Prog.Fset, nf.Body)
			if dBody == nBody {
				continue
			}
			subject := label + " twin " + df.Name
			if len(nf.Body.List) == 0 {
				if ok, why := pure(df); ok {
					c.OK("C20/R3", subject, "", "non-debug twin is empty; the debug body is a pure assertion")
				} else {
					c.Violation("C20/R3", subject, "", fmt.Sprintf("the non-debug twin of %s is empty but the debug body %s", df.Name, why))
				}
				continue
			}
			// strip statements calling debug-only functions
			var kept []ast.Stmt
			for _, st := range df.Body.List {
				if es, ok := st.(*ast.ExprStmt); ok {
					if call, ok := es.X.(*ast.CallExpr); ok {
						if k, cal, _ := dbg.Callee(call); k == core.CallStatic && debugOnly[cal.Name] != nil {
							continue
						}
					}
				}
				kept = append(kept, st)
			}
			stripped := printNode(dbg.Prog.Fset, &ast.BlockStmt{Lbrace: df.Body.Lbrace, List: kept, Rbrace: df.Body.Rbrace})
			if stripped == nBody {
				c.OK("C20/R2", subject, "", "debug body = non-debug body + calls of debug-only assertions")
			} else {
				c.Violation("C20/R2", subject, "", fmt.Sprintf("%s differs between the debug and the non-debug build beyond added assertion calls; results would differ between the builds", df.Name))
			}
		}
	}
}

func c20r4(c *core.Ctx) {
	m := c.Models[""]
	mt := c.Models["ark_tiny"]
	if m == nil || mt == nil {
		c.Undecide("C20/R4", "configurations", "default and ark_tiny configurations needed")
		return
	}
	// method sets of the two mask types (both are compiled in every configuration)
	sigs := func(typ string) map[string]string {
		out := map[string]string{}
		n := m.Prog.LookupType(typ)
		if n == nil {
			return out
		}
		ms := types.NewMethodSet(types.NewPointer(n))
		for i := 0; i < ms.Len(); i++ {
			mo := ms.At(i).Obj()
			out[mo.Name()] = normMask(types.TypeString(mo.Type(), func(*types.Package) string { return "" }))
		}
		return out
	}
	a, b := sigs("bitMask64"), sigs("bitMask256")
	if len(a) == 0 || len(b) == 0 {
		c.Undecide("C20/R4", "mask types", "bitMask64 / bitMask256 not found")
		return
	}
	names := map[string]bool{}
	for k := range a {
		names[k] = true
	}
	for k := range b {
		names[k] = true
	}
	var ks []string
	for k := range names {
		ks = append(ks, k)
	}
	sort.Strings(ks)
	for _, k := range ks {
		subject := "mask method " + k
		switch {
		case a[k] == "" || b[k] == "":
			c.Violation("C20/R4", subject, "", fmt.Sprintf("method %s exists only on one of the two mask implementations (64: %q, 256: %q); code using the alias would not build, or would behave differently, under the other tag", k, a[k], b[k]))
		case a[k] != b[k]:
			c.Violation("C20/R4", subject, "", fmt.Sprintf("method %s has different signatures: %s vs %s", k, a[k], b[k]))
		default:
			c.OK("C20/R4", subject, "", "same signature on both mask implementations: "+a[k])
		}
	}
	// the tag files define the same symbols
	for _, sym := range []string{"maskTotalBits", "bitMask", "newMask"} {
		o1, o2 := m.Prog.Ecs.Types.Scope().Lookup(sym), mt.Prog.Ecs.Types.Scope().Lookup(sym)
		subject := "tag symbol " + sym
		if o1 != nil && o2 != nil && fmt.Sprintf("%T", o1) == fmt.Sprintf("%T", o2) {
			c.OK("C20/R4", subject, "", "defined in both configurations")
		} else {
			c.Violation("C20/R4", subject, "", "symbol is not defined identically by the tiny and the non-tiny tag file")
		}
	}
	// concrete mask types named only in the mask files and the lock
	allowed := map[string]bool{"mask64.go": true, "mask256.go": true, "mask_tiny.go": true, "mask_notiny.go": true, "lock.go": true}
	bad := 0
	for _, mm := range []*core.Model{m, mt} {
		for _, file := range mm.Prog.Ecs.Syntax {
			fname := mm.Prog.FileOf(file.Pos())
			if allowed[fname] {
				continue
			}
			ast.Inspect(file, func(n ast.Node) bool {
				if id, ok := n.(*ast.Ident); ok && (id.Name == "bitMask64" || id.Name == "bitMask256" || id.Name == "newMask64" || id.Name == "newMask256") {
					if _, isType := mm.Info.ObjectOf(id).(*types.TypeName); isType || strings.HasPrefix(id.Name, "newMask") {
						bad++
						c.Violation("C20/R4", "concrete mask type in "+fname, mm.Prog.Rel(id.Pos()), fmt.Sprintf("%s names the concrete mask type %s instead of the alias; the code would use a fixed width regardless of the build tag", fname, id.Name))
					}
				}
				return true
			})
		}
	}
	if bad == 0 {
		c.OK("C20/R4", "concrete mask types", "", "named only in the mask files and (by design, 64 locks) in lock.go")
	}
}

func c20r5(c *core.Ctx) {
	m := c.M
	n := 0
	for _, f := range m.AllFuncs() {
		core.InspectNoLits(f.Body, func(x ast.Node) bool {
			be, ok := x.(*ast.BinaryExpr)
			if !ok || (be.Op != token.EQL && be.Op != token.NEQ) {
				return true
			}
			if m.ExprString(be.Y) != "nil" && m.ExprString(be.X) != "nil" {
				return true
			}
			e := be.X
			if m.ExprString(be.X) == "nil" {
				e = be.Y
			}
			tv, ok := m.Info.Types[e]
			if !ok || !isPtrTo(tv.Type, "column") {
				return true
			}
			n++
			name := f.Name
			subject := fmt.Sprintf("%s: %s", name, m.ExprString(be))
			// how is the test used? (a) as (part of) a returned boolean; (b) as the condition of an if whose
			// nil branch returns nil / a boolean, panics or continues
			// What happens when the column is nil? Stated on paths: the test is a returned boolean (presence report), or
			// on every path from the nil outcome nothing with an effect happens before the function reports absence
			// (returns only nil/false/true), panics, or goes on to the next element of the enclosing loop.
			verdict, why := "absorbed", ""
			core.InspectNoLits(f.Body, func(y ast.Node) bool {
				if rs, ok := y.(*ast.ReturnStmt); ok && rs.Pos() <= be.Pos() && be.End() <= rs.End() {
					verdict, why = "reported", "the test is the returned boolean (presence report)"
				}
				return true
			})
			if verdict != "reported" {
				nilVal := 1
				if be.Op == token.NEQ {
					nilVal = 0
				}
				okPaths, _ := noEffectOnOutcome(c, f, be, nilVal, func(n ast.Node) string {
					if rs, ok := n.(*ast.ReturnStmt); ok {
						for _, r := range rs.Results {
							if s := m.ExprString(r); s != "nil" && s != "false" && s != "true" {
								return "returns " + s
							}
						}
						return "stop"
					}
					// naming a value on the way (tp, _ := registry.ComponentType(id) before the panic) absorbs nothing
					if as, ok := n.(*ast.AssignStmt); ok && as.Tok == token.DEFINE && len(c.Eff.StoresAt(f, as)) == 0 {
						return "skip"
					}
					return ""
				})
				if okPaths {
					verdict, why = "reported", "on the nil outcome nothing happens before absence is reported (nil/false/true result), a panic, or the next loop element"
				}
			}
			if verdict == "reported" {
				c.OK("C20/R5", subject, c.At(be.Pos()), why)
			} else {
				c.Violation("C20/R5", subject, c.At(be.Pos()), fmt.Sprintf("%s tests a component column for nil and neither reports the absence (nil/false result) nor panics: a missing component is absorbed here, while the debug build panics in its component assertion (and the release build used to panic on the nil column); the two builds would panic on different calls", name))
			}
			return true
		})
	}
	if n == 0 {
		c.Undecide("C20/R5", "sites", "no nil test of a column pointer found (expected the documented absence reports)")
	}
}
