package rules

import (
	"fmt"
	"go/ast"
	"go/token"
	"go/types"

	"arkverif/checker/core"
)

// C04/R9: the lookup containers are sets. A table id may be appended to a table-id container only once: the free
// protocol removes one occurrence per lookup and the cleanup frees a table once per occurrence, so a table listed twice
// under a target is freed twice and later handed to two different target tuples.
//
// Every call of the append role of the container type (the method that appends to the id list and records the index)
// must therefore be (a) outside any loop, or (b) made on a container selected injectively by the loop (some index on
// the way from the owner to the container is the loop variable itself: one container per iteration), or (c) dominated
// by a negative membership test of the same id in the same container. A container selected by a *value* found at the
// loop position (the target of the i-th column) is not injective: two columns may hold the same target.

func appendRoleOf(c *core.Ctx) *core.Func {
	m := c.M
	for _, f := range m.Funcs {
		if f.Recv != "tableIDs" || f.Sig == nil || f.Sig.Params().Len() != 1 || f.Sig.Results().Len() != 0 {
			continue
		}
		tbl, idx := false, false
		for _, s := range c.Eff.Stores(f) {
			if len(s.Via) == 0 && s.Path.Kind == core.RootParam && s.Path.Index == -1 {
				if s.Path.Has("tableIDs.tables") {
					tbl = true
				}
				if s.Path.Has("tableIDs.indices") {
					idx = true
				}
			}
		}
		if !tbl || !idx {
			continue
		}
		// the list grows (append), as opposed to the removal role that shrinks it
		grows := false
		core.InspectNoLits(f.Body, func(n ast.Node) bool {
			if call, ok := n.(*ast.CallExpr); ok && m.IsBuiltin(call, "append") {
				grows = true
			}
			return true
		})
		if grows {
			return f
		}
	}
	return nil
}

func c04r9(c *core.Ctx) {
	m := c.M
	app := appendRoleOf(c)
	if app == nil {
		c.Undecide("C04/R9", "append role", "no method of the table-id container that appends to the list and records the index")
		return
	}
	// rootParam: the parameter of f from which expression e is derived (through index, field and pointer steps and
	// single-definition locals), or -1
	var rootParam func(f *core.Func, e ast.Expr, depth int) int
	rootParam = func(f *core.Func, e ast.Expr, depth int) int {
		if depth > 6 || e == nil {
			return -1
		}
		for _, x := range exprChain(m, f, e, 0) {
			switch y := ast.Unparen(x).(type) {
			case *ast.Ident:
				if v, ok := m.Info.ObjectOf(y).(*types.Var); ok {
					if pi, isP := paramIndexOf(f, v); isP {
						return pi
					}
				}
			case *ast.IndexExpr:
				if pi := rootParam(f, y.X, depth+1); pi >= 0 {
					return pi
				}
			case *ast.SelectorExpr:
				if pi := rootParam(f, y.X, depth+1); pi >= 0 {
					return pi
				}
			case *ast.UnaryExpr:
				if pi := rootParam(f, y.X, depth+1); pi >= 0 {
					return pi
				}
			case *ast.StarExpr:
				if pi := rootParam(f, y.X, depth+1); pi >= 0 {
					return pi
				}
			}
		}
		return -1
	}
	// check decides one append site: `at` is the call in f that (directly, or through the helper chain `via`) appends
	// id to container X.
	var check func(f *core.Func, at *ast.CallExpr, X, id ast.Expr, via string, depth int)
	check = func(f *core.Func, at *ast.CallExpr, X, id ast.Expr, via string, depth int) {
		call := at
		subject := fmt.Sprintf("%s: %s%s", f.Name, m.ExprString(call), via)
		guarded := func() bool {
			if id == nil {
				return false
			}
			// rendered here: under the bindings of a call site the id (a parameter) reads as the caller's actual
			xs, ids := m.ExprString(ast.Unparen(X)), m.ExprString(ast.Unparen(id))
			spec := core.GuardSpec{
				Only: f,
				GuardAtom: func(ff *core.Func, a core.Atom) bool {
					if a.Truth {
						return false
					}
					e := ast.Unparen(a.Expr)
					// `_, ok := X.indices[id]` ... !ok
					if idn, ok := e.(*ast.Ident); ok {
						if v, ok := m.Info.ObjectOf(idn).(*types.Var); ok {
							for fn := ff; fn != nil; fn = fn.Parent {
								for _, d := range localDefsOf(m, fn, v) {
									if ix, ok := ast.Unparen(d).(*ast.IndexExpr); ok && fieldKeyOf(m, ix.X) == "tableIDs.indices" {
										if sel, ok := ast.Unparen(ix.X).(*ast.SelectorExpr); ok && m.ExprString(ast.Unparen(sel.X)) == xs && m.ExprString(ast.Unparen(ix.Index)) == ids {
											return true
										}
									}
								}
							}
						}
					}
					// a membership method of the container
					if mc, ok := e.(*ast.CallExpr); ok && len(mc.Args) == 1 {
						if k, cal, _ := m.Callee(mc); k == core.CallStatic && cal.Recv == "tableIDs" && returnsBool(cal) {
							if sel, ok := ast.Unparen(mc.Fun).(*ast.SelectorExpr); ok && m.ExprString(ast.Unparen(sel.X)) == xs && m.ExprString(ast.Unparen(mc.Args[0])) == ids {
								return true
							}
						}
					}
					return false
				},
				Needs: func(ff *core.Func, x ast.Node) []core.Witness {
					if x == ast.Node(call) {
						return []core.Witness{{What: "append"}}
					}
					return nil
				},
				SkipCallee: func(*core.Func) bool { return true },
			}
			return len(m.MustPrecede(spec).Unguarded[f]) == 0
		}
		loop := enclosingLoopOf(f, call)
		if loop == nil {
			// not in a loop here; if the container comes from a parameter, the callers decide
			pi := rootParam(f, X, 0)
			if pi < 0 || depth >= 2 {
				c.OK("C04/R9", subject, c.At(call.Pos()), "appended once per call (not in a loop)")
				return
			}
			if guarded() {
				c.OK("C04/R9", subject, c.At(call.Pos()), "dominated by a negative membership test of the same id in the same container")
				return
			}
			qi := -1
			if id != nil {
				qi = rootParam(f, id, 0)
			}
			n := 0
			for _, cs := range m.CallSites() {
				if cs.Callee != f || pi >= len(cs.Call.Args) {
					continue
				}
				n++
				// with this call's arguments the helper itself may be guarded (`if unique { <membership test> }`)
				gd := false
				m.WithCall(f, cs.Call, func() { gd = guarded() })
				if gd {
					c.OK("C04/R9", fmt.Sprintf("%s: %s (appends through %s)", cs.Caller.Name, m.RawString(cs.Call), f.Name), c.At(cs.Call.Pos()), "with the arguments of this call the append in the helper is dominated by a negative membership test of the same id in the same container")
					continue
				}
				var idArg ast.Expr
				if qi >= 0 && qi < len(cs.Call.Args) {
					idArg = cs.Call.Args[qi]
				}
				check(cs.Caller, cs.Call, cs.Call.Args[pi], idArg, " (appends through "+f.Name+")", depth+1)
			}
			if n == 0 {
				c.OK("C04/R9", subject, c.At(call.Pos()), "appended once per call (not in a loop; no callers)")
			}
			return
		}
		// loop variables of all enclosing loops
		loopVars := map[types.Object]bool{}
		elemVars := map[types.Object]bool{}
		core.InspectNoLits(f.Body, func(x ast.Node) bool {
			switch l := x.(type) {
			case *ast.RangeStmt:
				if l.Body.Pos() <= call.Pos() && call.End() <= l.Body.End() {
					if idn, ok := l.Key.(*ast.Ident); ok && idn.Name != "_" {
						loopVars[m.Info.ObjectOf(idn)] = true
					}
					// the element variable of a range over a slice or array: one element per iteration
					if idn, ok := l.Value.(*ast.Ident); ok && idn.Name != "_" {
						switch m.Info.TypeOf(l.X).Underlying().(type) {
						case *types.Slice, *types.Array:
							elemVars[m.Info.ObjectOf(idn)] = true
						}
					}
				}
			case *ast.ForStmt:
				if l.Body.Pos() <= call.Pos() && call.End() <= l.Body.End() {
					if as, ok := l.Init.(*ast.AssignStmt); ok && len(as.Lhs) == 1 {
						if idn, ok := as.Lhs[0].(*ast.Ident); ok {
							loopVars[m.Info.ObjectOf(idn)] = true
						}
					}
				}
			}
			return true
		})
		// (b) injective selection: an index on the way to the container is a loop variable itself
		injective := false
		var scan func(e ast.Expr, depth int)
		scan = func(e ast.Expr, depth int) {
			if depth > 6 || e == nil {
				return
			}
			for _, x := range exprChain(m, f, e, 0) {
				switch y := ast.Unparen(x).(type) {
				case *ast.Ident:
					if elemVars[m.Info.ObjectOf(y)] {
						injective = true
					}
					// the container handed back by a lookup helper: it is selected from the helper's argument
					if hc, k := tupleSource(m, f, y); hc != nil {
						if kk, cal, _ := m.Callee(hc); kk == core.CallStatic && cal != nil && cal.Body != nil {
							core.InspectNoLits(cal.Body, func(n ast.Node) bool {
								if rs, ok := n.(*ast.ReturnStmt); ok && k < len(rs.Results) {
									if pj := rootParam(cal, rs.Results[k], 0); pj >= 0 && pj < len(hc.Args) {
										scan(hc.Args[pj], depth+1)
									}
								}
								return true
							})
						}
					}
				case *ast.IndexExpr:
					if idn, ok := ast.Unparen(m.StripConv(y.Index)).(*ast.Ident); ok && loopVars[m.Info.ObjectOf(idn)] {
						injective = true
					}
					scan(y.X, depth+1)
				case *ast.SelectorExpr:
					scan(y.X, depth+1)
				case *ast.UnaryExpr:
					scan(y.X, depth+1)
				case *ast.StarExpr:
					scan(y.X, depth+1)
				}
			}
		}
		scan(X, 0)
		switch {
		case injective:
			c.OK("C04/R9", subject, c.At(call.Pos()), "the container is selected by the loop variable (index or element) itself: one container per iteration")
		case guarded():
			c.OK("C04/R9", subject, c.At(call.Pos()), "dominated by a negative membership test of the same id in the same container")
		default:
			xs, ids := m.ExprString(ast.Unparen(X)), ""
			if id != nil {
				ids = m.ExprString(ast.Unparen(id))
			}
			c.Violation("C04/R9", subject, c.At(call.Pos()), fmt.Sprintf("%s appends %s to %s inside a loop%s, the container is not selected by the loop variable (two iterations can select the same one, e.g. two relations with the same target) and no membership test guards the append; the table would be listed twice, freed twice on cleanup and later recycled for two different target tuples", f.Name, ids, xs, via))
		}
	}
	for _, f := range m.AllFuncs() {
		if f.Recv == "tableIDs" {
			continue
		}
		core.InspectNoLits(f.Body, func(n ast.Node) bool {
			call, ok := n.(*ast.CallExpr)
			if !ok {
				return true
			}
			X, isApp := callTo(m, call, app)
			if !isApp || X == nil || len(call.Args) != 1 {
				return true
			}
			check(f, call, X, call.Args[0], "", 0)
			return true
		})
	}
}

// c04r12: the per-target table index (all tables that use a target in any relation column; it is what the cleanup
// walks when the target dies) loses the entry of a target only together with the whole target: in a function that
// deletes the target's entry from the per-column index of every column (the remove-target role), or under a test that
// the entry's own table list is empty. Dropping it because one column's list became empty forgets the tables that use
// the target in another column: when the target dies later they keep a dead target.
func c04r12(c *core.Ctx) {
	m := c.M
	n := 0
	for _, f := range m.AllFuncs() {
		core.InspectNoLits(f.Body, func(x ast.Node) bool {
			call, ok := x.(*ast.CallExpr)
			if !ok || !m.IsBuiltin(call, "delete") || len(call.Args) != 2 || fieldKeyOf(m, call.Args[0]) != "archetypeData.targetTables" {
				return true
			}
			n++
			key := m.ExprString(ast.Unparen(call.Args[1]))
			subject := fmt.Sprintf("%s: %s", f.Name, m.ExprString(call))
			// (a) remove-target role: the same key is deleted from every column's map in a loop over the per-column index
			allCols := false
			core.InspectNoLits(f.Body, func(y ast.Node) bool {
				rs, isR := y.(*ast.RangeStmt)
				if !isR || fieldKeyOf(m, rs.X) != "archetype.relationTables" {
					return true
				}
				ast.Inspect(rs.Body, func(z ast.Node) bool {
					if d, isC := z.(*ast.CallExpr); isC && m.IsBuiltin(d, "delete") && len(d.Args) == 2 && m.ExprString(ast.Unparen(d.Args[1])) == key {
						if ix, isIx := ast.Unparen(d.Args[0]).(*ast.IndexExpr); isIx && fieldKeyOf(m, ix.X) == "archetype.relationTables" {
							allCols = true
						}
					}
					return true
				})
				return true
			})
			if allCols {
				c.OK("C04/R12", subject, c.At(call.Pos()), "the target is dropped from the per-column index of every column in the same function")
				return true
			}
			// (b) under an emptiness test of the entry's own table list
			spec := core.GuardSpec{
				Only: f,
				GuardAtom: func(ff *core.Func, at core.Atom) bool {
					be, ok := ast.Unparen(at.Expr).(*ast.BinaryExpr)
					if !ok {
						return false
					}
					lc, ok := ast.Unparen(be.X).(*ast.CallExpr)
					if !ok || !m.IsBuiltin(lc, "len") || len(lc.Args) != 1 {
						return false
					}
					tv, ok := m.Info.Types[be.Y]
					if !ok || tv.Value == nil || tv.Value.String() != "0" {
						return false
					}
					if !((be.Op == token.EQL && at.Truth) || (be.Op == token.NEQ && !at.Truth) || (be.Op == token.GTR && !at.Truth)) {
						return false
					}
					// len(T.tables) with T an entry of the per-target index for the same key
					sel, ok := ast.Unparen(lc.Args[0]).(*ast.SelectorExpr)
					if !ok || fieldKeyOf(m, sel) != "tableIDs.tables" {
						return false
					}
					for _, e := range exprChain(m, ff, sel.X, 0) {
						if ix, ok := ast.Unparen(e).(*ast.IndexExpr); ok && fieldKeyOf(m, ix.X) == "archetypeData.targetTables" && m.ExprString(ast.Unparen(ix.Index)) == key {
							return true
						}
					}
					return false
				},
				Needs: func(ff *core.Func, y ast.Node) []core.Witness {
					if y == ast.Node(call) {
						return []core.Witness{{What: "delete"}}
					}
					return nil
				},
				SkipCallee: func(*core.Func) bool { return true },
			}
			if len(m.MustPrecede(spec).Unguarded[f]) == 0 {
				c.OK("C04/R12", subject, c.At(call.Pos()), "under a test that the entry's own table list is empty")
			} else {
				c.Violation("C04/R12", subject, c.At(call.Pos()), fmt.Sprintf("%s drops the per-target entry of %s although the function neither removes the target from every relation column nor has established that the entry's own table list is empty; tables that use the target in another relation column would be skipped by the cleanup when the target dies", f.Name, key))
			}
			return true
		})
	}
	if n == 0 {
		c.Undecide("C04/R12", "per-target index", "no function deletes an entry of the per-target table index")
	}
}
