// keyattr prints, as JSON, the "Owner.field" string literals that each property's rule functions can reach in
// package rules: the closure over the package-level objects (functions, methods, variables) that the registered Run
// functions use, resolved by the type checker. Used by tools/genkeys.py; the classification tables of anchors.go are
// not followed (a stale entry there classifies nothing and is reported as a note).
package main

import (
	"encoding/json"
	"fmt"
	"go/ast"
	"go/token"
	"go/types"
	"os"
	"path/filepath"
	"regexp"
	"sort"
	"strconv"

	"golang.org/x/tools/go/packages"
)

func main() {
	cfg := &packages.Config{Mode: packages.LoadSyntax, Dir: os.Args[1]}
	pkgs, err := packages.Load(cfg, "arkverif/checker/rules")
	if err != nil || len(pkgs) != 1 || len(pkgs[0].Errors) > 0 {
		fmt.Fprintln(os.Stderr, "load failed", err)
		os.Exit(2)
	}
	p := pkgs[0]
	keyRe := regexp.MustCompile(`^[A-Za-z][A-Za-z0-9]*\.[A-Za-z][A-Za-z0-9]*$`)
	keys := map[types.Object][]string{}
	uses := map[types.Object][]types.Object{}
	roots := map[string][]types.Object{}
	collect := func(owner types.Object, n ast.Node) {
		ast.Inspect(n, func(x ast.Node) bool {
			switch y := x.(type) {
			case *ast.BasicLit:
				if y.Kind == token.STRING {
					if s, err := strconv.Unquote(y.Value); err == nil && keyRe.MatchString(s) {
						keys[owner] = append(keys[owner], s)
					}
				}
			case *ast.Ident:
				if o := p.TypesInfo.Uses[y]; o != nil && o.Pkg() == p.Types {
					switch o.(type) {
					case *types.Func:
						uses[owner] = append(uses[owner], o.(*types.Func).Origin())
					case *types.Var:
						if o.Parent() == p.Types.Scope() {
							uses[owner] = append(uses[owner], o)
						}
					}
				}
			}
			return true
		})
	}
	for _, f := range p.Syntax {
		file := filepath.Base(p.Fset.Position(f.Pos()).Filename)
		for _, d := range f.Decls {
			switch d := d.(type) {
			case *ast.FuncDecl:
				if d.Name.Name == "init" {
					// property registrations
					ast.Inspect(d, func(x ast.Node) bool {
						cl, ok := x.(*ast.CompositeLit)
						if !ok {
							return true
						}
						if tv, ok := p.TypesInfo.Types[cl]; !ok || tv.Type.String() != "arkverif/checker/rules.Property" {
							return true
						}
						id := ""
						var rs []types.Object
						for _, e := range cl.Elts {
							kv, ok := e.(*ast.KeyValueExpr)
							if !ok {
								continue
							}
							switch kv.Key.(*ast.Ident).Name {
							case "ID":
								id, _ = strconv.Unquote(kv.Value.(*ast.BasicLit).Value)
							case "Rules":
								ast.Inspect(kv.Value, func(z ast.Node) bool {
									if r, ok := z.(*ast.KeyValueExpr); ok {
										if k, ok := r.Key.(*ast.Ident); ok && k.Name == "Run" {
											ast.Inspect(r.Value, func(w ast.Node) bool {
												if i, ok := w.(*ast.Ident); ok {
													if o, ok := p.TypesInfo.Uses[i].(*types.Func); ok {
														rs = append(rs, o.Origin())
													}
												}
												return true
											})
										}
									}
									return true
								})
							}
						}
						roots[id] = append(roots[id], rs...)
						return false
					})
					continue
				}
				if file == "anchors.go" || file == "keys_gen.go" {
					continue
				}
				collect(p.TypesInfo.Defs[d.Name], d)
			case *ast.GenDecl:
				if file == "anchors.go" || file == "keys_gen.go" {
					continue
				}
				for _, s := range d.Specs {
					if vs, ok := s.(*ast.ValueSpec); ok {
						for _, n := range vs.Names {
							collect(p.TypesInfo.Defs[n], vs)
						}
					}
				}
			}
		}
	}
	out := map[string][]string{}
	for id, rs := range roots {
		seen := map[types.Object]bool{}
		ks := map[string]bool{}
		todo := append([]types.Object{}, rs...)
		for len(todo) > 0 {
			o := todo[len(todo)-1]
			todo = todo[:len(todo)-1]
			if o == nil || seen[o] {
				continue
			}
			seen[o] = true
			for _, k := range keys[o] {
				ks[k] = true
			}
			todo = append(todo, uses[o]...)
		}
		for k := range ks {
			out[id] = append(out[id], k)
		}
		sort.Strings(out[id])
	}
	json.NewEncoder(os.Stdout).Encode(out)
}
