package main

import (
	"encoding/json"
	"fmt"
	"go/types"
	"strings"

	"arkverif/checker/core"
	"arkverif/checker/rules"
)

func debugDump(what string) int {
	p, err := core.LoadCanonical(core.LoadConfig{})
	if err != nil {
		fmt.Println(err)
		return 2
	}
	m := core.NewModel(p)
	eff := core.NewEffects(m)
	c := &core.Ctx{M: m, Eff: eff, Config: "[]"}
	switch {
	case what == "roles":
		a := rules.GetAnchors(c)
		a.Dump()
	case strings.HasPrefix(what, "stores:"):
		name := strings.TrimPrefix(what, "stores:")
		for _, f := range m.AllFuncs() {
			if f.Name != name {
				continue
			}
			for _, s := range eff.Stores(f) {
				cls, key := rules.Classify(s.Path)
				fmt.Printf("%s  %-60s class=%s(%s) via=%v origin=%s\n", p.Rel(s.Node.Pos()), s.Path.String(), cls, key, s.Via, p.Rel(s.Origin.Pos()))
			}
		}
	case what == "fields":
		// JSON: owner -> field -> type string (package-local names unqualified)
		out := map[string]map[string]string{}
		sc := p.Ecs.Types.Scope()
		qual := func(pk *types.Package) string {
			if pk == p.Ecs.Types {
				return ""
			}
			return pk.Name()
		}
		for _, name := range sc.Names() {
			tn, ok := sc.Lookup(name).(*types.TypeName)
			if !ok || tn.IsAlias() {
				continue
			}
			st, ok := tn.Type().Underlying().(*types.Struct)
			if !ok {
				continue
			}
			out[name] = map[string]string{}
			for i := 0; i < st.NumFields(); i++ {
				out[name][st.Field(i).Name()] = fmt.Sprintf("%d:%s", i, types.TypeString(st.Field(i).Type(), qual))
			}
		}
		b, _ := json.MarshalIndent(out, "", " ")
		fmt.Println(string(b))
	case what == "funcs":
		for _, f := range m.AllFuncs() {
			fmt.Printf("%s %s exported=%v\n", p.Rel(f.Pos()), f.Name, f.Exported())
		}
	}
	return 0
}
