package main

import (
	"encoding/json"
	"fmt"
	"os"
	"os/exec"
	"path/filepath"
	"runtime"
	"sort"
	"strings"

	"arkverif/checker/core"
	"arkverif/checker/rules"
)

// expectation lists, per corpus entry, the properties whose quick check must report a violation on it.
type expectation struct {
	ID       string   `json:"id"`
	Patch    string   `json:"patch"`
	CaughtBy []string `json:"caught_by"`
}

// selfValidate re-runs the rules of property id on scratch copies of the repository with one corpus change applied
// each (changes the rule is recorded to catch). It validates the checker, not the repository: results go to the
// evidence as information and never change the verdict on /repo.
func selfValidate(id, vdir string, keep []*core.Model) map[string]any {
	out := map[string]any{}
	b, err := os.ReadFile(filepath.Join(vdir, "seeded", "expectations.json"))
	if err != nil {
		out["status"] = "no expectations file"
		return out
	}
	var exps []expectation
	if err := json.Unmarshal(b, &exps); err != nil {
		out["status"] = "bad expectations file: " + err.Error()
		return out
	}
	repo := core.RepoDir()
	var caught, missed, stale, notReplayed []string
	skippedCross := false
	for _, e := range exps {
		want := false
		for _, p := range e.CaughtBy {
			if p == id {
				want = true
			}
		}
		if !want {
			continue
		}
		tmp, err := os.MkdirTemp("", "arkself_")
		if err != nil {
			continue
		}
		func() {
			defer os.RemoveAll(tmp)
			// copy go.mod, go.sum and ecs/ (non-test sources are what the analysis loads)
			cp := exec.Command("cp", "-r", filepath.Join(repo, "ecs"), filepath.Join(repo, "go.mod"), tmp)
			if err := cp.Run(); err != nil {
				stale = append(stale, e.ID+" (copy failed)")
				return
			}
			if _, err := os.Stat(filepath.Join(repo, "go.sum")); err == nil {
				_ = exec.Command("cp", filepath.Join(repo, "go.sum"), tmp).Run()
			}
			ap := exec.Command("git", "apply", "--unsafe-paths", "--directory="+tmp, filepath.Join(vdir, e.Patch))
			ap.Dir = tmp
			if err := ap.Run(); err != nil {
				stale = append(stale, e.ID)
				return
			}
			p, err := core.LoadCanonical(core.LoadConfig{Dir: tmp})
			if err != nil {
				stale = append(stale, e.ID+" (does not type-check)")
				return
			}
			m := core.NewModel(p)
			c := &core.Ctx{Property: id, Tier: "thorough", Config: "[]", M: m, Eff: core.NewEffects(m), Models: map[string]*core.Model{"": m}}
			func() {
				defer func() {
					if r := recover(); r != nil {
						c.Undecided = append(c.Undecided, fmt.Sprint(r))
					}
				}()
				for _, r := range rules.Properties[id].Rules {
					if r.CrossConfig {
						skippedCross = true
						continue // needs all four configurations; covered by the quick-tier matrix
					}
					r.Run(c)
				}
			}()
			if len(c.Findings) > 0 {
				keys := map[string]bool{}
				for _, f := range c.Findings {
					keys[f.Rule] = true
				}
				var ks []string
				for k := range keys {
					ks = append(ks, k)
				}
				sort.Strings(ks)
				caught = append(caught, e.ID+" ["+strings.Join(ks, ",")+"]")
			} else if skippedCross {
				// recorded as caught by a rule that compares the build configurations; not replayable on one scratch load
				notReplayed = append(notReplayed, e.ID)
			} else {
				missed = append(missed, e.ID)
			}
		}()
		// the scratch program of this change is not needed any more: let go of it
		rules.DropCachesExcept(keep)
		runtime.GC()
	}
	out["expected"] = len(caught) + len(missed) + len(stale)
	out["caught"] = caught
	out["missed"] = missed
	out["stale"] = stale
	out["not_replayed_cross_config"] = notReplayed
	out["note"] = "checker self-validation on scratch copies with one recorded change applied each; validates the rules, not /repo; never changes the verdict"
	return out
}
