// Command arkcheck decides the semantic properties of mlange-42/ark by static analysis of /repo's current source.
package main

import (
	"encoding/json"
	"flag"
	"fmt"
	"os"
	"path/filepath"
	"sort"
	"strconv"
	"strings"
	"time"

	"arkverif/checker/core"
	"arkverif/checker/rules"
)

func main() {
	prop := flag.String("property", "", "property id (C01..C20) or 'all'")
	tier := flag.String("tier", "quick", "quick or thorough")
	repo := flag.String("repo", "", "repository root (default $ARK_REPO or /repo)")
	verif := flag.String("verif", "", "verif directory (default: parent of the binary's directory)")
	replay := flag.String("replay", "", "replay file: re-run the property and tier recorded in it")
	dump := flag.String("dump", "", "debug: dump roles|stores:<func>")
	list := flag.Bool("list", false, "print the registered properties as JSON")
	outDir := flag.String("out", "", "directory for evidence/ and reports/ (default: the verif directory); used by the self-test tooling so that runs against scratch trees do not overwrite evidence")
	flag.Parse()
	if *list {
		type entry struct {
			ID, Level, Explanation string
			TrustedBase            []string
			Rules                  []string
		}
		var out []entry
		for id, p := range rules.Properties {
			e := entry{ID: id, Level: p.Level, Explanation: p.Explanation, TrustedBase: p.TrustedBase}
			for _, r := range p.Rules {
				e.Rules = append(e.Rules, r.ID)
			}
			out = append(out, e)
		}
		sort.Slice(out, func(i, j int) bool { return out[i].ID < out[j].ID })
		b, _ := json.MarshalIndent(out, "", " ")
		fmt.Println(string(b))
		return
	}

	if *repo != "" {
		os.Setenv("ARK_REPO", *repo)
	}
	vdir := *verif
	if vdir == "" {
		exe, _ := os.Executable()
		vdir = filepath.Dir(filepath.Dir(exe))
	}
	verifDir = vdir
	rules.VerifDir = vdir
	if *replay != "" {
		base := filepath.Base(*replay)
		parts := strings.Split(base, ".")
		if len(parts) >= 2 {
			*prop, *tier = parts[0], parts[1]
		}
	}
	if t := os.Getenv("VERIF_TIER"); t != "" && *tier == "" {
		*tier = t
	}
	seed := 0
	if s := os.Getenv("VERIF_SEED"); s != "" {
		seed, _ = strconv.Atoi(s)
	}
	if *dump != "" {
		os.Exit(debugDump(*dump))
	}
	var ids []string
	if *prop == "all" {
		for id := range rules.Properties {
			ids = append(ids, id)
		}
		sort.Strings(ids)
	} else if *prop != "" {
		ids = []string{*prop}
	} else {
		fmt.Fprintln(os.Stderr, "usage: arkcheck -property Cnn [-tier quick|thorough]")
		os.Exit(2)
	}
	known, err := core.LoadKnown(filepath.Join(vdir, "known_findings.json"))
	if err != nil {
		fmt.Printf("cannot read known findings: %v\n", err)
		os.Exit(2)
	}
	models := map[string]*core.Model{}
	effects := map[*core.Model]*core.Effects{}
	getModel := func(tags string) (*core.Model, *core.Effects, error) {
		if m, ok := models[tags]; ok {
			return m, effects[m], nil
		}
		p, err := core.LoadCanonical(core.LoadConfig{Tags: tags})
		if err != nil {
			return nil, nil, err
		}
		m := core.NewModel(p)
		models[tags] = m
		effects[m] = core.NewEffects(m)
		return m, effects[m], nil
	}
	exit := 0
	for _, id := range ids {
		od := vdir
		if *outDir != "" {
			od = *outDir
		}
		code := runProperty(id, *tier, od, known, seed, getModel, models)
		if code > exit {
			exit = code
		}
	}
	os.Exit(exit)
}

func runProperty(id, tier, vdir string, known *core.KnownFindings, seed int,
	getModel func(string) (*core.Model, *core.Effects, error), models map[string]*core.Model) (code int) {
	p := rules.Properties[id]
	if p == nil {
		fmt.Printf("unknown or unclaimed property %q\n", id)
		return 2
	}
	res := &core.Result{Property: id, Tier: tier, Level: p.Level, Explanation: p.Explanation, TrustedBase: p.TrustedBase,
		Assumptions: p.Assumptions, Start: time.Now(), Stats: map[string]int{}, Extra: map[string]any{}}
	defer func() {
		if r := recover(); r != nil {
			fmt.Printf("UNDECIDED property=%s internal error: %v\n", id, r)
			panic(r)
		}
	}()
	configs := []string{""}
	if tier == "thorough" || p.AllConfigsQuick {
		configs = core.TagSets
	}
	for _, tags := range configs {
		m, _, err := getModel(tags)
		if err != nil {
			res.Undecided = append(res.Undecided, err.Error())
			continue
		}
		res.Configs = append(res.Configs, "["+tags+"]")
		res.Stats["functions["+tags+"]"] = len(m.AllFuncs())
		res.Stats["files["+tags+"]"] = len(m.Prog.Ecs.Syntax)
	}
	if len(res.Undecided) == 0 {
		for ci, tags := range configs {
			m := models[tags]
			eff, _ := func() (*core.Effects, error) { _, e, err := getModel(tags); return e, err }()
			c := &core.Ctx{Property: id, Tier: tier, Config: "[" + tags + "]", M: m, Eff: eff, Models: models}
			if miss := rules.GetAnchors(c).MissingFor(id); len(miss) > 0 {
				// the data model differs from the pinned one in a way that cannot be resolved: no rule is run
				for _, k := range miss {
					c.Undecide(id, "anchor", "unresolved: "+k+" (data model changed; re-pin with tools/genkeys.py after reviewing rules/anchors.go)")
				}
				res.Undecided = append(res.Undecided, c.Undecided...)
				continue
			}
			if ci == 0 {
				for _, u := range rules.GetAnchors(c).Missing {
					res.Assumptions = append(res.Assumptions, "field "+u+" of the anchor table no longer exists (moved, regrouped or renamed); its table entry classifies nothing")
					fmt.Printf("NOTE property=%s anchored field %s no longer exists; its classification entry is unused\n", id, u)
				}
				for _, u := range rules.GetAnchors(c).Unclassified {
					res.Assumptions = append(res.Assumptions, "field "+u+" is not in the anchor table (added after it was frozen); path rules treat stores to it as exempt")
					fmt.Printf("NOTE property=%s unclassified field %s treated as exempt by the path rules\n", id, u)
				}
			}
			for _, r := range p.Rules {
				if r.CrossConfig && ci > 0 {
					continue
				}
				before := len(c.Obligations)
				r.Run(c)
				if r.Min > 0 {
					n := 0
					for _, o := range c.Obligations[before:] {
						if o.Verdict != "info" {
							n++
						}
					}
					if n < r.Min {
						c.Undecide(r.ID, "non-vacuity", fmt.Sprintf("matched %d instances, floor is %d", n, r.Min))
					}
				}
			}
			res.Obligations = append(res.Obligations, c.Obligations...)
			res.Findings = append(res.Findings, c.Findings...)
			res.Undecided = append(res.Undecided, c.Undecided...)
		}
	}
	if tier == "thorough" && len(res.Undecided) == 0 {
		var keep []*core.Model
		for _, m := range models {
			keep = append(keep, m)
		}
		sv := selfValidate(id, verifDir, keep)
		res.Extra["self_validation"] = sv
		if ms, ok := sv["missed"].([]string); ok && len(ms) > 0 {
			fmt.Printf("SELF-VALIDATION property=%s: recorded changes no longer caught: %v (information; the verdict on /repo is unaffected)\n", id, ms)
		}
	}
	return res.Finish(vdir, known, seed)
}

// verifDir is the /verif directory (known findings, seeded corpus), as opposed to the output directory.
var verifDir string
