package core

import (
	"fmt"
	"go/ast"
	"sort"

	"golang.org/x/tools/go/cfg"
)

// Witness is a site that violates an ordering rule, with the call chain leading to it.
type Witness struct {
	What  string   // description of the offending construct
	Node  ast.Node // node in the reporting function (the call, for lifted witnesses)
	Deep  ast.Node // innermost offending node
	Chain []string // callee names from the reporting function down to the function containing Deep
	Data  any      // rule-specific payload (e.g. a Store still rooted at a parameter)
}

// GuardSpec parameterises the must-precede analysis (K1): on every path, a
// guard must have been established before any node that needs it.
type GuardSpec struct {
	// GuardNode reports whether executing n establishes the guard (n is visited in evaluation order).
	GuardNode func(f *Func, n ast.Node) bool
	// GuardAtom reports whether knowing atom (an atomic branch condition with its truth value) establishes the guard.
	GuardAtom func(f *Func, a Atom) bool
	// Needs returns what at node n requires the guard (nil if nothing). Node/Deep default to n.
	Needs func(f *Func, n ast.Node) []Witness
	// Lift transforms a witness of callee when it is propagated through call in f; returning false drops it.
	Lift func(f *Func, call *ast.CallExpr, callee *Func, w Witness) (Witness, bool)
	// Dynamic is consulted for calls of function values; it returns a description if such a call needs the guard.
	Dynamic func(f *Func, call *ast.CallExpr) string
	// SkipCallee: do not look into this callee (treated as neither guarding nor needing).
	SkipCallee func(callee *Func) bool
	// EntryGuarded: functions whose entry state is already guarded (e.g. literals invoked under a guard).
	EntryGuarded func(f *Func) bool
	// Only restricts the analysis to one function (callees are then opaque unless summarised elsewhere).
	Only *Func
}

// GuardResult holds the summaries of the must-precede analysis.
type GuardResult struct {
	Must      map[*Func]bool      // guard established on every normal return path
	Unguarded map[*Func][]Witness // needs reachable from the entry without the guard
}

// MustPrecede runs the K1 analysis over all functions of the model.
func (m *Model) MustPrecede(spec GuardSpec) *GuardResult {
	res := &GuardResult{Must: map[*Func]bool{}, Unguarded: map[*Func][]Witness{}}
	all := m.AllFuncs()
	if spec.Only != nil {
		all = []*Func{spec.Only}
	}
	run := func(f *Func, collect bool) (must bool, wit []Witness) {
		g := m.CFG(f)
		seen := map[string]bool{}
		addW := func(w Witness) {
			k := fmt.Sprintf("%d/%d/%s", w.Node.Pos(), w.Deep.Pos(), w.What)
			if !seen[k] {
				seen[k] = true
				wit = append(wit, w)
			}
		}
		entry := false
		if spec.EntryGuarded != nil && spec.EntryGuarded(f) {
			entry = true
		}
		transfer := func(s bool, n ast.Node, report bool) bool {
			WalkEval(n, func(x ast.Node, cond bool) {
				if !s && report {
					if spec.Needs != nil {
						for _, w := range spec.Needs(f, x) {
							if w.Node == nil {
								w.Node = x
							}
							if w.Deep == nil {
								w.Deep = x
							}
							addW(w)
						}
					}
				}
				if call, ok := x.(*ast.CallExpr); ok {
					k, callee, _ := m.Callee(call)
					switch {
					case (k == CallStatic || k == CallLiteral) && callee != nil:
						if spec.SkipCallee != nil && spec.SkipCallee(callee) {
							break
						}
						if !s && report {
							for _, cw := range res.Unguarded[callee] {
								lw := Witness{What: cw.What, Node: call, Deep: cw.Deep, Chain: append([]string{callee.Name}, cw.Chain...), Data: cw.Data}
								if spec.Lift != nil {
									var keep bool
									if lw, keep = spec.Lift(f, call, callee, lw); !keep {
										continue
									}
								}
								addW(lw)
							}
						}
						if res.Must[callee] && !cond {
							s = true
						}
					case k == CallDynamic:
						if !s && report && spec.Dynamic != nil {
							if what := spec.Dynamic(f, call); what != "" {
								addW(Witness{What: what, Node: call, Deep: call})
							}
						}
					}
				}
				if !cond && spec.GuardNode != nil && spec.GuardNode(f, x) {
					s = true
				}
			})
			return s
		}
		flow := Flow[bool]{
			Entry: entry,
			Join:  func(a, b bool) bool { return a && b },
			Equal: func(a, b bool) bool { return a == b },
			Node:  func(s bool, _ *cfg.Block, n ast.Node) bool { return transfer(s, n, false) },
			Edge: func(s bool, b *cfg.Block, succ int) (bool, bool) {
				// under the bindings of a call (WithCall) a condition may be decided: `if unique {` with unique bound
				// to the caller's `true` has no false edge
				if len(m.binds) > 0 {
					if c := BlockCond(b); c != nil {
						for _, a := range Assume(c, succ == 0) {
							if v, ok := m.ConstBool(a.Expr); ok && v != a.Truth {
								return s, false
							}
						}
					}
				}
				if s || spec.GuardAtom == nil {
					return s, true
				}
				if c := BlockCond(b); c != nil {
					for _, a := range Assume(c, succ == 0) {
						if spec.GuardAtom(f, a) {
							return true, true
						}
					}
				}
				return s, true
			},
		}
		fr := Forward(g, flow)
		must = true
		anyExit := false
		for _, b := range g.Blocks {
			if !fr.Reached[b] {
				continue
			}
			if collect {
				s := fr.In[b]
				for _, n := range b.Nodes {
					s = transfer(s, n, true)
				}
			}
			if m.IsReturnExit(b) {
				anyExit = true
				if !fr.Out[b] {
					must = false
				}
			}
		}
		if !anyExit {
			must = true
		}
		return
	}
	for changed := true; changed; {
		changed = false
		for _, f := range all {
			if res.Must[f] {
				continue
			}
			if must, _ := run(f, false); must {
				res.Must[f] = true
				changed = true
			}
		}
	}
	for changed, iter := true, 0; changed && iter < 50; iter++ {
		changed = false
		for _, f := range all {
			_, w := run(f, true)
			if len(w) != len(res.Unguarded[f]) {
				res.Unguarded[f] = w
				changed = true
			}
		}
	}
	for _, f := range all {
		sort.Slice(res.Unguarded[f], func(i, j int) bool { return res.Unguarded[f][i].Node.Pos() < res.Unguarded[f][j].Node.Pos() })
	}
	return res
}

// OrderSpec parameterises the never-after analysis (K3): no path may lead from an A event to a B event.
type OrderSpec struct {
	IsA func(f *Func, n ast.Node) string // non-empty description if n is an A event
	IsB func(f *Func, n ast.Node) string
	// DynamicA/DynamicB classify calls of function values.
	DynamicA   func(f *Func, call *ast.CallExpr) string
	DynamicB   func(f *Func, call *ast.CallExpr) string
	SkipCallee func(callee *Func) bool
	// Reset reports nodes after which earlier A events no longer count (e.g. re-population for typestate rules).
	Reset func(f *Func, n ast.Node) bool
}

// OrderViolation is a path from A to B visible in one function.
type OrderViolation struct {
	Func *Func
	A    Witness
	B    Witness
}

// OrderResult holds may-summaries and the violations found.
type OrderResult struct {
	MayA, MayB map[*Func]*Witness
	Violations []OrderViolation
}

// NeverAfter runs the K3 analysis over all functions of the model.
func (m *Model) NeverAfter(spec OrderSpec) *OrderResult {
	res := &OrderResult{MayA: map[*Func]*Witness{}, MayB: map[*Func]*Witness{}}
	all := m.AllFuncs()
	// may-summaries: first A / first B site reachable in f (any path), transitively.
	for changed := true; changed; {
		changed = false
		for _, f := range all {
			ff := f
			InspectNoLits(f.Body, func(n ast.Node) bool {
				if res.MayA[ff] == nil && spec.IsA != nil {
					if d := spec.IsA(ff, n); d != "" {
						res.MayA[ff] = &Witness{What: d, Node: n, Deep: n}
						changed = true
					}
				}
				if res.MayB[ff] == nil && spec.IsB != nil {
					if d := spec.IsB(ff, n); d != "" {
						res.MayB[ff] = &Witness{What: d, Node: n, Deep: n}
						changed = true
					}
				}
				if call, ok := n.(*ast.CallExpr); ok {
					k, callee, _ := m.Callee(call)
					if (k == CallStatic || k == CallLiteral) && callee != nil && (spec.SkipCallee == nil || !spec.SkipCallee(callee)) {
						if res.MayA[ff] == nil && res.MayA[callee] != nil {
							w := res.MayA[callee]
							res.MayA[ff] = &Witness{What: w.What, Node: call, Deep: w.Deep, Chain: append([]string{callee.Name}, w.Chain...)}
							changed = true
						}
						if res.MayB[ff] == nil && res.MayB[callee] != nil {
							w := res.MayB[callee]
							res.MayB[ff] = &Witness{What: w.What, Node: call, Deep: w.Deep, Chain: append([]string{callee.Name}, w.Chain...)}
							changed = true
						}
					}
					if k == CallDynamic {
						if res.MayA[ff] == nil && spec.DynamicA != nil {
							if d := spec.DynamicA(ff, call); d != "" {
								res.MayA[ff] = &Witness{What: d, Node: call, Deep: call}
								changed = true
							}
						}
						if res.MayB[ff] == nil && spec.DynamicB != nil {
							if d := spec.DynamicB(ff, call); d != "" {
								res.MayB[ff] = &Witness{What: d, Node: call, Deep: call}
								changed = true
							}
						}
					}
				}
				return true
			})
		}
	}
	type st = *Witness // nil: no A yet; else the A witness
	for _, f := range all {
		g := m.CFG(f)
		ff := f
		seen := map[string]bool{}
		transfer := func(s st, n ast.Node, report bool) st {
			WalkEval(n, func(x ast.Node, cond bool) {
				// B before A at the same node: a node that is both (a call doing B then A) is the callee's business.
				var aHere *Witness
				if spec.IsA != nil {
					if d := spec.IsA(ff, x); d != "" {
						aHere = &Witness{What: d, Node: x, Deep: x}
					}
				}
				var bHere *Witness
				if spec.IsB != nil {
					if d := spec.IsB(ff, x); d != "" {
						bHere = &Witness{What: d, Node: x, Deep: x}
					}
				}
				if call, ok := x.(*ast.CallExpr); ok {
					k, callee, _ := m.Callee(call)
					if (k == CallStatic || k == CallLiteral) && callee != nil && (spec.SkipCallee == nil || !spec.SkipCallee(callee)) {
						if w := res.MayB[callee]; w != nil && bHere == nil {
							bHere = &Witness{What: w.What, Node: call, Deep: w.Deep, Chain: append([]string{callee.Name}, w.Chain...)}
						}
						if w := res.MayA[callee]; w != nil && aHere == nil {
							aHere = &Witness{What: w.What, Node: call, Deep: w.Deep, Chain: append([]string{callee.Name}, w.Chain...)}
						}
					}
					if k == CallDynamic {
						if bHere == nil && spec.DynamicB != nil {
							if d := spec.DynamicB(ff, call); d != "" {
								bHere = &Witness{What: d, Node: call, Deep: call}
							}
						}
						if aHere == nil && spec.DynamicA != nil {
							if d := spec.DynamicA(ff, call); d != "" {
								aHere = &Witness{What: d, Node: call, Deep: call}
							}
						}
					}
				}
				if s != nil && bHere != nil && report {
					k := fmt.Sprintf("%d/%d", s.Deep.Pos(), bHere.Node.Pos())
					if !seen[k] {
						seen[k] = true
						res.Violations = append(res.Violations, OrderViolation{Func: ff, A: *s, B: *bHere})
					}
				}
				if spec.Reset != nil && spec.Reset(ff, x) {
					s = nil
				}
				if aHere != nil && s == nil {
					s = aHere
				}
			})
			return s
		}
		flow := Flow[st]{
			Entry: nil,
			Join: func(a, b st) st {
				if a != nil {
					return a
				}
				return b
			},
			Equal: func(a, b st) bool { return (a == nil) == (b == nil) },
			Node:  func(s st, _ *cfg.Block, n ast.Node) st { return transfer(s, n, false) },
		}
		fr := Forward(g, flow)
		for _, b := range g.Blocks {
			if !fr.Reached[b] {
				continue
			}
			s := fr.In[b]
			for _, n := range b.Nodes {
				s = transfer(s, n, true)
			}
		}
	}
	sort.Slice(res.Violations, func(i, j int) bool { return res.Violations[i].B.Node.Pos() < res.Violations[j].B.Node.Pos() })
	return res
}
