package core

import (
	"fmt"
	"go/ast"
	"go/token"
	"go/types"
	"os"
	"sort"
	"strings"
)

// Canonicalisation of one-statement setter methods of wrapper types.
//
// A refactoring that wraps a field the rules anchor on (`storage.isTarget []bool`, `slices.batches []batchTable`) in a
// small named type with methods turns the stores the rules look for (`s.isTarget[id] = true`,
// `batches = append(batches, b)`) into calls (`s.isTarget.mark(id)`, `batches.append(b)`). Accessors that are
// expressions are read through by Inline; a method whose body is one assignment is not an expression. Such calls are
// rewritten, as an in-memory overlay like the one of methodise, into the statement the method contains, with the
// receiver and the arguments substituted. It is done only for methods of a *wrapper type of a pinned field*: a named
// non-generic type of package ecs that is not itself an owner in the pinned data model and that occurs in the current
// type of a field whose pinned type does not mention it. On the pinned tree there is no such type, so nothing changes
// there. The rewritten program is type-checked again; if it does not type-check the unrewritten one is analysed.

// inlineSetters returns the overlay and the names of the methods whose call statements were replaced.
func inlineSetters(p *Program, given map[string][]byte) (map[string][]byte, []string) {
	pkg := p.Ecs
	if pkg == nil || pkg.TypesInfo == nil || len(PinnedFieldTypes) == 0 {
		return nil, nil
	}
	info := pkg.TypesInfo
	qual := func(pk *types.Package) string {
		if pk == pkg.Types {
			return ""
		}
		return pk.Name()
	}
	// wrapper types of pinned fields
	pinnedOwner := map[string]bool{}
	for k := range PinnedFieldTypes {
		pinnedOwner[k[:strings.IndexByte(k, '.')]] = true
	}
	wrapper := map[*types.TypeName]bool{}
	sc := pkg.Types.Scope()
	for _, name := range sc.Names() {
		tn, ok := sc.Lookup(name).(*types.TypeName)
		if !ok || tn.IsAlias() {
			continue
		}
		st, ok := tn.Type().Underlying().(*types.Struct)
		if !ok {
			continue
		}
		for i := 0; i < st.NumFields(); i++ {
			f := st.Field(i)
			pv, pinned := PinnedFieldTypes[name+"."+f.Name()]
			if !pinned {
				continue
			}
			if j := strings.IndexByte(pv, ':'); j >= 0 {
				pv = pv[j+1:]
			}
			var walk func(t types.Type, depth int)
			walk = func(t types.Type, depth int) {
				if depth > 4 {
					return
				}
				switch x := t.(type) {
				case *types.Named:
					o := x.Obj()
					if o.Pkg() == pkg.Types && !pinnedOwner[o.Name()] && x.TypeParams().Len() == 0 && !o.Exported() && !mentionsIdent(pv, o.Name()) {
						wrapper[o] = true
					}
				case *types.Pointer:
					walk(x.Elem(), depth+1)
				case *types.Slice:
					walk(x.Elem(), depth+1)
				case *types.Array:
					walk(x.Elem(), depth+1)
				case *types.Map:
					walk(x.Elem(), depth+1)
				}
			}
			if types.TypeString(f.Type(), qual) != pv {
				walk(f.Type(), 0)
			}
		}
	}
	if len(wrapper) == 0 {
		return nil, nil
	}
	type cand struct {
		decl *ast.FuncDecl
		obj  *types.Func
		recv *types.Var
		ptr  bool
		stmt ast.Stmt
	}
	cands := map[*types.Func]*cand{}
	for _, file := range pkg.Syntax {
		for _, d := range file.Decls {
			fd, ok := d.(*ast.FuncDecl)
			if !ok || fd.Recv == nil || len(fd.Recv.List) != 1 || len(fd.Recv.List[0].Names) != 1 || fd.Body == nil || len(fd.Body.List) != 1 ||
				ast.IsExported(fd.Name.Name) || (fd.Type.Results != nil && len(fd.Type.Results.List) > 0) {
				continue
			}
			obj, _ := info.Defs[fd.Name].(*types.Func)
			rv, _ := info.Defs[fd.Recv.List[0].Names[0]].(*types.Var)
			if obj == nil || rv == nil {
				continue
			}
			rt := rv.Type()
			ptr := false
			if pt, ok := rt.(*types.Pointer); ok {
				rt, ptr = pt.Elem(), true
			}
			nt, ok := rt.(*types.Named)
			if !ok || !wrapper[nt.Obj()] {
				continue
			}
			if !ptr {
				// a value receiver shares what it refers to only for reference-like types
				switch nt.Underlying().(type) {
				case *types.Slice, *types.Map, *types.Pointer:
				default:
					continue
				}
			}
			switch s := fd.Body.List[0].(type) {
			case *ast.AssignStmt:
				if s.Tok == token.DEFINE {
					continue
				}
			case *ast.IncDecStmt:
			default:
				continue
			}
			hasLit := false
			ast.Inspect(fd.Body, func(x ast.Node) bool {
				if _, ok := x.(*ast.FuncLit); ok {
					hasLit = true
				}
				return true
			})
			if hasLit {
				continue
			}
			sig := obj.Type().(*types.Signature)
			if sig.Variadic() {
				continue
			}
			cands[obj] = &cand{fd, obj, rv, ptr, fd.Body.List[0]}
		}
	}
	if len(cands) == 0 {
		return nil, nil
	}
	// every use must be a call in statement position with a plain receiver path
	plain := func(e ast.Expr) bool {
		ok := true
		ast.Inspect(e, func(x ast.Node) bool {
			switch x.(type) {
			case *ast.CallExpr, *ast.FuncLit, *ast.UnaryExpr, *ast.StarExpr:
				ok = false
			}
			return ok
		})
		return ok
	}
	callsOf := map[*types.Func][]*ast.ExprStmt{}
	used := map[*ast.Ident]bool{}
	for _, file := range pkg.Syntax {
		ast.Inspect(file, func(x ast.Node) bool {
			es, ok := x.(*ast.ExprStmt)
			if !ok {
				return true
			}
			call, ok := es.X.(*ast.CallExpr)
			if !ok {
				return true
			}
			sel, ok := call.Fun.(*ast.SelectorExpr)
			if !ok {
				return true
			}
			fn, _ := info.Uses[sel.Sel].(*types.Func)
			if fn == nil || cands[fn] == nil {
				return true
			}
			if s, ok := info.Selections[sel]; !ok || len(s.Index()) != 1 || !plain(sel.X) {
				return true
			}
			used[sel.Sel] = true
			callsOf[fn] = append(callsOf[fn], es)
			return true
		})
	}
	for id, o := range info.Uses {
		if fn, ok := o.(*types.Func); ok && cands[fn] != nil && !used[id] {
			delete(cands, fn) // called for a value, as a method value, or on a receiver that is not a plain path
		}
	}
	src := map[string][]byte{}
	read := func(name string) []byte {
		if b, ok := src[name]; ok {
			return b
		}
		b, ok := given[name]
		if !ok {
			var err error
			b, err = os.ReadFile(name)
			if err != nil {
				b = nil
			}
		}
		src[name] = b
		return b
	}
	off := func(pos token.Pos) (string, int) {
		ps := p.Fset.PositionFor(pos, false)
		return ps.Filename, ps.Offset
	}
	edits := map[string][]textEdit{}
	var names []string
	for fn, cd := range cands {
		if len(callsOf[fn]) == 0 {
			continue
		}
		bf, bs := off(cd.stmt.Pos())
		_, be := off(cd.stmt.End())
		body := read(bf)
		if body == nil || strings.Contains(string(body[bs:be]), "\n") {
			continue
		}
		// occurrences of the receiver and of the parameters in the statement
		type occ struct {
			start, end int
			param      int // -1: receiver
			deref      bool
			selBase    bool
		}
		var occs []occ
		params := map[types.Object]int{}
		sig := fn.Type().(*types.Signature)
		for i := 0; i < sig.Params().Len(); i++ {
			params[sig.Params().At(i)] = i
		}
		count := make([]int, sig.Params().Len())
		okBody := true
		var visit func(n ast.Node, parent ast.Node)
		visit = func(n ast.Node, parent ast.Node) {
			ast.Inspect(n, func(x ast.Node) bool {
				switch y := x.(type) {
				case *ast.StarExpr:
					if id, ok := ast.Unparen(y.X).(*ast.Ident); ok && info.Uses[id] == types.Object(cd.recv) && cd.ptr {
						_, s := off(y.Pos())
						_, e := off(y.End())
						occs = append(occs, occ{s, e, -1, true, false})
						return false
					}
				case *ast.SelectorExpr:
					if id, ok := y.X.(*ast.Ident); ok && info.Uses[id] == types.Object(cd.recv) {
						_, s := off(id.Pos())
						_, e := off(id.End())
						occs = append(occs, occ{s, e, -1, false, true})
						return false
					}
				case *ast.Ident:
					o := info.Uses[y]
					if o == types.Object(cd.recv) {
						_, s := off(y.Pos())
						_, e := off(y.End())
						occs = append(occs, occ{s, e, -1, false, false})
					} else if pi, ok := params[o]; ok {
						_, s := off(y.Pos())
						_, e := off(y.End())
						occs = append(occs, occ{s, e, pi, false, false})
						count[pi]++
					}
				}
				return true
			})
		}
		visit(cd.stmt, nil)
		if !okBody {
			continue
		}
		sort.Slice(occs, func(i, j int) bool { return occs[i].start > occs[j].start })
		fine := true
		var perFile = map[string][]textEdit{}
		for _, es := range callsOf[fn] {
			call := es.X.(*ast.CallExpr)
			sel := call.Fun.(*ast.SelectorExpr)
			cf, cs := off(es.Pos())
			_, ce := off(es.End())
			cb := read(cf)
			if cb == nil {
				fine = false
				break
			}
			_, xs := off(sel.X.Pos())
			_, xe := off(sel.X.End())
			recvText := string(cb[xs:xe])
			if strings.Contains(recvText, "\n") {
				fine = false
				break
			}
			recvIsPtr := false
			if _, ok := info.TypeOf(sel.X).(*types.Pointer); ok {
				recvIsPtr = true
			}
			args := make([]string, len(call.Args))
			for i, a := range call.Args {
				_, as := off(a.Pos())
				_, ae := off(a.End())
				args[i] = string(cb[as:ae])
				switch a.(type) {
				case *ast.Ident, *ast.SelectorExpr, *ast.BasicLit, *ast.IndexExpr, *ast.CallExpr, *ast.CompositeLit, *ast.ParenExpr:
					// primary expressions need no parentheses where they are substituted
				default:
					args[i] = "(" + args[i] + ")"
				}
				pure := true
				ast.Inspect(a, func(x ast.Node) bool {
					switch y := x.(type) {
					case *ast.CallExpr:
						// conversions and len/cap are harmless; any other call may have effects
						if tv, ok := info.Types[y.Fun]; ok && tv.IsType() {
							return true
						}
						if id, ok := y.Fun.(*ast.Ident); ok {
							if b, ok := info.Uses[id].(*types.Builtin); ok && (b.Name() == "len" || b.Name() == "cap") {
								return true
							}
						}
						pure = false
					case *ast.FuncLit:
						pure = false
					}
					return pure
				})
				// an argument with effects, or spanning lines, must be used exactly once
				if (!pure || strings.Contains(args[i], "\n")) && count[i] != 1 {
					fine = false
				}
				if !pure && len(call.Args) > 1 {
					fine = false // evaluation order against the other arguments and the receiver
				}
			}
			if !fine || len(call.Args) != sig.Params().Len() {
				fine = false
				break
			}
			text := string(body[bs:be])
			for _, o := range occs {
				var repl string
				switch {
				case o.param >= 0:
					repl = args[o.param]
				case o.deref:
					// *f with f = &X (or X itself when the call is made on a pointer)
					if recvIsPtr {
						repl = "(*" + recvText + ")"
					} else {
						repl = recvText
					}
				case o.selBase:
					repl = recvText // f.field: X.field for both pointer and value X
				default:
					if cd.ptr && !recvIsPtr {
						repl = "(&" + recvText + ")"
					} else {
						repl = recvText
					}
				}
				text = text[:o.start-bs] + repl + text[o.end-bs:]
			}
			// keep the line count of the replaced call statement
			if d := strings.Count(string(cb[cs:ce]), "\n") - strings.Count(text, "\n"); d > 0 {
				text += strings.Repeat("\n", d)
			} else if d < 0 {
				fine = false
				break
			}
			perFile[cf] = append(perFile[cf], textEdit{cs, ce, text})
		}
		if !fine {
			continue
		}
		for f, es := range perFile {
			edits[f] = append(edits[f], es...)
		}
		names = append(names, cd.decl.Name.Name)
	}
	if len(names) == 0 {
		return nil, nil
	}
	out := map[string][]byte{}
	for f, es := range edits {
		sort.Slice(es, func(i, j int) bool { return es[i].start > es[j].start })
		b := append([]byte{}, read(f)...)
		lastStart := len(b) + 1
		for _, e := range es {
			if e.end > lastStart || e.start > e.end {
				return nil, nil
			}
			b = append(b[:e.start], append([]byte(e.text), b[e.end:]...)...)
			lastStart = e.start
		}
		out[f] = b
	}
	sort.Strings(names)
	if os.Getenv("ARK_DEBUG_CANON") != "" {
		fmt.Fprintln(os.Stderr, "setter methods of wrapper types read as their statement:", names)
	}
	return out, names
}

// mentionsIdent reports whether the type text mentions the identifier as a whole word.
func mentionsIdent(text, name string) bool {
	for i := 0; i+len(name) <= len(text); i++ {
		if text[i:i+len(name)] != name {
			continue
		}
		before := i == 0 || !isIdentChar(text[i-1])
		after := i+len(name) == len(text) || !isIdentChar(text[i+len(name)])
		if before && after {
			return true
		}
	}
	return false
}
