package core

import (
	"go/ast"
	"go/token"
	"go/types"
	"strings"
)

// RootKind classifies the base of an access path.
type RootKind int

// Root kinds.
const (
	RootUnknown RootKind = iota
	RootParam            // parameter or receiver of the enclosing function (Index: -1 receiver, else parameter index)
	RootFresh            // local holding a freshly allocated value (composite literal, make, new, zero value)
	RootGlobal           // package-level variable
	RootCall             // result of a call (Call set)
	RootCapture          // variable captured by a function literal from an enclosing function
)

// Path is an access path: a root followed by the keys ("Owner.field") of the struct fields traversed.
type Path struct {
	Kind  RootKind
	Index int           // parameter index for RootParam
	Var   *types.Var    // root variable when known
	Call  *ast.CallExpr // for RootCall
	Keys  []string      // field keys, outermost first; "[]" marks an element access, "*" is omitted
	Deref bool          // the path passes through a pointer, slice or map: it designates memory outside the root variable
}

// Has reports whether key occurs on the path.
func (p Path) Has(key string) bool {
	for _, k := range p.Keys {
		if k == key {
			return true
		}
	}
	return false
}

// HasOwner reports whether a field of the given owner type occurs on the path.
func (p Path) HasOwner(owner string) bool {
	for _, k := range p.Keys {
		if strings.HasPrefix(k, owner+".") {
			return true
		}
	}
	return false
}

// Fields returns the keys without element markers.
func (p Path) Fields() []string {
	var out []string
	for _, k := range p.Keys {
		if k != "[]" {
			out = append(out, k)
		}
	}
	return out
}

// Last returns the innermost field key, or "".
func (p Path) Last() string {
	f := p.Fields()
	if len(f) == 0 {
		return ""
	}
	return f[len(f)-1]
}

func (p Path) String() string {
	root := "?"
	switch p.Kind {
	case RootParam:
		if p.Var != nil {
			root = p.Var.Name()
		} else {
			root = "param"
		}
	case RootFresh:
		root = "fresh"
	case RootGlobal:
		root = "global"
	case RootCall:
		root = "call()"
	case RootCapture:
		root = "captured"
		if p.Var != nil {
			root += ":" + p.Var.Name()
		}
	}
	return root + "/" + strings.Join(p.Keys, "/")
}

// paramIndex returns the index of v among f's receiver (-1) and parameters, or (-2,false).
func paramIndex(f *Func, v *types.Var) (int, bool) {
	if f == nil || f.Sig == nil || v == nil {
		return -2, false
	}
	if r := f.Sig.Recv(); r != nil && r == v {
		return -1, true
	}
	ps := f.Sig.Params()
	for i := 0; i < ps.Len(); i++ {
		if ps.At(i) == v {
			return i, true
		}
	}
	return -2, false
}

// localDefs collects, for the body of f, every assignment/definition of each local variable.
type localDefs map[*types.Var][]ast.Expr

var localDefCache = map[*Func]localDefs{}

func (m *Model) localDefs(f *Func) localDefs {
	if d, ok := localDefCache[f]; ok {
		return d
	}
	d := localDefs{}
	InspectNoLits(f.Body, func(n ast.Node) bool {
		switch x := n.(type) {
		case *ast.AssignStmt:
			if len(x.Lhs) == len(x.Rhs) {
				for i, l := range x.Lhs {
					if id, ok := ast.Unparen(l).(*ast.Ident); ok {
						if v, ok := m.Info.ObjectOf(id).(*types.Var); ok && !v.IsField() {
							d[v] = append(d[v], x.Rhs[i])
						}
					}
				}
			} else if len(x.Rhs) == 1 {
				// v, ok := f(); tuple results: record the call for each variable
				for _, l := range x.Lhs {
					if id, ok := ast.Unparen(l).(*ast.Ident); ok {
						if v, ok := m.Info.ObjectOf(id).(*types.Var); ok && !v.IsField() {
							d[v] = append(d[v], x.Rhs[0])
						}
					}
				}
			}
		case *ast.ValueSpec:
			for i, id := range x.Names {
				if v, ok := m.Info.ObjectOf(id).(*types.Var); ok {
					if i < len(x.Values) {
						d[v] = append(d[v], x.Values[i])
					} else {
						d[v] = append(d[v], nil) // zero value
					}
				}
			}
		case *ast.RangeStmt:
			for _, e := range []ast.Expr{x.Key, x.Value} {
				if id, ok := e.(*ast.Ident); ok && e != nil {
					if v, ok := m.Info.ObjectOf(id).(*types.Var); ok {
						d[v] = append(d[v], &ast.IndexExpr{X: x.X, Index: ast.NewIdent("_")}) // element of X
					}
				}
			}
		}
		return true
	})
	localDefCache[f] = d
	return d
}

// AccessPath computes the access path of expression e evaluated inside function f.
// Locals initialised from another path (x := &a.b[i]; y := a.b) are resolved
// through their definitions when all definitions agree on the field keys.
func (m *Model) AccessPath(f *Func, e ast.Expr) Path {
	return m.accessPath(f, e, 0)
}

func (m *Model) accessPath(f *Func, e ast.Expr, depth int) Path {
	if depth > 8 || e == nil {
		return Path{}
	}
	e = ast.Unparen(e)
	switch x := e.(type) {
	case *ast.Ident:
		obj := m.Info.ObjectOf(x)
		v, ok := obj.(*types.Var)
		if !ok {
			return Path{}
		}
		if v.Parent() == m.Prog.Ecs.Types.Scope() {
			return Path{Kind: RootGlobal, Var: v}
		}
		if i, ok := paramIndex(f, v); ok {
			return Path{Kind: RootParam, Index: i, Var: v}
		}
		defs := m.localDefs(f)[v]
		if len(defs) == 0 {
			// not defined in this body: captured from an enclosing function, or parameter of enclosing
			if f.Lit != nil {
				return Path{Kind: RootCapture, Var: v}
			}
			return Path{Var: v}
		}
		if !isRefType(v.Type()) {
			// a value copy (struct, array, basic): writing it does not touch the source
			return Path{Kind: RootFresh, Var: v}
		}
		var first Path
		for i, d := range defs {
			var p Path
			if d == nil {
				p = Path{Kind: RootFresh, Var: v}
			} else {
				p = m.accessPath(f, d, depth+1)
			}
			if i == 0 {
				first = p
				continue
			}
			if p.Kind != first.Kind || strings.Join(p.Keys, "/") != strings.Join(first.Keys, "/") {
				return Path{Var: v}
			}
		}
		return first
	case *ast.SelectorExpr:
		if fld := m.FieldOf(x); fld != nil {
			p := m.accessPath(f, x.X, depth)
			// promoted fields through embedding: add the embedded field keys
			if sel, ok := m.Info.Selections[x]; ok && len(sel.Index()) > 1 {
				t := sel.Recv()
				for _, idx := range sel.Index()[:len(sel.Index())-1] {
					if pt, ok := t.Underlying().(*types.Pointer); ok {
						t = pt.Elem()
					}
					st, ok := t.Underlying().(*types.Struct)
					if !ok {
						break
					}
					ef := st.Field(idx)
					p.Keys = append(append([]string{}, p.Keys...), m.FieldKey(ef))
					t = ef.Type()
				}
			}
			p.Keys = append(append([]string{}, p.Keys...), m.FieldKey(fld))
			if tv, ok := m.Info.Types[x.X]; ok {
				if _, isPtr := tv.Type.Underlying().(*types.Pointer); isPtr {
					p.Deref = true
				}
			}
			if sel, ok := m.Info.Selections[x]; ok && sel.Indirect() {
				p.Deref = true
			}
			return p
		}
		// qualified identifier or method value
		if id, ok := x.X.(*ast.Ident); ok {
			if _, isPkg := m.Info.ObjectOf(id).(*types.PkgName); isPkg {
				if v, ok := m.Info.ObjectOf(x.Sel).(*types.Var); ok {
					return Path{Kind: RootGlobal, Var: v}
				}
			}
		}
		return Path{}
	case *ast.IndexExpr:
		p := m.accessPath(f, x.X, depth)
		p.Keys = append(append([]string{}, p.Keys...), "[]")
		if tv, ok := m.Info.Types[x.X]; ok {
			switch tv.Type.Underlying().(type) {
			case *types.Slice, *types.Map, *types.Pointer:
				p.Deref = true
			}
		}
		return p
	case *ast.SliceExpr:
		p := m.accessPath(f, x.X, depth)
		return p
	case *ast.StarExpr:
		p := m.accessPath(f, x.X, depth)
		p.Deref = true
		return p
	case *ast.UnaryExpr:
		if x.Op == token.AND {
			return m.accessPath(f, x.X, depth)
		}
		return Path{}
	case *ast.CompositeLit:
		return Path{Kind: RootFresh}
	case *ast.CallExpr:
		k, _, obj := m.Callee(x)
		switch k {
		case CallBuiltin:
			switch obj.Name() {
			case "make", "new":
				return Path{Kind: RootFresh}
			case "append":
				if len(x.Args) > 0 {
					return m.accessPath(f, x.Args[0], depth)
				}
			}
		case CallConversion:
			if len(x.Args) == 1 {
				return m.accessPath(f, x.Args[0], depth)
			}
		}
		return Path{Kind: RootCall, Call: x}
	case *ast.TypeAssertExpr:
		return m.accessPath(f, x.X, depth)
	}
	return Path{}
}

// StoreKind says how memory was written.
type StoreKind int

// Store kinds.
const (
	StoreAssign  StoreKind = iota // x.f = v, x.f++, x.f op= v
	StoreElem                     // x.f[i] = v
	StoreBuiltin                  // delete(x.f, k), copy(x.f, ...), clear(x.f)
	StoreDeref                    // *p = v with p a path
)

// Store is a write to memory designated by an access path.
type Store struct {
	Path   Path
	Kind   StoreKind
	Node   ast.Node // the statement or call in the function where the store (or the lifted call) occurs
	Origin ast.Node // the original store statement (inside a callee for lifted stores)
	Via    []string // callee chain for lifted stores, outermost first
	RHS    ast.Expr // assigned expression for direct assignments (nil otherwise)
	LHS    ast.Expr
}

// Key returns the innermost field key of the store.
func (s Store) Key() string { return s.Path.Last() }

// DirectStores returns the stores performed by node n itself (an AssignStmt,
// IncDecStmt or builtin CallExpr), not by calls inside it.
func (m *Model) DirectStores(f *Func, n ast.Node) []Store {
	var out []Store
	add := func(lhs ast.Expr, rhs ast.Expr) {
		l := ast.Unparen(lhs)
		if id, ok := l.(*ast.Ident); ok {
			// plain local or global variable: only globals are memory of interest
			if v, ok := m.Info.ObjectOf(id).(*types.Var); ok && v.Parent() == m.Prog.Ecs.Types.Scope() {
				out = append(out, Store{Path: Path{Kind: RootGlobal, Var: v, Keys: []string{"global." + v.Name()}}, Kind: StoreAssign, Node: n, Origin: n, RHS: rhs, LHS: lhs})
			}
			return
		}
		p := m.AccessPath(f, l)
		if !p.Deref && p.Kind != RootGlobal {
			return // writes the root variable itself (a local, a value parameter or a value receiver)
		}
		kind := StoreAssign
		switch l.(type) {
		case *ast.IndexExpr:
			kind = StoreElem
		case *ast.StarExpr:
			kind = StoreDeref
		}
		out = append(out, Store{Path: p, Kind: kind, Node: n, Origin: n, RHS: rhs, LHS: lhs})
	}
	switch x := n.(type) {
	case *ast.AssignStmt:
		for i, l := range x.Lhs {
			var r ast.Expr
			if len(x.Lhs) == len(x.Rhs) {
				r = x.Rhs[i]
			} else if len(x.Rhs) == 1 {
				r = x.Rhs[0]
			}
			if x.Tok == token.DEFINE {
				continue
			}
			add(l, r)
		}
	case *ast.IncDecStmt:
		add(x.X, nil)
	case *ast.CallExpr:
		if k, _, obj := m.Callee(x); k == CallBuiltin && len(x.Args) > 0 {
			switch obj.Name() {
			case "delete", "copy", "clear":
				p := m.AccessPath(f, x.Args[0])
				p.Deref = true
				out = append(out, Store{Path: p, Kind: StoreBuiltin, Node: n, Origin: n, LHS: x.Args[0]})
			}
		}
	}
	return out
}

// Effects holds per-function store summaries with stores of callees lifted to
// the caller when they go through a parameter or receiver of the callee.
type Effects struct {
	m      *Model
	stores map[*Func][]Store
}

// NewEffects computes store summaries for all functions of the model (fixpoint over the call graph).
func NewEffects(m *Model) *Effects {
	e := &Effects{m: m, stores: map[*Func][]Store{}}
	all := m.AllFuncs()
	type callInfo struct {
		call   *ast.CallExpr
		callee *Func
	}
	direct := map[*Func][]Store{}
	calls := map[*Func][]callInfo{}
	for _, f := range all {
		ff := f
		InspectNoLits(f.Body, func(n ast.Node) bool {
			switch x := n.(type) {
			case *ast.AssignStmt, *ast.IncDecStmt:
				direct[ff] = append(direct[ff], m.DirectStores(ff, x)...)
			case *ast.CallExpr:
				direct[ff] = append(direct[ff], m.DirectStores(ff, x)...)
				if k, callee, _ := m.Callee(x); k == CallStatic || (k == CallLiteral && callee != nil) {
					calls[ff] = append(calls[ff], callInfo{x, callee})
				}
			}
			return true
		})
		e.stores[f] = append([]Store{}, direct[f]...)
	}
	seen := map[*Func]map[string]bool{}
	key := func(s Store) string {
		return s.Path.String() + "@" + m.Prog.Rel(s.Node.Pos()) + "<-" + m.Prog.Rel(s.Origin.Pos())
	}
	for _, f := range all {
		seen[f] = map[string]bool{}
		for _, s := range e.stores[f] {
			seen[f][key(s)] = true
		}
	}
	for changed, iter := true, 0; changed && iter < 30; iter++ {
		changed = false
		for _, f := range all {
			for _, ci := range calls[f] {
				for _, cs := range e.stores[ci.callee] {
					if len(cs.Via) > 12 {
						continue
					}
					var lifted Store
					switch cs.Path.Kind {
					case RootParam:
						actual := e.actualFor(ci.call, ci.callee, cs.Path.Index)
						if actual == nil {
							continue
						}
						// a store into the callee's own copy of a by-value parameter never reaches the caller
						if !cs.Path.Deref {
							continue
						}
						ap := m.AccessPath(f, actual)
						lifted = cs
						// Through a pointer parameter/receiver the store lands in the memory the actual designates. When the
						// actual is an addressable value (implicit &x for a pointer receiver, or an explicit &x) and the
						// callee's path stays inside the struct, that memory is the variable x itself: no pointer hop.
						deref := true
						if t := m.Info.TypeOf(actual); t != nil {
							_, actualIsPtr := t.Underlying().(*types.Pointer)
							explicitAddr := false
							if u, ok := ast.Unparen(actual).(*ast.UnaryExpr); ok && u.Op == token.AND {
								explicitAddr = true
							}
							if (!actualIsPtr || explicitAddr) && m.keysInStruct(cs.Path.Keys) {
								switch t.Underlying().(type) {
								case *types.Slice, *types.Map, *types.Chan, *types.Interface:
								default:
									deref = ap.Deref
								}
							}
						}
						lifted.Path = Path{Kind: ap.Kind, Index: ap.Index, Var: ap.Var, Call: ap.Call, Deref: deref,
							Keys: append(append([]string{}, ap.Keys...), cs.Path.Keys...)}
					case RootGlobal, RootCall, RootUnknown:
						// stores to globals or through call results/unknown roots are effects of the caller too
						lifted = cs
					case RootCapture:
						// a literal writing captured state: effect of whoever calls the literal
						lifted = cs
					default:
						continue // fresh memory of the callee
					}
					lifted.Node = ci.call
					lifted.Via = append([]string{ci.callee.Name}, cs.Via...)
					k := key(lifted)
					if seen[f][k] {
						continue
					}
					seen[f][k] = true
					e.stores[f] = append(e.stores[f], lifted)
					changed = true
				}
			}
		}
	}
	return e
}

// keysInStruct: the field path stays inside the memory of its root struct (no hop through a pointer, slice, map,
// channel or interface field and no element access).
func (m *Model) keysInStruct(keys []string) bool {
	for i, k := range keys {
		if k == "[]" {
			return false
		}
		if i == len(keys)-1 {
			break
		}
		fv := m.FieldByKey(k)
		if fv == nil {
			return false
		}
		switch fv.Type().Underlying().(type) {
		case *types.Pointer, *types.Slice, *types.Map, *types.Chan, *types.Interface:
			return false
		}
	}
	return true
}

// actualFor returns the argument expression bound to parameter idx (-1: receiver) at the call.
func (e *Effects) actualFor(call *ast.CallExpr, callee *Func, idx int) ast.Expr {
	if idx == -1 {
		if sel, ok := ast.Unparen(call.Fun).(*ast.SelectorExpr); ok {
			return sel.X
		}
		return nil
	}
	if callee.Sig != nil && callee.Sig.Variadic() && idx >= callee.Sig.Params().Len()-1 {
		if idx < len(call.Args) && call.Ellipsis.IsValid() {
			return call.Args[idx]
		}
		return nil
	}
	if idx < len(call.Args) {
		return call.Args[idx]
	}
	return nil
}

// Stores returns all stores of f: its own and those lifted from static callees.
func (e *Effects) Stores(f *Func) []Store { return e.stores[f] }

// StoresAt returns the stores attributed to node n in f (own store or lifted through the call n).
func (e *Effects) StoresAt(f *Func, n ast.Node) []Store {
	var out []Store
	for _, s := range e.stores[f] {
		if s.Node == n {
			out = append(out, s)
		}
	}
	return out
}

// isRefType reports whether values of t share memory with their source when copied.
func isRefType(t types.Type) bool {
	switch t.Underlying().(type) {
	case *types.Pointer, *types.Slice, *types.Map, *types.Chan, *types.Signature, *types.Interface:
		return true
	}
	if b, ok := t.Underlying().(*types.Basic); ok && b.Kind() == types.UnsafePointer {
		return true
	}
	return false
}
